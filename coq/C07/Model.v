(* C07/Model.v — what a save does to the image object, call by call.
   Counterparts in /repo/nibabel (as they are now, with fixes 1512db03 and ca93f157 applied):
     analyze.py   AnalyzeImage.to_file_map (save consumables; dtype override; make writer;
                  try: open, set slope/inter, write header, seek_tell, write slabs, close;
                  finally: restore)                                         -> analyze_core
     nifti1.py    Nifti1Pair.to_file_map (alias finalise / restore of alias AND header datatype, fix ca93f157),
                  Nifti1Pair/Nifti1Image.update_header (magic), Nifti1Header.write_to
                  (automatic vox_offset, extender, extensions)              -> nifti_save, header_write
     spm99analyze.py Spm99AnalyzeImage.to_file_map (.mat after the image)   -> mat_save
     freesurfer/mghformat.py MGHImage.to_file_map                           -> mgh_save
     cifti2/cifti2.py Cifti2Image.to_file_map (inner Nifti2Image over a header copy) -> cifti_save
     volumeutils.py seek_tell (a failing seek is absorbed when the position is already right,
                  else zero fill), fileholders.py get_prepare_fileobj (seek(pos) on a caller's
                  file object), openers.py close_if_mine.
   The image state is the header consumables {vox_offset, datatype, scl_slope, scl_inter,
   magic}, the pending dtype alias, and opaque identities of data and affine.  Every call on
   a destination file object consults the fault oracle `o : nat -> bool` ("the k-th call
   raises"); the oracle abstracts from the exception type (OSError, KeyboardInterrupt,
   MemoryError, ...: result EOS stands for "the injected exception propagated") except for the
   one place where the code looks at it, seek_tell's `except OSError` (flag oserr).  What is written is kept symbolically (which header state / which slab
   under which scaling).  Facts about the data that other properties own (does the writer
   refuse, which slope/intercept it computes, what an alias resolves to, how many slabs) are
   Section variables: the theorems hold for every value of them.  Definitions only. *)
From Coq Require Import ZArith List Bool.
Import ListNotations.
Open Scope Z_scope.

(* a float header field: NaN ("compute at write time") or a value, kept as its bit pattern *)
Inductive sc := SNan | SVal (v : Z).
Definition is_nan (x : sc) : bool := match x with SNan => true | SVal _ => false end.

Record hdr := mkHdr { off : Z; dt : Z; slope : sc; inter : sc; magic : Z }.
Inductive al := Compat | Smallest.
Record img := mkImg { ih : hdr; alias : option al; data : Z; aff : Z }.

Definition set_off (v : Z) (h : hdr) := mkHdr v (dt h) (slope h) (inter h) (magic h).
Definition set_dt (v : Z) (h : hdr) := mkHdr (off h) v (slope h) (inter h) (magic h).
Definition set_slope (v : sc) (h : hdr) := mkHdr (off h) (dt h) v (inter h) (magic h).
Definition set_inter (v : sc) (h : hdr) := mkHdr (off h) (dt h) (slope h) v (magic h).
Definition set_magic (v : Z) (h : hdr) := mkHdr (off h) (dt h) (slope h) (inter h) v.
Definition with_hdr (f : hdr -> hdr) (i : img) := mkImg (f (ih i)) (alias i) (data i) (aff i).
Definition with_alias (a : option al) (i : img) := mkImg (ih i) a (data i) (aff i).

Inductive family := FAnalyze | FMgh | FCifti.
(* single: header and data in one file; hsize: bytes of the header block (348/540; MGH: 90);
   has_slope/has_inter: header_class.has_data_slope/intercept; nifti: alias handling, magic,
   extender/extensions; kmagic: what update_header stores; has_mat: SPM .mat side file *)
Record klass := mkK { fam : family; single : bool; hsize : Z; has_slope : bool; has_inter : bool;
                      nifti : bool; kmagic : Z; has_mat : bool }.

(* destinations: true = nibabel opened the file itself (close is a real call, no initial seek) *)
Record dest := mkDest { mine_h : bool; mine_i : bool; mine_m : bool }.

Inductive err := EWriter | EOS | EHeaderData | EValue.
Inductive res (A : Type) := Ok (a : A) | Err (e : err).
Arguments Ok {A}. Arguments Err {A}.

Inductive fkey := FH | FI | FM.
Inductive chunk :=
  | KHeader (h : hdr) | KExtender (b : bool) | KExtInfo (i : nat) | KExtBody (i : nat) | KExtPad (i : nat)
  | KZeros (n : Z) | KSlab (i : nat) (odt : Z) (s t : sc) (d : Z) | KMat (i : nat) (a : Z)
  | KMghHdr (h : hdr) | KMghFtr (h : hdr).
Inductive call := CSeek (p : Z) | CTell | CClose | CWrite (c : chunk).

(* run state: the image object, the number of file calls made, the calls that completed *)
Record rs := mkRs { rimg : img; rk : nat; rlog : list (fkey * call) }.
Definition start (i : img) : rs := mkRs i O [].

Definition M (A : Type) := rs -> res A * rs.
Definition ret {A} (a : A) : M A := fun s => (Ok a, s).
Definition bind {A B} (m : M A) (f : A -> M B) : M B :=
  fun s => match m s with (Ok a, s') => f a s' | (Err e, s') => (Err e, s') end.
Definition fail {A} (e : err) : M A := fun s => (Err e, s).
Definition get_img : M img := fun s => (Ok (rimg s), s).
Definition mod_img (f : img -> img) : M unit := fun s => (Ok tt, mkRs (f (rimg s)) (rk s) (rlog s)).
Definition mod_hdr (f : hdr -> hdr) : M unit := mod_img (with_hdr f).
Definition when (b : bool) (m : M unit) : M unit := if b then m else ret tt.
(* try: m finally: fin *)
Definition finally {A} (m : M A) (fin : img -> img) : M A :=
  fun s => let '(r, s') := m s in (r, mkRs (fin (rimg s')) (rk s') (rlog s')).

Fixpoint sumz (l : list Z) : Z := match l with [] => 0 | x :: r => x + sumz r end.

Section Env.
  Variable o : nat -> bool.                   (* the k-th file-object call raises *)
  Variable oserr : bool.                      (* what it raises is an OSError: the only kind seek_tell catches;
                                                 nothing else in the save depends on the exception type *)
  Variable resolve : al -> Z -> option Z.     (* _get_analyze_compat_dtype / _get_smallest_dtype *)
  Variable dt_ok : Z -> bool.                 (* header_class supports the dtype *)
  Variable wfail : Z -> Z -> bool.            (* make_array_writer raises WriterError *)
  Variable scale : Z -> Z -> sc * sc.         (* get_slope_inter of the writer *)
  Variable nslabs : Z -> nat.                 (* write calls array_to_file makes *)
  Variable exts : list Z.                     (* sizes on disk of the header extensions *)
  Variable nmat : nat.                        (* write calls scipy.io.savemat makes *)
  Variable D : dest.

  Definition fcall (f : fkey) (c : call) : M unit := fun s =>
    if o (rk s) then (Err EOS, mkRs (rimg s) (S (rk s)) (rlog s))
    else (Ok tt, mkRs (rimg s) (S (rk s)) ((f, c) :: rlog s)).

  (* volumeutils.seek_tell(fileobj, target, write0) with the file at position cur *)
  Definition seek_tell (f : fkey) (cur target : Z) (write0 : bool) : M unit := fun s =>
    if o (rk s) then
      if negb oserr then (Err EOS, mkRs (rimg s) (S (rk s)) (rlog s))   (* not an OSError: propagates *)
      else
      (* seek raised OSError: caught *)
      bind (fcall f CTell) (fun _ =>
        if cur =? target then ret tt
        else if negb write0 then fail EOS
        else if target <? cur then fail EOS
        else bind (fcall f (CWrite (KZeros (target - cur)))) (fun _ => fcall f CTell))
        (mkRs (rimg s) (S (rk s)) (rlog s))
    else (Ok tt, mkRs (rimg s) (S (rk s)) ((f, CSeek target) :: rlog s)).

  Fixpoint writes (f : fkey) (n : nat) (i : nat) (mk : nat -> chunk) : M unit :=
    match n with
    | O => ret tt
    | S n' => bind (fcall f (CWrite (mk i))) (fun _ => writes f n' (S i) mk)
    end.

  (* `with opener as f: body` — ImageOpener.__exit__ calls close_if_mine on either path *)
  Definition with_close {A} (mine : bool) (f : fkey) (body : M A) : M A := fun s =>
    let '(r, s1) := body s in
    if mine then match fcall f CClose s1 with (Ok _, s2) => (r, s2) | (Err e, s2) => (Err e, s2) end
    else (r, s1).

  (* FileHolder.get_prepare_fileobj: seek(pos) on a caller-supplied object; a fresh open otherwise *)
  Definition open_dest (mine : bool) (f : fkey) : M unit := when (negb mine) (fcall f (CSeek 0)).

  Fixpoint write_exts (f : fkey) (i : nat) (l : list Z) : M unit :=
    match l with
    | [] => ret tt
    | _ :: r =>
      bind (fcall f CTell) (fun _ => bind (fcall f (CWrite (KExtInfo i))) (fun _ =>
      bind (fcall f (CWrite (KExtBody i))) (fun _ => bind (fcall f CTell) (fun _ =>
      bind (fcall f (CWrite (KExtPad i))) (fun _ => write_exts f (S i) r)))))
    end.

  (* Nifti1Header.write_to / AnalyzeHeader.write_to *)
  Definition header_write (K : klass) (hk : fkey) : M unit :=
    bind get_img (fun i =>
    bind (if nifti K && single K then
            let minoff := hsize K + 4 + sumz exts in
            if off (ih i) =? 0 then mod_hdr (set_off minoff)
            else if off (ih i) <? minoff then fail EHeaderData else ret tt
          else ret tt) (fun _ =>
    bind get_img (fun i' =>
    bind (fcall hk (CWrite (KHeader (ih i')))) (fun _ =>
    if nifti K then
      match exts with
      | [] => when (single K) (fcall hk (CWrite (KExtender false)))
      | _ => bind (fcall hk (CWrite (KExtender true))) (fun _ => write_exts hk O exts)
      end
    else ret tt)))).

  Definition restore (K : klass) (offset data_dtype : Z) (sl0 in0 : sc) (h : hdr) : hdr :=
    let h1 := set_dt data_dtype (set_off offset h) in
    let h2 := if has_slope K then set_slope sl0 h1 else h1 in
    if has_inter K then set_inter in0 h2 else h2.

  Definition set_slope_inter (K : klass) (p : sc * sc) (h : hdr) : hdr :=
    let h1 := if has_slope K then set_slope (fst p) h else h in
    if has_inter K then set_inter (snd p) h1 else h1.

  (* update_header as far as the consumables go: the NIfTI classes store their magic *)
  Definition harm (K : klass) (i : img) : img :=
    if nifti K then with_hdr (set_magic (kmagic K)) i else i.

  Definition analyze_body (K : klass) (scale_me : bool) (out_dtype : Z) : M unit :=
    let hk := if single K then FI else FH in
    let mh := if single K then mine_i D else mine_h D in
    bind (open_dest mh hk) (fun _ =>
    bind (when (negb (single K)) (open_dest (mine_i D) FI)) (fun _ =>
    bind get_img (fun i1 =>
    let sc2 := scale (data i1) out_dtype in
    bind (when scale_me (mod_hdr (set_slope_inter K sc2))) (fun _ =>
    bind (header_write K hk) (fun _ =>
    bind get_img (fun i2 =>
    let cur := if single K then hsize K + 4 + sumz exts else 0 in
    bind (seek_tell FI cur (off (ih i2)) true) (fun _ =>
    bind (writes FI (nslabs (data i2)) O
            (fun j => KSlab j out_dtype (if scale_me then fst sc2 else SNan)
                            (if scale_me then snd sc2 else SNan) (data i2))) (fun _ =>
    bind (when mh (fcall hk CClose)) (fun _ =>
    when (negb (single K) && mine_i D) (fcall FI CClose)))))))))).

  (* AnalyzeImage.to_file_map *)
  Definition analyze_core (K : klass) (od : option Z) : M unit :=
    bind (mod_img (harm K)) (fun _ =>
    bind get_img (fun i0 =>
    let offset := off (ih i0) in
    let data_dtype := dt (ih i0) in
    bind (match od with
          | None => ret tt
          | Some d => if dt_ok d then mod_hdr (set_dt d) else fail EHeaderData
          end) (fun _ =>
    bind get_img (fun i1 =>
    let out_dtype := dt (ih i1) in
    let sl0 := if has_slope K then slope (ih i1) else SNan in
    let in0 := if has_inter K then inter (ih i1) else SNan in
    let scale_me := is_nan sl0 && is_nan in0 in
    let rst := restore K offset data_dtype sl0 in0 in
    if scale_me && wfail (data i1) out_dtype
    then bind (mod_hdr rst) (fun _ => fail EWriter)
    else finally (analyze_body K scale_me out_dtype) (with_hdr rst))))).

  (* Nifti1Pair.to_file_map (with fix ca93f157): img_dtype = get_data_dtype();
     hdr_dtype = header.get_data_dtype(); get_data_dtype(finalize=True);
     try: super().to_file_map
     finally: header.set_data_dtype(hdr_dtype); set_data_dtype(img_dtype) *)
  Definition nifti_save (K : klass) (od : option Z) : M unit :=
    bind get_img (fun i =>
    let hdr_dtype := dt (ih i) in
    match alias i with
    | None => finally (analyze_core K od) (fun x => with_hdr (set_dt hdr_dtype) (with_hdr (set_dt hdr_dtype) x))
    | Some a =>
      match resolve a (data i) with
      | None => fail EValue
      | Some r =>
        bind (mod_img (fun x => with_alias None (with_hdr (set_dt r) x))) (fun _ =>
        finally (analyze_core K od) (fun x => with_alias (Some a) (with_hdr (set_dt hdr_dtype) x)))
      end
    end).

  Definition mat_save (K : klass) : M unit :=
    when (has_mat K)
      (bind get_img (fun i =>
       bind (open_dest (mine_m D) FM) (fun _ =>
       with_close (mine_m D) FM (writes FM nmat O (fun j => KMat j (aff i)))))).

  Definition mgh_save (K : klass) : M unit :=
    bind get_img (fun i =>
    bind (open_dest (mine_i D) FI) (fun _ =>
    with_close (mine_i D) FI
      (bind (fcall FI (CSeek 0)) (fun _ =>
       bind (fcall FI (CWrite (KMghHdr (ih i)))) (fun _ =>
       bind (seek_tell FI (hsize K) (off (ih i)) false) (fun _ =>
       bind (writes FI (nslabs (data i)) O (fun j => KSlab j (dt (ih i)) SNan SNan (data i))) (fun _ =>
       bind (fcall FI (CSeek (-1))) (fun _ =>
       fcall FI (CWrite (KMghFtr (ih i))))))))))).

  (* Cifti2Image.to_file_map: Nifti2Image(data, None, container_header, dtype=dtype) works on a
     COPY of the container header with offset and scaling reset; the CIFTI image itself is
     not touched by the inner save *)
  Definition cifti_save (K : klass) (od : option Z) : M unit :=
    bind get_img (fun outer =>
    let d := match od with Some d => d | None => dt (ih outer) end in
    if negb (dt_ok d) then fail EHeaderData
    else
      let inner := mkImg (mkHdr 0 d SNan SNan (kmagic K)) None (data outer) (aff outer) in
      let Kin := mkK FAnalyze true (hsize K) true true true (kmagic K) false in
      fun s => let '(r, s') := nifti_save Kin None (mkRs inner (rk s) (rlog s)) in
               (r, mkRs outer (rk s') (rlog s'))).

  Definition save (K : klass) (od : option Z) : M unit :=
    match fam K with
    | FAnalyze => bind (if nifti K then nifti_save K od else analyze_core K od) (fun _ => mat_save K)
    | FMgh => mgh_save K
    | FCifti => cifti_save K od
    end.

  Definition run_save (K : klass) (od : option Z) (i : img) : res unit * rs := save K od (start i).
End Env.

Definition healthy : nat -> bool := fun _ => false.
Definition fail_at (k : nat) : nat -> bool := fun n => Nat.eqb n k.
(* a persistent fault (disk full): every call from the k-th on fails, close / flush included *)
Definition fail_from (k : nat) : nat -> bool := fun n => Nat.leb k n.

(* the state a save leaves behind, as a function of the initial state alone: the state
   update_header produces (= the initial state for a harmonised image) *)
Definition expected (resolve : al -> Z -> option Z) (K : klass) (i : img) : img :=
  match fam K with
  | FAnalyze =>
    if nifti K then
      match alias i with
      | None => harm K i
      | Some a => match resolve a (data i) with None => i | Some _ => harm K i end
      end
    else i
  | _ => i
  end.

(* the image is in the state its constructor / loader leaves it in *)
Definition harmonised (K : klass) (i : img) : Prop := nifti K = true -> magic (ih i) = kmagic K.
