(* C07/Lemmas.v — proofs about C07/Model.v *)
From Coq Require Import ZArith List Bool Lia.
From NV Require Import C07.Model.
Import ListNotations.
Open Scope Z_scope.

Section Proofs.
  Variable o : nat -> bool.
  Variable oserr : bool.
  Variable resolve : al -> Z -> option Z.
  Variable dt_ok : Z -> bool.
  Variable wfail : Z -> Z -> bool.
  Variable scale : Z -> Z -> sc * sc.
  Variable nslabs : Z -> nat.
  Variable exts : list Z.
  Variable nmat : nat.
  Variable D : dest.

  (* ---- computations that only talk to files: the image object is not touched ---------- *)
  Definition same_img {A} (m : M A) : Prop := forall s, rimg (snd (m s)) = rimg s.

  Lemma same_ret {A} (a : A) : same_img (ret a).
  Proof. intros s; reflexivity. Qed.
  Lemma same_fail {A} e : same_img (@fail A e).
  Proof. intros s; reflexivity. Qed.
  Lemma same_get : same_img get_img.
  Proof. intros s; reflexivity. Qed.
  Lemma same_bind {A B} (m : M A) (f : A -> M B) :
    same_img m -> (forall a, same_img (f a)) -> same_img (bind m f).
  Proof.
    intros Hm Hf s. unfold bind. specialize (Hm s). destruct (m s) as [[a|e] s']; cbn in *.
    - rewrite Hf. exact Hm.
    - exact Hm.
  Qed.
  Lemma same_fcall f c : same_img (fcall o f c).
  Proof. intros s. unfold fcall. destruct (o (rk s)); reflexivity. Qed.
  Lemma same_when b m : same_img m -> same_img (when b m).
  Proof. intros H. destruct b; [exact H|apply same_ret]. Qed.
  Lemma same_seek_tell f cur target w0 : same_img (seek_tell o oserr f cur target w0).
  Proof.
    intros s. unfold seek_tell. destruct (o (rk s)); [|reflexivity].
    destruct oserr; [|reflexivity]. cbn [negb].
    set (s1 := mkRs (rimg s) (S (rk s)) (rlog s)). change (rimg s) with (rimg s1).
    apply same_bind; [apply same_fcall|]. intros _.
    destruct (cur =? target); [apply same_ret|].
    destruct (negb w0); [apply same_fail|]. destruct (target <? cur); [apply same_fail|].
    apply same_bind; [apply same_fcall|]. intros _. apply same_fcall.
  Qed.
  Lemma same_writes f mk : forall n i, same_img (writes o f n i mk).
  Proof.
    induction n as [|n IH]; intros i; [apply same_ret|]. cbn [writes].
    apply same_bind; [apply same_fcall|]. intros _. apply IH.
  Qed.
  Lemma same_with_close {A} mine f (m : M A) : same_img m -> same_img (with_close o mine f m).
  Proof.
    intros H s. unfold with_close. specialize (H s). destruct (m s) as [r s1]. cbn in H.
    destruct mine; [|exact H]. pose proof (same_fcall f CClose s1) as Hc.
    destruct (fcall o f CClose s1) as [[u|e] s2]; cbn in *; congruence.
  Qed.
  Lemma same_open_dest mine f : same_img (open_dest o mine f).
  Proof. apply same_when, same_fcall. Qed.
  Lemma same_write_exts f : forall l i, same_img (write_exts o f i l).
  Proof.
    induction l as [|x l IH]; intros i; [apply same_ret|]. cbn [write_exts].
    repeat (apply same_bind; [apply same_fcall|]; intros _). apply IH.
  Qed.

  (* ---- what the try block of AnalyzeImage.to_file_map may change ---------------------- *)
  Definition Pk (K : klass) (a b : img) : Prop :=
    alias a = alias b /\ data a = data b /\ aff a = aff b /\ magic (ih a) = magic (ih b) /\
    (has_slope K = false -> slope (ih a) = slope (ih b)) /\
    (has_inter K = false -> inter (ih a) = inter (ih b)).
  Definition frames {A} (K : klass) (m : M A) : Prop := forall s, Pk K (rimg s) (rimg (snd (m s))).

  Lemma Pk_refl K a : Pk K a a.
  Proof. repeat split; auto. Qed.
  Lemma Pk_trans K a b c : Pk K a b -> Pk K b c -> Pk K a c.
  Proof.
    intros (A1 & A2 & A3 & A4 & A5 & A6) (B1 & B2 & B3 & B4 & B5 & B6).
    repeat split; try congruence; intros H; [rewrite A5, B5|rewrite A6, B6]; auto.
  Qed.
  Lemma frames_same {A} K (m : M A) : same_img m -> frames K m.
  Proof. intros H s. rewrite H. apply Pk_refl. Qed.
  Lemma frames_bind {A B} K (m : M A) (f : A -> M B) :
    frames K m -> (forall a, frames K (f a)) -> frames K (bind m f).
  Proof.
    intros Hm Hf s. unfold bind. specialize (Hm s). destruct (m s) as [[a|e] s']; cbn in *.
    - eapply Pk_trans; [exact Hm|apply Hf].
    - exact Hm.
  Qed.
  Lemma frames_when K b m : frames K m -> frames K (when b m).
  Proof. intros H. destruct b; [exact H|apply frames_same, same_ret]. Qed.
  Lemma frames_mod_hdr K f : (forall i, Pk K i (with_hdr f i)) -> frames K (mod_hdr f).
  Proof. intros H s. apply H. Qed.
  Lemma Pk_set_off K v i : Pk K i (with_hdr (set_off v) i).
  Proof. repeat split; auto. Qed.
  Lemma Pk_set_dt K v i : Pk K i (with_hdr (set_dt v) i).
  Proof. repeat split; auto. Qed.
  Lemma Pk_set_slope_inter K p i : Pk K i (with_hdr (set_slope_inter K p) i).
  Proof.
    unfold Pk, set_slope_inter, with_hdr.
    destruct (has_slope K) eqn:E1; destruct (has_inter K) eqn:E2; cbn;
      repeat split; auto; intros; discriminate.
  Qed.

  Lemma frames_header_write K hk : frames K (header_write o exts K hk).
  Proof.
    unfold header_write. apply frames_bind; [apply frames_same, same_get|]. intros i.
    apply frames_bind.
    { destruct (nifti K && single K); [|apply frames_same, same_ret].
      destruct (off (ih i) =? 0); [apply frames_mod_hdr, Pk_set_off|].
      destruct (off (ih i) <? hsize K + 4 + sumz exts); apply frames_same; [apply same_fail|apply same_ret]. }
    intros _. apply frames_same. apply same_bind; [apply same_get|]. intros i'.
    apply same_bind; [apply same_fcall|]. intros _.
    destruct (nifti K); [|apply same_ret].
    destruct exts; [apply same_when, same_fcall|].
    apply same_bind; [apply same_fcall|]. intros _. apply same_write_exts.
  Qed.

  Lemma frames_analyze_body K sm od : frames K (analyze_body o oserr scale nslabs exts D K sm od).
  Proof.
    unfold analyze_body.
    apply frames_bind; [apply frames_same, same_open_dest|]. intros _.
    apply frames_bind; [apply frames_same, same_when, same_open_dest|]. intros _.
    apply frames_bind; [apply frames_same, same_get|]. intros i1.
    apply frames_bind; [apply frames_when, frames_mod_hdr, Pk_set_slope_inter|]. intros _.
    apply frames_bind; [apply frames_header_write|]. intros _.
    apply frames_bind; [apply frames_same, same_get|]. intros i2.
    apply frames_same.
    apply same_bind; [apply same_seek_tell|]. intros _.
    apply same_bind; [apply same_writes|]. intros _.
    apply same_bind; [apply same_when, same_fcall|]. intros _.
    apply same_when, same_fcall.
  Qed.

  (* the finally clause puts back exactly what the try block may have changed *)
  Lemma restore_back K i0 x sl0 in0 :
    Pk K i0 x ->
    (has_slope K = true -> sl0 = slope (ih i0)) ->
    (has_inter K = true -> in0 = inter (ih i0)) ->
    with_hdr (restore K (off (ih i0)) (dt (ih i0)) sl0 in0) x = i0.
  Proof.
    intros (A1 & A2 & A3 & A4 & A5 & A6) Hs Hi.
    destruct i0 as [[o0 d0 s0 n0 m0] a0 da0 af0]. destruct x as [[ox dx sx nx mx] ax dax afx].
    cbn in *. subst. unfold with_hdr, restore. cbn.
    destruct (has_slope K) eqn:E1; destruct (has_inter K) eqn:E2; cbn;
      rewrite ?(Hs eq_refl), ?(Hi eq_refl), <- ?(A5 eq_refl), <- ?(A6 eq_refl); reflexivity.
  Qed.

  Lemma analyze_core_final K od s :
    rimg (snd (analyze_core o oserr dt_ok wfail scale nslabs exts D K od s)) = harm K (rimg s).
  Proof.
    unfold analyze_core. unfold bind at 1. cbn [mod_img fst snd].
    set (s0 := mkRs (harm K (rimg s)) (rk s) (rlog s)).
    unfold bind at 1. cbn [get_img]. change (rimg s0) with (harm K (rimg s)).
    set (i0 := harm K (rimg s)).
    assert (Hstep : forall s1, rk s1 = rk s0 -> Pk K i0 (rimg s1) ->
              (has_slope K = true -> slope (ih (rimg s1)) = slope (ih i0)) ->
              (has_inter K = true -> inter (ih (rimg s1)) = inter (ih i0)) ->
              rimg (snd (bind get_img (fun i1 =>
                 if is_nan (if has_slope K then slope (ih i1) else SNan) &&
                    is_nan (if has_inter K then inter (ih i1) else SNan) && wfail (data i1) (dt (ih i1))
                 then bind (mod_hdr (restore K (off (ih i0)) (dt (ih i0))
                                        (if has_slope K then slope (ih i1) else SNan)
                                        (if has_inter K then inter (ih i1) else SNan)))
                           (fun _ => fail EWriter)
                 else finally (analyze_body o oserr scale nslabs exts D K
                                 (is_nan (if has_slope K then slope (ih i1) else SNan) &&
                                  is_nan (if has_inter K then inter (ih i1) else SNan)) (dt (ih i1)))
                              (with_hdr (restore K (off (ih i0)) (dt (ih i0))
                                           (if has_slope K then slope (ih i1) else SNan)
                                           (if has_inter K then inter (ih i1) else SNan)))) s1)) = i0).
    { intros s1 _ HP Hs Hi. unfold bind at 1. cbn [get_img].
      set (i1 := rimg s1) in *.
      assert (Hs' : has_slope K = true -> (if has_slope K then slope (ih i1) else SNan) = slope (ih i0))
        by (intros E; rewrite E; auto).
      assert (Hi' : has_inter K = true -> (if has_inter K then inter (ih i1) else SNan) = inter (ih i0))
        by (intros E; rewrite E; auto).
      destruct (_ && wfail (data i1) (dt (ih i1))).
      - cbn. apply restore_back; assumption.
      - unfold finally.
        pose proof (frames_analyze_body K
                      (is_nan (if has_slope K then slope (ih i1) else SNan) &&
                       is_nan (if has_inter K then inter (ih i1) else SNan)) (dt (ih i1)) s1) as HF.
        destruct (analyze_body _ _ _ _ _ _ _ _ _ s1) as [r s2]. cbn [snd rimg] in *.
        apply restore_back; try assumption. eapply Pk_trans; [exact HP|exact HF]. }
    destruct od as [d|].
    - destruct (dt_ok d).
      + unfold bind at 1. cbn [mod_hdr mod_img]. apply Hstep; cbn; auto. apply Pk_set_dt.
      + reflexivity.
    - unfold bind at 1. cbn [ret]. apply Hstep; auto. apply Pk_refl.
  Qed.

  Definition expected_n (K : klass) (i : img) : img :=
    match alias i with
    | None => harm K i
    | Some a => match resolve a (data i) with None => i | Some _ => harm K i end
    end.

  Lemma nifti_save_final K od s :
    rimg (snd (nifti_save o oserr resolve dt_ok wfail scale nslabs exts D K od s)) = expected_n K (rimg s).
  Proof.
    unfold nifti_save, expected_n. unfold bind at 1. cbn [get_img].
    destruct (alias (rimg s)) as [a|] eqn:Ea.
    - destruct (resolve a (data (rimg s))) as [r|]; [|reflexivity].
      unfold bind at 1. cbn [mod_img]. unfold finally.
      match goal with |- context [analyze_core _ _ _ _ _ _ _ _ _ _ ?x] =>
        pose proof (analyze_core_final K od x) as H; destruct (analyze_core o oserr dt_ok wfail scale nslabs exts D K od x) as [rr s2] end.
      cbn [snd rimg] in *. rewrite H. unfold harm.
      destruct (rimg s) as [[o0 d0 s0 n0 m0] al0 da0 a0]. cbn in *. subst al0. destruct (nifti K); reflexivity.
    - unfold finally.
      pose proof (analyze_core_final K od s) as H.
      destruct (analyze_core o oserr dt_ok wfail scale nslabs exts D K od s) as [rr s2].
      cbn [snd rimg] in *. rewrite H. unfold harm.
      destruct (rimg s) as [[o0 d0 s0 n0 m0] al0 da0 a0]. destruct (nifti K); reflexivity.
  Qed.

  Lemma same_mat_save K : same_img (mat_save o nmat D K).
  Proof.
    unfold mat_save. apply same_when. apply same_bind; [apply same_get|]. intros i.
    apply same_bind; [apply same_open_dest|]. intros _. apply same_with_close, same_writes.
  Qed.

  Lemma same_mgh_save K : same_img (mgh_save o oserr nslabs D K).
  Proof.
    unfold mgh_save. apply same_bind; [apply same_get|]. intros i.
    apply same_bind; [apply same_open_dest|]. intros _. apply same_with_close.
    apply same_bind; [apply same_fcall|]. intros _.
    apply same_bind; [apply same_fcall|]. intros _.
    apply same_bind; [apply same_seek_tell|]. intros _.
    apply same_bind; [apply same_writes|]. intros _.
    apply same_bind; [apply same_fcall|]. intros _. apply same_fcall.
  Qed.

  Lemma same_cifti_save K od : same_img (cifti_save o oserr resolve dt_ok wfail scale nslabs exts D K od).
  Proof.
    intros s. unfold cifti_save. unfold bind. cbn [get_img].
    destruct (negb (dt_ok _)); [reflexivity|].
    destruct (nifti_save _ _ _ _ _ _ _ _ _ _ _ _) as [r s']. reflexivity.
  Qed.

  (* the state after ANY run of save — whatever the oracle, whatever the outcome — is a
     function of the initial state alone *)
  Lemma save_final K od s :
    rimg (snd (save o oserr resolve dt_ok wfail scale nslabs exts nmat D K od s)) = expected resolve K (rimg s).
  Proof.
    unfold save, expected. destruct (fam K).
    - unfold bind.
      destruct (nifti K) eqn:En.
      + pose proof (nifti_save_final K od s) as H. unfold expected_n in H.
        destruct (nifti_save _ _ _ _ _ _ _ _ _ _ _ s) as [[u|e] s']; cbn [snd] in *.
        * rewrite same_mat_save. exact H.
        * exact H.
      + pose proof (analyze_core_final K od s) as H. unfold harm in H. rewrite En in H.
        destruct (analyze_core _ _ _ _ _ _ _ _ _ _ s) as [[u|e] s']; cbn [snd] in *.
        * rewrite same_mat_save. exact H.
        * exact H.
    - apply same_mgh_save.
    - apply same_cifti_save.
  Qed.
End Proofs.

(* ---- consequences ----------------------------------------------------------------------- *)
Lemma harm_id K i : harmonised K i -> harm K i = i.
Proof.
  unfold harmonised, harm. intros H. destruct (nifti K); [|reflexivity].
  destruct i as [[o0 d0 s0 n0 m0] a da af]. cbn in *. rewrite <- (H eq_refl). reflexivity.
Qed.

Lemma expected_id resolve K i : harmonised K i -> expected resolve K i = i.
Proof.
  intros Hh. unfold expected. destruct (fam K); try reflexivity.
  destruct (nifti K) eqn:En; [|reflexivity].
  destruct (alias i) as [a|]; [|now apply harm_id].
  destruct (resolve a (data i)); [now apply harm_id|reflexivity].
Qed.

(* every run — any oracle, any outcome, any pending alias — ends in the initial state *)
Lemma preserved o oserr resolve dt_ok wfail scale nslabs exts nmat D K od i :
  harmonised K i ->
  rimg (snd (run_save o oserr resolve dt_ok wfail scale nslabs exts nmat D K od i)) = i.
Proof. intros Hh. unfold run_save. rewrite save_final. cbn. now apply expected_id. Qed.

(* a save from the state any earlier run left behind = a save from the original state *)
Lemma retry_same o o2 oserr oserr2 resolve dt_ok wfail scale nslabs exts nmat D K od od2 i :
  harmonised K i ->
  let i1 := rimg (snd (run_save o oserr resolve dt_ok wfail scale nslabs exts nmat D K od i)) in
  run_save o2 oserr2 resolve dt_ok wfail scale nslabs exts nmat D K od2 i1 =
  run_save o2 oserr2 resolve dt_ok wfail scale nslabs exts nmat D K od2 i.
Proof. intros Hh i1. subst i1. now rewrite preserved. Qed.
