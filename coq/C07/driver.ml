(* C07 driver body (after `open C07_model` and drvlib.ml).
   One case = class, dtype override, image state, environment:
     <fam A|M|C> <single> <hsize> <has_slope> <has_inter> <nifti> <kmagic> <has_mat>
     <od int|->  <off> <dt> <slope nan|bits> <inter> <magic> <alias -|compat|smallest> <data> <aff>
     <resolved int|-> <unsupported [codes]> <wfail> <scale_s> <scale_i> <nslabs> <exts [sizes]> <nmat>
     <mine_h> <mine_i> <mine_m> <oserr: the injected exception is an OSError (seek_tell catches it)>
   ops:  run <k|-1|p<k>> <case> -> ok <res> n=<calls> st=<state> log=<calls>   (p<k>: every call from k on fails)
         sweepp <case>        -> like sweep with the persistent oracle fail_from k
         sweep <case>         -> ok <clean run> | k=0 <res> n st | k=1 ... (every call of the clean run failing in turn)
   state = off/dt/slope/inter/magic/alias/data/aff; a call = <H|I|M><s|t|c|w:chunk> *)
let sc_of_string s = if s = "nan" then SNan else SVal (z_of_string s)
let string_of_sc = function SNan -> "nan" | SVal v -> string_of_z v
let alias_of_string = function "-" -> None | "compat" -> Some Compat | "smallest" -> Some Smallest | _ -> failwith "alias"
let string_of_alias = function None -> "-" | Some Compat -> "compat" | Some Smallest -> "smallest"
let string_of_hdr h = String.concat "/" [string_of_z h.off; string_of_z h.dt; string_of_sc h.slope; string_of_sc h.inter; string_of_z h.magic]
let string_of_img i = String.concat "/" [string_of_hdr i.ih; string_of_alias i.alias; string_of_z i.data; string_of_z i.aff]
let string_of_err = function EWriter -> "writer" | EOS -> "oserror" | EHeaderData -> "headerdata" | EValue -> "value"
let string_of_res = function Ok _ -> "ok" | Err e -> "err:" ^ string_of_err e
let string_of_chunk = function
  | KHeader h -> "hdr(" ^ string_of_hdr h ^ ")" | KExtender b -> "ext" ^ string_of_bool b
  | KExtInfo i -> "xi" ^ string_of_int (int_of_nat i) | KExtBody i -> "xb" ^ string_of_int (int_of_nat i)
  | KExtPad i -> "xp" ^ string_of_int (int_of_nat i) | KZeros n -> "z" ^ string_of_z n
  | KSlab (i, odt, s, t, _) -> "slab" ^ string_of_int (int_of_nat i) ^ "(" ^ string_of_z odt ^ "/" ^ string_of_sc s ^ "/" ^ string_of_sc t ^ ")"
  | KMat (i, _) -> "mat" ^ string_of_int (int_of_nat i)
  | KMghHdr h -> "mghhdr(" ^ string_of_hdr h ^ ")" | KMghFtr _ -> "mghftr"
let string_of_call (k, c) =
  (match k with FH -> "H" | FI -> "I" | FM -> "M") ^
  (match c with CSeek _ -> "s" | CTell -> "t" | CClose -> "c" | CWrite ch -> "w:" ^ string_of_chunk ch)
let parse args = match args with
  | [fam; sg; hs; hsl; hin; nif; km; hm; od; off; dt; sl; it; mg; al; da; af; rsv; uns; wf; ss; si; ns; ex; nm; mh; mi; mm; oe] ->
    let k = { fam = (match fam with "A" -> FAnalyze | "M" -> FMgh | "C" -> FCifti | _ -> failwith "fam");
              single = bool_of_string sg; hsize = z_of_string hs; has_slope = bool_of_string hsl;
              has_inter = bool_of_string hin; nifti = bool_of_string nif; kmagic = z_of_string km;
              has_mat = bool_of_string hm } in
    let od = if od = "-" then None else Some (z_of_string od) in
    let i = { ih = { off = z_of_string off; dt = z_of_string dt; slope = sc_of_string sl; inter = sc_of_string it;
                     magic = z_of_string mg }; alias = alias_of_string al; data = z_of_string da; aff = z_of_string af } in
    let rsv = if rsv = "-" then None else Some (z_of_string rsv) in
    let uns = zlist_of_string uns in
    let wfail = bool_of_string wf in
    let scl = (sc_of_string ss, sc_of_string si) in
    let nsl = nat_of_int (int_of_string ns) in
    let d = { mine_h = bool_of_string mh; mine_i = bool_of_string mi; mine_m = bool_of_string mm } in
    (fun o -> run_save o (bool_of_string oe) (fun _ _ -> rsv) (fun c -> not (List.mem c uns)) (fun _ _ -> wfail) (fun _ _ -> scl)
                (fun _ -> nsl) (zlist_of_string ex) (nat_of_int (int_of_string nm)) d k od i)
  | _ -> failwith "bad case"
let show (r, s) withlog =
  string_of_res r ^ " n=" ^ string_of_int (int_of_nat s.rk) ^ " st=" ^ string_of_img s.rimg ^
  (if withlog then " log=" ^ String.concat "," (List.rev_map string_of_call s.rlog) else "")
let handle op args = match op, args with
  | "run", k :: rest ->
    let f = parse rest in
    if String.length k > 0 && k.[0] = 'p' then
      "ok " ^ show (f (fail_from (nat_of_int (int_of_string (String.sub k 1 (String.length k - 1)))))) true
    else
    let k = int_of_string k in
    "ok " ^ show (f (if k < 0 then healthy else fail_at (nat_of_int k))) true
  | "sweepp", rest ->
    let f = parse rest in
    let (r, s) = f healthy in
    let n = int_of_nat s.rk in
    let parts = List.init (n + 1) (fun k -> "k=" ^ string_of_int k ^ " " ^ show (f (fail_from (nat_of_int k))) false) in
    "ok " ^ show (r, s) true ^ " | " ^ String.concat " | " parts
  | "sweep", rest ->
    let f = parse rest in
    let (r, s) = f healthy in
    let n = int_of_nat s.rk in
    let parts = List.init (n + 1) (fun k -> "k=" ^ string_of_int k ^ " " ^ show (f (fail_at (nat_of_int k))) false) in
    "ok " ^ show (r, s) true ^ " | " ^ String.concat " | " parts
  | _ -> "err driver:badop"
let () = run_lines handle
