(* C07/Props.v — property theorems only.  Property C07: saving never changes the image, even
   when the write fails part-way.  Every statement quantifies over ALL fault oracles
   (nat -> bool: which file-object calls raise), all image states, all classes (klass
   records), all destinations and all values of the data oracles (writer refusal, computed
   scaling, alias resolution, number of slabs / extensions / .mat writes). *)
From Coq Require Import ZArith List Bool Lia.
From NV Require Import C07.Model C07.Lemmas.
Import ListNotations.
Open Scope Z_scope.

(* a save that succeeds leaves the image object exactly as it was — every harmonised state,
   with or without a pending dtype alias *)
Theorem C07_success_preserves :
  forall o oserr resolve dt_ok wfail scale nslabs exts nmat D K od i,
  harmonised K i ->
  forall s', run_save o oserr resolve dt_ok wfail scale nslabs exts nmat D K od i = (Ok tt, s') ->
  rimg s' = i.
Proof.
  intros o oserr resolve dt_ok wfail scale nslabs exts nmat D K od i Hh s' E.
  pose proof (preserved o oserr resolve dt_ok wfail scale nslabs exts nmat D K od i Hh) as H.
  rewrite E in H. exact H.
Qed.
Print Assumptions C07_success_preserves.

(* for EVERY fault oracle (in particular: the k-th call fails, for every k) and every error
   the run ends with (OSError, WriterError, HeaderDataError, ValueError): the image object
   is exactly as it was — offset, datatype, slope, intercept, magic, alias, data, affine *)
Theorem C07_fault_preserves :
  forall o oserr resolve dt_ok wfail scale nslabs exts nmat D K od i,
  harmonised K i ->
  forall e s', run_save o oserr resolve dt_ok wfail scale nslabs exts nmat D K od i = (Err e, s') ->
  rimg s' = i.
Proof.
  intros o oserr resolve dt_ok wfail scale nslabs exts nmat D K od i Hh e s' E.
  pose proof (preserved o oserr resolve dt_ok wfail scale nslabs exts nmat D K od i Hh) as H.
  rewrite E in H. exact H.
Qed.
Print Assumptions C07_fault_preserves.

(* after ANY run (any oracle, any outcome, any pending alias) a further save — with
   any oracle, in particular to a healthy destination — behaves exactly as the same save of
   the original image: same outcome, same calls, same symbolic content written, same final
   state *)
Theorem C07_retry_correct :
  forall o o2 oserr oserr2 resolve dt_ok wfail scale nslabs exts nmat D K od od2 i,
  harmonised K i ->
  let i1 := rimg (snd (run_save o oserr resolve dt_ok wfail scale nslabs exts nmat D K od i)) in
  run_save o2 oserr2 resolve dt_ok wfail scale nslabs exts nmat D K od2 i1 =
  run_save o2 oserr2 resolve dt_ok wfail scale nslabs exts nmat D K od2 i.
Proof. exact retry_same. Qed.
Print Assumptions C07_retry_correct.

(* two saves of an unchanged image to healthy destinations: same outcome and same content,
   and the second leaves the state the first left *)
Theorem C07_deterministic :
  forall oserr resolve dt_ok wfail scale nslabs exts nmat D K od i,
  harmonised K i ->
  forall r1 s1 r2 s2,
  run_save healthy oserr resolve dt_ok wfail scale nslabs exts nmat D K od i = (r1, s1) ->
  run_save healthy oserr resolve dt_ok wfail scale nslabs exts nmat D K od (rimg s1) = (r2, s2) ->
  r2 = r1 /\ rlog s2 = rlog s1 /\ rimg s2 = rimg s1.
Proof.
  intros oserr resolve dt_ok wfail scale nslabs exts nmat D K od i Hh r1 s1 r2 s2 E1 E2.
  pose proof (retry_same healthy healthy oserr oserr resolve dt_ok wfail scale nslabs exts nmat D K od od i Hh) as H.
  cbv zeta in H. rewrite E1 in H. cbn [snd] in H. rewrite E2 in H.
  injection H as -> ->. auto.
Qed.
Print Assumptions C07_deterministic.

(* non-vacuity: a NIfTI-1 single-file image with automatic scaling and offset.  The healthy
   save makes 6 file calls and writes a header carrying the computed slope/intercept and
   offset 352 — the try block really changes the consumables — yet ends in the initial
   state; the save failing at the first data write (call 4) ends in OSError and the initial
   state; a failing seek before the data (call 3) is absorbed by seek_tell and the save
   succeeds.  Second image: int32 header (code 8) with a pending alias 'smallest' resolving to
   uint8 (code 2): the header written carries 2, the object keeps 8 and the alias, after a
   healthy save and after a save failing at the first data write. *)
Example C07_nonvacuous :
  let K := mkK FAnalyze true 348 true true true 1 false in
  let i := mkImg (mkHdr 0 4 SNan SNan 1) None 7 9 in
  let j := mkImg (mkHdr 0 8 SNan SNan 1) (Some Smallest) 7 9 in
  let run x o := run_save o true (fun _ _ => Some 2) (fun _ => true) (fun _ _ => false)
                 (fun _ _ => (SVal 11, SVal 22)) (fun _ => 2%nat) [] 0%nat (mkDest false false false) K None x in
  harmonised K i /\ harmonised K j /\
  fst (run i healthy) = Ok tt /\ rk (snd (run i healthy)) = 6%nat /\ rimg (snd (run i healthy)) = i /\
  In (FI, CWrite (KHeader (mkHdr 352 4 (SVal 11) (SVal 22) 1))) (rlog (snd (run i healthy))) /\
  fst (run i (fail_at 4)) = Err EOS /\ rimg (snd (run i (fail_at 4))) = i /\
  fst (run i (fail_at 3)) = Ok tt /\ rk (snd (run i (fail_at 3))) = 7%nat /\
  fst (run j healthy) = Ok tt /\ rimg (snd (run j healthy)) = j /\
  In (FI, CWrite (KHeader (mkHdr 352 2 (SVal 11) (SVal 22) 1))) (rlog (snd (run j healthy))) /\
  fst (run j (fail_at 4)) = Err EOS /\ rimg (snd (run j (fail_at 4))) = j.
Proof.
  cbv zeta. split; [intros _; reflexivity|]. split; [intros _; reflexivity|].
  vm_compute. repeat split; try reflexivity; repeat ((left; reflexivity) || right).
Qed.
