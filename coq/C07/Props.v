(* C07/Props.v — property theorems only.  Property C07: saving never changes the image, even
   when the write fails part-way.  Every statement quantifies over ALL fault oracles
   (nat -> bool: which file-object calls raise), all image states, all classes (klass
   records), all destinations and all values of the data oracles (writer refusal, computed
   scaling, alias resolution, number of slabs / extensions / .mat writes). *)
From Coq Require Import ZArith List Bool Lia.
From NV Require Import C07.Model C07.Lemmas.
Import ListNotations.
Open Scope Z_scope.

(* FULL STATEMENT (for every image state): a save that succeeds leaves the image object as
   it was.  False of the faithful model when a dtype alias is pending and resolves to a type
   other than the header's (finding S-C07b, see C07_success_preserves_refuted).  Proved:
   for every harmonised state whose alias, if any, is stable. *)
Theorem C07_success_preserves_partial :
  forall o resolve dt_ok wfail scale nslabs exts nmat D K od i,
  harmonised K i -> alias_stable resolve i ->
  forall s', run_save o resolve dt_ok wfail scale nslabs exts nmat D K od i = (Ok tt, s') ->
  rimg s' = i.
Proof.
  intros o resolve dt_ok wfail scale nslabs exts nmat D K od i Hh Ha s' E.
  pose proof (preserved o resolve dt_ok wfail scale nslabs exts nmat D K od i Hh Ha) as H.
  rewrite E in H. exact H.
Qed.
Print Assumptions C07_success_preserves_partial.

(* for EVERY fault oracle (in particular: the k-th call fails, for every k) and every error
   the run ends with (OSError, WriterError, HeaderDataError, ValueError): the image object
   is as it was.  Same guard as above, same refutation without it. *)
Theorem C07_fault_preserves_partial :
  forall o resolve dt_ok wfail scale nslabs exts nmat D K od i,
  harmonised K i -> alias_stable resolve i ->
  forall e s', run_save o resolve dt_ok wfail scale nslabs exts nmat D K od i = (Err e, s') ->
  rimg s' = i.
Proof.
  intros o resolve dt_ok wfail scale nslabs exts nmat D K od i Hh Ha e s' E.
  pose proof (preserved o resolve dt_ok wfail scale nslabs exts nmat D K od i Hh Ha) as H.
  rewrite E in H. exact H.
Qed.
Print Assumptions C07_fault_preserves_partial.

(* without the guard, for every state, oracle and outcome: data, affine, alias, offset, slope,
   intercept and magic are as before; the header datatype is as before or is the type the
   pending alias resolved to *)
Theorem C07_final_state :
  forall o resolve dt_ok wfail scale nslabs exts nmat D K od i,
  harmonised K i ->
  let i' := rimg (snd (run_save o resolve dt_ok wfail scale nslabs exts nmat D K od i)) in
  alias i' = alias i /\ data i' = data i /\ aff i' = aff i /\
  off (ih i') = off (ih i) /\ slope (ih i') = slope (ih i) /\ inter (ih i') = inter (ih i) /\
  magic (ih i') = magic (ih i) /\
  (dt (ih i') = dt (ih i) \/
   exists a r, alias i = Some a /\ resolve a (data i) = Some r /\ dt (ih i') = r /\ nifti K = true).
Proof. exact final_state. Qed.
Print Assumptions C07_final_state.

(* S-C07b: NIfTI-1 single file, int32 header, alias 'smallest' resolving to uint8: a save with
   no fault succeeds and leaves uint8 in the header; a save that fails at the first data
   write does too *)
Theorem C07_success_preserves_refuted :
  exists resolve dt_ok wfail scale nslabs exts nmat D K od i s',
    harmonised K i /\
    run_save healthy resolve dt_ok wfail scale nslabs exts nmat D K od i = (Ok tt, s') /\
    rimg s' <> i.
Proof.
  exists (fun _ _ => Some 2), (fun _ => true), (fun _ _ => false), (fun _ _ => (SVal 1, SVal 0)),
         (fun _ => 2%nat), [], 0%nat, (mkDest false false false),
         (mkK FAnalyze true 348 true true true 1 false), None,
         (mkImg (mkHdr 0 8 SNan SNan 1) (Some Smallest) 7 9).
  eexists. split; [intros _; reflexivity|]. split; [vm_compute; reflexivity|]. vm_compute. discriminate.
Qed.
Print Assumptions C07_success_preserves_refuted.

Theorem C07_fault_preserves_refuted :
  exists k resolve dt_ok wfail scale nslabs exts nmat D K od i s',
    harmonised K i /\
    run_save (fail_at k) resolve dt_ok wfail scale nslabs exts nmat D K od i = (Err EOS, s') /\
    rimg s' <> i.
Proof.
  exists 4%nat, (fun _ _ => Some 2), (fun _ => true), (fun _ _ => false), (fun _ _ => (SVal 1, SVal 0)),
         (fun _ => 2%nat), [], 0%nat, (mkDest false false false),
         (mkK FAnalyze true 348 true true true 1 false), None,
         (mkImg (mkHdr 0 8 SNan SNan 1) (Some Smallest) 7 9).
  eexists. split; [intros _; reflexivity|]. split; [vm_compute; reflexivity|]. vm_compute. discriminate.
Qed.
Print Assumptions C07_fault_preserves_refuted.

(* after ANY run (any oracle, any outcome, also with a pending alias) a further save — with
   any oracle, in particular to a healthy destination — behaves exactly as the same save of
   the original image: same outcome, same calls, same symbolic content written, same final
   state *)
Theorem C07_retry_correct :
  forall o o2 resolve dt_ok wfail scale nslabs exts nmat D K od od2 i,
  harmonised K i ->
  let i1 := rimg (snd (run_save o resolve dt_ok wfail scale nslabs exts nmat D K od i)) in
  run_save o2 resolve dt_ok wfail scale nslabs exts nmat D K od2 i1 =
  run_save o2 resolve dt_ok wfail scale nslabs exts nmat D K od2 i.
Proof. exact retry_same. Qed.
Print Assumptions C07_retry_correct.

(* two saves of an unchanged image to healthy destinations: same outcome and same content,
   and the second leaves the state the first left *)
Theorem C07_deterministic :
  forall resolve dt_ok wfail scale nslabs exts nmat D K od i,
  harmonised K i ->
  forall r1 s1 r2 s2,
  run_save healthy resolve dt_ok wfail scale nslabs exts nmat D K od i = (r1, s1) ->
  run_save healthy resolve dt_ok wfail scale nslabs exts nmat D K od (rimg s1) = (r2, s2) ->
  r2 = r1 /\ rlog s2 = rlog s1 /\ rimg s2 = rimg s1.
Proof.
  intros resolve dt_ok wfail scale nslabs exts nmat D K od i Hh r1 s1 r2 s2 E1 E2.
  pose proof (retry_same healthy healthy resolve dt_ok wfail scale nslabs exts nmat D K od od i Hh) as H.
  cbv zeta in H. rewrite E1 in H. cbn [snd] in H. rewrite E2 in H.
  injection H as -> ->. auto.
Qed.
Print Assumptions C07_deterministic.

(* non-vacuity: a NIfTI-1 single-file image with automatic scaling and offset.  The healthy
   save makes 6 file calls and writes a header carrying the computed slope/intercept and
   offset 352 — the try block really changes the consumables — yet ends in the initial
   state; the save failing at the first data write (call 4) ends in OSError and the initial
   state; a failing seek before the data (call 3) is absorbed by seek_tell and the save
   succeeds *)
Example C07_nonvacuous :
  let K := mkK FAnalyze true 348 true true true 1 false in
  let i := mkImg (mkHdr 0 4 SNan SNan 1) None 7 9 in
  let run o := run_save o (fun _ _ => None) (fun _ => true) (fun _ _ => false)
                 (fun _ _ => (SVal 11, SVal 22)) (fun _ => 2%nat) [] 0%nat (mkDest false false false) K None i in
  harmonised K i /\ alias_stable (fun _ _ => None) i /\
  fst (run healthy) = Ok tt /\ rk (snd (run healthy)) = 6%nat /\ rimg (snd (run healthy)) = i /\
  In (FI, CWrite (KHeader (mkHdr 352 4 (SVal 11) (SVal 22) 1))) (rlog (snd (run healthy))) /\
  fst (run (fail_at 4)) = Err EOS /\ rimg (snd (run (fail_at 4))) = i /\
  fst (run (fail_at 3)) = Ok tt /\ rk (snd (run (fail_at 3))) = 7%nat.
Proof.
  cbv zeta. split; [intros _; reflexivity|]. split; [exact I|].
  vm_compute. repeat split; try reflexivity. repeat ((left; reflexivity) || right).
Qed.
