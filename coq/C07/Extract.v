(* C07/Extract.v — extraction of the executable model (ExtrOcamlBasic only; Z/nat stay inductive) *)
Require Extraction. Require ExtrOcamlBasic.
From NV Require Import C07.Model.
Extraction Language OCaml.
Extraction "c07_model.ml" run_save healthy fail_at fail_from expected.
