(* C13 driver body (after `open C13_model` and drvlib.ml).
   run <expired> A <dt> <shape> <vals> <ops...>                              array image
   run <expired> P <dt> <shape> <filevals> <slope|-> <inter|-> <mmap> <gz> <ops...>   proxy image
   dt: i2|f4|f8   shape: 2.2.2   vals: 1,2,3   ops: f8 f4 fi u8 u4 ui x8 x4 y8 y4 (get_fdata while the file cannot be opened) as sl sf sb (explicit full bounds)
   r:<mask> (full-length slices, axes with 1 reversed) un ed im gf gu
   hs:<s>:<i>|hs:- hh:<shape> hd:<dt> os:.. oh:.. od:.. rh rs
   -> ok <out>* | F <id>=<vals>;... | spec=ok|DIFF@<i>
   Every step is also run through the abstract specification (sstep on abs of the state) and
   the outputs compared (data_out). *)
let split c s = if s = "" then [] else String.split_on_char c s
let dt_of = function "i2" -> I2 | "f4" -> F4 | "f8" -> F8 | "f2" -> F2 | "c8" -> C8 | s -> failwith ("dtype " ^ s)
let str_dt = function I2 -> "i2" | F4 -> "f4" | F8 -> "f8" | F2 -> "f2" | C8 -> "c8"
let shape_of s = List.map (fun x -> nat_of_int (int_of_string x)) (split '.' s)
let str_shape sh = String.concat "." (List.map (fun n -> string_of_int (int_of_nat n)) sh)
let vals_of s = List.map z_of_string (split ',' s)
let str_vals l = String.concat "," (List.map string_of_z l)
let scl_of a = match a with
  | ["-"] -> None
  | [s; i] -> Some (z_of_string s, z_of_string i)
  | _ -> failwith "scl"
let str_scl = function None -> "-" | Some (s, i) -> string_of_z s ^ "," ^ string_of_z i
let op_of tok = match split ':' tok with
  | ["f8"] -> GetFdata (Fill, F8) | ["f4"] -> GetFdata (Fill, F4) | ["fi"] -> GetFdata (Fill, I2)
  | ["f2"] -> GetFdata (Fill, F2) | ["fc"] -> GetFdata (Fill, C8) | ["u2"] -> GetFdata (Unchanged, F2) | ["uc"] -> GetFdata (Unchanged, C8)
  | ["u8"] -> GetFdata (Unchanged, F8) | ["u4"] -> GetFdata (Unchanged, F4) | ["ui"] -> GetFdata (Unchanged, I2)
  | ["x8"] -> FdataBroken (Fill, F8) | ["x4"] -> FdataBroken (Fill, F4)
  | ["y8"] -> FdataBroken (Unchanged, F8) | ["y4"] -> FdataBroken (Unchanged, F4)
  | ["as"] -> AsArray | ["sl"] -> Slice SLast1 | ["sf"] -> Slice SFull | ["sb"] -> Slice SFull
  | ["r"; m] -> Slice (SRev (List.init (String.length m) (fun i -> m.[i] = '1')))
  | ["un"] -> Uncache | ["ed"] -> EditLast | ["im"] -> InMemory | ["gf"] -> GetData Fill | ["gu"] -> GetData Unchanged
  | "hs" :: a -> HdrScl (scl_of a) | ["hh"; s] -> HdrShape (shape_of s) | ["hd"; d] -> HdrDt (dt_of d)
  | "os" :: a -> OrigScl (scl_of a) | ["oh"; s] -> OrigShape (shape_of s) | ["od"; d] -> OrigDt (dt_of d)
  | ["rh"] -> ReadHdr | ["rs"] -> ReadSpec
  | _ -> failwith ("op " ^ tok)
let str_err = function ENotFloat -> "not_float" | EExpired -> "expired" | EReadOnly -> "read_only"
  | EIndex -> "index" | EShortFile -> "short_file" | EUnreadable -> "unreadable"
let str_out h = function
  | ONone -> "-"
  | OArr o -> let ob = get_obj h o in
    Printf.sprintf "A%d:%s:%s:%s%s:%s" (int_of_nat o) (str_shape ob.o_shape) (str_dt ob.o_dt)
      (string_of_bool ob.o_wr) (string_of_bool ob.o_map) (str_vals (obj_vals h ob))
  | OBool b -> "B" ^ string_of_bool b
  | OHdr hd -> Printf.sprintf "H:%s:%s:%s:%s" (str_shape hd.h_shape) (str_dt hd.h_dt) (string_of_z hd.h_off) (str_scl hd.h_scl)
  | OSpec (sh, d, s, i) -> Printf.sprintf "S:%s:%s:%s:%s" (str_shape sh) (str_dt d) (string_of_z s) (string_of_z i)
  | ORefused e -> "R:" ^ str_err e
let run st ops =
  let b = Buffer.create 256 in
  let st = ref st and diff = ref (-1) and i = ref 0 in
  List.iter (fun tok ->
    let o = op_of tok in
    let (st', x) = cstep !st o in
    let (sst', y) = sstep (abs !st) o in
    if !diff < 0 && (data_out x <> y || abs st' <> sst') then diff := !i;
    Buffer.add_char b ' '; Buffer.add_string b (str_out st'.c_heap x);
    st := st'; incr i) ops;
  let h = !st.c_heap in
  let fin = String.concat ";" (List.mapi (fun k ob -> Printf.sprintf "%d=%s" k (str_vals (obj_vals h ob))) h.objs) in
  Printf.sprintf "ok%s | F %s | file=%s | spec=%s" (Buffer.contents b) fin (str_vals !st.c_file.f_vals)
    (if !diff < 0 then "ok" else "DIFF@" ^ string_of_int !diff)
let handle op args = match op, args with
  | "run", ex :: "A" :: dt :: sh :: vals :: ops ->
    let h0 = { h_shape = shape_of "9.9"; h_dt = F4; h_off = z_of_int 352; h_scl = Some (z_of_int 4, z_of_int 4) } in
    run (init_array (vals_of vals) (shape_of sh) (dt_of dt) h0 (bool_of_string ex)) ops
  | "run", ex :: "P" :: dt :: sh :: vals :: s :: i :: mm :: gz :: ops ->
    let scl = if s = "-" then None else Some (z_of_string s, z_of_string i) in
    let h0 = { h_shape = shape_of sh; h_dt = dt_of dt; h_off = z_of_int 352; h_scl = scl } in
    run (init_proxy { f_gz = bool_of_string gz; f_vals = vals_of vals } h0 (bool_of_string mm) (bool_of_string ex)) ops
  | _ -> "err driver:badop"
let () = run_lines handle
