(* C13/Lemmas.v — proofs about C13/Model.v *)
From Coq Require Import ZArith List Bool Arith Lia.
From NV Require Import C13.Model.
Import ListNotations.
Open Scope Z_scope.

(* ------------------------------------------------------------------ small facts *)
Lemma dtype_eqb_eq a b : dtype_eqb a b = true <-> a = b.
Proof. destruct a, b; simpl; split; intro H; try reflexivity; try discriminate. Qed.
Lemma dtype_eqb_refl a : dtype_eqb a a = true.
Proof. destruct a; reflexivity. Qed.
Lemma dtype_eqb_sym a b : dtype_eqb a b = dtype_eqb b a.
Proof. destruct a, b; reflexivity. Qed.

Definition valid (h : heap) (k : nat) : Prop := (k < length (objs h))%nat.
Definition grows (h h' : heap) : Prop := exists l, objs h' = objs h ++ l.

Lemma grows_refl h : grows h h.
Proof. exists []. now rewrite app_nil_r. Qed.
Lemma grows_valid h h' k : grows h h' -> valid h k -> valid h' k.
Proof. intros [l E] V. unfold valid in *. rewrite E, app_length. lia. Qed.
Lemma grows_get h h' k : grows h h' -> valid h k -> get_obj h' k = get_obj h k.
Proof. intros [l E] V. unfold get_obj. rewrite E. now apply app_nth1. Qed.

Lemma alloc_grows h v sh dt wr mp : grows h (fst (alloc h v sh dt wr mp)).
Proof. eexists. reflexivity. Qed.
Lemma alloc_new_valid h v sh dt wr mp : valid (fst (alloc h v sh dt wr mp)) (snd (alloc h v sh dt wr mp)).
Proof. unfold valid, alloc. simpl. rewrite app_length. simpl. lia. Qed.
Lemma alloc_get_new h v sh dt wr mp :
  get_obj (fst (alloc h v sh dt wr mp)) (snd (alloc h v sh dt wr mp)) = mkObj (length (bufs h)) 0 sh dt wr mp [].
Proof. unfold get_obj, alloc. simpl. rewrite app_nth2 by lia. now rewrite Nat.sub_diag. Qed.
Lemma view_grows h b off sh mk : grows h (fst (alloc_view h b off sh mk)).
Proof. eexists. reflexivity. Qed.
Lemma view_new_valid h b off sh mk : valid (fst (alloc_view h b off sh mk)) (snd (alloc_view h b off sh mk)).
Proof. unfold valid, alloc_view. simpl. rewrite app_length. simpl. lia. Qed.
Lemma view_get_new h b off sh mk :
  get_obj (fst (alloc_view h b off sh mk)) (snd (alloc_view h b off sh mk))
  = mkObj (o_buf b) (o_off b + off) sh (o_dt b) (o_wr b) (o_map b) mk.
Proof. unfold get_obj, alloc_view. simpl. rewrite app_nth2 by lia. now rewrite Nat.sub_diag. Qed.

(* ------------------------------------------------------------------ reads: concrete = specification *)
Lemma chunks_map {A B} (f : A -> B) bs : forall d v, chunks bs d (map f v) = map (map f) (chunks bs d v).
Proof. induction d as [|d IH]; intros v; [reflexivity|]. cbn [chunks map]. now rewrite firstn_map, skipn_map, IH. Qed.
Lemma rev_ax_map {A B} (f : A -> B) : forall rmask rsh v, rev_ax rmask rsh (map f v) = map f (rev_ax rmask rsh v).
Proof.
  induction rmask as [|m rm IH]; intros rsh v; [reflexivity|].
  destruct rsh as [|d rs]; [reflexivity|]. cbn [rev_ax].
  rewrite chunks_map, map_map.
  rewrite (map_ext (fun x => rev_ax rm rs (map f x)) (fun x => map f (rev_ax rm rs x))) by (intros; apply IH).
  rewrite <- (map_map (rev_ax rm rs) (map f)).
  destruct m; [rewrite <- map_rev|]; now rewrite concat_map.
Qed.
Lemma pick_map {A B} (f : A -> B) mk sh off l : pick mk sh off (map f l) = map f (pick mk sh off l).
Proof. unfold pick. now rewrite skipn_map, firstn_map, rev_ax_map. Qed.

Lemma proxy_read_abs h f p dt sl :
  proxy_read h f p dt sl =
  match abs_kind (DProxy p) f with
  | SProxy sh vals ndt sc mp => spec_read h sh vals ndt sc mp dt sl
  | SBroken sh => match sel_off sl sh with None => inr EIndex | Some _ => inr EShortFile end
  | SArr _ => inr EIndex
  end.
Proof.
  unfold proxy_read, abs_kind, spec_read.
  destruct (sel_off sl (p_shape p)) as [[[sh off] mk]|] eqn:Es.
  - destruct (length (f_vals f) <? size (p_shape p))%nat eqn:El.
    + rewrite Es. reflexivity.
    + destruct (scaledp p) eqn:Esc.
      * rewrite Es. unfold scale_vals. rewrite pick_map.
        destruct dt as [d|].
        -- destruct (dtype_eqb d F8) eqn:Ed.
           ++ apply dtype_eqb_eq in Ed. subst d. rewrite orb_true_r, andb_false_r. reflexivity.
           ++ reflexivity.
        -- rewrite orb_true_r, andb_false_r. reflexivity.
      * rewrite Es. rewrite orb_false_r, andb_true_r, <- !andb_assoc.
        destruct dt as [d|]; [destruct (dtype_eqb d (p_dt p)); reflexivity|reflexivity].
  - destruct (length (f_vals f) <? size (p_shape p))%nat; [rewrite Es; reflexivity|].
    destruct (scaledp p); rewrite Es; reflexivity.
Qed.

Lemma asanyarray_abs st dt : asanyarray st dt = spec_fresh (abs st) dt.
Proof.
  unfold asanyarray, spec_fresh, abs. cbn [s_kind s_heap].
  destruct (c_dobj st) as [o|p]; [reflexivity|].
  rewrite proxy_read_abs.
  destruct (abs_kind (DProxy p) (c_file st)) eqn:E; try reflexivity.
  - unfold abs_kind in E. destruct (_ <? _)%nat; [discriminate|]. destruct (scaledp p); discriminate.
Qed.

Lemma getitem_abs st sl : getitem st sl = spec_slice (abs st) sl.
Proof.
  unfold getitem, spec_slice, abs. cbn [s_kind s_heap].
  destruct (c_dobj st) as [o|p]; [reflexivity|].
  rewrite proxy_read_abs.
  destruct (abs_kind (DProxy p) (c_file st)) eqn:E; try reflexivity.
  unfold abs_kind in E. destruct (_ <? _)%nat; [discriminate|]. destruct (scaledp p); discriminate.
Qed.

Lemma abs_kind_proxy_not_arr {A} p f (X Y : A) :
  match abs_kind (DProxy p) f with SArr _ => X | _ => Y end = Y.
Proof.
  unfold abs_kind. destruct (length (f_vals f) <? size (p_shape p))%nat; [reflexivity|].
  destruct (scaledp p); reflexivity.
Qed.

(* ------------------------------------------------------------------ well-formed states *)
Definition wf (st : cstate) : Prop :=
  (forall k, c_fcache st = Some k -> valid (c_heap st) k) /\
  (forall k, c_dcache st = Some k -> valid (c_heap st) k) /\
  (forall k, c_last st = Some k -> valid (c_heap st) k) /\
  (forall k, c_dobj st = DArr k -> valid (c_heap st) k).

(* what a successful read does to the heap *)
Definition read_ok (h : heap) (own : option nat) (h' : heap) (r : nat) : Prop :=
  grows h h' /\ valid h' r.

Lemma spec_read_ok h sh vals ndt sc mp dt sl h' r :
  spec_read h sh vals ndt sc mp dt sl = inl (h', r) -> grows h h' /\ valid h' r.
Proof.
  unfold spec_read. destruct (sel_off sl sh) as [[[sh' off] mk]|]; [|discriminate].
  destruct (match dt with None => true | Some d => dtype_eqb d ndt end); intros E; inversion E; subst;
    (split; [apply alloc_grows|apply alloc_new_valid]).
Qed.

Lemma asanyarray_ok st dt h' r : wf st -> asanyarray st dt = inl (h', r) -> grows (c_heap st) h' /\ valid h' r.
Proof.
  intros (_ & _ & _ & Wo) E. unfold asanyarray in E. destruct (c_dobj st) as [o|p] eqn:Ed.
  - specialize (Wo o eq_refl). destruct dt as [d|].
    + destruct (dtype_eqb d _); inversion E; subst.
      * split; [apply grows_refl|assumption].
      * split; [apply alloc_grows|apply alloc_new_valid].
    + inversion E; subst. split; [apply grows_refl|assumption].
  - rewrite proxy_read_abs in E.
    destruct (abs_kind (DProxy p) (c_file st)); try discriminate.
    eapply spec_read_ok; eassumption.
Qed.

Lemma getitem_ok st sl h' r : wf st -> getitem st sl = inl (h', r) -> grows (c_heap st) h' /\ valid h' r.
Proof.
  intros (_ & _ & _ & Wo) E. unfold getitem in E. destruct (c_dobj st) as [o|p] eqn:Ed.
  - destruct (sel_off sl _) as [[[sh off] mk]|]; inversion E; subst.
    split; [apply view_grows|apply view_new_valid].
  - rewrite proxy_read_abs in E.
    destruct (abs_kind (DProxy p) (c_file st)); try discriminate.
    + eapply spec_read_ok; eassumption.
    + destruct (sel_off sl sh); discriminate.
Qed.

(* the dtype of a freshly read array when a dtype was asked *)
Lemma spec_read_dtype h sh vals ndt sc mp d sl h' r :
  spec_read h sh vals ndt sc mp (Some d) sl = inl (h', r) -> o_dt (get_obj h' r) = d.
Proof.
  unfold spec_read. destruct (sel_off sl sh) as [[[sh' off] mk]|]; [|discriminate].
  destruct (dtype_eqb d ndt) eqn:Ed; intros E; inversion E; subst.
  - pose proof (alloc_get_new h (pick mk sh' off vals) sh' ndt
                              (is_full sl || sc)
                              (is_full sl && mp && negb sc)) as G.
    simpl in G. unfold get_obj. simpl. unfold get_obj in G. simpl in G. rewrite G. simpl.
    apply dtype_eqb_eq in Ed. now symmetry.
  - pose proof (alloc_get_new h (pick mk sh' off vals) sh' d true false) as G.
    unfold get_obj in *. simpl in *. rewrite G. reflexivity.
Qed.

Lemma asanyarray_dtype st d h' r : asanyarray st (Some d) = inl (h', r) -> o_dt (get_obj h' r) = d.
Proof.
  unfold asanyarray. destruct (c_dobj st) as [o|p].
  - destruct (dtype_eqb d _) eqn:Ed; intros E; inversion E; subst.
    + apply dtype_eqb_eq in Ed. now symmetry.
    + pose proof (alloc_get_new (c_heap st) (obj_vals (c_heap st) (get_obj (c_heap st) o))
                                (o_shape (get_obj (c_heap st) o)) d true false) as G.
      unfold get_obj in *. simpl in *. rewrite G. reflexivity.
  - rewrite proxy_read_abs. destruct (abs_kind (DProxy p) (c_file st)); try discriminate.
    apply spec_read_dtype.
Qed.

(* abs of the state after a successful read *)
Lemma abs_with_heap_last st h r :
  wf st -> grows (c_heap st) h -> abs (with_heap_last st h r) = s_with (abs st) h r.
Proof.
  intros (Wf & _) G. unfold abs, with_heap_last, s_with. cbn.
  destruct (c_fcache st) as [k|] eqn:Ef; [|reflexivity].
  rewrite (grows_get _ _ k G (Wf k eq_refl)). reflexivity.
Qed.

Lemma wf_with_heap_last st h r :
  wf st -> grows (c_heap st) h -> valid h r -> wf (with_heap_last st h r).
Proof.
  intros (Wf & Wd & Wl & Wo) G V. unfold wf, with_heap_last; cbn.
  repeat split; intros k E.
  - eapply grows_valid; eauto.
  - eapply grows_valid; eauto.
  - inversion E; subst; assumption.
  - eapply grows_valid; eauto.
Qed.

Lemma fdata_refines b st c dt :
  wf st ->
  s_fdata_step b (abs st) c dt = (abs (fst (fdata_step b st c dt)), data_out (snd (fdata_step b st c dt)))
  /\ wf (fst (fdata_step b st c dt)).
Proof.
  intros W. pose proof W as (Wf & Wd & Wl & Wo). unfold fdata_step, s_fdata_step.
  set (brk := b && negb (is_arr (c_dobj st))).
  assert (Hb : b && negb (s_is_arr (s_kind (abs st))) = brk).
  { unfold brk, abs; cbn [s_kind]. destruct (c_dobj st) as [o|p]; [reflexivity|].
    unfold abs_kind. destruct (length (f_vals (c_file st)) <? size (p_shape p))%nat; [|destruct (scaledp p)]; reflexivity. }
    destruct (negb (is_float dt)); [split; [reflexivity|assumption]|].
    change (s_cache (abs st)) with
      (match c_fcache st with Some k => Some (k, o_dt (get_obj (c_heap st) k)) | None => None end).
    destruct (c_fcache st) as [k|] eqn:Ef.
    + destruct (dtype_eqb (o_dt (get_obj (c_heap st) k)) dt) eqn:Ed.
      * cbn. split.
        -- rewrite abs_with_heap_last by (auto using grows_refl). reflexivity.
        -- apply wf_with_heap_last; auto using grows_refl.
      * rewrite Hb. destruct brk; [split; [reflexivity|assumption]|]. rewrite <- asanyarray_abs.
        destruct (asanyarray st (Some dt)) as [[h r]|e] eqn:Ea; [|split; [reflexivity|assumption]].
        destruct (asanyarray_ok _ _ _ _ W Ea) as [G V].
        pose proof (asanyarray_dtype _ _ _ _ Ea) as Dt.
        destruct c; cbn.
        -- split.
           ++ unfold abs, with_fcache, with_heap_last; cbn. rewrite Dt. reflexivity.
           ++ unfold wf, with_fcache, with_heap_last; cbn. repeat split; intros k' E'.
              ** inversion E'; subst; assumption.
              ** eapply grows_valid; eauto.
              ** inversion E'; subst; assumption.
              ** eapply grows_valid; eauto.
        -- split; [now rewrite abs_with_heap_last|now apply wf_with_heap_last].
    + rewrite Hb. destruct brk; [split; [reflexivity|assumption]|]. rewrite <- asanyarray_abs.
      destruct (asanyarray st (Some dt)) as [[h r]|e] eqn:Ea; [|split; [reflexivity|assumption]].
      destruct (asanyarray_ok _ _ _ _ W Ea) as [G V].
      pose proof (asanyarray_dtype _ _ _ _ Ea) as Dt.
      destruct c; cbn.
      * split.
        -- unfold abs, with_fcache, with_heap_last; cbn. rewrite Dt. reflexivity.
        -- unfold wf, with_fcache, with_heap_last; cbn. repeat split; intros k' E'.
           ++ inversion E'; subst; assumption.
           ++ eapply grows_valid; eauto.
           ++ inversion E'; subst; assumption.
           ++ eapply grows_valid; eauto.
      * split; [now rewrite abs_with_heap_last|now apply wf_with_heap_last].
Qed.

(* ------------------------------------------------------------------ one step *)
Lemma step_refines st o :
  wf st ->
  sstep (abs st) o = (abs (fst (cstep st o)), data_out (snd (cstep st o))) /\ wf (fst (cstep st o)).
Proof.
  intros W. pose proof W as (Wf & Wd & Wl & Wo).
  destruct o; cbn [cstep sstep].
  - (* GetFdata *) apply fdata_refines; exact W.
  - (* FdataBroken *) apply fdata_refines; exact W.
  - (* AsArray *)
    rewrite <- asanyarray_abs.
    destruct (asanyarray st None) as [[h r]|e] eqn:Ea; [|split; [reflexivity|assumption]].
    destruct (asanyarray_ok _ _ _ _ W Ea) as [G V]. cbn.
    split; [now rewrite abs_with_heap_last|now apply wf_with_heap_last].
  - (* Slice *)
    rewrite <- getitem_abs.
    destruct (getitem st sl) as [[h r]|e] eqn:Ea; [|split; [reflexivity|assumption]].
    destruct (getitem_ok _ _ _ _ W Ea) as [G V]. cbn.
    split; [now rewrite abs_with_heap_last|now apply wf_with_heap_last].
  - (* Uncache *)
    cbn. split; [reflexivity|]. unfold wf; cbn. repeat split; intros k E; try discriminate; auto.
  - (* EditLast *)
    change (s_last (abs st)) with (c_last st). change (s_heap (abs st)) with (c_heap st).
    destruct (c_last st) as [k|] eqn:El; [|split; [reflexivity|assumption]].
    destruct (o_wr (get_obj (c_heap st) k)); [|split; [reflexivity|assumption]].
    cbn. split.
    + unfold abs; cbn. reflexivity.
    + unfold wf, valid; cbn. repeat split; intros k' E';
        [apply (Wf _ E')|apply (Wd _ E')|apply (Wl _ E')|apply (Wo _ E')].
  - (* InMemory *)
    split; [|assumption]. cbn [fst snd data_out]. f_equal. f_equal.
    change (s_kind (abs st)) with (abs_kind (c_dobj st) (c_file st)).
    change (s_dcache (abs st)) with (c_dcache st).
    change (s_cache (abs st)) with
      (match c_fcache st with Some k => Some (k, o_dt (get_obj (c_heap st) k)) | None => None end).
    assert (H : is_some (match c_fcache st with
                         | Some k => Some (k, o_dt (get_obj (c_heap st) k)) | None => None end)
                = is_some (c_fcache st)) by (destruct (c_fcache st); reflexivity).
    destruct (c_dobj st) as [o|p].
    + reflexivity.
    + rewrite abs_kind_proxy_not_arr. cbn [is_arr orb]. now rewrite H.
  - (* GetData *)
    change (s_expired (abs st)) with (c_expired st). change (s_dcache (abs st)) with (c_dcache st).
    destruct (c_expired st) eqn:Ex; [split; [reflexivity|assumption]|].
    destruct (c_dcache st) as [k|] eqn:Ed.
    + cbn. split.
      * rewrite abs_with_heap_last by (auto using grows_refl). reflexivity.
      * apply wf_with_heap_last; auto using grows_refl.
    + rewrite <- asanyarray_abs.
      destruct (asanyarray st None) as [[h r]|e] eqn:Ea; [|split; [reflexivity|assumption]].
      destruct (asanyarray_ok _ _ _ _ W Ea) as [G V].
      destruct c; cbn.
      * split.
        -- unfold abs, with_dcache, with_heap_last; cbn. rewrite Ex.
           destruct (c_fcache st) as [k|] eqn:Ef; [|reflexivity].
           rewrite (grows_get _ _ k G (Wf k eq_refl)). reflexivity.
        -- unfold wf, with_dcache, with_heap_last; cbn. repeat split; intros k' E'.
           ++ eapply grows_valid; eauto.
           ++ inversion E'; subst; assumption.
           ++ inversion E'; subst; assumption.
           ++ eapply grows_valid; eauto.
      * split; [now rewrite abs_with_heap_last|now apply wf_with_heap_last].
  - split; [reflexivity|exact W].
  - split; [reflexivity|exact W].
  - split; [reflexivity|exact W].
  - split; [reflexivity|exact W].
  - split; [reflexivity|exact W].
  - split; [reflexivity|exact W].
  - split; [reflexivity|exact W].
  - (* ReadSpec *)
    destruct (c_dobj st); split; try reflexivity; exact W.
Qed.

(* ------------------------------------------------------------------ runs *)
Lemma crun_cons st o r :
  crun st (o :: r) = (fst (crun (fst (cstep st o)) r), snd (cstep st o) :: snd (crun (fst (cstep st o)) r)).
Proof. cbn [crun]. destruct (cstep st o) as [st1 x]. cbn [fst snd]. destruct (crun st1 r) as [st2 xs]. reflexivity. Qed.
Lemma srun_cons st o r :
  srun st (o :: r) = (fst (srun (fst (sstep st o)) r), snd (sstep st o) :: snd (srun (fst (sstep st o)) r)).
Proof. cbn [srun]. destruct (sstep st o) as [st1 x]. cbn [fst snd]. destruct (srun st1 r) as [st2 xs]. reflexivity. Qed.

Lemma run_refines : forall ops st, wf st ->
  srun (abs st) ops = (abs (fst (crun st ops)), map data_out (snd (crun st ops))) /\ wf (fst (crun st ops)).
Proof.
  induction ops as [|o r IH]; intros st W; [split; [reflexivity|exact W]|].
  destruct (step_refines st o W) as [E W1].
  rewrite srun_cons, crun_cons, E. cbn [fst snd map].
  destruct (IH _ W1) as [E2 W2]. rewrite E2. cbn [fst snd]. split; [reflexivity|exact W2].
Qed.

Lemma wf_init_array vals sh dt h0 ex : wf (init_array vals sh dt h0 ex).
Proof.
  unfold wf, init_array, valid; cbn. repeat split; intros k E; try discriminate.
  inversion E; subst. lia.
Qed.
Lemma wf_init_proxy f h0 mm ex : wf (init_proxy f h0 mm ex).
Proof. unfold wf, init_proxy, valid; cbn. repeat split; intros k E; discriminate. Qed.

(* a property of every step of a run *)
Fixpoint c_all (P : cstate -> op -> cstate -> out -> Prop) (st : cstate) (ops : list op) : Prop :=
  match ops with
  | [] => True
  | o :: r => P st o (fst (cstep st o)) (snd (cstep st o)) /\ c_all P (fst (cstep st o)) r
  end.
Fixpoint s_all (P : sstate -> op -> sstate -> out -> Prop) (st : sstate) (ops : list op) : Prop :=
  match ops with
  | [] => True
  | o :: r => P st o (fst (sstep st o)) (snd (sstep st o)) /\ s_all P (fst (sstep st o)) r
  end.

Lemma s_all_lift (I : sstate -> Prop) (P : sstate -> op -> sstate -> out -> Prop) :
  (forall st o, I st -> P st o (fst (sstep st o)) (snd (sstep st o)) /\ I (fst (sstep st o))) ->
  forall ops st, I st -> s_all P st ops.
Proof.
  intros H. induction ops as [|o r IH]; intros st Hi; [exact Logic.I|].
  destruct (H st o Hi) as [Hp Hi']. split; [exact Hp|apply IH, Hi'].
Qed.

Lemma all_transfer (Ps : sstate -> op -> sstate -> out -> Prop) (Pc : cstate -> op -> cstate -> out -> Prop) :
  (forall st o, wf st -> Ps (abs st) o (abs (fst (cstep st o))) (data_out (snd (cstep st o))) ->
                Pc st o (fst (cstep st o)) (snd (cstep st o))) ->
  forall ops st, wf st -> s_all Ps (abs st) ops -> c_all Pc st ops.
Proof.
  intros H. induction ops as [|o r IH]; intros st W Hs; [exact Logic.I|].
  destruct (step_refines st o W) as [E W1]. cbn [s_all] in Hs. rewrite E in Hs. cbn [fst snd] in Hs.
  destruct Hs as [Hp Hr]. split; [apply H; assumption|apply IH; assumption].
Qed.

(* ------------------------------------------------------------------ (a) the cache is returned by identity *)
(* operations that neither clear the cache nor replace it by another dtype *)
Definition keeps (dt : dtype) (o : op) : bool :=
  match o with
  | Uncache => false
  | GetFdata Fill d | FdataBroken Fill d => dtype_eqb d dt || negb (is_float d)
  | _ => true
  end.

Lemma s_cache_kept st o k dt :
  s_cache st = Some (k, dt) -> keeps dt o = true -> s_cache (fst (sstep st o)) = Some (k, dt).
Proof.
  intros Hc Hk.
  assert (FD : forall b c d, (c = Fill -> dtype_eqb d dt || negb (is_float d) = true) ->
                             s_cache (fst (s_fdata_step b st c d)) = Some (k, dt)).
  { intros b c d Hkk. unfold s_fdata_step.
    destruct (negb (is_float d)) eqn:Hf; [exact Hc|].
    rewrite Hc. destruct (dtype_eqb dt d) eqn:Ed; [exact Hc|].
    destruct c.
    + specialize (Hkk eq_refl). rewrite orb_false_r, dtype_eqb_sym, Ed in Hkk. discriminate.
    + destruct (if b && negb (s_is_arr (s_kind st)) then inr EUnreadable else spec_fresh st (Some d)) as [[h r]|e]; exact Hc. }
  destruct o; cbn [sstep]; try exact Hc; try discriminate.
  - apply FD. intros ->. exact Hk.
  - apply FD. intros ->. exact Hk.
  - destruct (spec_fresh st None) as [[h r]|e]; exact Hc.
  - destruct (spec_slice st sl) as [[h r]|e]; exact Hc.
  - destruct (s_last st) as [l|]; [|exact Hc]. destruct (o_wr _); exact Hc.
  - destruct (s_expired st); [exact Hc|]. destruct (s_dcache st); [exact Hc|].
    destruct (spec_fresh st None) as [[h r]|e]; [|exact Hc]. destruct c; exact Hc.
Qed.

Lemma s_cache_hit st c k dt :
  s_cache st = Some (k, dt) -> is_float dt = true -> snd (sstep st (GetFdata c dt)) = OArr k.
Proof. intros Hc Hf. cbn [sstep]. unfold s_fdata_step. rewrite Hf, Hc, dtype_eqb_refl. reflexivity. Qed.

Lemma s_cache_identity : forall ops st k dt,
  s_cache st = Some (k, dt) -> is_float dt = true -> forallb (keeps dt) ops = true ->
  forall i c, nth_error ops i = Some (GetFdata c dt) -> nth_error (snd (srun st ops)) i = Some (OArr k).
Proof.
  induction ops as [|o r IH]; intros st k dt Hc Hf Hk i c Hn; [destruct i; discriminate|].
  cbn [forallb] in Hk. apply andb_prop in Hk as [Hk1 Hk2].
  rewrite srun_cons. cbn [snd]. destruct i as [|i]; cbn [nth_error] in *.
  - inversion Hn; subst. f_equal. now apply s_cache_hit.
  - eapply IH; eauto. now apply s_cache_kept.
Qed.

Lemma cache_identity ops st k dt :
  wf st -> c_fcache st = Some k -> o_dt (get_obj (c_heap st) k) = dt -> is_float dt = true ->
  forallb (keeps dt) ops = true ->
  forall i c, nth_error ops i = Some (GetFdata c dt) -> nth_error (snd (crun st ops)) i = Some (OArr k).
Proof.
  intros W Hc Hd Hf Hk i c Hn.
  assert (Hs : s_cache (abs st) = Some (k, dt)) by (unfold abs; cbn; rewrite Hc, Hd; reflexivity).
  pose proof (s_cache_identity ops (abs st) k dt Hs Hf Hk i c Hn) as H.
  destruct (run_refines ops st W) as [E _]. rewrite E in H. cbn [snd] in H.
  rewrite nth_error_map in H. destruct (nth_error (snd (crun st ops)) i) as [x|]; [|discriminate].
  cbn in H. inversion H as [H1]. destruct x; cbn in H1; try discriminate; now rewrite H1.
Qed.

(* get_fdata(caching='fill') leaves the returned array in the cache, with the dtype asked *)
Lemma fill_caches st dt r :
  wf st -> snd (cstep st (GetFdata Fill dt)) = OArr r ->
  c_fcache (fst (cstep st (GetFdata Fill dt))) = Some r
  /\ o_dt (get_obj (c_heap (fst (cstep st (GetFdata Fill dt)))) r) = dt.
Proof.
  intros W Hx. destruct (step_refines st (GetFdata Fill dt) W) as [E _].
  assert (Hs : s_cache (fst (sstep (abs st) (GetFdata Fill dt))) = Some (r, dt)).
  { assert (Hx' : snd (sstep (abs st) (GetFdata Fill dt)) = OArr r) by (rewrite E; cbn [snd]; rewrite Hx; reflexivity).
    clear E. cbn [sstep] in *. unfold s_fdata_step in *. cbn [andb] in *. destruct (negb (is_float dt)); [discriminate|].
    destruct (s_cache (abs st)) as [[k d]|] eqn:Hc.
    - destruct (dtype_eqb d dt) eqn:Ed.
      + cbn in *. inversion Hx'; subst. apply dtype_eqb_eq in Ed. subst. exact Hc.
      + destruct (spec_fresh (abs st) (Some dt)) as [[h r']|e]; [|discriminate]. cbn in *. inversion Hx'; subst. reflexivity.
    - destruct (spec_fresh (abs st) (Some dt)) as [[h r']|e]; [|discriminate]. cbn in *. inversion Hx'; subst. reflexivity. }
  remember (fst (cstep st (GetFdata Fill dt))) as st' eqn:Est.
  rewrite E in Hs. cbn [fst] in Hs. unfold abs in Hs; cbn [s_cache] in Hs.
  destruct (c_fcache st') as [k|]; [|discriminate].
  injection Hs as H1 H2. subst k. split; [reflexivity|exact H2].
Qed.

(* ------------------------------------------------------------------ heap facts used by (b) and (c) *)
Definition buf_of (h : heap) (k : nat) : nat := o_buf (get_obj h k).
Definition hext (h h' : heap) : Prop :=
  (exists l, objs h' = objs h ++ l) /\ (exists l, bufs h' = bufs h ++ l).
Definition fresh (h h' : heap) (r : nat) : Prop :=
  r = length (objs h) /\ buf_of h' r = length (bufs h).

Lemma hext_refl h : hext h h.
Proof. split; exists []; now rewrite app_nil_r. Qed.
Lemma alloc_hext h v sh dt wr mp : hext h (fst (alloc h v sh dt wr mp)).
Proof. split; eexists; reflexivity. Qed.
Lemma view_hext h b off sh mk : hext h (fst (alloc_view h b off sh mk)).
Proof. split; [eexists; reflexivity|exists []; cbn; now rewrite app_nil_r]. Qed.
Lemma alloc_fresh h v sh dt wr mp : fresh h (fst (alloc h v sh dt wr mp)) (snd (alloc h v sh dt wr mp)).
Proof. split; [reflexivity|]. unfold buf_of. now rewrite alloc_get_new. Qed.

Lemma hext_nth_buf h h' b : hext h h' -> (b < length (bufs h))%nat -> nth b (bufs h') [] = nth b (bufs h) [].
Proof. intros [_ [l E]] Hb. rewrite E. now apply app_nth1. Qed.

Lemma nth_upd_other {A} (f : A -> A) d : forall (l : list A) n b, b <> n -> nth b (upd n f l) d = nth b l d.
Proof.
  induction l as [|x l IH]; intros n b Hb; [destruct n; reflexivity|].
  destruct n, b; cbn; try reflexivity; try congruence. apply IH. congruence.
Qed.

Lemma obj_vals_alloc h v sh dt wr mp :
  obj_vals (fst (alloc h v sh dt wr mp)) (mkObj (length (bufs h)) 0 sh dt wr mp []) = firstn (size sh) v.
Proof. unfold obj_vals, pick, alloc; cbn. rewrite app_nth2 by lia. now rewrite Nat.sub_diag. Qed.

Lemma spec_read_cases h sh vals ndt sc mp dt sl h' r :
  spec_read h sh vals ndt sc mp dt sl = inl (h', r) ->
  exists sh' off mk, sel_off sl sh = Some (sh', off, mk) /\ hext h h' /\ fresh h h' r
    /\ o_shape (get_obj h' r) = sh'
    /\ obj_vals h' (get_obj h' r) = firstn (size sh') (pick mk sh' off vals).
Proof.
  unfold spec_read. destruct (sel_off sl sh) as [[[sh' off] mk]|]; [|discriminate].
  intros E. exists sh', off, mk. split; [reflexivity|].
  set (v := pick mk sh' off vals) in *.
  destruct (match dt with None => true | Some d => dtype_eqb d ndt end).
  - set (wr := (is_full sl || sc)) in *.
    set (mp' := (is_full sl && mp && negb sc)) in *.
    assert (Eh : h' = fst (alloc h v sh' ndt wr mp')) by (inversion E; reflexivity).
    assert (Er : r = snd (alloc h v sh' ndt wr mp')) by (inversion E; reflexivity).
    rewrite Eh, Er. clear E Eh Er.
    split; [apply alloc_hext|]. split; [apply alloc_fresh|].
    rewrite alloc_get_new. split; [reflexivity|].
    rewrite obj_vals_alloc. reflexivity.
  - set (d := match dt with Some d => d | None => ndt end) in *.
    assert (Eh : h' = fst (alloc h v sh' d true false)) by (inversion E; reflexivity).
    assert (Er : r = snd (alloc h v sh' d true false)) by (inversion E; reflexivity).
    rewrite Eh, Er. clear E Eh Er.
    split; [apply alloc_hext|]. split; [apply alloc_fresh|].
    rewrite alloc_get_new. split; [reflexivity|].
    rewrite obj_vals_alloc. reflexivity.
Qed.

Lemma spec_fresh_cases st dt h r : spec_fresh st dt = inl (h, r) ->
  hext (s_heap st) h /\
  (fresh (s_heap st) h r \/ (exists own, s_kind st = SArr own /\ r = own /\ h = s_heap st)).
Proof.
  unfold spec_fresh. destruct (s_kind st) as [own|sh vals ndt sc mp|sh] eqn:Ek; [| |discriminate].
  - destruct dt as [d|].
    + destruct (dtype_eqb d _); intros E; inversion E; subst.
      * split; [apply hext_refl|right; eauto].
      * split; [apply alloc_hext|left; apply alloc_fresh].
    + intros E; inversion E; subst. split; [apply hext_refl|right; eauto].
  - intros E. apply spec_read_cases in E as (sh' & off & mk & _ & Hx & Hf & _). auto.
Qed.

Lemma spec_slice_cases st sl h r : spec_slice st sl = inl (h, r) ->
  hext (s_heap st) h /\
  (fresh (s_heap st) h r \/ (exists own, s_kind st = SArr own /\ buf_of h r = buf_of (s_heap st) own)).
Proof.
  unfold spec_slice. destruct (s_kind st) as [own|sh vals ndt sc mp|sh] eqn:Ek.
  - destruct (sel_off sl _) as [[[sh off] mk]|]; [|discriminate]. intros E; inversion E; subst.
    split; [apply view_hext|right]. exists own. split; [reflexivity|].
    exact (f_equal o_buf (view_get_new (s_heap st) (get_obj (s_heap st) own) off sh mk)).
  - intros E. apply spec_read_cases in E as (sh' & off & mk & _ & Hx & Hf & _). auto.
  - destruct (sel_off sl sh); discriminate.
Qed.

(* ------------------------------------------------------------------ (c) where a returned array can alias *)
Definition s_alias_rule (st : sstate) (o : op) (st' : sstate) (x : out) : Prop :=
  (forall r, x = OArr r ->
     fresh (s_heap st) (s_heap st') r
     \/ (exists d, s_cache st = Some (r, d)) \/ s_dcache st = Some r
     \/ (exists own, s_kind st = SArr own /\ buf_of (s_heap st') r = buf_of (s_heap st) own))
  /\ (exists l, objs (s_heap st') = objs (s_heap st) ++ l)
  /\ (forall b, (b < length (bufs (s_heap st)))%nat ->
        (o = EditLast -> forall k, s_last st = Some k -> b <> buf_of (s_heap st) k) ->
        nth b (bufs (s_heap st')) [] = nth b (bufs (s_heap st)) []).

Lemma s_alias_step st o : s_alias_rule st o (fst (sstep st o)) (snd (sstep st o)).
Proof.
  assert (Same : forall x, (forall r, x = OArr r -> False) -> s_alias_rule st o st x).
  { intros x Hx. split; [intros r E; destruct (Hx r E)|]. split; [exists []; now rewrite app_nil_r|]. reflexivity. }
  assert (Own : forall own, s_kind st = SArr own -> buf_of (s_heap st) own = buf_of (s_heap st) own) by reflexivity.
  assert (Read : forall h r st', s_heap st' = h -> hext (s_heap st) h ->
            (fresh (s_heap st) h r \/ (exists d, s_cache st = Some (r, d)) \/ s_dcache st = Some r
             \/ (exists own, s_kind st = SArr own /\ buf_of h r = buf_of (s_heap st) own)) ->
            s_alias_rule st o st' (OArr r)).
  { intros h r st' Eh Hx Hc. unfold s_alias_rule. rewrite Eh. split.
    - intros r' E; inversion E; subst r'. exact Hc.
    - split; [apply Hx|]. intros b Hb _. now apply hext_nth_buf. }
  assert (FD : forall b c dt, s_alias_rule st o (fst (s_fdata_step b st c dt)) (snd (s_fdata_step b st c dt))).
  { intros b c dt. unfold s_fdata_step.
    destruct (negb (is_float dt)); [apply Same; intros; discriminate|].
    destruct (s_cache st) as [[k d]|] eqn:Ec.
    + destruct (dtype_eqb d dt).
      * cbn [fst snd]. apply (Read (s_heap st)); [reflexivity|apply hext_refl|]. right; left; eauto.
      * destruct (b && negb (s_is_arr (s_kind st))); [apply Same; intros; discriminate|].
        destruct (spec_fresh st (Some dt)) as [[h r]|e] eqn:Ef; [|apply Same; intros; discriminate].
        apply spec_fresh_cases in Ef as [Hx [Hf|(own & Ek & Er & Eh)]].
        -- destruct c; cbn [fst snd]; apply (Read h); try reflexivity; auto.
        -- subst. destruct c; cbn [fst snd]; apply (Read (s_heap st)); try reflexivity; auto;
             right; right; right; eauto.
    + destruct (b && negb (s_is_arr (s_kind st))); [apply Same; intros; discriminate|].
      destruct (spec_fresh st (Some dt)) as [[h r]|e] eqn:Ef; [|apply Same; intros; discriminate].
      apply spec_fresh_cases in Ef as [Hx [Hf|(own & Ek & Er & Eh)]].
      * destruct c; cbn [fst snd]; apply (Read h); try reflexivity; auto.
      * subst. destruct c; cbn [fst snd]; apply (Read (s_heap st)); try reflexivity; auto;
          right; right; right; eauto. }
  destruct o; cbn [sstep]; try (apply Same; intros; discriminate).
  - apply FD.
  - apply FD.
  - (* AsArray *)
    destruct (spec_fresh st None) as [[h r]|e] eqn:Ef; [|apply Same; intros; discriminate].
    apply spec_fresh_cases in Ef as [Hx [Hf|(own & Ek & Er & Eh)]].
    + cbn [fst snd]. apply (Read h); try reflexivity; auto.
    + subst. cbn [fst snd]. apply (Read (s_heap st)); try reflexivity; auto. right; right; right; eauto.
  - (* Slice *)
    destruct (spec_slice st sl) as [[h r]|e] eqn:Ef; [|apply Same; intros; discriminate].
    apply spec_slice_cases in Ef as [Hx Hc]. cbn [fst snd]. apply (Read h); try reflexivity; auto.
    destruct Hc as [Hf|Ho]; auto.
  - (* EditLast *)
    destruct (s_last st) as [k|] eqn:El; [|apply Same; intros; discriminate].
    destruct (o_wr (get_obj (s_heap st) k)); [|apply Same; intros; discriminate].
    cbn [fst snd]. split; [intros r E; discriminate|]. split; [exists []; now rewrite app_nil_r|].
    intros b Hb Hne. cbn. apply nth_upd_other. apply (Hne eq_refl k El).
  - (* GetData *)
    destruct (s_expired st); [apply Same; intros; discriminate|].
    destruct (s_dcache st) as [k|] eqn:Ed.
    + cbn [fst snd]. apply (Read (s_heap st)); [reflexivity|apply hext_refl|]. right; right; left; reflexivity.
    + destruct (spec_fresh st None) as [[h r]|e] eqn:Ef; [|apply Same; intros; discriminate].
      apply spec_fresh_cases in Ef as [Hx [Hf|(own & Ek & Er & Eh)]].
      * destruct c; cbn [fst snd]; apply (Read h); try reflexivity; auto.
      * subst. destruct c; cbn [fst snd]; apply (Read (s_heap st)); try reflexivity; auto;
          right; right; right; eauto.
Qed.

Definition alias_rule (st : cstate) (o : op) (st' : cstate) (x : out) : Prop :=
  (forall r, x = OArr r ->
     fresh (c_heap st) (c_heap st') r
     \/ c_fcache st = Some r \/ c_dcache st = Some r
     \/ (exists own, c_dobj st = DArr own /\ buf_of (c_heap st') r = buf_of (c_heap st) own))
  /\ (exists l, objs (c_heap st') = objs (c_heap st) ++ l)
  /\ (forall b, (b < length (bufs (c_heap st)))%nat ->
        (o = EditLast -> forall k, c_last st = Some k -> b <> buf_of (c_heap st) k) ->
        nth b (bufs (c_heap st')) [] = nth b (bufs (c_heap st)) []).

Lemma abs_kind_arr d f own : abs_kind d f = SArr own -> d = DArr own.
Proof.
  destruct d as [o|p]; unfold abs_kind; [intros E; inversion E; reflexivity|].
  destruct (length (f_vals f) <? size (p_shape p))%nat; [discriminate|]. destruct (scaledp p); discriminate.
Qed.

Lemma alias_all ops st : wf st -> c_all alias_rule st ops.
Proof.
  intros W. apply (all_transfer s_alias_rule alias_rule); [|exact W|].
  - clear. intros st o W (H1 & H2 & H3). unfold alias_rule. change (s_heap (abs st)) with (c_heap st) in *.
    change (s_heap (abs (fst (cstep st o)))) with (c_heap (fst (cstep st o))) in *.
    split; [|split; [exact H2|exact H3]].
    intros r E. destruct (H1 r) as [Hf|[(d & Hc)|[Hd|(own & Hk & Hb)]]].
    + rewrite E. reflexivity.
    + left; exact Hf.
    + right; left. unfold abs in Hc; cbn [s_cache] in Hc. destruct (c_fcache st); inversion Hc; reflexivity.
    + right; right; left. exact Hd.
    + right; right; right. exists own. split; [|exact Hb]. now apply (abs_kind_arr _ (c_file st)).
  - apply (s_all_lift (fun _ => True)); [|exact I]. intros s o _. split; [apply s_alias_step|exact I].
Qed.

(* ------------------------------------------------------------------ (b) uncached reads reflect the file *)
Lemma s_kind_step st o : s_kind (fst (sstep st o)) = s_kind st.
Proof.
  assert (FD : forall b c dt, s_kind (fst (s_fdata_step b st c dt)) = s_kind st).
  { intros b c dt. unfold s_fdata_step. destruct (negb (is_float dt)); [reflexivity|].
    destruct (match s_cache st with Some (k, d) => if dtype_eqb d dt then Some k else None | None => None end);
      [reflexivity|].
    destruct (if b && negb (s_is_arr (s_kind st)) then inr EUnreadable else spec_fresh st (Some dt)) as [[h r]|e];
      [destruct c|]; reflexivity. }
  destruct o; cbn [sstep]; try reflexivity.
  - apply FD.
  - apply FD.
  - destruct (spec_fresh st None) as [[h r]|e]; reflexivity.
  - destruct (spec_slice st sl) as [[h r]|e]; reflexivity.
  - destruct (s_last st); [|reflexivity]. destruct (o_wr _); reflexivity.
  - destruct (s_expired st); [reflexivity|]. destruct (s_dcache st); [reflexivity|].
    destruct (spec_fresh st None) as [[h r]|e]; [destruct c|]; reflexivity.
Qed.

(* which accesses are not served from a cache, and with which slicer *)
Definition s_uncached (st : sstate) (o : op) : option slicer :=
  match o with
  | GetFdata c dt =>
    if is_float dt then
      match s_cache st with
      | Some (k, d) => if dtype_eqb d dt then None else Some SFull
      | None => Some SFull
      end
    else None
  | AsArray => Some SFull
  | Slice sl => Some sl
  | GetData c => if s_expired st then None else match s_dcache st with Some _ => None | None => Some SFull end
  | _ => None
  end.

Definition s_reflects (sh : list nat) (vals : list Z) (st : sstate) (o : op) (st' : sstate) (x : out) : Prop :=
  forall sl r, s_uncached st o = Some sl -> x = OArr r ->
    exists sh' off mk, sel_off sl sh = Some (sh', off, mk) /\ r = length (objs (s_heap st))
      /\ o_shape (get_obj (s_heap st') r) = sh'
      /\ obj_vals (s_heap st') (get_obj (s_heap st') r) = firstn (size sh') (pick mk sh' off vals).

Lemma s_reflects_step sh vals ndt sc mp st o :
  s_kind st = SProxy sh vals ndt sc mp -> s_reflects sh vals st o (fst (sstep st o)) (snd (sstep st o)).
Proof.
  intros Ek.
  assert (R : forall dt sl h r st', s_heap st' = h -> spec_read (s_heap st) sh vals ndt sc mp dt sl = inl (h, r) ->
              exists sh' off mk, sel_off sl sh = Some (sh', off, mk) /\ r = length (objs (s_heap st))
                /\ o_shape (get_obj (s_heap st') r) = sh'
                /\ obj_vals (s_heap st') (get_obj (s_heap st') r) = firstn (size sh') (pick mk sh' off vals)).
  { intros dt sl h r st' Eh E. rewrite Eh. apply spec_read_cases in E as (sh' & off & mk & Es & _ & [Hr _] & Hs & Hv).
    exists sh', off, mk. auto. }
  intros sl r Hu Hx. destruct o; cbn [s_uncached] in Hu; try discriminate; cbn [sstep] in *.
  - (* GetFdata *)
    unfold s_fdata_step in *. cbn [andb] in *.
    destruct (is_float dt); [|discriminate]. cbn [negb] in *.
    assert (Miss : match s_cache st with Some (k, d) => if dtype_eqb d dt then Some k else None | None => None end = None
                   /\ sl = SFull).
    { destruct (s_cache st) as [[k d]|]; [destruct (dtype_eqb d dt); [discriminate|]|]; inversion Hu; auto. }
    destruct Miss as [Miss ->]. rewrite Miss in *.
    unfold spec_fresh in *. rewrite Ek in *.
    destruct (spec_read (s_heap st) sh vals ndt sc mp (Some dt) SFull) as [[h r']|e] eqn:E; [|discriminate].
    destruct c; cbn [fst snd] in *; inversion Hx; subst r'; eapply R; eauto.
  - (* AsArray *)
    inversion Hu; subst sl. unfold spec_fresh in *. rewrite Ek in *.
    destruct (spec_read (s_heap st) sh vals ndt sc mp None SFull) as [[h r']|e] eqn:E; [|discriminate].
    cbn [fst snd] in *; inversion Hx; subst r'; eapply R; eauto.
  - (* Slice *)
    inversion Hu; subst sl0. unfold spec_slice in *. rewrite Ek in *.
    destruct (spec_read (s_heap st) sh vals ndt sc mp None sl) as [[h r']|e] eqn:E; [|discriminate].
    cbn [fst snd] in *; inversion Hx; subst r'; eapply R; eauto.
  - (* GetData *)
    destruct (s_expired st); [discriminate|]. destruct (s_dcache st); [discriminate|].
    inversion Hu; subst sl. unfold spec_fresh in *. rewrite Ek in *.
    destruct (spec_read (s_heap st) sh vals ndt sc mp None SFull) as [[h r']|e] eqn:E; [|discriminate].
    destruct c; cbn [fst snd] in *; inversion Hx; subst r'; eapply R; eauto.
Qed.

Definition c_uncached (st : cstate) (o : op) : option slicer :=
  match o with
  | GetFdata c dt =>
    if is_float dt then
      match c_fcache st with
      | Some k => if dtype_eqb (o_dt (get_obj (c_heap st) k)) dt then None else Some SFull
      | None => Some SFull
      end
    else None
  | AsArray => Some SFull
  | Slice sl => Some sl
  | GetData c => if c_expired st then None else match c_dcache st with Some _ => None | None => Some SFull end
  | _ => None
  end.

Lemma uncached_abs st o : s_uncached (abs st) o = c_uncached st o.
Proof. destruct o; try reflexivity. cbn. destruct (is_float dt); [|reflexivity]. destruct (c_fcache st); reflexivity. Qed.

(* the values a proxy denotes: the stored values under the spec it copied at construction *)
Definition file_view (p : pspec) (f : file) : list Z :=
  if scaledp p then scale_vals p f else firstn (size (p_shape p)) (f_vals f).

Definition reflects (p : pspec) (f : file) (st : cstate) (o : op) (st' : cstate) (x : out) : Prop :=
  forall sl r, c_uncached st o = Some sl -> x = OArr r ->
    exists sh' off mk, sel_off sl (p_shape p) = Some (sh', off, mk) /\ r = length (objs (c_heap st))
      /\ o_shape (get_obj (c_heap st') r) = sh'
      /\ obj_vals (c_heap st') (get_obj (c_heap st') r) = firstn (size sh') (pick mk sh' off (file_view p f)).

Lemma reflects_all ops st p :
  wf st -> c_dobj st = DProxy p -> (size (p_shape p) <= length (f_vals (c_file st)))%nat ->
  c_all (reflects p (c_file st)) st ops.
Proof.
  intros W Ed Hlen.
  assert (Ek : exists ndt sc mp, s_kind (abs st) = SProxy (p_shape p) (file_view p (c_file st)) ndt sc mp).
  { unfold abs; cbn [s_kind]. rewrite Ed. unfold abs_kind, file_view.
    replace (length (f_vals (c_file st)) <? size (p_shape p))%nat with false
      by (symmetry; apply Nat.ltb_ge; exact Hlen).
    destruct (scaledp p); eauto. }
  destruct Ek as (ndt & sc & mp & Ek).
  apply (all_transfer (s_reflects (p_shape p) (file_view p (c_file st))) (reflects p (c_file st))); [|exact W|].
  - intros st0 o W0 H sl r Hu Hx. rewrite <- uncached_abs in Hu.
    destruct (H sl r Hu) as (sh' & off & mk & H1 & H2 & H3 & H4); [rewrite Hx; reflexivity|].
    exists sh', off, mk. auto.
  - apply (s_all_lift (fun s => s_kind s = SProxy (p_shape p) (file_view p (c_file st)) ndt sc mp)); [|exact Ek].
    intros s o Hk. split; [eapply s_reflects_step; eassumption|]. now rewrite s_kind_step.
Qed.

(* ------------------------------------------------------------------ (d) what a proxy returns is frozen *)
Definition drop_hdr (ops : list op) : list op := filter (fun o => negb (is_hdr_op o)) ops.
(* the outputs at the positions of the operations that are not header operations *)
Definition outs_drop (ops : list op) (outs : list out) : list out :=
  map snd (filter (fun p => negb (is_hdr_op (fst p))) (combine ops outs)).

Lemma sstep_hdr st o : is_hdr_op o = true -> sstep st o = (st, ONone).
Proof. destruct o; try discriminate; reflexivity. Qed.

Lemma s_drop : forall ops st,
  srun st (drop_hdr ops) = (fst (srun st ops), outs_drop ops (snd (srun st ops))).
Proof.
  induction ops as [|o r IH]; intros st; [reflexivity|].
  rewrite (srun_cons st o r). cbn [fst snd]. unfold drop_hdr, outs_drop in *. cbn [filter combine fst].
  destruct (is_hdr_op o) eqn:Eh; cbn [negb].
  - rewrite (sstep_hdr st o Eh). cbn [fst snd]. apply IH.
  - rewrite srun_cons. cbn [map snd fst]. rewrite IH. reflexivity.
Qed.

Lemma map_outs_drop f ops outs : map f (outs_drop ops outs) = outs_drop ops (map f outs).
Proof.
  unfold outs_drop. revert outs. induction ops as [|o r IH]; intros outs; [reflexivity|].
  destruct outs as [|x xs]; [reflexivity|]. cbn [combine filter fst map].
  destruct (negb (is_hdr_op o)); cbn [map snd]; now rewrite IH.
Qed.

Lemma abs_hdr_indep st h1 h2 : abs (with_orig (with_hdr st h1) h2) = abs st.
Proof. reflexivity. Qed.
Lemma wf_hdr_indep st h1 h2 : wf st -> wf (with_orig (with_hdr st h1) h2).
Proof. intros W. exact W. Qed.

Lemma proxy_frozen ops st h1 h2 :
  wf st ->
  map data_out (outs_drop ops (snd (crun st ops)))
  = map data_out (snd (crun (with_orig (with_hdr st h1) h2) (drop_hdr ops))).
Proof.
  intros W.
  destruct (run_refines ops st W) as [E1 _].
  destruct (run_refines (drop_hdr ops) _ (wf_hdr_indep st h1 h2 W)) as [E2 _].
  rewrite abs_hdr_indep, s_drop, E1 in E2. cbn [fst snd] in E2.
  rewrite map_outs_drop. exact (f_equal snd E2).
Qed.

(* the proxy object itself never changes: its shape/dtype/slope/inter are those copied at construction *)
Lemma c_all_lift (I : cstate -> Prop) (P : cstate -> op -> cstate -> out -> Prop) :
  (forall st o, I st -> P st o (fst (cstep st o)) (snd (cstep st o)) /\ I (fst (cstep st o))) ->
  forall ops st, I st -> c_all P st ops.
Proof.
  intros H. induction ops as [|o r IH]; intros st Hi; [exact Logic.I|].
  destruct (H st o Hi) as [Hp Hi']. split; [exact Hp|apply IH, Hi'].
Qed.

Lemma cstep_dobj_file st o :
  c_dobj (fst (cstep st o)) = c_dobj st /\ c_file (fst (cstep st o)) = c_file st.
Proof.
  assert (FD : forall b c dt, c_dobj (fst (fdata_step b st c dt)) = c_dobj st
                              /\ c_file (fst (fdata_step b st c dt)) = c_file st).
  { intros b c dt. unfold fdata_step. destruct (negb (is_float dt)); [split; reflexivity|].
    destruct (match c_fcache st with
              | Some k => if dtype_eqb (o_dt (get_obj (c_heap st) k)) dt then Some k else None
              | None => None end); [split; reflexivity|].
    destruct (if b && negb (is_arr (c_dobj st)) then inr EUnreadable else asanyarray st (Some dt)) as [[h r]|e];
      [destruct c|]; split; reflexivity. }
  destruct o; cbn [cstep]; try (split; reflexivity).
  - apply FD.
  - apply FD.
  - destruct (asanyarray st None) as [[h r]|e]; split; reflexivity.
  - destruct (getitem st sl) as [[h r]|e]; split; reflexivity.
  - destruct (c_last st); [destruct (o_wr _)|]; split; reflexivity.
  - destruct (c_expired st); [split; reflexivity|]. destruct (c_dcache st); [split; reflexivity|].
    destruct (asanyarray st None) as [[h r]|e]; [destruct c|]; split; reflexivity.
  - destruct (c_dobj st) eqn:E; cbn [fst]; (split; [exact E|reflexivity]).
Qed.

Lemma spec_frozen ops st p :
  c_dobj st = DProxy p ->
  c_all (fun st0 o st1 x => c_file st1 = c_file st /\
           (o = ReadSpec -> x = OSpec (p_shape p) (p_dt p) (p_slope p) (p_inter p))) st ops.
Proof.
  intros Ed. apply (c_all_lift (fun s => c_dobj s = DProxy p /\ c_file s = c_file st)); [|auto].
  intros s o [Hd Hf]. destruct (cstep_dobj_file s o) as [H1 H2]. split; [split|split]; try congruence.
  intros ->. cbn [cstep]. rewrite Hd. reflexivity.
Qed.

(* ------------------------------------------------------------------ the two concrete facts *)
Lemma own_array_and_cow_map :
  (forall st o d, c_dobj st = DArr o -> o_dt (get_obj (c_heap st) o) = d ->
                  asanyarray st (Some d) = inl (c_heap st, o)) /\
  (forall st p, c_dobj st = DProxy p -> scaledp p = false -> p_mmap p = true -> f_gz (c_file st) = false ->
     (size (p_shape p) <= length (f_vals (c_file st)))%nat ->
     exists h r, asanyarray st (Some (p_dt p)) = inl (h, r) /\ r = length (objs (c_heap st))
       /\ o_map (get_obj h r) = true /\ o_wr (get_obj h r) = true).
Proof.
  split.
  - intros st o d Ed Et. unfold asanyarray. rewrite Ed, Et, dtype_eqb_refl. reflexivity.
  - intros st p Ed Es Em Eg Hlen. unfold asanyarray, proxy_read. rewrite Ed. cbn [sel_off].
    replace (length (f_vals (c_file st)) <? size (p_shape p))%nat with false
      by (symmetry; apply Nat.ltb_ge; exact Hlen).
    rewrite Es, dtype_eqb_refl, Em, Eg. cbn [andb negb].
    set (v := pick _ _ _ _). cbn [is_full andb].
    exists (fst (alloc (c_heap st) v (p_shape p) (p_dt p) true true)),
           (snd (alloc (c_heap st) v (p_shape p) (p_dt p) true true)).
    split; [reflexivity|]. split; [reflexivity|]. rewrite alloc_get_new. split; reflexivity.
Qed.

(* ------------------------------------------------------------------ a refused operation changes nothing *)
Lemma refused_noop st o e : snd (cstep st o) = ORefused e -> fst (cstep st o) = st.
Proof.
  assert (FD : forall b c dt, snd (fdata_step b st c dt) = ORefused e -> fst (fdata_step b st c dt) = st).
  { intros b c dt. unfold fdata_step. destruct (negb (is_float dt)); [reflexivity|].
    destruct (match c_fcache st with
              | Some k => if dtype_eqb (o_dt (get_obj (c_heap st) k)) dt then Some k else None
              | None => None end); [discriminate|].
    destruct (if b && negb (is_arr (c_dobj st)) then inr EUnreadable else asanyarray st (Some dt)) as [[h r]|e'];
      [destruct c; discriminate|reflexivity]. }
  destruct o; cbn [cstep]; try discriminate; try reflexivity.
  - apply FD.
  - apply FD.
  - destruct (asanyarray st None) as [[h r]|e']; [discriminate|reflexivity].
  - destruct (getitem st sl) as [[h r]|e']; [discriminate|reflexivity].
  - destruct (c_last st); [destruct (o_wr _); [discriminate|reflexivity]|reflexivity].
  - destruct (c_expired st); [reflexivity|]. destruct (c_dcache st); [discriminate|].
    destruct (asanyarray st None) as [[h r]|e']; [destruct c; discriminate|reflexivity].
  - destruct (c_dobj st); discriminate.
Qed.

(* in particular a read that fails because the file cannot be opened leaves the cache, its contents and
   in_memory as they were, and the next read of the cached dtype still returns the cached array *)
Lemma failed_read_keeps_cache st c dt k d :
  wf st -> c_fcache st = Some k -> o_dt (get_obj (c_heap st) k) = d -> is_float d = true ->
  c_dobj st <> DArr k ->
  (exists p, c_dobj st = DProxy p) -> d <> dt -> is_float dt = true ->
  cstep st (FdataBroken c dt) = (st, ORefused EUnreadable)
  /\ snd (cstep st (GetFdata Unchanged d)) = OArr k
  /\ snd (cstep st InMemory) = OBool true.
Proof.
  intros W Hc Hd Hf _ [p Hp] Hne Hfl. split; [|split].
  - cbn [cstep]. unfold fdata_step. rewrite Hfl, Hc, Hd, Hp. cbn [negb is_arr andb].
    destruct (dtype_eqb d dt) eqn:E; [apply dtype_eqb_eq in E; contradiction|reflexivity].
  - cbn [cstep]. unfold fdata_step. rewrite Hf, Hc, Hd, dtype_eqb_refl. reflexivity.
  - cbn [cstep]. rewrite Hc. cbn. now rewrite orb_true_r.
Qed.

(* ------------------------------------------------------------------ the documented rules, one by one *)
(* images_and_memory.rst: "in_memory is always True for array images"; "for a proxy image ... False when the
   array is not in cache, and True when it is in cache" *)
Lemma in_memory_rule :
  (forall st o, c_dobj st = DArr o -> cstep st InMemory = (st, OBool true)) /\
  (forall st p, c_dobj st = DProxy p ->
     cstep st InMemory = (st, OBool (is_some (c_fcache st) || is_some (c_dcache st)))).
Proof. split; intros st x E; cbn [cstep]; rewrite E; reflexivity. Qed.

(* "caching='unchanged' will leave the cache full if it is already full" - and empty if it is empty: it never
   touches either cache, whatever it returns *)
Lemma unchanged_leaves_cache st b dt :
  c_fcache (fst (fdata_step b st Unchanged dt)) = c_fcache st
  /\ c_dcache (fst (fdata_step b st Unchanged dt)) = c_dcache st.
Proof.
  unfold fdata_step. destruct (negb (is_float dt)); [split; reflexivity|].
  destruct (match c_fcache st with
            | Some k => if dtype_eqb (o_dt (get_obj (c_heap st) k)) dt then Some k else None
            | None => None end); [split; reflexivity|].
  destruct (if b && negb (is_arr (c_dobj st)) then inr EUnreadable else asanyarray st (Some dt)) as [[h r]|e];
    split; reflexivity.
Qed.

(* uncache(): both caches empty; a proxy image is no longer in memory; "uncache() has no effect if ... the cache
   is already empty" *)
Lemma uncache_rule st :
  c_fcache (fst (cstep st Uncache)) = None /\ c_dcache (fst (cstep st Uncache)) = None
  /\ (forall p, c_dobj st = DProxy p -> snd (cstep (fst (cstep st Uncache)) InMemory) = OBool false)
  /\ (c_fcache st = None -> c_dcache st = None -> fst (cstep st Uncache) = st).
Proof.
  cbn [cstep fst snd]. repeat split.
  - intros p E. cbn. rewrite E. reflexivity.
  - intros E1 E2. destruct st; cbn in *; subst; reflexivity.
Qed.

(* get_fdata docstring: for an array image "modifying the returned array will modify the result of future
   calls": when the image's own array already has the requested float dtype, EVERY get_fdata of that dtype, in
   any history and with either caching mode, returns that very array *)
Definition own_inv (o : nat) (dt : dtype) (st : cstate) : Prop :=
  wf st /\ c_dobj st = DArr o /\ o_dt (get_obj (c_heap st) o) = dt
  /\ (forall k, c_fcache st = Some k -> o_dt (get_obj (c_heap st) k) = dt -> k = o).

Lemma own_inv_heap o dt st h r :
  own_inv o dt st -> grows (c_heap st) h -> valid h r -> own_inv o dt (with_heap_last st h r).
Proof.
  intros (W & Ed & Et & Ec) G V. pose proof W as (Wf & _ & _ & Wo).
  split; [now apply wf_with_heap_last|]. split; [exact Ed|].
  unfold with_heap_last; cbn. split.
  - rewrite (grows_get _ _ o G (Wo o Ed)). exact Et.
  - intros k Hk Hd. rewrite (grows_get _ _ k G (Wf k Hk)) in Hd. now apply Ec.
Qed.

Lemma own_inv_step o dt st op0 : is_float dt = true -> own_inv o dt st ->
  own_inv o dt (fst (cstep st op0))
  /\ (forall c b, (op0 = GetFdata c dt \/ (b = true /\ op0 = FdataBroken c dt)) -> snd (cstep st op0) = OArr o).
Proof.
  intros Hfl Inv. pose proof Inv as (W & Ed & Et & Ec). pose proof W as (Wf & Wd & Wl & Wo).
  assert (FD : forall b c d,
             own_inv o dt (fst (fdata_step b st c d)) /\ (d = dt -> snd (fdata_step b st c d) = OArr o)).
  { intros b c d. unfold fdata_step. rewrite Ed. cbn [is_arr negb]. rewrite andb_false_r.
    destruct (negb (is_float d)) eqn:Hf; [split; [exact Inv|intros ->; rewrite Hfl in Hf; discriminate]|].
    destruct (c_fcache st) as [k|] eqn:Ek.
    - destruct (dtype_eqb (o_dt (get_obj (c_heap st) k)) d) eqn:Edk.
      + cbn [fst snd]. split; [apply own_inv_heap; auto using grows_refl|].
        intros ->. apply dtype_eqb_eq in Edk. now rewrite (Ec k eq_refl Edk).
      + destruct (asanyarray st (Some d)) as [[h r]|e] eqn:Ea; [|split; [exact Inv|]].
        * destruct (asanyarray_ok _ _ _ _ W Ea) as [G V]. pose proof (asanyarray_dtype _ _ _ _ Ea) as Dt.
          assert (Hr : d = dt -> r = o /\ h = c_heap st).
          { intros ->. unfold asanyarray in Ea. rewrite Ed, Et, dtype_eqb_refl in Ea. inversion Ea; auto. }
          split.
          -- destruct c.
             ++ destruct (own_inv_heap o dt st h r Inv G V) as (W1 & Ed1 & Et1 & _).
                split; [|split; [exact Ed1|split; [exact Et1|]]].
                ** unfold wf, with_fcache, with_heap_last in *; cbn in *. destruct W1 as (A & B0 & C & D).
                   repeat split; auto; intros k' E'; inversion E'; subst; exact V.
                ** unfold with_fcache, with_heap_last; cbn. intros k' E' Hd. inversion E'; subst k'.
                   rewrite Dt in Hd. now destruct (Hr Hd).
             ++ now apply own_inv_heap.
          -- cbn [snd]. intros Hd. destruct c; cbn [snd]; f_equal; now destruct (Hr Hd).
        * intros ->. unfold asanyarray in Ea. rewrite Ed, Et, dtype_eqb_refl in Ea. discriminate.
    - destruct (asanyarray st (Some d)) as [[h r]|e] eqn:Ea; [|split; [exact Inv|]].
      + destruct (asanyarray_ok _ _ _ _ W Ea) as [G V]. pose proof (asanyarray_dtype _ _ _ _ Ea) as Dt.
        assert (Hr : d = dt -> r = o /\ h = c_heap st).
        { intros ->. unfold asanyarray in Ea. rewrite Ed, Et, dtype_eqb_refl in Ea. inversion Ea; auto. }
        split.
        * destruct c.
          -- destruct (own_inv_heap o dt st h r Inv G V) as (W1 & Ed1 & Et1 & _).
             split; [|split; [exact Ed1|split; [exact Et1|]]].
             ++ unfold wf, with_fcache, with_heap_last in *; cbn in *. destruct W1 as (A & B0 & C & D).
                repeat split; auto; intros k' E'; inversion E'; subst; exact V.
             ++ unfold with_fcache, with_heap_last; cbn. intros k' E' Hd. inversion E'; subst k'.
                rewrite Dt in Hd. now destruct (Hr Hd).
          -- now apply own_inv_heap.
        * intros Hd. destruct c; cbn [snd]; f_equal; now destruct (Hr Hd).
      + intros ->. unfold asanyarray in Ea. rewrite Ed, Et, dtype_eqb_refl in Ea. discriminate. }
  assert (KEEP : forall st', wf st' -> c_dobj st' = DArr o -> c_heap st' = c_heap st -> c_fcache st' = c_fcache st ->
                             own_inv o dt st').
  { intros st' W' E1 E2 E3. split; [exact W'|]. split; [exact E1|]. rewrite E2, E3. split; assumption. }
  destruct (step_refines st op0 W) as [_ W'].
  split.
  - destruct op0; cbn [cstep] in *; try (apply FD); try (apply KEEP; [exact W'|exact Ed|reflexivity|reflexivity]).
    + (* AsArray *) destruct (asanyarray st None) as [[h r]|e] eqn:Ea; [|exact Inv].
      destruct (asanyarray_ok _ _ _ _ W Ea). now apply own_inv_heap.
    + (* Slice *) destruct (getitem st sl) as [[h r]|e] eqn:Ea; [|exact Inv].
      destruct (getitem_ok _ _ _ _ W Ea). now apply own_inv_heap.
    + (* Uncache *) split; [exact W'|]. split; [exact Ed|]. split; [exact Et|]. cbn. intros k E; discriminate.
    + (* EditLast *)
      destruct (c_last st) as [k|]; [|exact Inv]. destruct (o_wr (get_obj (c_heap st) k)); [|exact Inv].
      split; [exact W'|]. split; [exact Ed|]. split; [exact Et|]. exact Ec.
    + (* GetData *)
      destruct (c_expired st); [exact Inv|]. destruct (c_dcache st) as [k|] eqn:Ek.
      * apply own_inv_heap; auto using grows_refl.
      * destruct (asanyarray st None) as [[h r]|e] eqn:Ea; [|exact Inv].
        destruct (asanyarray_ok _ _ _ _ W Ea) as [G V].
        destruct c; [|now apply own_inv_heap].
        destruct (own_inv_heap o dt st h r Inv G V) as (W1 & Ed1 & Et1 & Ec1).
        split; [exact W'|]. split; [exact Ed1|]. split; [exact Et1|exact Ec1].
    + (* ReadSpec *) rewrite Ed. exact Inv.
  - intros c b [->|[_ ->]]; cbn [cstep]; now apply FD.
Qed.

Lemma array_fdata_is_own o dt : is_float dt = true -> forall ops st, own_inv o dt st ->
  forall i c, (nth_error ops i = Some (GetFdata c dt) \/ nth_error ops i = Some (FdataBroken c dt)) ->
  nth_error (snd (crun st ops)) i = Some (OArr o).
Proof.
  intros Hfl. induction ops as [|op0 r IH]; intros st Inv i c Hn; [destruct i; destruct Hn; discriminate|].
  destruct (own_inv_step o dt st op0 Hfl Inv) as [Inv' Hout].
  rewrite crun_cons. cbn [snd]. destruct i as [|i]; cbn [nth_error] in *.
  - f_equal. destruct Hn as [Hn|Hn]; inversion Hn; subst; apply (Hout c true); auto.
  - eapply IH; eauto.
Qed.

Lemma own_inv_init vals sh dt h0 ex : own_inv 0%nat dt (init_array vals sh dt h0 ex).
Proof.
  split; [apply wf_init_array|]. split; [reflexivity|]. split; [reflexivity|]. intros k E; discriminate.
Qed.
