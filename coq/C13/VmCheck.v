(* C13/VmCheck.v — definitions used only by the in-Coq cross-check of the extracted binary:
   the harness turns the binary's output line into a [list tok] and asks coqc (vm_compute)
   whether the model, evaluated inside Coq, produces the same observations.  Definitions only. *)
From Coq Require Import ZArith List Bool Arith.
From NV Require Import C13.Model.
Import ListNotations.
Open Scope Z_scope.

Inductive tok :=
| TNone | TArr (id : nat) (sh : list nat) (dt : dtype) (wr mp : bool) (vals : list Z)
| TBool (b : bool) | TRef (e : err) | TOther.

Fixpoint list_eqb {A} (eqb : A -> A -> bool) (a b : list A) : bool :=
  match a, b with
  | [], [] => true
  | x :: a', y :: b' => eqb x y && list_eqb eqb a' b'
  | _, _ => false
  end.
Definition err_eqb (a b : err) : bool :=
  match a, b with
  | ENotFloat, ENotFloat | EExpired, EExpired | EReadOnly, EReadOnly | EIndex, EIndex
  | EShortFile, EShortFile | EUnreadable, EUnreadable => true
  | _, _ => false
  end.

Definition tok_ok (h : heap) (x : out) (t : tok) : bool :=
  match x, t with
  | ONone, TNone => true
  | OArr o, TArr id sh dt wr mp vals =>
    let ob := get_obj h o in
    Nat.eqb o id && list_eqb Nat.eqb (o_shape ob) sh && dtype_eqb (o_dt ob) dt && Bool.eqb (o_wr ob) wr
    && Bool.eqb (o_map ob) mp && list_eqb Z.eqb (obj_vals h ob) vals
  | OBool b, TBool b' => Bool.eqb b b'
  | ORefused e, TRef e' => err_eqb e e'
  | OHdr _, TOther | OSpec _ _ _ _, TOther => true
  | _, _ => false
  end.

Fixpoint check_case (st : cstate) (ops : list op) (want : list tok) : bool :=
  match ops, want with
  | [], [] => true
  | o :: r, t :: w => let '(st', x) := cstep st o in tok_ok (c_heap st') x t && check_case st' r w
  | _, _ => false
  end.
