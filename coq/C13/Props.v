(* C13/Props.v — property theorems only.  Property C13: the image data cache and its aliases
   follow the documented model.  [cstep]/[crun] model the code (get_fdata, get_data, in_memory,
   uncache, ArrayProxy reads, header edits) over a heap of array objects; [sstep]/[srun] are the
   documented rules; [abs] forgets headers, the proxy's frozen spec and the raw file.  [wf st]
   (cache / last / own-array references point into the heap) holds of every initial state and
   is preserved by every step.  All statements are for arbitrary operation lists. *)
From Coq Require Import ZArith List Bool Arith Lia.
From NV Require Import C13.Model C13.Lemmas.
Import ListNotations.
Open Scope Z_scope.

(* every initial image (array image / proxy image, any data, header, mmap flag) is well formed *)
Theorem C13_init_states_wf :
  (forall vals sh dt h0 ex, wf (init_array vals sh dt h0 ex)) /\
  (forall f h0 mm ex, wf (init_proxy f h0 mm ex)).
Proof. exact (conj wf_init_array wf_init_proxy). Qed.
Print Assumptions C13_init_states_wf.

(* refinement: for every operation list, the concrete run yields the specification's outputs
   (header observations blanked) and the final states correspond; well-formedness is kept *)
Theorem C13_refines_doc_model : forall ops st, wf st ->
  srun (abs st) ops = (abs (fst (crun st ops)), map data_out (snd (crun st ops)))
  /\ wf (fst (crun st ops)).
Proof. exact run_refines. Qed.
Print Assumptions C13_refines_doc_model.

(* a cached array is returned by identity until the cache is cleared (uncache) or replaced by a
   fill of another dtype: whatever else happens in between (edits, other reads, header edits,
   get_fdata(unchanged) of any dtype, legacy get_data) *)
Theorem C13_cache_identity : forall ops st k dt,
  wf st -> c_fcache st = Some k -> o_dt (get_obj (c_heap st) k) = dt -> is_float dt = true ->
  forallb (keeps dt) ops = true ->
  forall i c, nth_error ops i = Some (GetFdata c dt) -> nth_error (snd (crun st ops)) i = Some (OArr k).
Proof. exact cache_identity. Qed.
Print Assumptions C13_cache_identity.

(* get_fdata(caching='fill', dt) leaves exactly the array it returned in the cache, of dtype dt *)
Theorem C13_fill_caches : forall st dt r,
  wf st -> snd (cstep st (GetFdata Fill dt)) = OArr r ->
  c_fcache (fst (cstep st (GetFdata Fill dt))) = Some r
  /\ o_dt (get_obj (c_heap (fst (cstep st (GetFdata Fill dt)))) r) = dt.
Proof. exact fill_caches. Qed.
Print Assumptions C13_fill_caches.

(* uncached reads of a proxy image always reflect the file: after any history, a read that is
   not served from a cache returns a NEW array object whose values are the file's values (under
   the spec copied at construction) selected by the slicer - whatever edits were made before *)
Theorem C13_unchanged_reflects_file : forall ops st p,
  wf st -> c_dobj st = DProxy p -> (size (p_shape p) <= length (f_vals (c_file st)))%nat ->
  c_all (reflects p (c_file st)) st ops.
Proof. exact reflects_all. Qed.
Print Assumptions C13_unchanged_reflects_file.

(* edits become visible later only through the cache or through an array image's own array:
   at every step of every run, a returned array is a new object on a new buffer, or the cached
   array (either cache), or shares the buffer of the array image's own array; existing array
   objects never change identity, and an existing buffer changes only by an edit of an array
   that lives on it *)
Theorem C13_edits_visible_only_via_cache_or_own_array : forall ops st, wf st -> c_all alias_rule st ops.
Proof. exact alias_all. Qed.
Print Assumptions C13_edits_visible_only_via_cache_or_own_array.

(* what a proxy returns is unaffected by edits of the image header or of the header object the
   image was created from: dropping all header operations from a history, and starting from
   arbitrary other headers h1 h2, gives the same data outputs at the remaining positions *)
Theorem C13_proxy_frozen : forall ops st h1 h2, wf st ->
  map data_out (outs_drop ops (snd (crun st ops)))
  = map data_out (snd (crun (with_orig (with_hdr st h1) h2) (drop_hdr ops))).
Proof. exact proxy_frozen. Qed.
Print Assumptions C13_proxy_frozen.

(* the proxy's own shape/dtype/slope/inter stay those copied at construction, and no operation
   (in particular no edit of a returned copy-on-write memmap) writes the file *)
Theorem C13_spec_frozen_file_untouched : forall ops st p, c_dobj st = DProxy p ->
  c_all (fun st0 o st1 x => c_file st1 = c_file st /\
           (o = ReadSpec -> x = OSpec (p_shape p) (p_dt p) (p_slope p) (p_inter p))) st ops.
Proof. exact spec_frozen. Qed.
Print Assumptions C13_spec_frozen_file_untouched.

(* the two concrete facts: an array image's np.asanyarray(dataobj, dtype) IS its own array when
   the dtype matches, and an unscaled proxy read of the stored dtype with mmap is a writable
   copy-on-write map, a new object per access *)
Theorem C13_own_array_and_cow_map :
  (forall st o d, c_dobj st = DArr o -> o_dt (get_obj (c_heap st) o) = d ->
                  asanyarray st (Some d) = inl (c_heap st, o)) /\
  (forall st p, c_dobj st = DProxy p -> scaledp p = false -> p_mmap p = true -> f_gz (c_file st) = false ->
     (size (p_shape p) <= length (f_vals (c_file st)))%nat ->
     exists h r, asanyarray st (Some (p_dt p)) = inl (h, r) /\ r = length (objs (c_heap st))
       /\ o_map (get_obj h r) = true /\ o_wr (get_obj h r) = true).
Proof. exact own_array_and_cow_map. Qed.
Print Assumptions C13_own_array_and_cow_map.

(* a refused operation (not a float dtype, expired get_data, read-only edit, bad index, short or
   unreadable file) leaves the whole state - caches, their contents, in_memory - as it was *)
Theorem C13_refused_is_noop : forall st o e, snd (cstep st o) = ORefused e -> fst (cstep st o) = st.
Proof. exact refused_noop. Qed.
Print Assumptions C13_refused_is_noop.

(* get_fdata in another dtype while the proxy's file cannot be opened: refused, nothing changes, the
   cached array is still returned by identity and in_memory is still True *)
Theorem C13_failed_read_keeps_cache : forall st c dt k d,
  wf st -> c_fcache st = Some k -> o_dt (get_obj (c_heap st) k) = d -> is_float d = true ->
  c_dobj st <> DArr k ->
  (exists p, c_dobj st = DProxy p) -> d <> dt -> is_float dt = true ->
  cstep st (FdataBroken c dt) = (st, ORefused EUnreadable)
  /\ snd (cstep st (GetFdata Unchanged d)) = OArr k
  /\ snd (cstep st InMemory) = OBool true.
Proof. exact failed_read_keeps_cache. Qed.
Print Assumptions C13_failed_read_keeps_cache.

(* ---- the documented rules, one by one (doc/source/images_and_memory.rst, get_fdata / uncache docstrings) *)
(* "in_memory is always True for array images"; for a proxy image it says whether a cache is full *)
Theorem C13_in_memory_rule :
  (forall st o, c_dobj st = DArr o -> cstep st InMemory = (st, OBool true)) /\
  (forall st p, c_dobj st = DProxy p ->
     cstep st InMemory = (st, OBool (is_some (c_fcache st) || is_some (c_dcache st)))).
Proof. exact in_memory_rule. Qed.
Print Assumptions C13_in_memory_rule.

(* caching='unchanged' never touches either cache (full stays full, empty stays empty), also when the read fails *)
Theorem C13_unchanged_leaves_cache : forall st b dt,
  c_fcache (fst (fdata_step b st Unchanged dt)) = c_fcache st
  /\ c_dcache (fst (fdata_step b st Unchanged dt)) = c_dcache st.
Proof. exact unchanged_leaves_cache. Qed.
Print Assumptions C13_unchanged_leaves_cache.

(* uncache() empties both caches; a proxy image is then not in memory; no effect when they were empty *)
Theorem C13_uncache_rule : forall st,
  c_fcache (fst (cstep st Uncache)) = None /\ c_dcache (fst (cstep st Uncache)) = None
  /\ (forall p, c_dobj st = DProxy p -> snd (cstep (fst (cstep st Uncache)) InMemory) = OBool false)
  /\ (c_fcache st = None -> c_dcache st = None -> fst (cstep st Uncache) = st).
Proof. exact uncache_rule. Qed.
Print Assumptions C13_uncache_rule.

(* an array image whose own array already has the requested float dtype: in every history, with either caching
   mode (and whatever was cached, uncached, edited or sliced in between), get_fdata of that dtype returns the
   image's OWN array - so edits of the result are edits of the image *)
Theorem C13_array_fdata_is_own : forall o dt, is_float dt = true -> forall ops st, own_inv o dt st ->
  forall i c, (nth_error ops i = Some (GetFdata c dt) \/ nth_error ops i = Some (FdataBroken c dt)) ->
  nth_error (snd (crun st ops)) i = Some (OArr o).
Proof. exact array_fdata_is_own. Qed.
Print Assumptions C13_array_fdata_is_own.

Theorem C13_array_image_own_inv : forall vals sh dt h0 ex, own_inv 0%nat dt (init_array vals sh dt h0 ex).
Proof. exact own_inv_init. Qed.
Print Assumptions C13_array_image_own_inv.

(* non-vacuity: a scaled int16 proxy image; fill, edit, unchanged read (cached: edit visible),
   header edits, uncache, read again (file values back), slice, legacy cache *)
Example C13_nonvacuous :
  let st := init_proxy (mkFile false [1;2;3;4;5;6;7;8]) (mkHdr [2;2;2]%nat I2 352 (Some (2,1))) true false in
  wf st /\
  snd (crun st [GetFdata Fill F8; EditLast; GetFdata Unchanged F8; HdrScl (Some (3,5)); OrigShape [8]%nat;
                InMemory; Uncache; InMemory; GetFdata Unchanged F8; Slice SLast1; ReadSpec;
                Slice (SRev [true; false; true]); FdataBroken Fill F4])
  = [OArr 0; ONone; OArr 0; ONone; ONone; OBool true; ONone; OBool false; OArr 1; OArr 2;
     OSpec [2;2;2]%nat I2 2 1; OArr 3; ORefused EUnreadable]
  /\ obj_vals (c_heap (fst (crun st [Slice (SRev [true; false; true])])))
              (get_obj (c_heap (fst (crun st [Slice (SRev [true; false; true])]))) 0)
     = [13;11;17;15;5;3;9;7]
  /\ obj_vals (c_heap (fst (crun st [GetFdata Fill F8; EditLast; Uncache; GetFdata Fill F8])))
              (get_obj (c_heap (fst (crun st [GetFdata Fill F8; EditLast; Uncache; GetFdata Fill F8]))) 1)
     = [3;5;7;9;11;13;15;17]
  /\ obj_vals (c_heap (fst (crun st [GetFdata Fill F8; EditLast; Uncache; GetFdata Fill F8])))
              (get_obj (c_heap (fst (crun st [GetFdata Fill F8; EditLast; Uncache; GetFdata Fill F8]))) 0)
     = [10;5;7;9;11;13;15;17].
Proof. split; [apply wf_init_proxy|]. vm_compute. repeat split. Qed.
