(* C13/Extract.v — extraction of the executable model (ExtrOcamlBasic only) *)
Require Extraction. Require ExtrOcamlBasic.
From NV Require Import C13.Model.
Extraction Language OCaml.
Extraction "c13_model.ml" cstep crun init_array init_proxy get_obj obj_vals sstep abs data_out.
