(* C13/Model.v — the image data cache and its aliases.
   Counterparts in /repo/nibabel:
     dataobj_images.py  DataobjImage.get_fdata / get_data / in_memory / uncache  -> cstep
     arrayproxy.py      ArrayProxy.__init__ (copies shape, dtype, offset, slope, inter out of the
                        header), __array__, __getitem__, _get_scaled, _get_unscaled    -> spec_of_header, proxy_read
     volumeutils.py     array_from_file (np.memmap(mode='c') unless compressed / mmap=False),
                        apply_read_scaling ((1,0) returns its argument)                -> proxy_read
     analyze.py         AnalyzeImage.__init__ (resets slope/inter), from_file_map       -> init_proxy
     filebasedimages.py FileBasedImage.__init__ (header_class.from_header = copy)       -> init_array / init_proxy
   Arrays live in a heap: buffers (value lists, logical Fortran order) and array objects
   (views into a buffer).  Object identity = index in [objs]; two objects alias iff they share
   a buffer.  Values are integers small enough to be exact in int16 / float32 / float64, so a
   dtype cast is the identity on values (stated as an assumption of the check).
   Definitions only. *)
From Coq Require Import ZArith List Bool Arith.
Import ListNotations.
Open Scope Z_scope.

Inductive dtype := I2 | F4 | F8 | F2 | C8.     (* int16, float32, float64, float16, complex64 (np.inexact) *)
Definition dtype_eqb (a b : dtype) : bool :=
  match a, b with I2, I2 | F4, F4 | F8, F8 | F2, F2 | C8, C8 => true | _, _ => false end.
Definition is_float (d : dtype) : bool := match d with I2 => false | _ => true end.

Definition size (sh : list nat) : nat := fold_right Nat.mul 1%nat sh.

(* ---- heap *)
Record obj := mkObj { o_buf : nat; o_off : nat; o_shape : list nat; o_dt : dtype;
                      o_wr : bool;      (* flags.writeable *)
                      o_map : bool;     (* backed by a copy-on-write mmap of the file *)
                      o_rev : list bool }.  (* a view with negative strides: which axes run backwards ([] = none) *)
Record heap := mkHeap { bufs : list (list Z); objs : list obj }.

Definition dummy_obj := mkObj 0 0 [] F8 false false [].
Definition get_obj (h : heap) (o : nat) : obj := nth o (objs h) dummy_obj.
(* reversal of some axes of an array held as a list in logical Fortran order; the shape and the
   mask are given LAST AXIS FIRST (the last axis is the outermost in Fortran order) *)
Fixpoint chunks {A} (bs : nat) (d : nat) (v : list A) : list (list A) :=
  match d with O => [] | S d' => firstn bs v :: chunks bs d' (skipn bs v) end.
Fixpoint rev_ax {A} (rmask : list bool) (rsh : list nat) (v : list A) : list A :=
  match rmask with
  | [] => v
  | m :: rmask' =>
    match rsh with
    | [] => v
    | d :: rsh' =>
      let blocks := map (rev_ax rmask' rsh') (chunks (size rsh') d v) in
      concat (if m then rev blocks else blocks)
    end
  end.
(* the elements selected by (new shape, offset of the first one, reversed axes) *)
Definition pick {A} (mk : list bool) (sh : list nat) (off : nat) (v : list A) : list A :=
  rev_ax (rev mk) (rev sh) (firstn (size sh) (skipn off v)).

Definition obj_vals (h : heap) (ob : obj) : list Z :=
  pick (o_rev ob) (o_shape ob) (o_off ob) (nth (o_buf ob) (bufs h) []).
(* position, in its buffer, of the element [0,...,0] of the array *)
Definition first_pos (ob : obj) : nat :=
  (o_off ob + hd O (rev_ax (rev (o_rev ob)) (rev (o_shape ob)) (seq 0 (size (o_shape ob)))))%nat.

(* a new array owning a new buffer *)
Definition alloc (h : heap) (vals : list Z) (sh : list nat) (dt : dtype) (wr mp : bool) : heap * nat :=
  (mkHeap (bufs h ++ [vals]) (objs h ++ [mkObj (length (bufs h)) 0 sh dt wr mp []]), length (objs h)).
(* a new array object that is a view of [base] *)
Definition alloc_view (h : heap) (base : obj) (off : nat) (sh : list nat) (mk : list bool) : heap * nat :=
  (mkHeap (bufs h) (objs h ++ [mkObj (o_buf base) (o_off base + off) sh (o_dt base) (o_wr base) (o_map base) mk]),
   length (objs h)).

Fixpoint upd {A} (n : nat) (f : A -> A) (l : list A) : list A :=
  match l, n with
  | [], _ => []
  | x :: r, O => f x :: r
  | x :: r, S n' => x :: upd n' f r
  end.

(* ---- slicers used on dataobj: [...] (all of it), [..., 1], and full-length slices that run some
   axes backwards ([::-1], [:, ::-1], [..., ::-1], ...; one flag per axis, at least one set) *)
Inductive slicer := SFull | SLast1 | SRev (mk : list bool).
(* new shape, offset of the first selected element in logical F order and reversed axes;
   None = IndexError *)
Definition sel_off (sl : slicer) (sh : list nat) : option (list nat * nat * list bool) :=
  match sl with
  | SFull => Some (sh, O, [])
  | SLast1 => match rev sh with
              | [] => None
              | last :: _ => if (2 <=? last)%nat then Some (removelast sh, size (removelast sh), []) else None
              end
  | SRev mk => if Nat.eqb (length mk) (length sh) then Some (sh, O, mk) else None
  end.
Definition is_full (sl : slicer) : bool := match sl with SFull => true | _ => false end.

(* ---- headers (only the fields that could matter to a read) *)
Record hdr := mkHdr { h_shape : list nat; h_dt : dtype; h_off : Z; h_scl : option (Z * Z) }.
Definition set_scl (s : option (Z * Z)) (h : hdr) := mkHdr (h_shape h) (h_dt h) (h_off h) s.
Definition set_shape (sh : list nat) (h : hdr) := mkHdr sh (h_dt h) (h_off h) (h_scl h).
Definition set_dt (d : dtype) (h : hdr) := mkHdr (h_shape h) d (h_off h) (h_scl h).
Definition set_off (o : Z) (h : hdr) := mkHdr (h_shape h) (h_dt h) o (h_scl h).

(* ArrayProxy.__init__: values copied out of the header *)
Record pspec := mkSpec { p_shape : list nat; p_dt : dtype; p_off : Z; p_slope : Z; p_inter : Z; p_mmap : bool }.
Definition spec_of_header (h : hdr) (mm : bool) : pspec :=
  match h_scl h with
  | None => mkSpec (h_shape h) (h_dt h) (h_off h) 1 0 mm
  | Some (s, i) => mkSpec (h_shape h) (h_dt h) (h_off h) s i mm
  end.

(* the data file: stored values from the data offset on, and whether it is compressed *)
Record file := mkFile { f_gz : bool; f_vals : list Z }.

Inductive dataobj := DArr (o : nat) | DProxy (p : pspec).

Record cstate := mkC { c_heap : heap; c_file : file; c_dobj : dataobj;
                       c_fcache : option nat;     (* _fdata_cache *)
                       c_dcache : option nat;     (* _data_cache (legacy) *)
                       c_hdr : hdr;               (* img.header (the image's own copy) *)
                       c_orig : hdr;              (* the header object the image was created from *)
                       c_last : option nat;       (* the array returned last (the user's reference) *)
                       c_expired : bool }.        (* platform fact: nibabel version >= 5.0, get_data() raises *)

(* ---- operations *)
Inductive caching := Fill | Unchanged.
Inductive op :=
| GetFdata (c : caching) (dt : dtype)
| FdataBroken (c : caching) (dt : dtype)   (* get_fdata(c, dt) while the backing file cannot be opened *)
| AsArray                    (* np.asarray(img.dataobj) *)
| Slice (sl : slicer)        (* img.dataobj[sl] *)
| Uncache
| EditLast                   (* last_result[0,...,0] += 7 *)
| InMemory
| GetData (c : caching)      (* legacy get_data(caching): raises when expired (version >= 5.0) *)
| HdrScl (s : option (Z * Z)) | HdrShape (sh : list nat) | HdrDt (d : dtype)     (* edits of img.header *)
| OrigScl (s : option (Z * Z)) | OrigShape (sh : list nat) | OrigDt (d : dtype)  (* edits of the original header object *)
| ReadHdr                    (* observe img.header *)
| ReadSpec.                  (* observe dataobj.shape / dtype / slope / inter *)

Inductive err := ENotFloat | EExpired | EReadOnly | EIndex | EShortFile | EUnreadable.
Inductive out :=
| ONone
| OArr (o : nat)
| OBool (b : bool)
| OHdr (h : hdr)
| OSpec (sh : list nat) (d : dtype) (sl i : Z)
| ORefused (e : err).

Definition is_hdr_op (o : op) : bool :=
  match o with
  | HdrScl _ | HdrShape _ | HdrDt _ | OrigScl _ | OrigShape _ | OrigDt _ | ReadHdr => true
  | _ => false
  end.

(* ---- reads *)
Definition scaledp (p : pspec) : bool := negb ((p_slope p =? 1) && (p_inter p =? 0)).

(* ArrayProxy._get_scaled(dtype, slicer) followed, for __array__, by astype(dtype, copy=False).
   One allocation per read: array_from_file / fileslice give a new object; apply_read_scaling
   with (1,0) and astype(copy=False) to the same dtype return their argument. *)
Definition proxy_read (h : heap) (f : file) (p : pspec) (dt : option dtype) (sl : slicer)
  : (heap * nat) + err :=
  match sel_off sl (p_shape p) with
  | None => inr EIndex                                   (* canonical_slicers, before any read *)
  | Some (sh, off, mk) =>
    if (length (f_vals f) <? size (p_shape p))%nat then inr EShortFile else
    let v := pick mk sh off (firstn (size (p_shape p)) (f_vals f)) in
    (* array_from_file: memmap mode 'c' when mmap and the file is not compressed, else a
       bytearray-backed array - both writable, both a new object; fileslice: read-only *)
    let full := is_full sl in
    let mapped := full && p_mmap p && negb (f_gz f) in
    if scaledp p then
      (* arr * slope + inter in float64; then astype(promote(f8,dt)) and astype(dt) *)
      let v' := map (fun x => x * p_slope p + p_inter p) v in
      inl (alloc h v' sh (match dt with None => F8 | Some d => d end) true false)
    else
      match dt with
      | None => inl (alloc h v sh (p_dt p) full mapped)
      | Some d => if dtype_eqb d (p_dt p) then inl (alloc h v sh (p_dt p) full mapped)
                  else inl (alloc h v sh d true false)
      end
  end.

(* np.asanyarray(dataobj, dtype) *)
Definition asanyarray (st : cstate) (dt : option dtype) : (heap * nat) + err :=
  match c_dobj st with
  | DArr o =>
    let ob := get_obj (c_heap st) o in
    match dt with
    | None => inl (c_heap st, o)
    | Some d => if dtype_eqb d (o_dt ob) then inl (c_heap st, o)       (* the image's own array *)
                else inl (alloc (c_heap st) (obj_vals (c_heap st) ob) (o_shape ob) d true false)
    end
  | DProxy p =>
    proxy_read (c_heap st) (c_file st) p dt SFull
  end.

Definition getitem (st : cstate) (sl : slicer) : (heap * nat) + err :=
  match c_dobj st with
  | DArr o =>
    let ob := get_obj (c_heap st) o in
    match sel_off sl (o_shape ob) with
    | None => inr EIndex
    | Some (sh, off, mk) => inl (alloc_view (c_heap st) ob off sh mk)
    end
  | DProxy p =>
    proxy_read (c_heap st) (c_file st) p None sl
  end.

Definition with_heap_last (st : cstate) (h : heap) (o : nat) : cstate :=
  mkC h (c_file st) (c_dobj st) (c_fcache st) (c_dcache st) (c_hdr st) (c_orig st) (Some o) (c_expired st).
Definition with_fcache (st : cstate) (c : option nat) : cstate :=
  mkC (c_heap st) (c_file st) (c_dobj st) c (c_dcache st) (c_hdr st) (c_orig st) (c_last st) (c_expired st).
Definition with_dcache (st : cstate) (c : option nat) : cstate :=
  mkC (c_heap st) (c_file st) (c_dobj st) (c_fcache st) c (c_hdr st) (c_orig st) (c_last st) (c_expired st).
Definition with_hdr (st : cstate) (h : hdr) : cstate :=
  mkC (c_heap st) (c_file st) (c_dobj st) (c_fcache st) (c_dcache st) h (c_orig st) (c_last st) (c_expired st).
Definition with_orig (st : cstate) (h : hdr) : cstate :=
  mkC (c_heap st) (c_file st) (c_dobj st) (c_fcache st) (c_dcache st) (c_hdr st) h (c_last st) (c_expired st).

Definition is_some {A} (o : option A) : bool := match o with Some _ => true | None => false end.
Definition is_arr (d : dataobj) : bool := match d with DArr _ => true | DProxy _ => false end.

(* get_fdata; [broken]: every attempt to open the image file raises (FileNotFoundError / OSError) -
   nothing has been assigned yet when np.asanyarray raises, so the state is untouched *)
Definition fdata_step (broken : bool) (st : cstate) (c : caching) (dt : dtype) : cstate * out :=
    if negb (is_float dt) then (st, ORefused ENotFloat) else
    let hit := match c_fcache st with
               | Some k => if dtype_eqb (o_dt (get_obj (c_heap st) k)) dt then Some k else None
               | None => None
               end in
    match hit with
    | Some k => (with_heap_last st (c_heap st) k, OArr k)
    | None =>
      match (if broken && negb (is_arr (c_dobj st)) then inr EUnreadable else asanyarray st (Some dt)) with
      | inr e => (st, ORefused e)
      | inl (h, r) =>
        let st1 := with_heap_last st h r in
        (match c with Fill => with_fcache st1 (Some r) | Unchanged => st1 end, OArr r)
      end
    end.

Definition cstep (st : cstate) (o : op) : cstate * out :=
  match o with
  | GetFdata c dt => fdata_step false st c dt
  | FdataBroken c dt => fdata_step true st c dt
  | AsArray =>
    match asanyarray st None with
    | inr e => (st, ORefused e)
    | inl (h, r) => (with_heap_last st h r, OArr r)
    end
  | Slice sl =>
    match getitem st sl with
    | inr e => (st, ORefused e)
    | inl (h, r) => (with_heap_last st h r, OArr r)
    end
  | Uncache => (mkC (c_heap st) (c_file st) (c_dobj st) None None (c_hdr st) (c_orig st) (c_last st) (c_expired st), ONone)
  | EditLast =>
    match c_last st with
    | None => (st, ONone)
    | Some k =>
      let ob := get_obj (c_heap st) k in
      if o_wr ob then
        let h' := mkHeap (upd (o_buf ob) (upd (first_pos ob) (fun x => x + 7)) (bufs (c_heap st))) (objs (c_heap st)) in
        (mkC h' (c_file st) (c_dobj st) (c_fcache st) (c_dcache st) (c_hdr st) (c_orig st) (c_last st) (c_expired st), ONone)
      else (st, ORefused EReadOnly)
    end
  | InMemory => (st, OBool (is_arr (c_dobj st) || is_some (c_fcache st) || is_some (c_dcache st)))
  | GetData c =>
    if c_expired st then (st, ORefused EExpired) else
    match c_dcache st with
    | Some k => (with_heap_last st (c_heap st) k, OArr k)
    | None =>
      match asanyarray st None with
      | inr e => (st, ORefused e)
      | inl (h, r) =>
        let st1 := with_heap_last st h r in
        (match c with Fill => with_dcache st1 (Some r) | Unchanged => st1 end, OArr r)
      end
    end
  | HdrScl s => (with_hdr st (set_scl s (c_hdr st)), ONone)
  | HdrShape sh => (with_hdr st (set_shape sh (c_hdr st)), ONone)
  | HdrDt d => (with_hdr st (set_dt d (c_hdr st)), ONone)
  | OrigScl s => (with_orig st (set_scl s (c_orig st)), ONone)
  | OrigShape sh => (with_orig st (set_shape sh (c_orig st)), ONone)
  | OrigDt d => (with_orig st (set_dt d (c_orig st)), ONone)
  | ReadHdr => (st, OHdr (c_hdr st))
  | ReadSpec =>
    match c_dobj st with
    | DArr k => let ob := get_obj (c_heap st) k in (st, OSpec (o_shape ob) (o_dt ob) 1 0)
    | DProxy p => (st, OSpec (p_shape p) (p_dt p) (p_slope p) (p_inter p))
    end
  end.

Fixpoint crun (st : cstate) (ops : list op) : cstate * list out :=
  match ops with
  | [] => (st, [])
  | o :: r => let '(st1, x) := cstep st o in let '(st2, xs) := crun st1 r in (st2, x :: xs)
  end.

(* ---- constructors of the two kinds of image *)
(* Nifti1Image(arr, affine, header=h0): the array is used as it is; the header is copied
   (from_header), its shape harmonised with the data (update_header), scaling and offset reset *)
Definition init_array (vals : list Z) (sh : list nat) (dt : dtype) (h0 : hdr) (expired : bool) : cstate :=
  mkC (mkHeap [vals] [mkObj 0 0 sh dt true false []]) (mkFile false []) (DArr 0%nat) None None
      (set_scl None (set_off 0 (set_shape sh h0))) h0 None expired.
(* proxy = ArrayProxy(file, h0, mmap=mm); image = Nifti1Image(proxy, affine, header=h0)
   (what from_file_map does with header / header.copy()) *)
Definition init_proxy (f : file) (h0 : hdr) (mm : bool) (expired : bool) : cstate :=
  let p := spec_of_header h0 mm in
  mkC (mkHeap [] []) f (DProxy p) None None
      (set_scl None (set_off 0 (set_shape (p_shape p) h0))) h0 None expired.

(* =========================================================================== *)
(* The abstract specification: the documented rules (doc/source/images_and_memory.rst and
   the get_fdata / uncache docstrings).  An image is an array image (it has its own array) or
   a proxy image (a file whose values were fixed at load time); it has one cache slot holding
   an array and the dtype it was cached for, and (while get_data() is not expired) a separate
   slot for get_data reads ("There are separate caches for get_data reads and get_fdata
   reads").  There is no header, no frozen spec, no raw file. *)
Inductive skind :=
| SArr (own : nat)
| SProxy (sh : list nat) (vals : list Z) (ndt : dtype) (scaled mapped : bool)
| SBroken (sh : list nat).      (* the file is shorter than its header says: every read is refused *)
Record sstate := mkS { s_heap : heap; s_kind : skind; s_cache : option (nat * dtype); s_dcache : option nat;
                       s_last : option nat; s_expired : bool }.

(* a fresh read of a proxy image: always a new array holding the file's values *)
Definition spec_read (h : heap) (sh : list nat) (vals : list Z) (ndt : dtype) (scaled mapped : bool)
           (dt : option dtype) (sl : slicer) : (heap * nat) + err :=
  match sel_off sl sh with
  | None => inr EIndex
  | Some (sh', off, mk) =>
    let v := pick mk sh' off vals in
    let full := is_full sl in
    let natural := match dt with None => true | Some d => dtype_eqb d ndt end in
    if natural then inl (alloc h v sh' ndt (full || scaled) (full && mapped && negb scaled))
    else inl (alloc h v sh' (match dt with Some d => d | None => ndt end) true false)
  end.

Definition spec_fresh (st : sstate) (dt : option dtype) : (heap * nat) + err :=
  match s_kind st with
  | SArr own =>
    let ob := get_obj (s_heap st) own in
    match dt with
    | None => inl (s_heap st, own)
    | Some d => if dtype_eqb d (o_dt ob) then inl (s_heap st, own)      (* the image's own array *)
                else inl (alloc (s_heap st) (obj_vals (s_heap st) ob) (o_shape ob) d true false)
    end
  | SProxy sh vals ndt sc mp => spec_read (s_heap st) sh vals ndt sc mp dt SFull
  | SBroken sh => inr EShortFile
  end.

Definition spec_slice (st : sstate) (sl : slicer) : (heap * nat) + err :=
  match s_kind st with
  | SArr own =>
    let ob := get_obj (s_heap st) own in
    match sel_off sl (o_shape ob) with
    | None => inr EIndex
    | Some (sh, off, mk) => inl (alloc_view (s_heap st) ob off sh mk)
    end
  | SProxy sh vals ndt sc mp => spec_read (s_heap st) sh vals ndt sc mp None sl
  | SBroken sh => match sel_off sl sh with None => inr EIndex | Some _ => inr EShortFile end
  end.

Definition s_with (st : sstate) (h : heap) (o : nat) : sstate :=
  mkS h (s_kind st) (s_cache st) (s_dcache st) (Some o) (s_expired st).

(* header operations are invisible to the specification (ReadHdr is not a data access: its
   output is not covered by the refinement and is compared directly by the harness) *)
Definition s_is_arr (k : skind) : bool := match k with SArr _ => true | _ => false end.
Definition s_fdata_step (broken : bool) (st : sstate) (c : caching) (dt : dtype) : sstate * out :=
    if negb (is_float dt) then (st, ORefused ENotFloat) else
    match (match s_cache st with Some (k, d) => if dtype_eqb d dt then Some k else None | None => None end) with
    | Some k => (s_with st (s_heap st) k, OArr k)
    | None =>
      (* a read that fails is a no-op: cache, its contents and in_memory stay as they were *)
      match (if broken && negb (s_is_arr (s_kind st)) then inr EUnreadable else spec_fresh st (Some dt)) with
      | inr e => (st, ORefused e)
      | inl (h, r) =>
        let st1 := s_with st h r in
        (match c with Fill => mkS h (s_kind st) (Some (r, dt)) (s_dcache st) (Some r) (s_expired st) | Unchanged => st1 end, OArr r)
      end
    end.

Definition sstep (st : sstate) (o : op) : sstate * out :=
  match o with
  | GetFdata c dt => s_fdata_step false st c dt
  | FdataBroken c dt => s_fdata_step true st c dt
  | AsArray =>
    match spec_fresh st None with
    | inr e => (st, ORefused e)
    | inl (h, r) => (s_with st h r, OArr r)
    end
  | Slice sl =>
    match spec_slice st sl with
    | inr e => (st, ORefused e)
    | inl (h, r) => (s_with st h r, OArr r)
    end
  | Uncache => (mkS (s_heap st) (s_kind st) None None (s_last st) (s_expired st), ONone)
  | EditLast =>
    match s_last st with
    | None => (st, ONone)
    | Some k =>
      let ob := get_obj (s_heap st) k in
      if o_wr ob then
        (mkS (mkHeap (upd (o_buf ob) (upd (first_pos ob) (fun x => x + 7)) (bufs (s_heap st))) (objs (s_heap st)))
             (s_kind st) (s_cache st) (s_dcache st) (s_last st) (s_expired st), ONone)
      else (st, ORefused EReadOnly)
    end
  | InMemory => (st, OBool (match s_kind st with
                            | SArr _ => true
                            | _ => is_some (s_cache st) || is_some (s_dcache st)
                            end))
  | GetData c =>
    if s_expired st then (st, ORefused EExpired) else
    match s_dcache st with
    | Some k => (s_with st (s_heap st) k, OArr k)
    | None =>
      match spec_fresh st None with
      | inr e => (st, ORefused e)
      | inl (h, r) =>
        (match c with Fill => mkS h (s_kind st) (s_cache st) (Some r) (Some r) (s_expired st) | Unchanged => s_with st h r end, OArr r)
      end
    end
  | _ => (st, ONone)
  end.

Fixpoint srun (st : sstate) (ops : list op) : sstate * list out :=
  match ops with
  | [] => (st, [])
  | o :: r => let '(st1, x) := sstep st o in let '(st2, xs) := srun st1 r in (st2, x :: xs)
  end.

(* the abstraction: forget headers, the frozen spec and the raw file; a proxy's values are the
   stored values scaled by the spec the proxy copied at construction *)
Definition scale_vals (p : pspec) (f : file) : list Z :=
  map (fun x => x * p_slope p + p_inter p) (firstn (size (p_shape p)) (f_vals f)).
Definition abs_kind (d : dataobj) (f : file) : skind :=
  match d with
  | DArr o => SArr o
  | DProxy p =>
    if (length (f_vals f) <? size (p_shape p))%nat then SBroken (p_shape p) else
    if scaledp p then SProxy (p_shape p) (scale_vals p f) F8 true (p_mmap p && negb (f_gz f))
    else SProxy (p_shape p) (firstn (size (p_shape p)) (f_vals f)) (p_dt p) false (p_mmap p && negb (f_gz f))
  end.
Definition abs (st : cstate) : sstate :=
  mkS (c_heap st) (abs_kind (c_dobj st) (c_file st))
      (match c_fcache st with Some k => Some (k, o_dt (get_obj (c_heap st) k)) | None => None end)
      (c_dcache st) (c_last st) (c_expired st).

(* outputs with the header observations blanked (what the refinement compares) *)
Definition data_out (x : out) : out := match x with OHdr _ | OSpec _ _ _ _ => ONone | _ => x end.

(* ---- driver entry: run a whole case and return the outputs with the final heap *)
Definition run_case (st : cstate) (ops : list op) : list out * heap * file :=
  let '(st', outs) := crun st ops in (outs, c_heap st', c_file st').
