(* C03/LemmasS.v — the concrete (bit-exact, Flocq) element arithmetic of ModelS.v plugged into the
   proxy model: partial reads commute with it, and the result dtype does not depend on the index. *)
From Coq Require Import ZArith List Bool Lia.
From NV Require Import Base.PySlice C06.Model C06.Lemmas C03.Model C03.Lemmas C03.ModelS.
Import ListNotations.
Open Scope Z_scope.

(* ---- the dtype of an element's result is the plan's dtype *)
Lemma op_step_dtype op f d v : fst (op_step op f (d, v)) = match f with None => d | Some f => DF (promote d (f_k f)) end.
Proof. destruct f; reflexivity. Qed.

Lemma run_ops_dtype m a d v : fst (run_ops m a (d, v)) = dtype_after d m a.
Proof.
  unfold run_ops, dtype_after.
  destruct (op_step ModelF.fmul m (d, v)) as [d1 v1] eqn:E.
  pose proof (op_step_dtype ModelF.fmul m d v) as H1. rewrite E in H1. cbn [fst] in H1.
  rewrite op_step_dtype. now rewrite H1.
Qed.

Lemma to_req_dtype req dv : fst (to_req req dv) = match req with None => fst dv | Some q => DF q end.
Proof. destruct req; reflexivity. Qed.

Theorem scaled_elem_dtype d slope inter req v dt x :
  scaled_elem d slope inter req v = Some (dt, x) -> scaled_dtype d slope inter req = Some dt.
Proof.
  unfold scaled_elem, scaled_dtype. intros H.
  destruct req as [q|].
  - destruct (plan_of d slope inter (Some q)) as [|m a|]; inversion H as [H1];
      pose proof (to_req_dtype (Some q)) as T; cbn in T.
    + specialize (T (d, v)). rewrite H1 in T. cbn in T. now subst.
    + specialize (T (run_ops m a (d, v))). rewrite H1 in T. cbn in T. now subst.
  - destruct (plan_of d slope inter None) as [|m a|]; inversion H as [H1]; cbn [to_req] in *.
    + reflexivity.
    + pose proof (run_ops_dtype m a d v) as T. rewrite H1 in T. cbn in T. now subst.
Qed.

(* overflow is decided before any element is touched: all elements or none *)
Theorem scaled_elem_none_iff d slope inter req v :
  scaled_elem d slope inter req v = None <-> scaled_dtype d slope inter req = None.
Proof.
  unfold scaled_elem, scaled_dtype.
  destruct req as [q|]; destruct (plan_of d slope inter _); split; intros H; try discriminate; reflexivity.
Qed.

Definition dtype_is (dt : option sdt) (r : option (sdt * sval)) : Prop := option_map fst r = dt.

Lemma scaled_elem_dtype_is d slope inter req v : dtype_is (scaled_dtype d slope inter req) (scaled_elem d slope inter req v).
Proof.
  unfold dtype_is. destruct (scaled_elem d slope inter req v) as [[dt x]|] eqn:E.
  - cbn. symmetry. exact (scaled_elem_dtype _ _ _ _ _ _ _ E).
  - cbn. symmetry. now apply scaled_elem_none_iff in E.
Qed.

(* ---- plugged into the proxy: `decode` turns the w bytes of an element into its value (C10) *)
Section Concrete.
Variable decode : list Z -> sval.
Variables (d : sdt) (slope inter : fac) (req : option C02.ModelF.fid).

Definition sc (_ : unit) (e : list Z) : option (sdt * sval) := scaled_elem d slope inter req (decode e).

(* proxy[ix] (req = None) / np.asarray(proxy, dtype=req)[ix], bit for bit: the partial read of the
   scaled array is the elementwise scaling of the partial read — for the concrete IEEE arithmetic *)
Theorem scaled_partial_read_bitexact rd file mm shape w off o ix c :
  unscaled_hyps rd file mm shape w off ix c ->
  ap_getitem rd sc mm shape w off o tt ix
  = Ok (np_index None o shape c (map (sc tt) (array_elems file shape w off)))
  /\ snd (np_index None o shape c (map (sc tt) (array_elems file shape w off)))
     = map (sc tt) (snd (np_index [] o shape c (array_elems file shape w off))).
Proof.
  intros H. split; [now apply ap_getitem_spec|].
  destruct H as (Hr & Hw & Ho & Hc & Hv & Hfit & Hok).
  rewrite (np_index_map (sc tt) [] None) by
    (try assumption; apply length_array_elems; try assumption; now apply (ix_valid_shape_nonneg c)).
  reflexivity.
Qed.

(* the dtype of every element of every valid partial read is scaled_dtype d slope inter req: a function
   of the on-disk dtype, the factors and the requested dtype — not of the index, the shape or the data *)
Theorem result_dtype_index_independent rd mm shape w off o ix r :
  ap_getitem rd sc mm shape w off o tt ix = Ok r ->
  Forall (dtype_is (scaled_dtype d slope inter req)) (snd r).
Proof.
  intros E. unfold ap_getitem in E.
  destruct (ap_unscaled rd mm shape w off o ix) as [u|e]; [|discriminate]. cbn [bind] in E.
  inversion E. subst r. cbn [snd]. apply Forall_forall. intros x Hx.
  apply in_map_iff in Hx. destruct Hx as (e & <- & _). apply scaled_elem_dtype_is.
Qed.
End Concrete.
