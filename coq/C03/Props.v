(* C03/Props.v — property theorems only (each closed by `exact`, Print Assumptions beneath).
   Property C03: array proxies — file scaling applied exactly; partial reads equal slicing.

   Conventions.  `scale : F -> list Z -> R` is ANY pointwise function of a factor and a raw
   element (its w-byte block): the theorems say which element and which factor reach each
   output position, not how floats round (C02).  `rd` is ANY reader with the contract
   reader_ok rd file := forall o l, rd o l = fread_at file o l ("seek(o); read(l) returns
   those bytes of the uncompressed stream"): mmap / keep_file_open / compression /
   indexed_gzip / path-vs-fileobj enter only through it and through the flag mm ("np.memmap
   was used").  np_index is the NumPy-indexing yardstick of C06 (Base/PySlice.v), validated
   against NumPy on every run.  unscaled_hyps = reader contract, 0 < itemsize, 0 <= offset,
   the canonical index c of ix is valid (ints in range, non-zero steps, rank matches), the
   file holds the array, and — only when ix selects the whole array — whole_ok mm shape
   (memmap used, or the proxy is not rank-0; every image proxy has rank >= 1: see
   C03_mmap_rank0_refuted).  Zero-length axes are covered (fix 599d4b17). *)
From Coq Require Import ZArith List Bool Lia.
From NV Require Import Base.PySlice C06.Model C06.Lemmas C03.Model C03.Lemmas C03.ModelS C03.LemmasS C03.LemmasP.
Import ListNotations.
Open Scope Z_scope.

(* ---- proxy[ix] = np.asarray(proxy)[ix]: generic ArrayProxy (NIfTI/Analyze/SPM/MGH, and the
   CIFTI-2 reshaped proxy), either memory order, one slope/intercept *)
Theorem C03_getitem_eq_index_single :
  forall (F R : Type) (scale : F -> list Z -> R) (dR : R) rd file mm shape w off o f ix c,
  unscaled_hyps rd file mm shape w off ix c ->
  ap_getitem rd scale mm shape w off o f ix
  = Ok (np_index dR o shape c (map (scale f) (array_elems file shape w off))).
Proof. exact @ap_getitem_spec. Qed.
Print Assumptions C03_getitem_eq_index_single.

(* ---- indexing commutes with ANY elementwise function (either memory order) *)
Theorem C03_index_commutes_with_elementwise :
  forall (A B : Type) (g : A -> B) (dA : A) (dB : B) o shape c (l : list A),
  ix_valid shape c -> zlen l = prod shape ->
  np_index dB o shape c (map g l) = (fst (np_index dA o shape c l), map g (snd (np_index dA o shape c l))).
Proof. exact @np_index_map. Qed.
Print Assumptions C03_index_commutes_with_elementwise.

(* ---- ... instantiated with the CONCRETE IEEE-754 arithmetic of ArrayProxy._get_scaled /
   apply_read_scaling (ModelS.v: Flocq binary32/binary64/x87, dtype selection by can_cast and
   int_scinter_ftype, the (1,0) shortcut, raw*slope then +inter in the promoted precision, the
   final casts for a requested dtype): proxy[ix] — or np.asarray(proxy, dtype=req)[ix] — is, bit
   for bit, the elementwise scaling of the raw partial read.  `decode` (bytes of one element ->
   its value) is any function (C10). *)
Theorem C03_scaled_partial_read_bitexact :
  forall (decode : list Z -> sval) d slope inter req rd file mm shape w off o ix c,
  unscaled_hyps rd file mm shape w off ix c ->
  ap_getitem rd (sc decode d slope inter req) mm shape w off o tt ix
  = Ok (np_index None o shape c (map (sc decode d slope inter req tt) (array_elems file shape w off)))
  /\ snd (np_index None o shape c (map (sc decode d slope inter req tt) (array_elems file shape w off)))
     = map (sc decode d slope inter req tt) (snd (np_index [] o shape c (array_elems file shape w off))).
Proof. exact scaled_partial_read_bitexact. Qed.
Print Assumptions C03_scaled_partial_read_bitexact.

(* ---- the result dtype (and whether scaling overflows every float type) is a function of the
   on-disk dtype, the two factors and the requested dtype only: every element of every partial
   read — any index, shape, order, reader, data — carries scaled_dtype d slope inter req *)
Theorem C03_result_dtype_index_independent :
  forall (decode : list Z -> sval) d slope inter req rd mm shape w off o ix r,
  ap_getitem rd (sc decode d slope inter req) mm shape w off o tt ix = Ok r ->
  Forall (dtype_is (scaled_dtype d slope inter req)) (snd r).
Proof. exact result_dtype_index_independent. Qed.
Print Assumptions C03_result_dtype_index_independent.

Theorem C03_scaled_elem_dtype : forall d slope inter req v dt x,
  scaled_elem d slope inter req v = Some (dt, x) -> scaled_dtype d slope inter req = Some dt.
Proof. exact scaled_elem_dtype. Qed.
Print Assumptions C03_scaled_elem_dtype.

(* ---- the same at the bit level for the proxies with PER-SLAB factors: every output element of
   proxy[ix] is the format's concrete IEEE element formula (ModelS.v) applied to ONE raw element
   with the factors of that element's OWN sub-brick / REC record / frame / image-min-max slab —
   for every valid index, whether it keeps, strides, reverses or drops (integer index) the scaled
   axis.  offs shape c 1 lists the source offsets of the output elements in order. *)
Theorem C03_afni_bitexact :
  forall (decode : list Z -> sval) d noscale dF rd file mm shape w off fl ix c,
  unscaled_hyps rd file mm shape w off ix c ->
  afni_getitem rd (afni_sc decode d) noscale dF mm shape w off (Some fl) ix
  = Ok (np_shape shape c,
        map (fun o => afni_elem d (nth (Z.to_nat (o / prod (removelast shape))) fl dF)
                                  (decode (nth (Z.to_nat o) (array_elems file shape w off) [])))
            (offs shape c 1)).
Proof. exact afni_bitexact. Qed.
Print Assumptions C03_afni_bitexact.

(* PAR/REC: sorted slab o div (x*y) IS record ind[o div (x*y)] (C03_parrec_raw_is_record) and is
   scaled with that record's (slope, intercept) *)
Theorem C03_parrec_bitexact :
  forall (decode : list Z -> sval) d dF rd file mm shape nrec ind w facs ix c,
  parrec_hyps rd file mm shape nrec ind w ix c ->
  parrec_getitem rd (parrec_sc decode d) dF mm shape nrec ind w facs ix
  = Ok (np_shape shape c,
        map (fun o => let rec_no := nth (Z.to_nat (o / prod (firstn 2 shape))) ind 0 in
                      parrec_elem d (fst (nth (Z.to_nat rec_no) facs dF)) (snd (nth (Z.to_nat rec_no) facs dF))
                                  (decode (nth (Z.to_nat o) (parrec_raw file shape nrec ind w) [])))
            (offs shape c 1)).
Proof. exact parrec_bitexact. Qed.
Print Assumptions C03_parrec_bitexact.

Theorem C03_parrec_raw_is_record :
  forall rd file mm shape nrec ind w ix c o,
  parrec_hyps rd file mm shape nrec ind w ix c -> 0 <= o < prod shape ->
  let m := prod (firstn 2 shape) in
  nth (Z.to_nat o) (parrec_raw file shape nrec ind w) []
  = nth (Z.to_nat (m * nth (Z.to_nat (o / m)) ind 0 + o mod m)) (array_elems file (firstn 2 shape ++ [nrec]) w 0) [].
Proof. exact parrec_raw_nth. Qed.
Print Assumptions C03_parrec_raw_is_record.

Theorem C03_ecat_bitexact :
  forall (decode : list Z -> sval) d dF dR rd file mm A n w fmap foffs facs ix c,
  ecat_hyps rd file mm A n w fmap foffs ->
  canonical_slicers true ix (A ++ [n]) = Ok c -> ix_valid (A ++ [n]) c ->
  ecat_getitem rd (ecat_sc decode d) dF dR mm A n w fmap foffs facs ix
  = Ok (np_shape (A ++ [n]) c,
        map (fun o => let i := o / prod A in
                      ecat_elem d (fst (nth (ecat_rec fmap i) facs dF)) (snd (nth (ecat_rec fmap i) facs dF))
                                (decode (nth (Z.to_nat (o mod prod A)) (array_elems file A w (nth (ecat_rec fmap i) foffs 0)) [])))
            (offs (A ++ [n]) c 1)).
Proof. exact ecat_bitexact. Qed.
Print Assumptions C03_ecat_bitexact.

(* MINC, integer image (C order: offsets over the reversed shape/index) *)
Theorem C03_minc_bitexact :
  forall (decode : list Z -> sval) d noscale dmin dmax dF shape nscales elems facs ix c,
  minc_hyps shape nscales elems facs ix c ->
  minc_getitem (minc_sc decode d dmin dmax) noscale dF false shape nscales elems facs ix
  = Ok (rev (np_shape (rev shape) (rev c)),
        map (fun o => let slab_no := Z.to_nat (o / prod (skipn (Z.to_nat nscales) shape)) in
                      minc_elem d dmin dmax (fst (nth slab_no facs dF)) (snd (nth slab_no facs dF))
                                (decode (nth (Z.to_nat o) elems [])))
            (offs (rev shape) (rev c) 1)).
Proof. exact minc_bitexact. Qed.
Print Assumptions C03_minc_bitexact.

(* ---- per-sub-brick factors on the last axis (AFNIArrayProxy), or no scaling at all *)
Theorem C03_getitem_eq_index_last_axis_factors :
  forall (F R : Type) (scale : F -> list Z -> R) (noscale : list Z -> R) (dF : F) (dR : R)
         rd file mm shape w off facs ix c,
  unscaled_hyps rd file mm shape w off ix c ->
  afni_getitem rd scale noscale dF mm shape w off facs ix
  = Ok (np_index dR OrdF shape c (afni_full scale noscale dF shape facs (array_elems file shape w off))).
Proof. exact @afni_getitem_spec. Qed.
Print Assumptions C03_getitem_eq_index_last_axis_factors.

(* the broadcast factor of the element at last-axis index j is factor j *)
Theorem C03_factor_is_last_axis : forall (F : Type) (dF : F) A n (fl : list F) oa j,
  0 <= oa < prod A -> 0 <= j < n ->
  nth (Z.to_nat (oa + prod A * j)) (bcast dF (A ++ [n]) (prod A) fl) dF = nth (Z.to_nat j) fl dF.
Proof. exact @bcast_last_axis. Qed.
Print Assumptions C03_factor_is_last_axis.

(* ---- ECAT: frames read one by one and assembled; the fully loaded array is the stack of
   the scaled frames.  Any frame shape A, any number of frames n, any frame order table. *)
Theorem C03_getitem_eq_index_ecat :
  forall (F R : Type) (scale : F -> list Z -> R) (dF : F) (dR : R)
         rd file mm A n w fmap foffs facs ix c,
  ecat_hyps rd file mm A n w fmap foffs ->
  canonical_slicers true ix (A ++ [n]) = Ok c -> ix_valid (A ++ [n]) c ->
  ecat_getitem rd scale dF dR mm A n w fmap foffs facs ix
  = Ok (np_index dR OrdF (A ++ [n]) c (flat_map (ecat_fr scale dF dR file A n w fmap foffs facs) (zseq n)))
  /\ ecat_full rd scale dF mm A n w fmap foffs facs
     = Ok (A ++ [n], flat_map (ecat_fr scale dF dR file A n w fmap foffs facs) (zseq n)).
Proof. exact @ecat_getitem_and_full. Qed.
Print Assumptions C03_getitem_eq_index_ecat.

(* the assembly loop (`for out_i, i in enumerate(range(n)[slice3])`: store frame i at OUTPUT
   position out_i along axis slice2outax(...)[3]) fills output block k with frame
   nth k (py_indices n s) sliced by in_slicer = pre ++ post, for EVERY slice s of the frame
   axis — negative steps, non-zero starts, out-of-range bounds, empty selections — and any
   mixture of ints, slices and new axes before it / new axes after it.  `frame` is any
   per-frame reader returning fr i for the frames in range. *)
Theorem C03_ecat_frames :
  forall (R : Type) (dR : R) (frame : Z -> res (list R)) (fr : Z -> list R) A n ix pre s post,
  canonical_slicers true ix (A ++ [n]) = Ok (pre ++ CSl s :: post) ->
  ix_valid A pre -> ix_valid [] post -> 0 <= n -> step_of s <> 0 ->
  (forall i, 0 <= i < n -> frame i = Ok (fr i)) -> (forall i, zlen (fr i) = prod A) ->
  ecat_getitem_f dR frame A n ix
  = Ok (np_shape A pre ++ zlen (py_indices n s) :: repeat 1 (length post),
        flat_map (fun i => snd (np_index_F dR A (pre ++ post) (fr i))) (py_indices n s)).
Proof. exact @ecat_frames_positions. Qed.
Print Assumptions C03_ecat_frames.

(* ---- PAR/REC: records re-ordered by the sorted slice indices `ind`, each with the factors of
   ITS record (slope[reorder]), broadcast over the two in-plane axes; whole-array path, the
   "indices not sequential" path (slice the full array) and the fileslice path.  parrec_hyps =
   reader contract, valid canonical index, the REC file holds nrec records, ind within range
   and as many as the trailing axes need, and (ix = () or ind non-empty: `indices[0]` raises
   on an image without slices). *)
Theorem C03_getitem_eq_index_parrec :
  forall (F R : Type) (scale : F -> list Z -> R) (dF : F) (dR : R)
         rd file mm shape nrec ind w facs ix c,
  parrec_hyps rd file mm shape nrec ind w ix c ->
  parrec_getitem rd scale dF mm shape nrec ind w facs ix
  = Ok (np_index dR OrdF shape c (parrec_full scale dF shape ind facs (parrec_raw file shape nrec ind w))).
Proof. exact @parrec_getitem_spec. Qed.
Print Assumptions C03_getitem_eq_index_parrec.

(* ---- MINC (C order; image-min/-max over the first nscales axes, nscales < rank), full
   statement: every valid index, integers-only ones included (fix 139e21b4) *)
Theorem C03_getitem_eq_index_minc :
  forall (F R : Type) (scale : F -> list Z -> R) (noscale : list Z -> R) (dF : F) (dR : R)
         shape nscales elems facs ix c,
  minc_hyps shape nscales elems facs ix c ->
  minc_getitem scale noscale dF false shape nscales elems facs ix
  = Ok (np_index dR OrdC shape c (minc_full scale dF shape nscales elems facs)).
Proof. exact @minc_getitem_spec. Qed.
Print Assumptions C03_getitem_eq_index_minc.

(* float-typed MINC image (_normalize returns the data as read): unscaled, any valid index *)
Theorem C03_getitem_eq_index_minc_float :
  forall (F R : Type) (scale : F -> list Z -> R) (noscale : list Z -> R) (dF : F) (dR : R)
         shape nscales elems (facs : list F) ix c,
  canonical_slicers true ix shape = Ok c -> ix_valid shape c -> zlen elems = prod shape ->
  minc_getitem scale noscale dF true shape nscales elems facs ix
  = Ok (np_index dR OrdC shape c (map noscale elems)).
Proof. exact @minc_getitem_float_spec. Qed.
Print Assumptions C03_getitem_eq_index_minc_float.

(* ---- scaling applied exactly: np.asarray(proxy) is the pointwise scaling of the stored
   elements, in storage order, with the file's factor(s) *)
Theorem C03_scaling_exact :
  forall (F R : Type) (scale : F -> list Z -> R) (noscale : list Z -> R) (dF : F) (dR : R)
         rd file mm shape w off,
  file_hyps rd file mm shape w off ->
  (forall o f, ap_getitem rd scale mm shape w off o f []
               = Ok (shape, map (scale f) (array_elems file shape w off)))
  /\ (forall facs, afni_getitem rd scale noscale dF mm shape w off facs []
               = Ok (shape, afni_full scale noscale dF shape facs (array_elems file shape w off))).
Proof. exact @scaling_exact. Qed.
Print Assumptions C03_scaling_exact.

(* ---- reshape (CIFTI-2): same bytes, same factors, new shape *)
Theorem C03_reshape_same_bytes :
  forall (F R : Type) (scale : F -> list Z -> R) (dR : R) rd file mm shape ns ns' w off f,
  ap_reshape shape ns = Ok ns' -> file_hyps rd file mm shape w off ->
  Forall (fun n => 0 <= n) ns' -> whole_ok mm ns' ->
  prod ns' = prod shape
  /\ ap_getitem rd scale mm shape w off OrdF f [] = Ok (shape, map (scale f) (array_elems file shape w off))
  /\ ap_getitem rd scale mm ns' w off OrdF f [] = Ok (ns', map (scale f) (array_elems file shape w off)).
Proof. exact @reshape_same_bytes. Qed.
Print Assumptions C03_reshape_same_bytes.

Theorem C03_reshape_resolves_unknown : forall shape ns ns', ap_reshape shape ns = Ok ns' ->
  prod ns' = prod shape /\ length ns' = length ns /\
  (forall k, (k < length ns)%nat -> nth k ns 0 <> -1 -> nth k ns' 0 = nth k ns 0).
Proof. exact ap_reshape_spec. Qed.
Print Assumptions C03_reshape_resolves_unknown.

(* ---- configuration independence: two readers that return the same bytes (whatever the
   opener, compression, accelerator, file-handle policy or initial position behind them) give
   the same result of every proxy operation, for ALL inputs (errors included) *)
Theorem C03_config_independent :
  forall (rd1 rd2 : Z -> Z -> res (list Z)), (forall o l, rd1 o l = rd2 o l) ->
  forall (F R : Type) (scale : F -> list Z -> R) (noscale : list Z -> R) (dF : F) (dR : R),
  (forall mm shape w off o f ix, ap_getitem rd1 scale mm shape w off o f ix = ap_getitem rd2 scale mm shape w off o f ix)
  /\ (forall mm shape w off facs ix, afni_getitem rd1 scale noscale dF mm shape w off facs ix
                                     = afni_getitem rd2 scale noscale dF mm shape w off facs ix)
  /\ (forall mm shape nrec ind w facs ix, parrec_getitem rd1 scale dF mm shape nrec ind w facs ix
                                          = parrec_getitem rd2 scale dF mm shape nrec ind w facs ix)
  /\ (forall mm A n w fmap foffs facs ix, ecat_getitem rd1 scale dF dR mm A n w fmap foffs facs ix
                                          = ecat_getitem rd2 scale dF dR mm A n w fmap foffs facs ix).
Proof. exact config_independent. Qed.
Print Assumptions C03_config_independent.

(* the mmap flag is irrelevant for every valid index of every proxy of rank >= 1, zero-length
   axes included (fix 599d4b17).  FULL STATEMENT over all shapes is false of the faithful model
   only for a rank-0 proxy (shape ()), which no image format produces: array_from_file keeps
   its `len(shape) == 0 -> np.array([])` early return (C03_mmap_rank0_refuted). *)
Theorem C03_mmap_independent_partial :
  forall (F R : Type) (scale : F -> list Z -> R) (dR : R) rd file shape w off o f ix c,
  reader_ok rd file -> 0 < w -> 0 <= off -> canonical_slicers true ix shape = Ok c -> ix_valid shape c ->
  off + w * prod shape <= zlen file ->
  (cidx_list_eqb c (all_none (length shape)) = true -> shape <> []) ->
  ap_getitem rd scale true shape w off o f ix = ap_getitem rd scale false shape w off o f ix.
Proof. exact @mmap_independent. Qed.
Print Assumptions C03_mmap_independent_partial.

(* zero-size arrays: same (empty, correctly shaped) result with and without memmap *)
Example C03_zero_size_mmap_agree :
  ap_getitem (fread_at [7;7;7;7]) (fun (_ : unit) e => e) true [0;3] 2 4 OrdF tt [] = Ok ([0;3], [])
  /\ ap_getitem (fread_at [7;7;7;7]) (fun (_ : unit) e => e) false [0;3] 2 4 OrdF tt [] = Ok ([0;3], []).
Proof. split; vm_compute; reflexivity. Qed.
Print Assumptions C03_zero_size_mmap_agree.

Theorem C03_mmap_rank0_refuted :
  exists ix c, canonical_slicers true ix [] = Ok c /\ ix_validb [] c = true
  /\ ap_getitem (fread_at [7;7;1;2]) (fun (_ : unit) e => e) true [] 2 2 OrdF tt ix = Ok ([], [[1;2]])
  /\ ap_getitem (fread_at [7;7;1;2]) (fun (_ : unit) e => e) false [] 2 2 OrdF tt ix = Ok ([0], []).
Proof. exists [], []. repeat split; vm_compute; reflexivity. Qed.
Print Assumptions C03_mmap_rank0_refuted.

(* non-vacuity: a 3-frame ECAT-like stack, negative-step frame slice with a new axis after it,
   int and stepped slice inside the frame; hypotheses hold and the result is the expected
   non-trivial selection (element index, frame factor) *)
Example C03_nonvacuous :
  let file := index_file 0 2 18 in
  let scale := fun (f : Z) (e : list Z) => (dec_be e, f) in
  let ix := [IInt 1; ISl (mkSl None None (Some 2)); IEll; ISl (mkSl None None (Some (-2))); INew] in
  ecat_hyps (fread_at file) file true [2;3;1] 3 2 [0;1;2] [0;12;24]
  /\ exists c, canonical_slicers true ix [2;3;1;3] = Ok c /\ ix_validb [2;3;1;3] c = true
  /\ ecat_getitem (fread_at file) scale 0 (0,0) true [2;3;1] 3 2 [0;1;2] [0;12;24] [10;11;12] ix
     = Ok ([2;1;2;1], [(13,12);(17,12);(1,10);(5,10)]).
Proof.
  cbv zeta. split.
  - unfold ecat_hyps. split; [intros o l; reflexivity|]. split; [lia|]. split; [repeat constructor; lia|].
    split; [now left|]. split; [reflexivity|]. intros i Hi.
    assert (Hc : i = 0 \/ i = 1 \/ i = 2) by lia. destruct Hc as [ Hc | [ Hc | Hc ] ]; subst i; vm_compute; split; discriminate.
  - eexists. split; [vm_compute; reflexivity|]. split; vm_compute; reflexivity.
Qed.
