(* C03/Extract.v — extraction of the executable model (ExtrOcamlBasic only) *)
Require Extraction. Require ExtrOcamlBasic.
From NV Require Import Base.PySlice C06.Model C03.Model.
Extraction Language OCaml.
Extraction "c03_model.ml" canonical_slicers ap_unscaled ap_getitem afni_getitem parrec_getitem ecat_getitem ecat_full
  minc_getitem minc_full ap_reshape index_file file_reader dec_be enc_be zseq shape_size.
