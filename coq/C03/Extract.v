(* C03/Extract.v — extraction of the executable model (ExtrOcamlBasic only) *)
Require Extraction. Require ExtrOcamlBasic.
From NV Require Import Base.PySlice C06.Model C03.Model.
From NV Require C02.Model C02.Tables C02.ModelF C03.ModelS.
Extraction Language OCaml.
Extraction "c03_model.ml" canonical_slicers ap_unscaled ap_getitem afni_getitem parrec_getitem ecat_getitem ecat_full
  minc_getitem minc_full ap_reshape index_file file_reader dec_be enc_be zseq shape_size
  C03.ModelS.get_scaled C03.ModelS.scaled_dtype C03.ModelS.afni_elem C03.ModelS.parrec_elem C03.ModelS.ecat_elem C03.ModelS.minc_elem
  C02.Tables.all_itys.
