(* C03/Lemmas.v — proofs about the array-proxy model (built on C06's fileslice theorem). *)
From Coq Require Import ZArith List Bool Lia ZifyBool.
From NV Require Import Base.PySlice C06.Model C06.Lemmas C03.Model.
Import ListNotations.
Open Scope Z_scope.

(* ====================================================================================
   Part 0: small list facts *)
Lemma zipw_length {A B C} (f : A -> B -> C) la lb : length la = length lb ->
  length (zipw f la lb) = length la.
Proof. intros H. unfold zipw. rewrite map_length, combine_length. lia. Qed.

Lemma zipw_map {X A B C} (f : A -> B -> C) (g : X -> A) (h : X -> B) l :
  zipw f (map g l) (map h l) = map (fun x => f (g x) (h x)) l.
Proof. unfold zipw. induction l as [|x l IH]; [reflexivity|]. cbn. now rewrite IH. Qed.

Lemma combine_nth_lt {A B} : forall (la : list A) (lb : list B) k dA dB,
  (k < length la)%nat -> (k < length lb)%nat -> nth k (combine la lb) (dA, dB) = (nth k la dA, nth k lb dB).
Proof.
  induction la as [|a la IH]; intros lb k dA dB Ha Hb; [cbn in Ha; lia|].
  destruct lb as [|b lb]; [cbn in Hb; lia|]. destruct k as [|k]; [reflexivity|].
  cbn [combine nth]. apply IH; cbn in *; lia.
Qed.

Lemma nth_zipw {A B C} (f : A -> B -> C) la lb k dA dB dC : (k < length la)%nat -> (k < length lb)%nat ->
  nth k (zipw f la lb) dC = f (nth k la dA) (nth k lb dB).
Proof.
  intros Ha Hb. unfold zipw.
  rewrite (nth_map_in _ (combine la lb) k dC (dA, dB)) by (rewrite combine_length; lia).
  now rewrite combine_nth_lt.
Qed.

Lemma map_nth_zseq {A} (l : list A) d : map (fun o => nth (Z.to_nat o) l d) (zseq (zlen l)) = l.
Proof.
  apply nth_ext with (d := d) (d' := d).
  - rewrite map_length. unfold zseq, zlen. rewrite map_length, seq_length. lia.
  - intros k Hk. rewrite map_length in Hk. unfold zseq, zlen in Hk. rewrite map_length, seq_length in Hk.
    rewrite (nth_map_in _ (zseq (zlen l)) k d 0) by (unfold zseq, zlen; rewrite map_length, seq_length; lia).
    replace k with (Z.to_nat (Z.of_nat k)) at 1 by lia. rewrite nth_zseq by (unfold zlen; lia).
    now rewrite Nat2Z.id.
Qed.

Lemma zlen_nonneg {A} (l : list A) : 0 <= zlen l.
Proof. unfold zlen. lia. Qed.

Lemma zlen_zseq n : 0 <= n -> zlen (zseq n) = n.
Proof. intros. unfold zlen. now apply zseq_length. Qed.

Lemma zlist_eqb_refl l : zlist_eqb l l = true.
Proof. induction l as [|x l IH]; [reflexivity|]. cbn. rewrite Z.eqb_refl. exact IH. Qed.

Lemma zlist_eqb_eq : forall a b, zlist_eqb a b = true -> a = b.
Proof.
  induction a as [|x a IH]; intros [|y b] H; try discriminate; [reflexivity|].
  cbn in H. apply andb_true_iff in H. destruct H as [H1 H2]. apply Z.eqb_eq in H1. subst. f_equal. now apply IH.
Qed.

Lemma opt_eqb_eq a b : opt_eqb a b = true -> a = b.
Proof. destruct a, b; cbn; intros H; try discriminate; [apply Z.eqb_eq in H; now subst|reflexivity]. Qed.

Lemma pslice_eqb_eq s t : pslice_eqb s t = true -> s = t.
Proof.
  destruct s as [a b c], t as [a' b' c']. unfold pslice_eqb. cbn [s_start s_stop s_step]. intros H.
  apply andb_true_iff in H. destruct H as [H H3]. apply andb_true_iff in H. destruct H as [H1 H2].
  apply opt_eqb_eq in H1, H2, H3. now subst.
Qed.

Lemma cidx_list_eqb_eq : forall a b, cidx_list_eqb a b = true -> a = b.
Proof.
  induction a as [|x a IH]; intros [|y b] H; try discriminate; [reflexivity|].
  cbn in H. apply andb_true_iff in H. destruct H as [H1 H2]. f_equal; [|now apply IH].
  destruct x, y; cbn in H1; try discriminate; [apply Z.eqb_eq in H1; now subst|apply pslice_eqb_eq in H1; now subst|reflexivity].
Qed.

Lemma opt_eqb_refl a : opt_eqb a a = true.
Proof. destruct a; cbn; [apply Z.eqb_refl|reflexivity]. Qed.
Lemma cidx_list_eqb_refl a : cidx_list_eqb a a = true.
Proof.
  induction a as [|x a IH]; [reflexivity|]. cbn. rewrite IH, andb_true_r.
  destruct x as [k|s|]; cbn; [apply Z.eqb_refl| |reflexivity].
  unfold pslice_eqb. now rewrite !opt_eqb_refl.
Qed.

(* ====================================================================================
   Part 1: the reader oracle *)
Definition reader_ok (rd : Z -> Z -> res (list Z)) (file : list Z) : Prop :=
  forall o l, rd o l = fread_at file o l.

Lemma read_all_rd_eq rd file segs : reader_ok rd file -> read_all_rd rd segs = read_all file segs.
Proof.
  intros H. induction segs as [|[o l] r IH]; [reflexivity|]. cbn [read_all_rd read_all]. now rewrite H, IH.
Qed.

Lemma read_segments_rd_eq rd file segs n : reader_ok rd file ->
  read_segments_rd rd segs n = read_segments file segs n.
Proof.
  intros H. unfold read_segments_rd, read_segments.
  destruct segs as [|[o l] [|s2 r]]; [reflexivity|now rewrite H|].
  now rewrite (read_all_rd_eq rd file).
Qed.

Lemma fileslice_rd_eq rd file ix shape w off o : reader_ok rd file ->
  fileslice_rd rd ix shape w off o = fileslice file ix shape w off o.
Proof.
  intros H. unfold fileslice_rd, fileslice, fileslice_h.
  destruct (calc_slicedefs ix shape w off o (threshold_heuristic SKIP_THRESH)) as [[[segs rshape] ps]|e]; [|reflexivity].
  cbn [bind]. now rewrite (read_segments_rd_eq rd file).
Qed.

(* reading the whole array's bytes *)
Lemma fread_whole file off n : 0 <= off -> 0 <= n -> off + n <= zlen file ->
  exists b, fread_at file off n = Ok b /\ zlen b = n /\ b = Model.take n (Model.drop off file).
Proof.
  intros Ho Hn Hfit. unfold fread_at. replace (off <? 0) with false by lia. replace (n <? 0) with false by lia.
  eexists. split; [reflexivity|]. split; [|reflexivity].
  unfold Model.take, Model.drop, zlen in *. rewrite firstn_length, skipn_length. lia.
Qed.

(* ====================================================================================
   Part 2: elements of the partial read = NumPy indexing of the element array *)
Lemma length_array_elems file shape w off : 0 < w -> 0 <= off -> Forall (fun n => 0 <= n) shape ->
  off + w * prod shape <= zlen file -> zlen (array_elems file shape w off) = prod shape.
Proof.
  intros Hw Ho Hs Hfit. rewrite array_elems_spec by assumption. rewrite zlen_map. apply zlen_zseq. now apply prod_nonneg.
Qed.

Lemma elems_F file shape w off c : 0 < w -> 0 <= off -> ix_valid shape c ->
  off + w * prod shape <= zlen file ->
  (fst (result_spec file shape w off c), elems_of w (snd (result_spec file shape w off c)))
  = np_index_F [] shape c (array_elems file shape w off).
Proof.
  intros Hw Ho Hv Hfit. unfold result_spec, np_index_F. cbn [fst snd]. f_equal.
  pose proof (ix_valid_shape_nonneg c shape Hv) as Hs.
  unfold elems_of. rewrite (chunks_flat_map (elem_bytes file off w) w Hw) by
    (try (intros; apply zlen_elem_bytes; lia);
     pose proof (zlen_flat_map_const (elem_bytes file off w) w (offs shape c w) ltac:(intros; apply zlen_elem_bytes; lia)) as HL;
     unfold zlen in HL; nia).
  rewrite array_elems_spec by assumption.
  replace (offs shape c w) with (map (fun x => w * x) (offs shape c 1))
    by (rewrite <- offs_scale; f_equal; lia).
  rewrite map_map. apply map_ext_in. intros o Hin. apply (offs_range c shape o Hv) in Hin.
  rewrite (nth_map_in _ (zseq (prod shape)) (Z.to_nat o) [] 0)
    by (pose proof (zseq_length (prod shape) ltac:(lia)); lia).
  now rewrite nth_zseq by lia.
Qed.

Lemma array_elems_rev file shape w off : array_elems file (rev shape) w off = array_elems file shape w off.
Proof. unfold array_elems. now rewrite prod_rev. Qed.

Lemma elems_any o file shape w off c : 0 < w -> 0 <= off -> ix_valid shape c ->
  off + w * prod shape <= zlen file ->
  (fst (result_of o file shape w off c), elems_of w (snd (result_of o file shape w off c)))
  = np_index [] o shape c (array_elems file shape w off).
Proof.
  intros Hw Ho Hv Hfit. destruct o; cbn [result_of np_index].
  - unfold result_spec_C.
    pose proof (elems_F file (rev shape) w off (rev c) Hw Ho (ix_valid_rev shape c Hv)) as H.
    rewrite prod_rev in H. specialize (H Hfit). rewrite array_elems_rev in H.
    destruct (result_spec file (rev shape) w off (rev c)) as [s e]. cbn [fst snd] in *.
    destruct (np_index_F [] (rev shape) (rev c) (array_elems file shape w off)) as [s' e'].
    inversion H. reflexivity.
  - now apply elems_F.
Qed.

(* the partial-read path of every ArrayProxy-like class *)
Lemma fileslice_elems rd file ix shape w off o c : reader_ok rd file -> 0 < w -> 0 <= off ->
  canonical_slicers true ix shape = Ok c -> ix_valid shape c -> off + w * prod shape <= zlen file ->
  (r <- fileslice_rd rd ix shape w off o ;; Ok (fst r, elems_of w (snd r)))
  = Ok (np_index [] o shape c (array_elems file shape w off)).
Proof.
  intros Hr Hw Ho Hc Hv Hfit. rewrite (fileslice_rd_eq rd file) by assumption.
  destruct (fileslice_eq_numpy (threshold_heuristic SKIP_THRESH) file ix shape w off o c
              (threshold_h_ok _) Hw Ho Hc Hv Hfit) as [H1 H2].
  unfold fileslice. rewrite H1, H2. cbn [bind]. f_equal. now apply elems_any.
Qed.

(* ====================================================================================
   Part 3: the whole-array path *)
Lemma canon_check_irrelevant : forall ix shape n acc r,
  canon true shape ix n acc = Ok r -> canon false shape ix n acc = Ok r.
Proof.
  induction ix as [|i ix IH]; intros shape n acc r H; [exact H|].
  destruct i as [k|s| |]; cbn [canon] in *.
  - destruct (py_nth shape n) as [d|e]; cbn [bind] in *; [|exact H].
    destruct (k <? 0).
    + destruct (true && (d + k <? 0)); [discriminate|]. cbn [andb]. now apply IH.
    + destruct (true && (d <=? k)); [discriminate|]. cbn [andb]. now apply IH.
  - destruct (py_nth shape n) as [d|e]; cbn [bind] in *; [|exact H]. now apply IH.
  - now apply IH.
  - destruct (existsb is_ell ix); [exact H|]. now apply IH.
Qed.

Lemma canonical_check_irrelevant ix shape c :
  canonical_slicers true ix shape = Ok c -> canonical_slicers false ix shape = Ok c.
Proof.
  unfold canonical_slicers. destruct (canon true shape ix 0 []) as [[c0 n]|e] eqn:E; [|discriminate].
  cbn [bind]. intros H. rewrite (canon_check_irrelevant ix shape 0 [] (c0, n) E). exact H.
Qed.

Definition all_none (n : nat) : list cidx := repeat (CSl sl_none) n.

Lemma canonical_empty chk shape : canonical_slicers chk [] shape = Ok (all_none (length shape)).
Proof.
  unfold canonical_slicers. cbn [canon bind rev app]. unfold all_none, zlen. do 2 f_equal. lia.
Qed.

Lemma whole_index_spec ix shape c : canonical_slicers true ix shape = Ok c ->
  whole_index ix shape = Ok (cidx_list_eqb c (all_none (length shape))).
Proof.
  intros H. unfold whole_index. rewrite (canonical_check_irrelevant ix shape c H), canonical_empty. reflexivity.
Qed.

Lemma all_none_posts n : all_none n = map post_to_cidx (repeat (PSl sl_none) n).
Proof. unfold all_none. induction n as [|n IH]; [reflexivity|]. cbn. now rewrite IH. Qed.

Lemma ix_valid_all_none : forall shape, Forall (fun n => 0 <= n) shape -> ix_valid shape (all_none (length shape)).
Proof.
  induction 1 as [|n sh Hn Hs IH]; [reflexivity|]. cbn [length all_none repeat ix_valid]. split; [assumption|].
  split; [cbn; unfold step_of, sl_none; cbn; lia|exact IH].
Qed.

Lemma np_index_F_all_none {A} (d : A) shape elems : Forall (fun n => 0 <= n) shape -> zlen elems = prod shape ->
  np_index_F d shape (all_none (length shape)) elems = (shape, elems).
Proof.
  intros Hs Hl. unfold np_index_F. rewrite all_none_posts.
  destruct (all_none_identity (repeat (PSl sl_none) (length shape)) shape) as [H1 H2].
  - clear. induction (length shape) as [|n IH]; [reflexivity|]. cbn. exact IH.
  - rewrite <- all_none_posts. now apply ix_valid_all_none.
  - rewrite H1, H2. f_equal. rewrite <- Hl. apply map_nth_zseq.
Qed.

Lemma rev_repeat {A} (x : A) n : rev (repeat x n) = repeat x n.
Proof.
  induction n as [|n IH]; [reflexivity|]. cbn [repeat rev]. rewrite IH.
  clear. induction n as [|n IH]; [reflexivity|]. cbn. now rewrite IH.
Qed.

Lemma Forall_rev' {A} (P : A -> Prop) l : Forall P l -> Forall P (rev l).
Proof. intros H. apply Forall_forall. intros x Hx. apply in_rev in Hx. revert x Hx. now apply Forall_forall. Qed.

Lemma np_index_all_none {A} (d : A) o shape elems : Forall (fun n => 0 <= n) shape -> zlen elems = prod shape ->
  np_index d o shape (all_none (length shape)) elems = (shape, elems).
Proof.
  intros Hs Hl. destruct o; cbn [np_index]; [|now apply np_index_F_all_none].
  unfold all_none. rewrite rev_repeat. replace (length shape) with (length (rev shape)) by apply rev_length.
  fold (all_none (length (rev shape))).
  rewrite np_index_F_all_none; [now rewrite rev_involutive|now apply Forall_rev'|now rewrite prod_rev].
Qed.

(* array_from_file gives the element array, except for the early returns of the read path *)
Definition whole_ok (mm : bool) (shape : list Z) : Prop := mm = true \/ shape <> [].

Lemma array_from_file_ok rd file mm shape w off : reader_ok rd file -> 0 < w -> 0 <= off ->
  Forall (fun n => 0 <= n) shape -> off + w * prod shape <= zlen file -> whole_ok mm shape ->
  array_from_file rd mm shape w off = Ok (shape, array_elems file shape w off).
Proof.
  intros Hr Hw Ho Hs Hfit Hok. pose proof (prod_nonneg shape Hs) as Hp.
  destruct (fread_whole file off (prod shape * w) Ho ltac:(nia) ltac:(nia)) as (b & Hb & Hlen & Hbe).
  unfold array_from_file. cbv zeta. rewrite !Hr, !Hb. cbn [bind]. rewrite !Hlen, !Z.eqb_refl.
  assert (Hres : elems_of w b = array_elems file shape w off) by (subst b; reflexivity).
  destruct mm; [now rewrite Hres|].
  destruct Hok as [Hm|Hne]; [discriminate|].
  replace (zlen shape =? 0) with false by (destruct shape; [contradiction|unfold zlen; cbn [length]; lia]).
  destruct (prod shape * w =? 0) eqn:E0; [|now rewrite Hres].
  (* zero-size: np.zeros(shape) has no elements, like the stored array *)
  assert (Hz : prod shape = 0) by nia. f_equal. f_equal.
  unfold array_elems. rewrite Hz. reflexivity.
Qed.

(* ArrayProxy._get_unscaled on a valid index: NumPy indexing of the element array *)
Lemma ap_unscaled_spec rd file mm shape w off o ix c : reader_ok rd file -> 0 < w -> 0 <= off ->
  canonical_slicers true ix shape = Ok c -> ix_valid shape c -> off + w * prod shape <= zlen file ->
  (cidx_list_eqb c (all_none (length shape)) = true -> whole_ok mm shape) ->
  ap_unscaled rd mm shape w off o ix = Ok (np_index [] o shape c (array_elems file shape w off)).
Proof.
  intros Hr Hw Ho Hc Hv Hfit Hok. unfold ap_unscaled. rewrite (whole_index_spec ix shape c Hc). cbn [bind].
  pose proof (ix_valid_shape_nonneg c shape Hv) as Hs.
  destruct (cidx_list_eqb c (all_none (length shape))) eqn:E.
  - apply cidx_list_eqb_eq in E. subst c.
    rewrite (array_from_file_ok rd file) by (try assumption; now apply Hok).
    rewrite np_index_all_none; [reflexivity|assumption|now apply length_array_elems].
  - now apply (fileslice_elems rd file).
Qed.

(* ====================================================================================
   Part 4: indexing commutes with pointwise maps and with element-wise products *)
Section Pointwise.
Context {A B C : Type}.

Lemma np_index_F_map (g : A -> B) dA dB shape c (l : list A) : ix_valid shape c -> zlen l = prod shape ->
  np_index_F dB shape c (map g l) = (fst (np_index_F dA shape c l), map g (snd (np_index_F dA shape c l))).
Proof.
  intros Hv Hl. unfold np_index_F. cbn [fst snd]. f_equal. rewrite map_map. apply map_ext_in.
  intros o Hin. apply (offs_range c shape o Hv) in Hin. apply nth_map_in. unfold zlen in Hl. lia.
Qed.

Lemma np_index_F_zipw (f : A -> B -> C) dA dB dC shape c (la : list A) (lb : list B) :
  ix_valid shape c -> zlen la = prod shape -> zlen lb = prod shape ->
  np_index_F dC shape c (zipw f la lb)
  = (np_shape shape c, zipw f (snd (np_index_F dA shape c la)) (snd (np_index_F dB shape c lb))).
Proof.
  intros Hv Ha Hb. unfold np_index_F. cbn [fst snd]. f_equal. rewrite zipw_map. apply map_ext_in.
  intros o Hin. apply (offs_range c shape o Hv) in Hin. unfold zlen in *. apply nth_zipw; lia.
Qed.
End Pointwise.

Lemma np_index_map {A B} (g : A -> B) dA dB o shape c (l : list A) : ix_valid shape c -> zlen l = prod shape ->
  np_index dB o shape c (map g l) = (fst (np_index dA o shape c l), map g (snd (np_index dA o shape c l))).
Proof.
  intros Hv Hl. destruct o; cbn [np_index]; [|now apply np_index_F_map].
  rewrite (np_index_F_map g dA dB) by (try apply ix_valid_rev; try rewrite prod_rev; assumption).
  destruct (np_index_F dA (rev shape) (rev c) l) as [s e]. reflexivity.
Qed.

Lemma np_index_F_shape {A} (d : A) shape c l : fst (np_index_F d shape c l) = np_shape shape c.
Proof. reflexivity. Qed.

(* ====================================================================================
   Part 5: one slope/intercept (ArrayProxy) and per-last-axis factors (AFNI) *)
Section ScaleThms.
Context {F R : Type}.
Variable scale : F -> list Z -> R.
Variable noscale : list Z -> R.
Variable dF : F.
Variable dR : R.

Definition unscaled_hyps rd file (mm : bool) shape w off (ix : list idx) c : Prop :=
  reader_ok rd file /\ 0 < w /\ 0 <= off /\
  canonical_slicers true ix shape = Ok c /\ ix_valid shape c /\ off + w * prod shape <= zlen file /\
  (cidx_list_eqb c (all_none (length shape)) = true -> whole_ok mm shape).

Theorem ap_getitem_spec rd file mm shape w off o f ix c : unscaled_hyps rd file mm shape w off ix c ->
  ap_getitem rd scale mm shape w off o f ix
  = Ok (np_index dR o shape c (map (scale f) (array_elems file shape w off))).
Proof.
  intros (Hr & Hw & Ho & Hc & Hv & Hfit & Hok). unfold ap_getitem.
  rewrite (ap_unscaled_spec rd file mm shape w off o ix c) by assumption. cbn [bind].
  rewrite (np_index_map (scale f) [] dR) by
    (try assumption; apply length_array_elems; try assumption; now apply (ix_valid_shape_nonneg c)).
  now destruct (np_index [] o shape c (array_elems file shape w off)).
Qed.

Lemma zlen_bcast shape m (fl : list F) : 0 <= prod shape -> zlen (bcast dF shape m fl) = prod shape.
Proof. intros H. unfold bcast. rewrite zlen_map. now apply zlen_zseq. Qed.

Definition afni_full (shape : list Z) (facs : option (list F)) (elems : list (list Z)) : list R :=
  match facs with
  | None => map noscale elems
  | Some fl => zipw scale (bcast dF shape (prod (removelast shape)) fl) elems
  end.

Theorem afni_getitem_spec rd file mm shape w off facs ix c : unscaled_hyps rd file mm shape w off ix c ->
  afni_getitem rd scale noscale dF mm shape w off facs ix
  = Ok (np_index dR OrdF shape c (afni_full shape facs (array_elems file shape w off))).
Proof.
  intros (Hr & Hw & Ho & Hc & Hv & Hfit & Hok). unfold afni_getitem.
  rewrite (ap_unscaled_spec rd file mm shape w off OrdF ix c) by assumption. cbn [bind].
  pose proof (ix_valid_shape_nonneg c shape Hv) as Hs.
  pose proof (length_array_elems file shape w off Hw Ho Hs Hfit) as Hl.
  destruct facs as [fl|]; cbn [afni_full].
  - rewrite Hc. cbn [bind np_index]. 
    rewrite (np_index_F_zipw scale dF [] dR) by (try assumption; apply zlen_bcast; now apply prod_nonneg).
    unfold np_index_F at 1 2. cbn [fst snd]. rewrite zlist_eqb_refl. reflexivity.
  - cbn [np_index]. rewrite (np_index_F_map noscale [] dR) by assumption.
    now destruct (np_index_F [] shape c (array_elems file shape w off)).
Qed.

(* which factor: the broadcast factor of an element is the one of its last-axis index *)
Lemma bcast_last_axis A n (fl : list F) oa j : 0 <= oa < prod A -> 0 <= j < n ->
  nth (Z.to_nat (oa + prod A * j)) (bcast dF (A ++ [n]) (prod A) fl) dF = nth (Z.to_nat j) fl dF.
Proof.
  intros Ha Hj. unfold bcast.
  assert (Hp : prod (A ++ [n]) = prod A * n) by (rewrite prod_app; cbn [prod fold_right]; lia).
  rewrite (nth_map_in _ (zseq (prod (A ++ [n]))) _ dF 0) by (pose proof (zseq_length (prod (A ++ [n])) ltac:(nia)); nia).
  rewrite nth_zseq by nia. f_equal. f_equal.
  rewrite Z.mul_comm, Z.div_add by lia. rewrite Z.div_small by lia. lia.
Qed.
End ScaleThms.

(* ====================================================================================
   Part 6: an index over shape A ++ B splits into its A part (inner) and B part (outer) *)
Lemma offs_app : forall ixA A ixB B strd, ix_valid A ixA ->
  offs (A ++ B) (ixA ++ ixB) strd
  = flat_map (fun ob => map (fun oa => oa + ob) (offs A ixA strd)) (offs B ixB (strd * prod A)).
Proof.
  induction ixA as [|x ixA IH]; intros A ixB B strd Hv.
  - cbn in Hv. subst A. cbn [app offs prod fold_right map]. rewrite Z.mul_1_r.
    rewrite flat_map_singleton. rewrite <- (map_id (offs B ixB strd)) at 1. apply map_ext. intros; lia.
  - assert (G : forall n sh, ix_valid sh ixA ->
        offs ((n :: sh) ++ B) ((x :: ixA) ++ ixB) strd
        = flat_map (fun outer => map (fun i => strd * i + outer) (axis_sel n x)) (offs (sh ++ B) (ixA ++ ixB) (strd * n)) ->
        offs (n :: sh) (x :: ixA) strd
        = flat_map (fun outer => map (fun i => strd * i + outer) (axis_sel n x)) (offs sh ixA (strd * n)) ->
        offs ((n :: sh) ++ B) ((x :: ixA) ++ ixB) strd
        = flat_map (fun ob => map (fun oa => oa + ob) (offs (n :: sh) (x :: ixA) strd)) (offs B ixB (strd * prod (n :: sh)))).
    { intros n sh Hv' E1 E2. rewrite E1, E2. rewrite (IH sh ixB B (strd * n) Hv').
      cbn [prod fold_right]. fold (prod sh). replace (strd * (n * prod sh)) with (strd * n * prod sh) by lia.
      rewrite flat_map_flat_map. apply flat_map_ext. intros ob.
      rewrite flat_map_map, map_flat_map. apply flat_map_ext. intros oa. rewrite map_map. apply map_ext. intros; lia. }
    destruct x as [k|s|]; cbn [ix_valid] in Hv.
    + destruct A as [|n sh]; [contradiction|]. destruct Hv as (_ & _ & Hv). apply G; [assumption|reflexivity|reflexivity].
    + destruct A as [|n sh]; [contradiction|]. destruct Hv as (_ & _ & Hv). apply G; [assumption|reflexivity|reflexivity].
    + cbn [app offs]. now apply IH.
Qed.

Lemma offs_nil_shape : forall post strd, ix_valid [] post -> offs [] post strd = [0].
Proof.
  induction post as [|x post IH]; intros strd Hv; [reflexivity|].
  destruct x; cbn [ix_valid] in Hv; try contradiction. cbn [offs]. now apply IH.
Qed.

Lemma np_shape_nil_shape : forall post, ix_valid [] post -> np_shape [] post = repeat 1 (length post).
Proof.
  induction post as [|x post IH]; intros Hv; [reflexivity|].
  destruct x; cbn [ix_valid] in Hv; try contradiction. cbn [np_shape length repeat]. f_equal. now apply IH.
Qed.

Lemma np_shape_app : forall ixA A ixB B, ix_valid A ixA ->
  np_shape (A ++ B) (ixA ++ ixB) = np_shape A ixA ++ np_shape B ixB.
Proof.
  induction ixA as [|x ixA IH]; intros A ixB B Hv.
  - cbn in Hv. subst A. reflexivity.
  - destruct x as [k|s|]; cbn [ix_valid] in Hv.
    + destruct A as [|n sh]; [contradiction|]. destruct Hv as (_ & _ & Hv). cbn [app np_shape tl]. now apply IH.
    + destruct A as [|n sh]; [contradiction|]. destruct Hv as (_ & _ & Hv). cbn [app np_shape tl hd]. f_equal. now apply IH.
    + cbn [app np_shape]. f_equal. now apply IH.
Qed.

Lemma ix_valid_app : forall ixA A ixB B, ix_valid A ixA -> ix_valid B ixB -> ix_valid (A ++ B) (ixA ++ ixB).
Proof.
  induction ixA as [|x ixA IH]; intros A ixB B Ha Hb.
  - cbn in Ha. subst A. exact Hb.
  - destruct x as [k|s|]; cbn [ix_valid] in Ha.
    + destruct A as [|n sh]; [contradiction|]. destruct Ha as (H1 & H2 & Ha). cbn [app ix_valid]. auto.
    + destruct A as [|n sh]; [contradiction|]. destruct Ha as (H1 & H2 & Ha). cbn [app ix_valid]. auto.
    + cbn [app ix_valid]. now apply IH.
Qed.

(* trailing None entries change neither the selected offsets nor anything but the shape *)
Lemma offs_trailing_new A pre post strd : ix_valid A pre -> ix_valid [] post ->
  offs A (pre ++ post) strd = offs A pre strd.
Proof.
  intros Ha Hp. rewrite <- (app_nil_r A) at 1. rewrite offs_app by assumption.
  rewrite offs_nil_shape by assumption. cbn [flat_map]. rewrite app_nil_r.
  rewrite <- (map_id (offs A pre strd)) at 2. apply map_ext. intros; lia.
Qed.

(* the last real axis: decomposition of a valid index over A ++ [n] *)
Lemma split_real_spec : forall c A n, ix_valid (A ++ [n]) c ->
  exists pre x post, split_real (length A) c = Some (pre, x, post) /\ c = pre ++ x :: post
    /\ ix_valid A pre /\ 0 <= n /\ valid_cidx n x /\ ix_valid [] post.
Proof.
  induction c as [|y c IH]; intros A n Hv.
  - cbn in Hv. destruct A; discriminate.
  - destruct y as [k|s|].
    + cbn [ix_valid] in Hv. destruct A as [|m sh]; cbn [app] in Hv.
      * destruct Hv as (Hn & Hk & Hv). exists [], (CInt k), c. cbn [length split_real app]. split; [reflexivity|]. split; [reflexivity|]. split; [reflexivity|]. split; [assumption|]. split; assumption.
      * destruct Hv as (Hm & Hk & Hv). destruct (IH sh n Hv) as (pre & x & post & Hs & Hc & Hp & Hn & Hx & Hq).
        exists (CInt k :: pre), x, post. cbn [length split_real]. rewrite Hs. subst c. split; [reflexivity|]. split; [reflexivity|]. split; [cbn [ix_valid]; auto|]. split; [assumption|]. split; assumption.
    + cbn [ix_valid] in Hv. destruct A as [|m sh]; cbn [app] in Hv.
      * destruct Hv as (Hn & Hk & Hv). exists [], (CSl s), c. cbn [length split_real app]. split; [reflexivity|]. split; [reflexivity|]. split; [reflexivity|]. split; [assumption|]. split; assumption.
      * destruct Hv as (Hm & Hk & Hv). destruct (IH sh n Hv) as (pre & x & post & Hs & Hc & Hp & Hn & Hx & Hq).
        exists (CSl s :: pre), x, post. cbn [length split_real]. rewrite Hs. subst c. split; [reflexivity|]. split; [reflexivity|]. split; [cbn [ix_valid]; auto|]. split; [assumption|]. split; assumption.
    + cbn [ix_valid] in Hv. destruct (IH A n Hv) as (pre & x & post & Hs & Hc & Hp & Hn & Hx & Hq).
      exists (CNew :: pre), x, post. cbn [split_real]. rewrite Hs. subst c. split; [reflexivity|]. split; [reflexivity|]. split; [cbn [ix_valid]; auto|]. split; [assumption|]. split; assumption.
Qed.

(* ====================================================================================
   Part 7: predict_shape / slice2outax applied to an already canonical index (as ECAT does) *)
Fixpoint skel_ok (chk : bool) (sh : list Z) (c : list cidx) : Prop :=
  match c with
  | [] => sh = []
  | CNew :: r => skel_ok chk sh r
  | CInt k :: r => match sh with n :: sh' => 0 <= k /\ (chk = true -> k < n) /\ skel_ok chk sh' r | [] => False end
  | CSl s :: r => match sh with n :: sh' => skel_ok chk sh' r | [] => False end
  end.

Lemma canon_plain' : forall chk rd pre sh acc, skel_ok chk sh rd ->
  canon chk (pre ++ sh) (map cidx_to_idx rd) (zlen pre) acc
  = Ok (rev acc ++ normalize sh rd, zlen pre + zlen sh).
Proof.
  induction rd as [|c rd IH]; intros pre sh acc Hv.
  - cbn in Hv. subst sh. cbn. rewrite app_nil_r. f_equal. f_equal. unfold zlen; cbn; lia.
  - destruct c as [k|s|]; cbn [skel_ok] in Hv.
    + destruct sh as [|n sh]; [contradiction|]. destruct Hv as (Hk0 & Hk & Hv).
      cbn [map cidx_to_idx canon]. rewrite py_nth_app. cbn [bind].
      replace (k <? 0) with false by lia.
      replace (chk && (n <=? k)) with false by (destruct chk; [specialize (Hk eq_refl); lia|reflexivity]).
      replace (pre ++ n :: sh) with ((pre ++ [n]) ++ sh) by (rewrite <- app_assoc; reflexivity).
      replace (zlen pre + 1) with (zlen (pre ++ [n])) by (unfold zlen; rewrite app_length; cbn; lia).
      rewrite IH by assumption. cbn [rev normalize tl]. rewrite <- app_assoc. cbn [app].
      f_equal. f_equal. unfold zlen. rewrite app_length. cbn [length]. lia.
    + destruct sh as [|n sh]; [contradiction|].
      cbn [map cidx_to_idx canon]. rewrite py_nth_app. cbn [bind].
      replace (pre ++ n :: sh) with ((pre ++ [n]) ++ sh) by (rewrite <- app_assoc; reflexivity).
      replace (zlen pre + 1) with (zlen (pre ++ [n])) by (unfold zlen; rewrite app_length; cbn; lia).
      rewrite IH by assumption. cbn [rev normalize tl hd]. rewrite <- app_assoc. cbn [app].
      f_equal. f_equal. unfold zlen. rewrite app_length. cbn [length]. lia.
    + cbn [map cidx_to_idx canon]. rewrite IH by assumption. cbn [rev normalize]. rewrite <- app_assoc. reflexivity.
Qed.

Lemma canonical_of_canonical chk sh c : skel_ok chk sh c ->
  canonical_slicers chk (map cidx_to_idx c) sh = Ok (normalize sh c).
Proof.
  intros H. unfold canonical_slicers.
  pose proof (canon_plain' chk c [] sh [] H) as E. cbn [app rev] in E.
  change (zlen (@nil Z)) with 0 in E. rewrite E. cbn [bind].
  replace (zlen sh - (0 + zlen sh)) with 0 by lia. cbn [Z.to_nat repeat]. now rewrite app_nil_r.
Qed.

Lemma ix_valid_skel_true : forall c shape, ix_valid shape c -> skel_ok true shape c.
Proof.
  induction c as [|x c IH]; intros shape Hv; [exact Hv|].
  destruct x as [k|s|]; cbn [ix_valid skel_ok] in *.
  - destruct shape as [|n sh]; [contradiction|]. destruct Hv as (Hn & Hk & Hv). cbn in Hk. repeat split; try lia. now apply IH.
  - destruct shape as [|n sh]; [contradiction|]. destruct Hv as (Hn & Hk & Hv). now apply IH.
  - now apply IH.
Qed.

Lemma ix_valid_skel_false : forall c shape, ix_valid shape c -> skel_ok false (repeat 1 (length shape)) c.
Proof.
  induction c as [|x c IH]; intros shape Hv.
  - cbn in Hv. subst. reflexivity.
  - destruct x as [k|s|]; cbn [ix_valid skel_ok] in *.
    + destruct shape as [|n sh]; [contradiction|]. destruct Hv as (Hn & Hk & Hv). cbn in Hk. cbn [length repeat].
      split; [lia|]. split; [discriminate|]. now apply IH.
    + destruct shape as [|n sh]; [contradiction|]. destruct Hv as (Hn & Hk & Hv). cbn [length repeat]. now apply IH.
    + now apply IH.
Qed.

Lemma predict_loop_normalize' : forall c pre sh, ix_valid sh c ->
  predict_loop (normalize sh c) (pre ++ sh) (zlen pre) = Ok (np_shape sh c).
Proof.
  induction c as [|x c IH]; intros pre sh Hv.
  - reflexivity.
  - destruct x as [k|s|]; cbn [ix_valid] in Hv.
    + destruct sh as [|n sh]; [contradiction|]. destruct Hv as (Hn & Hk & Hv).
      cbn [normalize predict_loop np_shape tl].
      replace (pre ++ n :: sh) with ((pre ++ [n]) ++ sh) by (rewrite <- app_assoc; reflexivity).
      replace (zlen pre + 1) with (zlen (pre ++ [n])) by (unfold zlen; rewrite app_length; cbn; lia).
      now apply IH.
    + destruct sh as [|n sh]; [contradiction|]. destruct Hv as (Hn & Hs & Hv). cbn [valid_cidx] in Hs.
      cbn [normalize predict_loop np_shape tl hd]. rewrite py_nth_app. cbn [bind].
      assert (Hst : step_of (norm_sl n s) <> 0).
      { unfold norm_sl. destruct (_ && _ && _ && _); [cbn; lia|assumption]. }
      rewrite slice2len_spec by assumption. cbn [bind]. rewrite norm_sl_indices by assumption.
      replace (pre ++ n :: sh) with ((pre ++ [n]) ++ sh) by (rewrite <- app_assoc; reflexivity).
      replace (zlen pre + 1) with (zlen (pre ++ [n])) by (unfold zlen; rewrite app_length; cbn; lia).
      rewrite IH by assumption. reflexivity.
    + cbn [normalize predict_loop np_shape]. rewrite IH by assumption. reflexivity.
Qed.

Lemma predict_shape_canonical c shape : ix_valid shape c ->
  predict_shape (map cidx_to_idx c) shape = Ok (np_shape shape c).
Proof.
  intros Hv. unfold predict_shape. rewrite (canonical_of_canonical true shape c) by now apply ix_valid_skel_true.
  cbn [bind]. exact (predict_loop_normalize' c [] shape Hv).
Qed.

Lemma outax_loop_normalize : forall c sh k, outax_loop (normalize sh c) k = outax_loop c k.
Proof.
  induction c as [|x c IH]; intros sh k; [reflexivity|].
  destruct x; cbn [normalize outax_loop]; now rewrite IH.
Qed.

Lemma slice2outax_canonical c shape : ix_valid shape c ->
  slice2outax (zlen shape) (map cidx_to_idx c) = Ok (outax_loop c 0).
Proof.
  intros Hv. unfold slice2outax, zlen. rewrite Nat2Z.id.
  rewrite (canonical_of_canonical false _ c) by now apply ix_valid_skel_false.
  cbn [bind]. now rewrite outax_loop_normalize.
Qed.

(* output axis of the (length A)-th input axis = number of output axes produced before it *)
Lemma outax_at_split : forall pre A x post k, ix_valid A pre -> x <> CNew ->
  nth (length A) (outax_loop (pre ++ x :: post) k) None
  = match x with CInt _ => None | _ => Some (k + zlen (np_shape A pre)) end.
Proof.
  induction pre as [|y pre IH]; intros A x post k Hv Hx.
  - cbn in Hv. subst A. cbn [app length np_shape]. destruct x; [reflexivity| |contradiction].
    cbn [outax_loop nth]. f_equal. unfold zlen. cbn. lia.
  - destruct y as [j|s|]; cbn [ix_valid] in Hv.
    + destruct A as [|n sh]; [contradiction|]. destruct Hv as (_ & _ & Hv).
      cbn [app outax_loop length nth np_shape tl]. now apply IH.
    + destruct A as [|n sh]; [contradiction|]. destruct Hv as (_ & _ & Hv).
      cbn [app outax_loop length nth np_shape tl hd]. rewrite (IH sh x post (k + 1) Hv Hx).
      destruct x; try reflexivity; f_equal; unfold zlen; cbn [length]; lia.
    + cbn [app outax_loop np_shape]. rewrite (IH A x post (k + 1) Hv Hx).
      destruct x; try reflexivity; f_equal; unfold zlen; cbn [length]; lia.
Qed.

(* ====================================================================================
   Part 8: the ECAT frame-assembly loop *)
Lemma combine_app' {A B} : forall (a a' : list A) (b b' : list B), length a = length b ->
  combine (a ++ a') (b ++ b') = combine a b ++ combine a' b'.
Proof.
  induction a as [|x a IH]; intros a' b b' H; destruct b as [|y b]; try discriminate; [reflexivity|].
  cbn. f_equal. apply IH. cbn in H. lia.
Qed.

Lemma enumerate_snoc {A} (l : list A) x : enumerate (l ++ [x]) = enumerate l ++ [(zlen l, x)].
Proof.
  unfold enumerate. replace (zlen (l ++ [x])) with (zlen l + 1) by (unfold zlen; rewrite app_length; cbn; lia).
  rewrite zseq_succ by apply zlen_nonneg. change [(zlen l, x)] with (combine [zlen l] [x]). apply combine_app'.
  pose proof (zseq_length (zlen l) (zlen_nonneg l)). unfold zlen in *. lia.
Qed.

Section Ecat.
Context {R : Type}.
Variable dR : R.

Lemma zlen_store_axis inner L k (blk out : list R) : zlen (store_axis dR inner L k blk out) = zlen out.
Proof. unfold store_axis. rewrite zlen_map. apply zlen_zseq, zlen_nonneg. Qed.

Lemma nth_store_axis inner L k (blk out : list R) p : 0 <= p < zlen out ->
  nth (Z.to_nat p) (store_axis dR inner L k blk out) dR
  = if (p / inner) mod L =? k then nth (Z.to_nat (p mod inner + inner * (p / (inner * L)))) blk dR
    else nth (Z.to_nat p) out dR.
Proof.
  intros Hp. unfold store_axis.
  rewrite (nth_map_in _ (zseq (zlen out)) (Z.to_nat p) dR 0)
    by (pose proof (zseq_length (zlen out) (zlen_nonneg out)); lia).
  rewrite nth_zseq by lia. reflexivity.
Qed.

Section Loop.
Variables (inner L : Z) (blkof : Z -> list R).
Hypothesis Hinner : 0 <= inner.
Hypothesis HL : 0 <= L.

Definition step (out : list R) (ki : Z * Z) : list R := store_axis dR inner L (fst ki) (blkof (snd ki)) out.

Lemma fold_store_spec : forall sel out, zlen out = inner * L -> zlen sel <= L ->
  zlen (fold_left step (enumerate sel) out) = inner * L /\
  forall p, 0 <= p < inner * L ->
    nth (Z.to_nat p) (fold_left step (enumerate sel) out) dR
    = if p / inner <? zlen sel
      then nth (Z.to_nat (p mod inner)) (blkof (nth (Z.to_nat (p / inner)) sel 0)) dR
      else nth (Z.to_nat p) out dR.
Proof.
  induction sel as [|x l IH] using rev_ind; intros out Ho Hl.
  - cbn [enumerate zlen length combine fold_left]. split; [assumption|]. intros p Hp.
    assert (0 < inner) by nia. assert (0 <= p / inner) by (apply Z.div_pos; lia).
    change (zlen (@nil Z)) with 0. replace (p / inner <? 0) with false by lia. reflexivity.
  - assert (Hl' : zlen l + 1 <= L) by (unfold zlen in *; rewrite app_length in Hl; cbn in Hl; lia).
    destruct (IH out Ho ltac:(lia)) as [IH1 IH2].
    rewrite enumerate_snoc, fold_left_app. cbn [fold_left]. unfold step at 1 3. cbn [fst snd].
    split; [now rewrite zlen_store_axis|]. intros p Hp.
    assert (Hi : 0 < inner) by nia.
    assert (Hq : 0 <= p / inner < L) by (split; [apply Z.div_pos; lia|apply Z.div_lt_upper_bound; lia]).
    rewrite nth_store_axis by lia. rewrite (Z.mod_small (p / inner) L) by lia.
    rewrite (Z.div_small p (inner * L)) by lia. rewrite Z.mul_0_r, Z.add_0_r.
    replace (zlen (l ++ [x])) with (zlen l + 1) by (unfold zlen; rewrite app_length; cbn; lia).
    destruct (p / inner =? zlen l) eqn:E.
    + replace (p / inner <? zlen l + 1) with true by lia.
      replace (Z.to_nat (p / inner)) with (length l) by (unfold zlen in E; lia).
      rewrite nth_middle. reflexivity.
    + rewrite IH2 by lia. destruct (p / inner <? zlen l) eqn:E2.
      * replace (p / inner <? zlen l + 1) with true by lia.
        rewrite app_nth1 by (unfold zlen in E2; lia). reflexivity.
      * replace (p / inner <? zlen l + 1) with false by lia. reflexivity.
Qed.

Lemma fold_store_full sel out : zlen out = inner * L -> zlen sel = L ->
  (forall i, zlen (blkof i) = inner) ->
  fold_left step (enumerate sel) out = flat_map blkof sel.
Proof.
  intros Ho Hs Hb. destruct (fold_store_spec sel out Ho ltac:(lia)) as [H1 H2].
  assert (Hlen : zlen (flat_map blkof sel) = inner * L) by (rewrite (zlen_flat_map_const blkof inner) by assumption; lia).
  apply nth_ext with (d := dR) (d' := dR); [unfold zlen in *; lia|].
  intros k Hk. unfold zlen in H1. 
  assert (Hp : 0 <= Z.of_nat k < inner * L) by lia.
  specialize (H2 (Z.of_nat k) Hp). rewrite Nat2Z.id in H2. rewrite H2. clear H2.
  assert (Hi : 0 < inner) by nia.
  assert (Hq : 0 <= Z.of_nat k / inner < L) by (split; [apply Z.div_pos; lia|apply Z.div_lt_upper_bound; lia]).
  replace (Z.of_nat k / inner <? zlen sel) with true by lia.
  pose proof (Z.mod_pos_bound (Z.of_nat k) inner Hi) as Hm.
  pose proof (Z.div_mod (Z.of_nat k) inner ltac:(lia)) as Hdm.
  replace k with (Z.to_nat (Z.of_nat k mod inner) + Z.to_nat inner * Z.to_nat (Z.of_nat k / inner))%nat at 3 by nia.
  symmetry. apply nth_blocks.
  - intros o. specialize (Hb o). unfold zlen in Hb. lia.
  - lia.
  - unfold zlen in Hs. lia.
Qed.
End Loop.

(* indexing the stack of frames = concatenation over the selected frames of the in-frame index *)
Lemma np_index_last_axis (fr : Z -> list R) A n pre x post : ix_valid A pre -> 0 <= n ->
  valid_cidx n x -> ix_valid [] post -> (forall i, zlen (fr i) = prod A) ->
  snd (np_index_F dR (A ++ [n]) (pre ++ x :: post) (flat_map fr (zseq n)))
  = flat_map (fun i => snd (np_index_F dR A (pre ++ post) (fr i))) (axis_sel n x).
Proof.
  intros Hp Hn Hx Hq Hfr. unfold np_index_F. cbn [snd].
  rewrite offs_app by assumption. rewrite offs_trailing_new by assumption.
  pose proof (prod_nonneg A (ix_valid_shape_nonneg pre A Hp)) as HA.
  assert (E : offs [n] (x :: post) (1 * prod A) = map (fun i => prod A * i) (axis_sel n x)).
  { destruct x as [k|s|]; [| |contradiction]; cbn [offs]; rewrite offs_nil_shape by assumption;
      cbn [flat_map]; rewrite app_nil_r; apply map_ext; intros; lia. }
  rewrite E. rewrite flat_map_map, map_flat_map. apply flat_map_ext_in'. intros i Hi.
  apply (axis_sel_in_range n x i Hn Hx) in Hi. rewrite map_map. apply map_ext_in. intros oa Hoa.
  apply (offs_range pre A oa Hp) in Hoa.
  replace (Z.to_nat (oa + prod A * i)) with (Z.to_nat oa + Z.to_nat (prod A) * Z.to_nat i)%nat by nia.
  rewrite (nth_blocks fr (Z.to_nat (prod A)) (zseq n) dR 0).
  - now rewrite nth_zseq by lia.
  - intros o. specialize (Hfr o). unfold zlen in Hfr. lia.
  - lia.
  - pose proof (zseq_length n Hn). lia.
Qed.

Lemma ecat_loop_fold (frame : Z -> res (list R)) (fr : Z -> list R) A in_slicer inner L :
  forall todo out, (forall k i, In (k, i) todo -> frame i = Ok (fr i)) ->
  ecat_loop dR frame A in_slicer inner L todo out
  = Ok (fold_left (step inner L (fun i => snd (np_index_F dR A in_slicer (fr i)))) todo out).
Proof.
  induction todo as [|[k i] r IH]; intros out H; [reflexivity|].
  cbn [ecat_loop fold_left]. rewrite (H k i) by (left; reflexivity). cbn [bind np_index].
  rewrite IH by (intros k' i' Hin; apply (H k' i'); now right). reflexivity.
Qed.

Lemma in_enumerate {A} (l : list A) k x : In (k, x) (enumerate l) -> In x l.
Proof. unfold enumerate. apply in_combine_r. Qed.

Lemma prod_repeat_1 n : prod (repeat 1 n) = 1.
Proof. induction n as [|n IH]; [reflexivity|]. cbn [repeat prod fold_right]. fold (prod (repeat 1 n)). lia. Qed.

Theorem ecat_getitem_f_spec (frame : Z -> res (list R)) (fr : Z -> list R) A n ix c :
  canonical_slicers true ix (A ++ [n]) = Ok c -> ix_valid (A ++ [n]) c ->
  (forall i, 0 <= i < n -> frame i = Ok (fr i)) -> (forall i, zlen (fr i) = prod A) ->
  ecat_getitem_f dR frame A n ix = Ok (np_index_F dR (A ++ [n]) c (flat_map fr (zseq n))).
Proof.
  intros Hc Hv Hfr Hlen. unfold ecat_getitem_f. rewrite Hc. cbn [bind].
  destruct (split_real_spec c A n Hv) as (pre & x & post & Hs & Hce & Hp & Hn & Hx & Hq).
  rewrite Hs. subst c.
  pose proof (np_index_last_axis fr A n pre x post Hp Hn Hx Hq Hlen) as Hsel.
  assert (Hshape : np_shape (A ++ [n]) (pre ++ x :: post) = np_shape A pre ++ np_shape [n] (x :: post))
    by now apply np_shape_app.
  assert (Hshape_in : np_shape A (pre ++ post) = np_shape A pre ++ np_shape [] post)
    by (rewrite <- (app_nil_r A) at 1; now apply np_shape_app).
  destruct x as [k|s|]; [| |contradiction].
  - (* integer frame index *)
    cbn [valid_cidx] in Hx. rewrite (Hfr k Hx). cbn [bind np_index]. f_equal.
    unfold np_index_F at 1 2. cbn [fst snd]. f_equal.
    + rewrite Hshape, Hshape_in. reflexivity.
    + unfold np_index_F in Hsel. cbn [snd axis_sel flat_map] in Hsel. rewrite app_nil_r in Hsel. now rewrite Hsel.
  - (* slice over the frame axis *)
    cbn [valid_cidx] in Hx.
    rewrite (predict_shape_canonical _ _ Hv). cbn [bind].
    rewrite (slice2outax_canonical _ _ Hv). cbn [bind].
    rewrite (outax_at_split pre A (CSl s) post 0 Hp) by discriminate. cbn [Z.add].
    set (sel := py_indices n s). set (a := zlen (np_shape A pre)).
    assert (Hout : np_shape (A ++ [n]) (pre ++ CSl s :: post) = np_shape A pre ++ zlen sel :: repeat 1 (length post)).
    { rewrite Hshape. cbn [np_shape hd tl]. now rewrite np_shape_nil_shape. }
    rewrite Hout.
    assert (Ha : Z.to_nat a = length (np_shape A pre)) by (unfold a, zlen; lia).
    rewrite Ha. rewrite firstn_app, Nat.sub_diag, firstn_all. cbn [firstn]. rewrite app_nil_r.
    rewrite app_nth2 by lia. rewrite Nat.sub_diag. cbn [nth].
    set (inner := prod (np_shape A pre)).
    assert (Hinner : inner = zlen (offs A pre 1)) by (unfold inner; symmetry; now apply offs_length).
    assert (Hprod : prod (np_shape A pre ++ zlen sel :: repeat 1 (length post)) = inner * zlen sel).
    { rewrite prod_app. cbn [prod fold_right]. fold (prod (repeat 1 (length post))). rewrite prod_repeat_1. unfold inner. lia. }
    rewrite Hprod.
    rewrite (ecat_loop_fold frame fr).
    2:{ intros k i Hin. apply in_enumerate in Hin. apply Hfr. now apply (py_indices_in_range n s). }
    cbn [bind]. f_equal. unfold np_index_F at 2. cbn [fst snd]. f_equal; [exact (eq_sym Hout)|].
    rewrite fold_store_full.
    + unfold np_index_F in Hsel. cbn [snd axis_sel] in Hsel. rewrite Hsel. reflexivity.
    + rewrite Hinner. apply zlen_nonneg.
    + apply zlen_nonneg.
    + unfold zlen. rewrite repeat_length. rewrite Z2Nat.id; [reflexivity|].
      rewrite Hinner. pose proof (zlen_nonneg (offs A pre 1)). pose proof (zlen_nonneg sel). nia.
    + reflexivity.
    + intros i. unfold np_index_F. cbn [snd]. rewrite zlen_map. rewrite offs_trailing_new by assumption. now rewrite Hinner.
Qed.
End Ecat.

(* ====================================================================================
   Part 9: ECAT on a file; __array__; reader/config independence; reshape *)
Section EcatFile.
Context {F R : Type}.
Variable scale : F -> list Z -> R.
Variable dF : F.
Variable dR : R.

Definition ecat_rec (fmap : list Z) (i : Z) : nat := Z.to_nat (nth (Z.to_nat i) fmap 0).
Definition ecat_fr (file : list Z) (A : list Z) (n w : Z) (fmap foffs : list Z) (facs : list F) (i : Z) : list R :=
  if (0 <=? i) && (i <? n)
  then map (scale (nth (ecat_rec fmap i) facs dF)) (array_elems file A w (nth (ecat_rec fmap i) foffs 0))
  else repeat dR (Z.to_nat (prod A)).

Definition ecat_hyps rd file (mm : bool) A n w (fmap foffs : list Z) : Prop :=
  reader_ok rd file /\ 0 < w /\ Forall (fun d => 0 <= d) A /\ whole_ok mm A /\ zlen fmap = n /\
  forall i, 0 <= i < n -> 0 <= nth (ecat_rec fmap i) foffs 0
                          /\ nth (ecat_rec fmap i) foffs 0 + w * prod A <= zlen file.

Lemma ecat_frame_ok rd file mm A n w fmap foffs facs i : ecat_hyps rd file mm A n w fmap foffs -> 0 <= i < n ->
  ecat_frame rd scale dF mm A w fmap foffs facs i = Ok (ecat_fr file A n w fmap foffs facs i).
Proof.
  intros (Hr & Hw & HA & Hok & Hn & Hoff) Hi. unfold ecat_frame, ecat_fr.
  replace ((i <? 0) || (zlen fmap <=? i)) with false by lia.
  replace ((0 <=? i) && (i <? n)) with true by lia.
  destruct (Hoff i Hi) as [H1 H2]. fold (ecat_rec fmap i).
  rewrite (array_from_file_ok rd file) by assumption. cbn [bind fst snd]. now rewrite zlist_eqb_refl.
Qed.

Lemma zlen_ecat_fr rd file mm A n w fmap foffs facs i : ecat_hyps rd file mm A n w fmap foffs ->
  zlen (ecat_fr file A n w fmap foffs facs i) = prod A.
Proof.
  intros (Hr & Hw & HA & Hok & Hn & Hoff). unfold ecat_fr. pose proof (prod_nonneg A HA).
  destruct ((0 <=? i) && (i <? n)) eqn:E.
  - destruct (Hoff i ltac:(lia)) as [H1 H2]. rewrite zlen_map. now apply length_array_elems.
  - unfold zlen. rewrite repeat_length. lia.
Qed.

Theorem ecat_getitem_spec rd file mm A n w fmap foffs facs ix c :
  ecat_hyps rd file mm A n w fmap foffs ->
  canonical_slicers true ix (A ++ [n]) = Ok c -> ix_valid (A ++ [n]) c ->
  ecat_getitem rd scale dF dR mm A n w fmap foffs facs ix
  = Ok (np_index dR OrdF (A ++ [n]) c (flat_map (ecat_fr file A n w fmap foffs facs) (zseq n))).
Proof.
  intros H Hc Hv. unfold ecat_getitem. cbn [np_index].
  apply (ecat_getitem_f_spec dR _ (ecat_fr file A n w fmap foffs facs)); try assumption.
  - intros i Hi. now apply (ecat_frame_ok rd file).
  - intros i. now apply (zlen_ecat_fr rd file mm).
Qed.

Lemma frames_all_ok (frame : Z -> res (list R)) (fr : Z -> list R) : forall l,
  (forall i, In i l -> frame i = Ok (fr i)) -> frames_all frame l = Ok (flat_map fr l).
Proof.
  induction l as [|i l IH]; intros H; [reflexivity|]. cbn [frames_all flat_map].
  rewrite H by (left; reflexivity). cbn [bind]. rewrite IH by (intros j Hj; apply H; now right). reflexivity.
Qed.

Theorem ecat_full_spec rd file mm A n w fmap foffs facs :
  ecat_hyps rd file mm A n w fmap foffs ->
  ecat_full rd scale dF mm A n w fmap foffs facs
  = Ok (A ++ [n], flat_map (ecat_fr file A n w fmap foffs facs) (zseq n)).
Proof.
  intros H. unfold ecat_full, ecat_full_f.
  rewrite (frames_all_ok _ (ecat_fr file A n w fmap foffs facs)); [reflexivity|].
  intros i Hi. apply zseq_In in Hi. now apply (ecat_frame_ok rd file).
Qed.
End EcatFile.

(* the loop puts frame (nth k (py_indices n s)) at output block k, for every slice s *)
Theorem ecat_frames_positions {R} (dR : R) (frame : Z -> res (list R)) (fr : Z -> list R) A n ix pre s post :
  canonical_slicers true ix (A ++ [n]) = Ok (pre ++ CSl s :: post) ->
  ix_valid A pre -> ix_valid [] post -> 0 <= n -> step_of s <> 0 ->
  (forall i, 0 <= i < n -> frame i = Ok (fr i)) -> (forall i, zlen (fr i) = prod A) ->
  ecat_getitem_f dR frame A n ix
  = Ok (np_shape A pre ++ zlen (py_indices n s) :: repeat 1 (length post),
        flat_map (fun i => snd (np_index_F dR A (pre ++ post) (fr i))) (py_indices n s)).
Proof.
  intros Hc Hp Hq Hn Hs Hfr Hlen.
  assert (Hv : ix_valid (A ++ [n]) (pre ++ CSl s :: post)).
  { apply ix_valid_app; [assumption|]. cbn [ix_valid]. repeat split; assumption. }
  rewrite (ecat_getitem_f_spec dR frame fr A n ix _ Hc Hv Hfr Hlen).
  f_equal. unfold np_index_F at 1. f_equal.
  - rewrite np_shape_app by assumption. cbn [np_shape hd tl]. now rewrite np_shape_nil_shape.
  - exact (np_index_last_axis dR fr A n pre (CSl s) post Hp Hn Hs Hq Hlen).
Qed.

(* ---- readers that return the same bytes give the same results, for all inputs *)
Section ReaderExt.
Variables rd1 rd2 : Z -> Z -> res (list Z).
Hypothesis Hrd : forall o l, rd1 o l = rd2 o l.

Lemma read_all_ext segs : read_all_rd rd1 segs = read_all_rd rd2 segs.
Proof. induction segs as [|[o l] r IH]; [reflexivity|]. cbn [read_all_rd]. now rewrite Hrd, IH. Qed.

Lemma read_segments_ext segs n : read_segments_rd rd1 segs n = read_segments_rd rd2 segs n.
Proof.
  unfold read_segments_rd. destruct segs as [|[o l] [|s2 r]]; [reflexivity|now rewrite Hrd|].
  now rewrite read_all_ext.
Qed.

Lemma fileslice_ext ix shape w off o : fileslice_rd rd1 ix shape w off o = fileslice_rd rd2 ix shape w off o.
Proof.
  unfold fileslice_rd.
  destruct (calc_slicedefs ix shape w off o (threshold_heuristic SKIP_THRESH)) as [[[segs rshape] ps]|e]; [|reflexivity].
  cbn [bind]. now rewrite read_segments_ext.
Qed.

Lemma array_from_file_ext mm shape w off : array_from_file rd1 mm shape w off = array_from_file rd2 mm shape w off.
Proof. unfold array_from_file. now rewrite !Hrd. Qed.

Lemma ap_unscaled_ext mm shape w off o ix : ap_unscaled rd1 mm shape w off o ix = ap_unscaled rd2 mm shape w off o ix.
Proof. unfold ap_unscaled. now rewrite array_from_file_ext, fileslice_ext. Qed.

Context {F R : Type}.
Variable scale : F -> list Z -> R.
Variable noscale : list Z -> R.
Variable dF : F.
Variable dR : R.

Lemma ap_getitem_ext mm shape w off o f ix :
  ap_getitem rd1 scale mm shape w off o f ix = ap_getitem rd2 scale mm shape w off o f ix.
Proof. unfold ap_getitem. now rewrite ap_unscaled_ext. Qed.

Lemma afni_getitem_ext mm shape w off facs ix :
  afni_getitem rd1 scale noscale dF mm shape w off facs ix = afni_getitem rd2 scale noscale dF mm shape w off facs ix.
Proof. unfold afni_getitem. now rewrite ap_unscaled_ext. Qed.

Lemma parrec_getitem_ext mm shape nrec ind w facs ix :
  parrec_getitem rd1 scale dF mm shape nrec ind w facs ix = parrec_getitem rd2 scale dF mm shape nrec ind w facs ix.
Proof. unfold parrec_getitem, parrec_unscaled. now rewrite array_from_file_ext, fileslice_ext. Qed.

Lemma ecat_frame_ext mm A w fmap foffs facs i :
  ecat_frame rd1 scale dF mm A w fmap foffs facs i = ecat_frame rd2 scale dF mm A w fmap foffs facs i.
Proof. unfold ecat_frame. now rewrite array_from_file_ext. Qed.

Lemma ecat_loop_ext (f1 f2 : Z -> res (list R)) A sl inner L : (forall i, f1 i = f2 i) ->
  forall todo out, ecat_loop dR f1 A sl inner L todo out = ecat_loop dR f2 A sl inner L todo out.
Proof.
  intros H. induction todo as [|[k i] r IH]; intros out; [reflexivity|]. cbn [ecat_loop]. rewrite H.
  destruct (f2 i); cbn [bind]; [apply IH|reflexivity].
Qed.

Lemma ecat_getitem_ext mm A n w fmap foffs facs ix :
  ecat_getitem rd1 scale dF dR mm A n w fmap foffs facs ix = ecat_getitem rd2 scale dF dR mm A n w fmap foffs facs ix.
Proof.
  unfold ecat_getitem, ecat_getitem_f.
  destruct (canonical_slicers true ix (A ++ [n])) as [c|e]; [|reflexivity]. cbn [bind].
  destruct (split_real (length A) c) as [[[pre x] post]|]; [|reflexivity].
  destruct x as [k|s|]; [now rewrite ecat_frame_ext| |reflexivity].
  destruct (predict_shape _ _); [|reflexivity]. cbn [bind].
  destruct (slice2outax _ _); [|reflexivity]. cbn [bind].
  destruct (nth (length A) _ None); [|reflexivity].
  rewrite (ecat_loop_ext _ (ecat_frame rd2 scale dF mm A w fmap foffs facs)); [reflexivity|].
  intros i. apply ecat_frame_ext.
Qed.
End ReaderExt.

(* ---- reshape *)
Lemma ap_reshape_spec shape ns ns' : ap_reshape shape ns = Ok ns' ->
  prod ns' = prod shape /\ length ns' = length ns /\
  (forall k, (k < length ns)%nat -> nth k ns 0 <> -1 -> nth k ns' 0 = nth k ns 0).
Proof.
  unfold ap_reshape. destruct (1 <? count_m1 ns); [discriminate|].
  destruct (count_m1 ns =? 1).
  - cbn [bind].
    destruct (prod _ =? prod shape) eqn:E; [|discriminate]. intros H. inversion H. subst ns'. clear H.
    split; [lia|]. split; [apply map_length|]. intros k Hk Hne.
    rewrite (nth_map_in _ ns k 0 0) by assumption. destruct (nth k ns 0 =? -1) eqn:E1; [lia|reflexivity].
  - cbn [bind]. destruct (prod ns =? prod shape) eqn:E; [|discriminate]. intros H. inversion H. subst ns'.
    split; [lia|]. split; reflexivity.
Qed.

Lemma array_elems_same_size file s1 s2 w off : prod s1 = prod s2 -> array_elems file s1 w off = array_elems file s2 w off.
Proof. intros H. unfold array_elems. now rewrite H. Qed.

(* ====================================================================================
   Part 10: __array__ (ix = ()), reshape, mmap independence *)
Section Asarray.
Context {F R : Type}.
Variable scale : F -> list Z -> R.
Variable noscale : list Z -> R.
Variable dF : F.
Variable dR : R.

Definition file_hyps rd file (mm : bool) shape w off : Prop :=
  reader_ok rd file /\ 0 < w /\ 0 <= off /\ Forall (fun n => 0 <= n) shape
  /\ off + w * prod shape <= zlen file /\ whole_ok mm shape.

Lemma file_hyps_unscaled rd file mm shape w off : file_hyps rd file mm shape w off ->
  unscaled_hyps rd file mm shape w off [] (all_none (length shape)).
Proof.
  intros (Hr & Hw & Ho & Hs & Hfit & Hok). unfold unscaled_hyps.
  repeat split; try assumption; [apply canonical_empty|now apply ix_valid_all_none|intros _; assumption].
Qed.

Theorem ap_asarray rd file mm shape w off o f : file_hyps rd file mm shape w off ->
  ap_getitem rd scale mm shape w off o f [] = Ok (shape, map (scale f) (array_elems file shape w off)).
Proof.
  intros H. rewrite (ap_getitem_spec scale dR rd file mm shape w off o f [] _ (file_hyps_unscaled _ _ _ _ _ _ H)).
  destruct H as (Hr & Hw & Ho & Hs & Hfit & Hok). f_equal. apply np_index_all_none; [assumption|].
  rewrite zlen_map. now apply length_array_elems.
Qed.

Theorem afni_asarray rd file mm shape w off facs : file_hyps rd file mm shape w off ->
  afni_getitem rd scale noscale dF mm shape w off facs []
  = Ok (shape, afni_full scale noscale dF shape facs (array_elems file shape w off)).
Proof.
  intros H. rewrite (afni_getitem_spec scale noscale dF dR rd file mm shape w off facs [] _ (file_hyps_unscaled _ _ _ _ _ _ H)).
  destruct H as (Hr & Hw & Ho & Hs & Hfit & Hok). f_equal. cbn [np_index]. apply np_index_F_all_none; [assumption|].
  pose proof (length_array_elems file shape w off Hw Ho Hs Hfit) as Hl.
  destruct facs as [fl|]; cbn [afni_full]; [|now rewrite zlen_map].
  unfold zlen. rewrite zipw_length.
  - fold (zlen (bcast dF shape (prod (removelast shape)) fl)). apply zlen_bcast. now apply prod_nonneg.
  - pose proof (zlen_bcast dF shape (prod (removelast shape)) fl (prod_nonneg shape Hs)). unfold zlen in *. lia.
Qed.

(* reshape: same bytes, new shape (F order) *)
Theorem reshape_same_bytes rd file mm shape ns ns' w off f :
  ap_reshape shape ns = Ok ns' -> file_hyps rd file mm shape w off ->
  Forall (fun n => 0 <= n) ns' -> whole_ok mm ns' ->
  prod ns' = prod shape
  /\ ap_getitem rd scale mm shape w off OrdF f [] = Ok (shape, map (scale f) (array_elems file shape w off))
  /\ ap_getitem rd scale mm ns' w off OrdF f [] = Ok (ns', map (scale f) (array_elems file shape w off)).
Proof.
  intros Hre H Hns Hok'. destruct (ap_reshape_spec shape ns ns' Hre) as (Hp & _ & _).
  split; [assumption|]. split; [now apply ap_asarray|].
  rewrite <- (array_elems_same_size file ns' shape w off Hp). apply ap_asarray.
  destruct H as (Hr & Hw & Ho & Hs & Hfit & Hok). unfold file_hyps. rewrite Hp. repeat split; assumption.
Qed.

(* the memory-mapping flag does not matter, except for the early returns of the read path *)
Theorem mmap_independent rd file shape w off o f ix c :
  reader_ok rd file -> 0 < w -> 0 <= off -> canonical_slicers true ix shape = Ok c -> ix_valid shape c ->
  off + w * prod shape <= zlen file ->
  (cidx_list_eqb c (all_none (length shape)) = true -> shape <> []) ->
  ap_getitem rd scale true shape w off o f ix = ap_getitem rd scale false shape w off o f ix.
Proof.
  intros Hr Hw Ho Hc Hv Hfit Hnz.
  rewrite (ap_getitem_spec scale dR rd file true shape w off o f ix c)
    by (unfold unscaled_hyps; repeat split; try assumption; intros _; now left).
  rewrite (ap_getitem_spec scale dR rd file false shape w off o f ix c); [reflexivity|].
  unfold unscaled_hyps. repeat split; try assumption. intros E. right. now apply Hnz.
Qed.
End Asarray.

(* ====================================================================================
   Part 10b: PAR/REC — records re-ordered by the sorted slice indices, per-record factors *)
Lemma zseq_cons n : 0 <= n -> zseq (n + 1) = 0 :: map (fun k => 1 + k) (zseq n).
Proof. intros H. replace (n + 1) with (1 + n) by lia. now rewrite (zseq_add 1 n) by lia. Qed.

Lemma diffs_seq : forall l a, diffs_are_1 (a :: l) = true ->
  a :: l = map (fun k => a + k) (zseq (zlen (a :: l))).
Proof.
  induction l as [|b r IH]; intros a H.
  - change (zseq (zlen [a])) with [0]. cbn [map]. f_equal. lia.
  - cbn [diffs_are_1] in H. apply andb_true_iff in H. destruct H as [H1 H2].
    replace (zlen (a :: b :: r)) with (zlen (b :: r) + 1) by (unfold zlen; cbn [length]; lia).
    rewrite zseq_cons by apply zlen_nonneg. cbn [map]. f_equal; [lia|].
    rewrite map_map. rewrite (IH b H2) at 1. apply map_ext. intros; lia.
Qed.

Lemma zseq_take_drop a m N : 0 <= a -> 0 <= m -> a + m <= N ->
  Model.take m (Model.drop a (zseq N)) = map (fun k => a + k) (zseq m).
Proof.
  intros Ha Hm HN. replace N with (a + (N - a)) by lia. rewrite (zseq_add a (N - a)) by lia.
  unfold Model.take, Model.drop.
  assert (La : length (zseq a) = Z.to_nat a) by (pose proof (zseq_length a Ha); lia).
  rewrite skipn_app, La, Nat.sub_diag, skipn_all2 by lia. cbn [skipn app].
  replace (N - a) with (m + (N - a - m)) by lia. rewrite (zseq_add m (N - a - m)) by lia.
  rewrite map_app.
  assert (Lm : length (map (fun k => a + k) (zseq m)) = Z.to_nat m)
    by (rewrite map_length; pose proof (zseq_length m Hm); lia).
  rewrite firstn_app, <- Lm, Nat.sub_diag, firstn_all. cbn [firstn]. now rewrite app_nil_r.
Qed.

Lemma slab_map_zseq {A} (g : Z -> A) m N i : 0 <= m -> 0 <= i -> m * i + m <= N ->
  slab m (map g (zseq N)) i = map g (map (fun k => m * i + k) (zseq m)).
Proof.
  intros Hm Hi HN. unfold slab, Model.take, Model.drop. rewrite skipn_map, firstn_map.
  f_equal. apply (zseq_take_drop (m * i) m N); nia.
Qed.

Lemma zlen_flat_map_in {A B} (f : A -> list B) m l : (forall x, In x l -> zlen (f x) = m) ->
  zlen (flat_map f l) = m * zlen l.
Proof.
  induction l as [|x l IH]; intros H; [unfold zlen; cbn; lia|]. cbn [flat_map].
  unfold zlen in *. rewrite app_length, Nat2Z.inj_add, H by (left; reflexivity).
  rewrite IH by (intros y Hy; apply H; now right). cbn [length]. lia.
Qed.

Section Parrec.
Context {F R : Type}.
Variable scale : F -> list Z -> R.
Variable dF : F.
Variable dR : R.

Definition parrec_raw (file : list Z) (shape : list Z) (nrec : Z) (ind : list Z) (w : Z) : list (list Z) :=
  flat_map (slab (prod (firstn 2 shape)) (array_elems file (firstn 2 shape ++ [nrec]) w 0)) ind.
Definition parrec_full (shape : list Z) (ind : list Z) (facs : list F) (raw : list (list Z)) : list R :=
  zipw scale (bcast dF shape (prod (firstn 2 shape)) (map (fun i => nth (Z.to_nat i) facs dF) ind)) raw.

Definition parrec_hyps rd file (mm : bool) shape nrec (ind : list Z) w (ix : list idx) c : Prop :=
  reader_ok rd file /\ 0 < w /\ canonical_slicers true ix shape = Ok c /\ ix_valid shape c
  /\ 0 <= nrec /\ w * (prod (firstn 2 shape) * nrec) <= zlen file
  /\ Forall (fun i => 0 <= i < nrec) ind /\ prod shape = prod (firstn 2 shape) * zlen ind
  /\ whole_ok mm (firstn 2 shape ++ [nrec]) /\ (ix = [] \/ ind <> []).

Lemma Forall_firstn {A} (P : A -> Prop) n l : Forall P l -> Forall P (firstn n l).
Proof.
  revert l. induction n as [|n IH]; intros l H; [constructor|].
  destruct H as [|x l Hx Hl]; [constructor|]. cbn [firstn]. constructor; [assumption|now apply IH].
Qed.

Lemma parrec_unscaled_spec rd file mm shape nrec ind w ix c : parrec_hyps rd file mm shape nrec ind w ix c ->
  parrec_unscaled rd mm shape nrec ind w ix = Ok (np_index [] OrdF shape c (parrec_raw file shape nrec ind w))
  /\ zlen (parrec_raw file shape nrec ind w) = prod shape.
Proof.
  intros (Hr & Hw & Hc & Hv & Hn & Hfit & Hind & Hp & Hok & Hne).
  pose proof (ix_valid_shape_nonneg c shape Hv) as Hs.
  set (m := prod (firstn 2 shape)) in *.
  assert (Hm : 0 <= m) by (apply prod_nonneg; now apply Forall_firstn).
  assert (Hrs : Forall (fun n => 0 <= n) (firstn 2 shape ++ [nrec]))
    by (apply Forall_app; split; [now apply Forall_firstn|repeat constructor; assumption]).
  assert (Hpr : prod (firstn 2 shape ++ [nrec]) = m * nrec)
    by (rewrite prod_app; cbn [prod fold_right]; fold m; lia).
  assert (Hfit' : 0 + w * prod (firstn 2 shape ++ [nrec]) <= zlen file) by (rewrite Hpr; lia).
  set (rec := array_elems file (firstn 2 shape ++ [nrec]) w 0).
  assert (Hrec : rec = map (fun i => elem_bytes file 0 w (w * i)) (zseq (m * nrec)))
    by (unfold rec; rewrite array_elems_spec by (try assumption; lia); now rewrite Hpr).
  assert (Hlen : zlen (parrec_raw file shape nrec ind w) = prod shape).
  { unfold parrec_raw. fold m. fold rec. rewrite (zlen_flat_map_in _ m); [lia|].
    intros i Hi. rewrite Forall_forall in Hind. specialize (Hind i Hi).
    rewrite Hrec, slab_map_zseq by nia. rewrite !zlen_map. now apply zlen_zseq. }
  split; [|exact Hlen].
  assert (Hfull : (u <- array_from_file rd mm (firstn 2 shape ++ [nrec]) w 0 ;;
                   if negb (forallb (fun i => (0 <=? i) && (i <? nrec)) ind) then Err EIndex
                   else if negb (prod shape =? m * zlen ind) then Err EValue
                   else Ok (shape, flat_map (slab m (snd u)) ind))
                  = Ok (shape, parrec_raw file shape nrec ind w)).
  { rewrite (array_from_file_ok rd file) by (try assumption; lia). cbn [bind snd].
    replace (forallb (fun i => (0 <=? i) && (i <? nrec)) ind) with true
      by (symmetry; apply forallb_forall; intros i Hi; rewrite Forall_forall in Hind; specialize (Hind i Hi); lia).
    cbn [negb]. replace (prod shape =? m * zlen ind) with true by lia. reflexivity. }
  unfold parrec_unscaled. fold m. destruct ix as [|i0 ixr].
  - rewrite Hfull. rewrite canonical_empty in Hc. inversion Hc. subst c. f_equal. cbn [np_index].
    symmetry. now apply np_index_F_all_none.
  - destruct Hne as [Hne|Hne]; [discriminate|]. destruct ind as [|a ir]; [contradiction|].
    destruct (negb (a =? 0) || negb (diffs_are_1 (a :: ir))) eqn:E.
    + rewrite Hfull. cbn [bind snd]. rewrite Hc. reflexivity.
    + apply orb_false_iff in E. destruct E as [E1 E2]. apply negb_false_iff in E1, E2.
      assert (a = 0) by lia. subst a.
      pose proof (diffs_seq ir 0 E2) as Hseq. set (K := zlen (0 :: ir)) in *.
      assert (HK : 1 <= K) by (unfold K, zlen; cbn [length]; lia).
      assert (HKn : K <= nrec).
      { assert (Hin : In (K - 1) (0 :: ir)).
        { rewrite Hseq. apply in_map_iff. exists (K - 1). split; [lia|]. apply zseq_In. lia. }
        rewrite Forall_forall in Hind. specialize (Hind _ Hin). lia. }
      rewrite (fileslice_elems rd file (i0 :: ixr) shape w 0 OrdF c) by (try assumption; try lia; nia).
      f_equal. f_equal. unfold parrec_raw. fold m. fold rec. fold K in Hp.
      rewrite array_elems_spec by (try assumption; try lia; nia). rewrite Hp.
      rewrite Hseq. rewrite (map_ext (fun k => 0 + k) (fun k => k)) by (intros; lia). rewrite map_id.
      rewrite Hrec.
      rewrite (flat_map_ext_in' _ (fun i => map (fun i0 => elem_bytes file 0 w (w * i0)) (map (fun k => m * i + k) (zseq m)))).
      2:{ intros i Hi. apply zseq_In in Hi. apply slab_map_zseq; nia. }
      rewrite <- (map_flat_map (fun i0 => elem_bytes file 0 w (w * i0))). f_equal.
      pose proof (block_split 0 m K Hm ltac:(lia)) as B.
      rewrite (map_ext (fun k => 0 + k) (fun k => k)) in B by (intros; lia). rewrite map_id in B.
      rewrite B. apply flat_map_ext. intros j. apply map_ext. intros; lia.
Qed.

Theorem parrec_getitem_spec rd file mm shape nrec ind w facs ix c :
  parrec_hyps rd file mm shape nrec ind w ix c ->
  parrec_getitem rd scale dF mm shape nrec ind w facs ix
  = Ok (np_index dR OrdF shape c (parrec_full shape ind facs (parrec_raw file shape nrec ind w))).
Proof.
  intros H. destruct (parrec_unscaled_spec rd file mm shape nrec ind w ix c H) as [Hu Hl].
  destruct H as (Hr & Hw & Hc & Hv & _). unfold parrec_getitem. rewrite Hu. cbn [bind]. rewrite Hc. cbn [bind np_index].
  unfold parrec_full.
  rewrite (np_index_F_zipw scale dF [] dR)
    by (try assumption; apply zlen_bcast; apply prod_nonneg; now apply (ix_valid_shape_nonneg c)).
  unfold np_index_F at 1 2. cbn [fst snd]. now rewrite zlist_eqb_refl.
Qed.
End Parrec.

(* ====================================================================================
   Part 10c: MINC — C order; image-min/-max indexed by the leading entries of the index and
   broadcast over the trailing ones *)
Lemma split_real_gen : forall c A n B, ix_valid (A ++ n :: B) c ->
  exists pre x post, split_real (length A) c = Some (pre, x, post) /\ c = pre ++ x :: post
    /\ ix_valid A pre /\ ix_valid (n :: B) (x :: post) /\ x <> CNew.
Proof.
  induction c as [|y c IH]; intros A n B Hv.
  - cbn in Hv. destruct A; discriminate.
  - destruct y as [k|s|].
    + destruct A as [|m sh].
      * exists [], (CInt k), c. cbn [length split_real app]. split; [reflexivity|]. split; [reflexivity|]. split; [reflexivity|]. split; [exact Hv|discriminate].
      * cbn [app ix_valid] in Hv. destruct Hv as (Hm & Hk & Hv).
        destruct (IH sh n B Hv) as (pre & x & post & Hs & Hc & Hp & Hq & Hx).
        exists (CInt k :: pre), x, post. cbn [length split_real]. rewrite Hs. subst c.
        split; [reflexivity|]. split; [reflexivity|]. split; [cbn [ix_valid]; auto|]. split; assumption.
    + destruct A as [|m sh].
      * exists [], (CSl s), c. cbn [length split_real app]. split; [reflexivity|]. split; [reflexivity|]. split; [reflexivity|]. split; [exact Hv|discriminate].
      * cbn [app ix_valid] in Hv. destruct Hv as (Hm & Hk & Hv).
        destruct (IH sh n B Hv) as (pre & x & post & Hs & Hc & Hp & Hq & Hx).
        exists (CSl s :: pre), x, post. cbn [length split_real]. rewrite Hs. subst c.
        split; [reflexivity|]. split; [reflexivity|]. split; [cbn [ix_valid]; auto|]. split; assumption.
    + cbn [ix_valid] in Hv. destruct (IH A n B Hv) as (pre & x & post & Hs & Hc & Hp & Hq & Hx).
      exists (CNew :: pre), x, post. cbn [split_real]. rewrite Hs. subst c.
      split; [reflexivity|]. split; [reflexivity|]. split; [exact Hp|]. split; assumption.
Qed.

Lemma np_index_F_split {E} (d : E) A B ixA ixB (L : list E) : ix_valid A ixA ->
  snd (np_index_F d (A ++ B) (ixA ++ ixB) L)
  = flat_map (fun ob => map (fun oa => nth (Z.to_nat (oa + prod A * ob)) L d) (offs A ixA 1)) (offs B ixB 1).
Proof.
  intros Ha. unfold np_index_F. cbn [snd]. rewrite offs_app by assumption.
  replace (1 * prod A) with (prod A * 1) by lia. rewrite offs_scale.
  rewrite flat_map_map, map_flat_map. apply flat_map_ext. intros ob. now rewrite map_map.
Qed.

Lemma offs_leading_new : forall (l : list cidx) B ixB strd,
  offs B (map (fun _ => CNew) l ++ ixB) strd = offs B ixB strd.
Proof. induction l as [|y l IH]; intros; [reflexivity|]. cbn [map app offs]. apply IH. Qed.

Lemma np_shape_leading_new : forall (l : list cidx) B ixB,
  np_shape B (map (fun _ => CNew) l ++ ixB) = repeat 1 (length l) ++ np_shape B ixB.
Proof. induction l as [|y l IH]; intros; [reflexivity|]. cbn [map app np_shape length repeat]. f_equal. apply IH. Qed.

Lemma rev_map_const {X} (y : cidx) (l : list X) : rev (map (fun _ => y) l) = map (fun _ => y) (rev l).
Proof. now rewrite map_rev. Qed.

Lemma np_shape_length : forall ix A, length (np_shape A ix) = length (filter (fun y => negb (is_cint y)) ix).
Proof.
  induction ix as [|y ix IH]; intros A; [reflexivity|].
  destruct y; cbn [np_shape filter is_cint negb length]; now rewrite IH.
Qed.

Lemma filter_rev_length {X} (p : X -> bool) l : length (filter p (rev l)) = length (filter p l).
Proof.
  induction l as [|x l IH]; [reflexivity|]. cbn [rev filter]. rewrite filter_app, app_length, IH. cbn [filter].
  destruct (p x); cbn [length]; lia.
Qed.

(* a block-wise constant first argument against a concatenation of equal-size blocks *)
Lemma zipw_blocks {X Y W} (f : X -> Y -> W) (G : Z -> X) (h : Z -> list Y) (J : list Z) T (dX : X) (dY : Y) (dW : W) :
  0 <= T -> (forall j, zlen (h j) = T) ->
  zipw f (map (fun p => G (p / T)) (zseq (T * zlen J))) (flat_map h J)
  = flat_map (fun pj => map (f (G (fst pj))) (h (snd pj))) (enumerate J).
Proof.
  intros HT Hh.
  assert (L2 : zlen (flat_map h J) = T * zlen J) by now apply zlen_flat_map_const.
  assert (L1 : zlen (map (fun p => G (p / T)) (zseq (T * zlen J))) = T * zlen J)
    by (rewrite zlen_map; apply zlen_zseq; pose proof (zlen_nonneg J); nia).
  assert (LE : zlen (enumerate J) = zlen J).
  { unfold enumerate, zlen. rewrite combine_length. pose proof (zseq_length (Z.of_nat (length J)) ltac:(lia)). lia. }
  assert (L3 : zlen (flat_map (fun pj => map (f (G (fst pj))) (h (snd pj))) (enumerate J)) = T * zlen J).
  { rewrite (zlen_flat_map_const _ T) by (intros; rewrite zlen_map; apply Hh). now rewrite LE. }
  apply nth_ext with (d := dW) (d' := dW).
  - unfold zlen in *. rewrite zipw_length; lia.
  - intros k Hk. unfold zlen in *. rewrite zipw_length in Hk by lia.
    assert (Hp : 0 <= Z.of_nat k < T * Z.of_nat (length J)) by lia.
    assert (HT' : 0 < T) by nia.
    pose proof (Z.mod_pos_bound (Z.of_nat k) T HT') as Hm.
    pose proof (Z.div_mod (Z.of_nat k) T ltac:(lia)) as Hdm.
    assert (Hq : 0 <= Z.of_nat k / T < Z.of_nat (length J))
      by (split; [apply Z.div_pos; lia|apply Z.div_lt_upper_bound; lia]).
    rewrite (nth_zipw f _ _ k dX dY dW) by lia.
    rewrite (nth_map_in _ (zseq (T * Z.of_nat (length J))) k dX 0)
      by (pose proof (zseq_length (T * Z.of_nat (length J)) ltac:(lia)); unfold zlen; lia).
    replace k with (Z.to_nat (Z.of_nat k)) at 1 by lia. unfold zlen. rewrite nth_zseq by lia.
    set (i := Z.to_nat (Z.of_nat k mod T)). set (j := Z.to_nat (Z.of_nat k / T)).
    assert (Ek : k = (i + Z.to_nat T * j)%nat) by (unfold i, j; nia).
    rewrite Ek at 2 3.
    rewrite (nth_blocks h (Z.to_nat T) J dY 0) by (try (intros o; specialize (Hh o); unfold zlen in Hh; lia); unfold i, j; lia).
    rewrite (nth_blocks (fun pj => map (f (G (fst pj))) (h (snd pj))) (Z.to_nat T) (enumerate J) dW (0, 0)).
    + unfold enumerate. rewrite combine_nth_lt by (try (pose proof (zseq_length (zlen J) (zlen_nonneg J)); unfold zlen in *; unfold j; lia); unfold j; lia).
      cbn [fst snd]. unfold j. rewrite nth_zseq by (unfold zlen; lia).
      rewrite (nth_map_in _ _ i dW dY) by (specialize (Hh (nth (Z.to_nat (Z.of_nat k / T)) J 0)); unfold i; lia).
      reflexivity.
    + intros o. rewrite map_length. specialize (Hh (snd o)). unfold zlen in Hh. lia.
    + unfold i. lia.
    + unfold j. lia.
Qed.

Section MincThm.
Context {F R : Type}.
Variable scale : F -> list Z -> R.
Variable noscale : list Z -> R.
Variable dF : F.
Variable dR : R.

Definition minc_hyps (shape : list Z) (nscales : Z) (elems : list (list Z)) (facs : list F) (ix : list idx) c : Prop :=
  canonical_slicers true ix shape = Ok c /\ ix_valid shape c /\ zlen elems = prod shape
  /\ 0 <= nscales < zlen shape /\ zlen facs = prod (firstn (Z.to_nat nscales) shape).

Lemma minc_full_scalar shape (elems : list (list Z)) (facs : list F) : Forall (fun n => 0 <= n) shape ->
  zlen elems = prod shape -> minc_full scale dF shape 0 elems facs = map (scale (nth 0 facs dF)) elems.
Proof.
  intros Hs Hl. unfold minc_full. cbn [Z.to_nat skipn].
  assert (Hrep : elems = map (fun o => nth (Z.to_nat o) elems []) (zseq (prod shape)))
    by (rewrite <- Hl; symmetry; apply map_nth_zseq).
  rewrite Hrep. rewrite zipw_map, map_map. apply map_ext_in. intros o Ho.
  apply zseq_In in Ho. rewrite Z.div_small by lia. reflexivity.
Qed.

Theorem minc_getitem_spec shape nscales elems facs ix c :
  minc_hyps shape nscales elems facs ix c ->
  minc_getitem scale noscale dF false shape nscales elems facs ix
  = Ok (np_index dR OrdC shape c (minc_full scale dF shape nscales elems facs)).
Proof.
  intros (Hc & Hv & Hl & Hns & Hfl). unfold minc_getitem. rewrite Hc. cbn [bind].
  pose proof (ix_valid_shape_nonneg c shape Hv) as Hs.
  destruct (np_index [] OrdC shape c elems) as [s raw0] eqn:Eraw.
  assert (Es : s = rev (np_shape (rev shape) (rev c))).
  { cbn [np_index] in Eraw. unfold np_index_F in Eraw. inversion Eraw. reflexivity. }
  destruct (nscales =? 0) eqn:E0.
  - (* scalar image-min/-max *)
    assert (nscales = 0) by lia. subst nscales. rewrite minc_full_scalar by assumption.
    rewrite (np_index_map (scale (nth 0 facs dF)) [] dR) by assumption. rewrite Eraw. reflexivity.
  - cbn [bind].
    set (k := Z.to_nat nscales).
    assert (Hk : (k < length shape)%nat) by (unfold k, zlen in *; lia).
    assert (Esh : shape = firstn k shape ++ skipn k shape) by (symmetry; apply firstn_skipn).
    destruct (skipn k shape) as [|n trail'] eqn:Etr.
    { exfalso. apply (f_equal (@length Z)) in Etr. rewrite skipn_length in Etr. cbn in Etr. lia. }
    set (lead := firstn k shape) in *.
    assert (Hll : length lead = k) by (unfold lead; rewrite firstn_length; lia).
    rewrite Esh in Hv.
    destruct (split_real_gen c lead n trail' Hv) as (pre & x & post & Hsp & Hce & Hp & Hq & Hx).
    rewrite Hll in Hsp. rewrite Hsp.
    set (trail := n :: trail') in *. set (rest := filter (fun y => negb (is_cint y)) (x :: post)).
    (* F-order view: A = reversed trailing axes (fast), B = reversed leading axes (slow) *)
    set (A := rev trail). set (B := rev lead). set (ixA := rev (x :: post)). set (ixB := rev pre).
    assert (HA : ix_valid A ixA) by (apply ix_valid_rev; exact Hq).
    assert (HB : ix_valid B ixB) by (apply ix_valid_rev; exact Hp).
    assert (Erevs : rev shape = A ++ B) by (rewrite Esh; unfold A, B; apply rev_app_distr).
    assert (Erevc : rev c = ixA ++ ixB) by (rewrite Hce; unfold ixA, ixB; rewrite rev_app_distr; reflexivity).
    assert (HPA : prod A = prod trail) by (unfold A; apply prod_rev).
    assert (Hm : prod (skipn (Z.to_nat nscales) shape) = prod A) by (fold k; rewrite Etr; now rewrite HPA).
    set (OA := offs A ixA 1). set (OB := offs B ixB 1).
    assert (HOA : forall oa, In oa OA -> 0 <= oa < prod A) by (intros oa Ho; now apply (offs_range ixA A oa HA)).
    assert (HOB : forall ob, In ob OB -> 0 <= ob < prod B) by (intros ob Ho; now apply (offs_range ixB B ob HB)).
    assert (HpB : prod B = zlen facs) by (unfold B; rewrite prod_rev; unfold lead, k; now rewrite Hfl).
    assert (Hprod : prod shape = prod A * prod B).
    { rewrite <- (prod_rev shape), Erevs, prod_app. reflexivity. }
    (* the sliced raw data *)
    assert (Eraw0 : raw0 = flat_map (fun ob => map (fun oa => nth (Z.to_nat (oa + prod A * ob)) elems []) OA) OB).
    { cbn [np_index] in Eraw. rewrite Erevs, Erevc in Eraw.
      pose proof (np_index_F_split [] A B ixA ixB elems HA) as H.
      destruct (np_index_F [] (A ++ B) (ixA ++ ixB) elems) as [s0 e0]. cbn [snd] in H.
      injection Eraw as _ He. rewrite <- He. exact H. }
    (* the sliced factors *)
    set (i_slicer := pre ++ map (fun _ => CNew) rest).
    destruct (np_index dF OrdC lead i_slicer facs) as [fs fsel] eqn:Efac.
    assert (Erevi : rev i_slicer = map (fun _ => CNew) (rev rest) ++ ixB)
      by (unfold i_slicer, ixB; rewrite rev_app_distr, rev_map_const; reflexivity).
    assert (Efsel : fsel = map (fun ob => nth (Z.to_nat ob) facs dF) OB /\ fs = rev (np_shape B ixB) ++ repeat 1 (length rest)).
    { cbn [np_index] in Efac. fold B in Efac. rewrite Erevi in Efac. unfold np_index_F in Efac.
      rewrite offs_leading_new, np_shape_leading_new in Efac. inversion Efac. split; [reflexivity|].
      rewrite rev_app_distr, rev_repeat, rev_length. reflexivity. }
    destruct Efsel as [Efsel Efs].
    assert (Es' : s = rev (np_shape B ixB) ++ rev (np_shape A ixA)).
    { rewrite Es, Erevs, Erevc, np_shape_app by assumption. apply rev_app_distr. }
    assert (Hlr : length rest = length (np_shape A ixA)).
    { rewrite np_shape_length. unfold ixA, rest. now rewrite filter_rev_length. }
    assert (Hnlead : (length s - length rest)%nat = length (rev (np_shape B ixB))).
    { rewrite Es', app_length, Hlr, !rev_length. lia. }
    rewrite Hnlead.
    rewrite Efs, Es'. rewrite !firstn_app, !Nat.sub_diag, !firstn_all. cbn [firstn]. rewrite zlist_eqb_refl.
    replace (Nat.eqb (length (rev (np_shape B ixB) ++ repeat 1 (length rest))) (length (rev (np_shape B ixB) ++ rev (np_shape A ixA))))
      with true by (symmetry; apply Nat.eqb_eq; rewrite !app_length, repeat_length, Hlr, !rev_length; reflexivity).
    cbn [negb orb].
    rewrite skipn_app, Nat.sub_diag, skipn_all. cbn [skipn app].
    assert (HT : prod (rev (np_shape A ixA)) = zlen OA) by (rewrite prod_rev; symmetry; now apply offs_length).
    assert (HPs : prod (rev (np_shape B ixB) ++ rev (np_shape A ixA)) = zlen OA * zlen OB).
    { rewrite prod_app, !prod_rev. rewrite <- (offs_length ixA A 1 HA), <- (offs_length ixB B 1 HB). unfold OA, OB. lia. }
    rewrite HT, HPs. f_equal.
    (* the spec side *)
    cbn [np_index]. rewrite Erevs, Erevc.
    pose proof (np_index_F_split dR A B ixA ixB (minc_full scale dF shape nscales elems facs) HA) as Hspec.
    unfold np_index_F at 1. unfold np_index_F in Hspec. cbn [snd] in Hspec. cbn [fst snd].
    rewrite <- Erevs, <- Erevc at 1. rewrite <- Es. rewrite Es'. f_equal.
    rewrite Hspec. clear Hspec. fold OA OB.
    rewrite Eraw0, Efsel.
    rewrite (map_ext_in _ (fun p => nth (Z.to_nat (nth (Z.to_nat (p / zlen OA)) OB 0)) facs dF)).
    2:{ intros p Hp'. apply zseq_In in Hp'. pose proof (zlen_nonneg OA). pose proof (zlen_nonneg OB).
        assert (0 < zlen OA) by nia.
        assert (0 <= p / zlen OA < zlen OB) by (split; [apply Z.div_pos; lia|apply Z.div_lt_upper_bound; lia]).
        rewrite (nth_map_in (fun ob => nth (Z.to_nat ob) facs dF) OB _ dF 0) by (unfold zlen in *; lia). reflexivity. }
    rewrite (zipw_blocks scale (fun pb => nth (Z.to_nat (nth (Z.to_nat pb) OB 0)) facs dF)
               (fun ob => map (fun oa => nth (Z.to_nat (oa + prod A * ob)) elems []) OA) OB (zlen OA) dF [] dR)
      by (try apply zlen_nonneg; intros; apply zlen_map).
    (* enumerate OB: fst is the position, snd the offset *)
    assert (Hen : forall pj, In pj (enumerate OB) -> nth (Z.to_nat (fst pj)) OB 0 = snd pj /\ In (snd pj) OB).
    { intros [pb ob] Hin. unfold enumerate in Hin. cbn [fst snd].
      destruct (In_nth _ _ (0, 0) Hin) as (t & Ht & Hnth).
      rewrite combine_length in Ht. pose proof (zseq_length (zlen OB) (zlen_nonneg OB)) as Hzl. unfold zlen in Hzl.
      rewrite combine_nth_lt in Hnth by lia. inversion Hnth as [[H1 H2]].
      rewrite <- (Nat2Z.id t) at 1. rewrite nth_zseq by (unfold zlen; lia). rewrite Nat2Z.id.
      split; [reflexivity|]. apply nth_In. lia. }
    rewrite (flat_map_ext_in' _ (fun pj => map (fun oa => nth (Z.to_nat (oa + prod A * snd pj)) (minc_full scale dF shape nscales elems facs) dR) OA)).
    + unfold enumerate. clear Hen.
      assert (G : forall (X : list Z) (Y : list Z) (g : Z -> list R), length X = length Y ->
                  flat_map (fun pj => g (snd pj)) (combine X Y) = flat_map g Y).
      { induction X as [|x0 X IHX]; intros [|y0 Y] g Hxy; try discriminate; [reflexivity|].
        cbn [combine flat_map snd]. f_equal. apply IHX. cbn in Hxy. lia. }
      apply (G _ _ (fun ob => map (fun oa => nth (Z.to_nat (oa + prod A * ob)) (minc_full scale dF shape nscales elems facs) dR) OA)).
      pose proof (zseq_length (zlen OB) (zlen_nonneg OB)). unfold zlen in *. lia.
    + intros pj Hin. destruct (Hen pj Hin) as [E1 E2]. rewrite E1. rewrite map_map.
      apply map_ext_in. intros oa Hoa. specialize (HOA oa Hoa). specialize (HOB _ E2).
      unfold minc_full. rewrite Hm.
      assert (Hrange : 0 <= oa + prod A * snd pj < prod shape) by nia.
      symmetry. rewrite (nth_zipw scale _ _ _ dF [] dR).
      * f_equal. rewrite (nth_map_in _ (zseq (prod shape)) _ dF 0) by (pose proof (zseq_length (prod shape) ltac:(lia)); lia).
        rewrite nth_zseq by lia. f_equal. f_equal.
        rewrite Z.mul_comm, Z.div_add by lia. rewrite Z.div_small by lia. lia.
      * rewrite map_length. pose proof (zseq_length (prod shape) ltac:(lia)). lia.
      * unfold zlen in Hl. lia.
Qed.

(* float-typed image: the data as read, unscaled, for every valid index *)
Theorem minc_getitem_float_spec shape nscales elems (facs : list F) ix c :
  canonical_slicers true ix shape = Ok c -> ix_valid shape c -> zlen elems = prod shape ->
  minc_getitem scale noscale dF true shape nscales elems facs ix
  = Ok (np_index dR OrdC shape c (map noscale elems)).
Proof.
  intros Hc Hv Hl. unfold minc_getitem. rewrite Hc. cbn [bind].
  rewrite (np_index_map noscale [] dR) by assumption.
  now destruct (np_index [] OrdC shape c elems).
Qed.
End MincThm.

(* ====================================================================================
   Part 11: statements used by Props.v *)
Theorem ecat_getitem_and_full :
  forall (F R : Type) (scale : F -> list Z -> R) (dF : F) (dR : R)
         rd file mm A n w fmap foffs facs ix c,
  ecat_hyps rd file mm A n w fmap foffs ->
  canonical_slicers true ix (A ++ [n]) = Ok c -> ix_valid (A ++ [n]) c ->
  ecat_getitem rd scale dF dR mm A n w fmap foffs facs ix
  = Ok (np_index dR OrdF (A ++ [n]) c (flat_map (ecat_fr scale dF dR file A n w fmap foffs facs) (zseq n)))
  /\ ecat_full rd scale dF mm A n w fmap foffs facs
     = Ok (A ++ [n], flat_map (ecat_fr scale dF dR file A n w fmap foffs facs) (zseq n)).
Proof.
  intros. split; [now apply ecat_getitem_spec|now apply (ecat_full_spec scale dF dR rd file)].
Qed.

Theorem scaling_exact :
  forall (F R : Type) (scale : F -> list Z -> R) (noscale : list Z -> R) (dF : F) (dR : R)
         rd file mm shape w off,
  file_hyps rd file mm shape w off ->
  (forall o f, ap_getitem rd scale mm shape w off o f []
               = Ok (shape, map (scale f) (array_elems file shape w off)))
  /\ (forall facs, afni_getitem rd scale noscale dF mm shape w off facs []
               = Ok (shape, afni_full scale noscale dF shape facs (array_elems file shape w off))).
Proof.
  intros. split; intros; [now apply (ap_asarray scale dR rd file)|now apply (afni_asarray scale noscale dF dR rd file)].
Qed.

Theorem config_independent :
  forall (rd1 rd2 : Z -> Z -> res (list Z)), (forall o l, rd1 o l = rd2 o l) ->
  forall (F R : Type) (scale : F -> list Z -> R) (noscale : list Z -> R) (dF : F) (dR : R),
  (forall mm shape w off o f ix, ap_getitem rd1 scale mm shape w off o f ix = ap_getitem rd2 scale mm shape w off o f ix)
  /\ (forall mm shape w off facs ix, afni_getitem rd1 scale noscale dF mm shape w off facs ix
                                     = afni_getitem rd2 scale noscale dF mm shape w off facs ix)
  /\ (forall mm shape nrec ind w facs ix, parrec_getitem rd1 scale dF mm shape nrec ind w facs ix
                                          = parrec_getitem rd2 scale dF mm shape nrec ind w facs ix)
  /\ (forall mm A n w fmap foffs facs ix, ecat_getitem rd1 scale dF dR mm A n w fmap foffs facs ix
                                          = ecat_getitem rd2 scale dF dR mm A n w fmap foffs facs ix).
Proof.
  intros rd1 rd2 H F R scale noscale dF dR. split; [|split; [|split]]; intros.
  - now apply ap_getitem_ext.
  - now apply afni_getitem_ext.
  - now apply parrec_getitem_ext.
  - now apply ecat_getitem_ext.
Qed.
