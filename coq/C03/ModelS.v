(* C03/ModelS.v — the element arithmetic of the array proxies, bit for bit (IEEE-754 through
   Flocq, re-using C02/ModelF.v read-only: formats K16/K32/K64/K80, fmul/fadd/fconv/f_of_Z,
   promote_if, kinds_from).  Counterparts in /repo/nibabel:
     arrayproxy.ArrayProxy._get_scaled / __array__ / __getitem__   -> plan_of / get_scaled / to_req
     volumeutils.apply_read_scaling, int_scinter_ftype,
                 _ftype4scaled_finite (direction 'read')           -> ars_plan / scinter_ftype
     brikhead.AFNIArrayProxy._get_scaled                           -> afni_elem
     parrec.PARRECArrayProxy._get_scaled                           -> parrec_elem
     ecat.EcatSubHeader.data_from_fileobj                          -> ecat_elem
     minc1.Minc1File._normalize (integer data)                     -> minc_elem
   A PLAN is everything _get_scaled/apply_read_scaling decide before touching an element: the
   result dtype and the (possibly re-cast) slope and intercept.  It is a function of the on-disk
   dtype, the dtypes and values of the two factors and the requested dtype ONLY — not of the
   index, the shape or the data (np.atleast_1d makes 0-d results 1-d before any arithmetic, so
   NumPy's scalar promotion never applies).  Definitions only. *)
From Coq Require Import ZArith List Bool.
From Coq Require Import Floats.SpecFloat.
From NV Require Import C02.Model C02.Tables C02.ModelF.
Import ListNotations.
Open Scope Z_scope.

Inductive sdt := DI (t : ity) | DF (k : fid).          (* dtype: integer / float *)
Inductive sval := VI (z : Z) | VF (x : sf).            (* a decoded element *)

(* a scale factor as NumPy sees it: np.asanyarray(self._slope) — dtype and value *)
Record fac := mkFac { f_k : fid; f_v : sf }.

(* np.can_cast(float array of dtype a, b), casting='safe' *)
Definition can_cast_ff (a b : fid) : bool := krank a <=? krank b.

(* ArrayProxy._get_scaled, before the read: use_dtype = slope dtype, or the requested one *)
Definition recast (use : fid) (f : fac) : fac :=
  if can_cast_ff (f_k f) use then mkFac use (fconv use (f_v f)) else f.
Definition prep (slope inter : fac) (req : option fid) : fac * fac :=
  let use := match req with None => f_k slope | Some d => d end in
  (recast use slope, recast use inter).

Definition is_one (f : fac) : bool := feq (f_k f) (f_v f) (fone (f_k f)).
Definition is_zero (f : fac) : bool := feq (f_k f) (f_v f) fzero.

(* the plan of apply_read_scaling *)
Inductive plan :=
| PId                                   (* (slope, inter) == (1, 0): the array as read *)
| PScale (mul : option fac) (add : option fac)   (* `arr * slope1d` if Some, then `arr + inter1d` if Some *)
| POverflow.                            (* int_scinter_ftype: 'Overflow using highest floating point type' *)

(* dtype of  array(d) <op> 1-d array(k) *)
Definition promote (d : sdt) (k : fid) : fid :=
  match d with DI t => promote_if t k | DF kd => kmax kd k end.

Definition to_k (d : sdt) (k : fid) (v : sval) : sf :=
  match v with VI z => f_of_Z k z | VF x => fconv k x end.

(* one element through `arr * slope1d` / `arr + inter1d`; returns dtype and value *)
Definition op_step (op : fid -> sf -> sf -> sf) (f : option fac) (dv : sdt * sval) : sdt * sval :=
  match f with
  | None => dv
  | Some f => let r := promote (fst dv) (f_k f) in
              (DF r, VF (op r (to_k (fst dv) r (snd dv)) (fconv r (f_v f))))
  end.

Definition run_ops (mul add : option fac) (dv : sdt * sval) : sdt * sval :=
  op_step fadd add (op_step fmul mul dv).

Definition opt_unless (skip : bool) (f : fac) : option fac := if skip then None else Some f.
Definition cast_fac (k : fid) (f : fac) : fac := mkFac k (fconv k (f_v f)).

Definition val_finite (v : sval) : bool := match v with VI _ => true | VF x => is_fin_sf x end.

(* _ftype4scaled_finite(direction='read'): slope and inter are re-cast CUMULATIVELY, type after
   type, from OK_FLOATS[index(default):]; a type is accepted when imin and imax scale to finite
   values (overflow warnings are errors there, and the result is checked with isfinite) *)
Fixpoint scinter_loop (t : ity) (ks : list fid) (slope inter : fac) : option fid :=
  match ks with
  | [] => None
  | k :: r =>
      let sl := cast_fac k slope in let it := cast_fac k inter in
      let ops := run_ops (opt_unless (is_one sl) sl) (opt_unless (is_zero it) it) in
      if val_finite (snd (ops (DI t, VI (imin t)))) && val_finite (snd (ops (DI t, VI (imax t)))) then Some k
      else scinter_loop t r sl it
  end.
Definition scinter_ftype (t : ity) (slope inter : fac) : option fid :=
  scinter_loop t (kinds_from (f_k slope)) slope inter.

(* apply_read_scaling(arr of dtype d, slope, inter) *)
Definition ars_plan (d : sdt) (slope inter : fac) : plan :=
  if is_one slope && is_zero inter then PId
  else
    match d with
    | DI t =>
        match scinter_ftype t slope inter with
        | None => POverflow
        | Some k => let sl := cast_fac k slope in let it := cast_fac k inter in
                    PScale (opt_unless (is_one sl) sl) (opt_unless (is_zero it) it)
        end
    | DF _ => PScale (opt_unless (is_one slope) slope) (opt_unless (is_zero inter) inter)
    end.

Definition plan_of (d : sdt) (slope inter : fac) (req : option fid) : plan :=
  let '(sl, it) := prep slope inter req in ars_plan d sl it.

(* `scaled.astype(np.promote_types(scaled.dtype, dtype), copy=False)` in _get_scaled followed by
   `arr.astype(dtype, copy=False)` in __array__ (requested dtype: a float type) *)
Definition to_req (req : option fid) (dv : sdt * sval) : sdt * sval :=
  match req with
  | None => dv
  | Some q => let p := promote (fst dv) q in
              (DF q, VF (fconv q (to_k (fst dv) p (snd dv))))
  end.

(* one element of proxy[ix] (req = None) / np.asarray(proxy, dtype=req): None = ValueError *)
Definition scaled_elem (d : sdt) (slope inter : fac) (req : option fid) (v : sval) : option (sdt * sval) :=
  match plan_of d slope inter req with
  | PId => Some (to_req req (d, v))
  | PScale m a => Some (to_req req (run_ops m a (d, v)))
  | POverflow => None
  end.

(* the dtype of the result: a function of the plan alone *)
Definition dtype_after (d : sdt) (mul add : option fac) : sdt :=
  let d1 := match mul with None => d | Some f => DF (promote d (f_k f)) end in
  match add with None => d1 | Some f => DF (promote d1 (f_k f)) end.
Definition scaled_dtype (d : sdt) (slope inter : fac) (req : option fid) : option sdt :=
  match req with
  | Some q => match plan_of d slope inter req with POverflow => None | _ => Some (DF q) end
  | None => match plan_of d slope inter None with
            | PId => Some d
            | PScale m a => Some (dtype_after d m a)
            | POverflow => None
            end
  end.

(* whole arrays *)
Fixpoint all_some {A} (l : list (option A)) : option (list A) :=
  match l with
  | [] => Some []
  | None :: _ => None
  | Some x :: r => match all_some r with Some t => Some (x :: t) | None => None end
  end.
Definition get_scaled (d : sdt) (slope inter : fac) (req : option fid) (raw : list sval)
  : option (sdt * list sval) :=
  match scaled_dtype d slope inter req, all_some (map (scaled_elem d slope inter req) raw) with
  | Some dt, Some l => Some (dt, map snd l)
  | _, _ => None
  end.

(* ---- the other proxies (factors are float64 / Python floats) *)
(* AFNI: raw_data * scaling[slicer].astype(result_type(raw, float64)) *)
Definition afni_elem (d : sdt) (factor : sf) (v : sval) : sdt * sval :=
  op_step fmul (Some (mkFac (promote d K64) factor)) (d, v).
(* PAR/REC: raw_data * slopes[slicer].astype(final) + inters[slicer].astype(final),
   final = result_type(raw, float64, float64) *)
Definition parrec_elem (d : sdt) (slope inter : sf) (v : sval) : sdt * sval :=
  let k := promote d K64 in
  op_step fadd (Some (mkFac k inter)) (op_step fmul (Some (mkFac k slope)) (d, v)).
(* ECAT: (raw_data * calibration_factor.item()) * scale_factor.item(): array times Python float *)
Definition ecat_elem (d : sdt) (calib sfac : sf) (v : sval) : sdt * sval :=
  let k := match d with DI _ => K64 | DF kd => kd end in
  op_step fmul (Some (mkFac k sfac)) (op_step fmul (Some (mkFac k calib)) (d, v)).

(* MINC (minc1.Minc1File._normalize) for an integer image and float64 image-min/-max and
   valid_range:  out = np.clip(data, dmin, dmax) [float64: dmin/dmax are np.float64];
   slope = (imax - imin) / (dmax - dmin); inter = imin - dmin * slope; out *= slope; out += inter *)
Definition minc_elem (d : sdt) (dmin dmax imin imax : sf) (v : sval) : sdt * sval :=
  let x := to_k d K64 v in
  let c := fclip K64 x dmin dmax in
  let slope := fdiv K64 (fsub_ K64 imax imin) (fsub_ K64 dmax dmin) in
  let inter := fsub_ K64 imin (fmul K64 dmin slope) in
  (DF K64, VF (fadd K64 (fmul K64 c slope) inter)).
