(* C03 driver body.  Raw element = big-endian encoding of its own index in the file, factor =
   its own index in the factor list, scale f e = (index of e, f): the output says which raw
   element and which factor feed each output position.
   Index tuples as in C06: i<k> | s<a>:<b>:<c> (_ = None) | n | e ; "()" empty tuple.
     ap <mm> <order> <shape> <w> <off> <ix>
     afni <mm> <shape> <w> <off> <hasfac> <ix>
     parrec <mm> <shape> <nrec> <ind> <w> <ix>
     ecat <mm> <shape3> <nfr> <w> <fmap> <gap> <ix>      (record j at element offset j*(M+gap))
     ecatfull <mm> <shape3> <nfr> <w> <fmap> <gap>
     minc <shape> <nscales> <isfloat> <ix>      mincfull <shape> <nscales>
     reshape <shape> <newshape>
   Result: ok <shape> <elem indices> <factor indices> | err <enum>
   Bit-exact element arithmetic (ModelS.v).  dtype tokens: I<signed 0|1>:<bits> | F<0..3> (float16/32/64/longdouble);
   floats: z0 z1 (+-0) | i0 i1 (+-inf) | n (NaN) | f<s>:<m>:<e>; requested dtype: - | 0..3
     scl <disk dtype> <slope dtype> <slope> <inter dtype> <inter> <req> <n> <raw>*   -> ok <dtype> <value>* | err overflow
     mne <disk dtype> <dmin> <dmax> <imin> <imax> <n> <raw>*
     afe <disk dtype> <factor> <n> <raw>*      pre <disk dtype> <slope> <inter> <n> <raw>*      ece <disk dtype> <calib> <sfac> <n> <raw>*
*)
let optz s = if s = "_" then None else Some (z_of_string s)
let parse_sl s = match String.split_on_char ':' s with
  | [a; b; c] -> { s_start = optz a; s_stop = optz b; s_step = optz c }
  | _ -> failwith "bad slice"
let parse_idx tok =
  if tok = "n" then INew else if tok = "e" then IEll
  else if tok.[0] = 'i' then IInt (z_of_string (String.sub tok 1 (String.length tok - 1)))
  else if tok.[0] = 's' then ISl (parse_sl (String.sub tok 1 (String.length tok - 1)))
  else failwith "bad index token"
let parse_ix s = if s = "()" then [] else List.map parse_idx (String.split_on_char ',' s)
let parse_order s = if s = "C" then OrdC else OrdF
let str_err = function EValue -> "value" | EIndex -> "index" | EIO -> "io"
let zi = z_of_int
let scale (f : z) (e : z list) : z * z = (dec_be e, f)
let noscale (e : z list) : z * z = (dec_be e, zi (-1))
let dF = zi (-7)
let dR = (zi (-9), zi (-9))
let out = function
  | Ok (s, l) -> "ok " ^ string_of_zlist s ^ " " ^ string_of_zlist (List.map fst l) ^ " " ^ string_of_zlist (List.map snd l)
  | Err e -> "err " ^ str_err e
let files : (string, z list) Hashtbl.t = Hashtbl.create 16
let file_for off w n =
  let key = string_of_z off ^ "," ^ string_of_z w ^ "," ^ string_of_z n in
  match Hashtbl.find_opt files key with
  | Some f -> f
  | None -> let f = index_file off w n in Hashtbl.replace files key f; f
let zrange n = zseq n
let last l = List.nth l (List.length l - 1)
let nat_of_z x = nat_of_int (int_of_z x)
(* ---- float layer plumbing (same text forms as the C02 driver) *)
let sf_of_string s : spec_float =
  match s with
  | "z0" -> S754_zero false | "z1" -> S754_zero true
  | "i0" -> S754_infinity false | "i1" -> S754_infinity true
  | "n" -> S754_nan
  | _ ->
    (match String.split_on_char ':' (String.sub s 1 (String.length s - 1)) with
     | [sg; m; e] -> (match z_of_string m with
         | Zpos p -> S754_finite (sg = "1", p, z_of_string e)
         | _ -> failwith "bad mantissa")
     | _ -> failwith "bad float")
let string_of_sf (x : spec_float) : string =
  match x with
  | S754_zero s -> if s then "z1" else "z0"
  | S754_infinity s -> if s then "i1" else "i0"
  | S754_nan -> "n"
  | S754_finite (s, m, e) -> "f" ^ (if s then "1" else "0") ^ ":" ^ string_of_z (Zpos m) ^ ":" ^ string_of_z e
let fid_i s = match s with "0" -> K16 | "1" -> K32 | "2" -> K64 | _ -> K80
let string_of_fid = function K16 -> "0" | K32 -> "1" | K64 -> "2" | K80 -> "3"
let sdt_of_string s =
  if s.[0] = 'F' then DF (fid_i (String.sub s 1 (String.length s - 1)))
  else (match String.split_on_char ':' (String.sub s 1 (String.length s - 1)) with
      | [sg; w] -> DI { isigned = (sg = "1"); iwidth = z_of_string w }
      | _ -> failwith "bad dtype")
let string_of_sdt = function
  | DF k -> "F" ^ string_of_fid k
  | DI t -> "I" ^ (if t.isigned then "1" else "0") ^ ":" ^ string_of_z t.iwidth
let sval_of_string d s = match d with DI _ -> VI (z_of_string s) | DF _ -> VF (sf_of_string s)
let string_of_sval = function VI z -> string_of_z z | VF x -> string_of_sf x
let vals d n rest = List.map (sval_of_string d) (take_n (int_of_string n) rest)
let show_dv l = match l with
  | [] -> "ok -"
  | (dt, _) :: _ -> "ok " ^ string_of_sdt dt ^ " " ^ String.concat " " (List.map (fun (_, v) -> string_of_sval v) l)
let handle op args = match op, args with
  | "ap", [mm; o; shape; w; off; ix] ->
    let shape = zlist_of_string shape and w = z_of_string w and off = z_of_string off in
    let file = file_for off w (shape_size shape) in
    out (ap_getitem (file_reader file) scale (bool_of_string mm) shape w off (parse_order o) (zi 0) (parse_ix ix))
  | "afni", [mm; shape; w; off; hasfac; ix] ->
    let shape = zlist_of_string shape and w = z_of_string w and off = z_of_string off in
    let file = file_for off w (shape_size shape) in
    let facs = if bool_of_string hasfac then Some (zrange (last shape)) else None in
    out (afni_getitem (file_reader file) scale noscale dF (bool_of_string mm) shape w off facs (parse_ix ix))
  | "parrec", [mm; shape; nrec; ind; w; ix] ->
    let shape = zlist_of_string shape and w = z_of_string w and nrec = z_of_string nrec in
    let m = shape_size (take_n 2 shape) in
    let file = file_for (zi 0) w (BigZ.mul (big_of_z m) (big_of_z nrec) |> z_of_big) in
    out (parrec_getitem (file_reader file) scale dF (bool_of_string mm) shape nrec (zlist_of_string ind) w (zrange nrec) (parse_ix ix))
  | ("ecat" | "ecatfull"), mm :: shape3 :: nfr :: w :: fmap :: gap :: rest ->
    let shape3 = zlist_of_string shape3 and w = z_of_string w and nfr = z_of_string nfr in
    let fmap = zlist_of_string fmap in
    let m = int_of_z (shape_size shape3) and gap = int_of_string gap and wi = int_of_z w in
    let nrecs = List.length fmap in
    let file = file_for (zi 0) w (zi (nrecs * (m + gap))) in
    let foffs = List.init nrecs (fun j -> zi (j * (m + gap) * wi)) in
    let facs = zrange (zi nrecs) in
    (match op, rest with
     | "ecat", [ix] -> out (ecat_getitem (file_reader file) scale dF dR (bool_of_string mm) shape3 nfr w fmap foffs facs (parse_ix ix))
     | _ -> out (ecat_full (file_reader file) scale dF (bool_of_string mm) shape3 nfr w fmap foffs facs))
  | "minc", [shape; nscales; isf; ix] ->
    let shape = zlist_of_string shape and ns = z_of_string nscales in
    let elems = List.map (enc_be (nat_of_int 4)) (zseq (shape_size shape)) in
    let facs = zrange (shape_size (take_n (int_of_z ns) shape)) in
    out (minc_getitem scale noscale dF (bool_of_string isf) shape ns elems facs (parse_ix ix))
  | "mincfull", [shape; nscales] ->
    let shape = zlist_of_string shape and ns = z_of_string nscales in
    let elems = List.map (enc_be (nat_of_int 4)) (zseq (shape_size shape)) in
    let facs = zrange (shape_size (take_n (int_of_z ns) shape)) in
    out (Ok (shape, minc_full scale dF shape ns elems facs))
  | "reshape", [shape; ns] ->
    (match ap_reshape (zlist_of_string shape) (zlist_of_string ns) with
     | Ok s -> "ok " ^ string_of_zlist s | Err e -> "err " ^ str_err e)
  | "scl", d :: ks :: sl :: ki :: it :: req :: n :: rest ->
    let d = sdt_of_string d in
    let slope = { f_k = fid_i ks; f_v = sf_of_string sl } and inter = { f_k = fid_i ki; f_v = sf_of_string it } in
    let req = if req = "-" then None else Some (fid_i req) in
    (match get_scaled d slope inter req (vals d n rest) with
     | Some (dt, l) -> "ok " ^ string_of_sdt dt ^ " " ^ String.concat " " (List.map string_of_sval l)
     | None -> "err overflow")
  | "afe", d :: f :: n :: rest ->
    let d = sdt_of_string d in show_dv (List.map (afni_elem d (sf_of_string f)) (vals d n rest))
  | "pre", d :: sl :: it :: n :: rest ->
    let d = sdt_of_string d in show_dv (List.map (parrec_elem d (sf_of_string sl) (sf_of_string it)) (vals d n rest))
  | "mne", d :: dmin :: dmax :: imin :: imax :: n :: rest ->
    let d = sdt_of_string d in
    show_dv (List.map (minc_elem d (sf_of_string dmin) (sf_of_string dmax) (sf_of_string imin) (sf_of_string imax)) (vals d n rest))
  | "ece", d :: c :: f :: n :: rest ->
    let d = sdt_of_string d in show_dv (List.map (ecat_elem d (sf_of_string c) (sf_of_string f)) (vals d n rest))
  | _ -> "err driver:badop"
let () = run_lines handle
