(* C03 driver body.  Raw element = big-endian encoding of its own index in the file, factor =
   its own index in the factor list, scale f e = (index of e, f): the output says which raw
   element and which factor feed each output position.
   Index tuples as in C06: i<k> | s<a>:<b>:<c> (_ = None) | n | e ; "()" empty tuple.
     ap <mm> <order> <shape> <w> <off> <ix>
     afni <mm> <shape> <w> <off> <hasfac> <ix>
     parrec <mm> <shape> <nrec> <ind> <w> <ix>
     ecat <mm> <shape3> <nfr> <w> <fmap> <gap> <ix>      (record j at element offset j*(M+gap))
     ecatfull <mm> <shape3> <nfr> <w> <fmap> <gap>
     minc <shape> <nscales> <ix>      mincfull <shape> <nscales>
     reshape <shape> <newshape>
   Result: ok <shape> <elem indices> <factor indices> | err <enum> *)
let optz s = if s = "_" then None else Some (z_of_string s)
let parse_sl s = match String.split_on_char ':' s with
  | [a; b; c] -> { s_start = optz a; s_stop = optz b; s_step = optz c }
  | _ -> failwith "bad slice"
let parse_idx tok =
  if tok = "n" then INew else if tok = "e" then IEll
  else if tok.[0] = 'i' then IInt (z_of_string (String.sub tok 1 (String.length tok - 1)))
  else if tok.[0] = 's' then ISl (parse_sl (String.sub tok 1 (String.length tok - 1)))
  else failwith "bad index token"
let parse_ix s = if s = "()" then [] else List.map parse_idx (String.split_on_char ',' s)
let parse_order s = if s = "C" then OrdC else OrdF
let str_err = function EValue -> "value" | EIndex -> "index" | EIO -> "io"
let zi = z_of_int
let scale (f : z) (e : z list) : z * z = (dec_be e, f)
let noscale (e : z list) : z * z = (dec_be e, zi (-1))
let dF = zi (-7)
let dR = (zi (-9), zi (-9))
let out = function
  | Ok (s, l) -> "ok " ^ string_of_zlist s ^ " " ^ string_of_zlist (List.map fst l) ^ " " ^ string_of_zlist (List.map snd l)
  | Err e -> "err " ^ str_err e
let files : (string, z list) Hashtbl.t = Hashtbl.create 16
let file_for off w n =
  let key = string_of_z off ^ "," ^ string_of_z w ^ "," ^ string_of_z n in
  match Hashtbl.find_opt files key with
  | Some f -> f
  | None -> let f = index_file off w n in Hashtbl.replace files key f; f
let zrange n = zseq n
let last l = List.nth l (List.length l - 1)
let nat_of_z x = nat_of_int (int_of_z x)
let handle op args = match op, args with
  | "ap", [mm; o; shape; w; off; ix] ->
    let shape = zlist_of_string shape and w = z_of_string w and off = z_of_string off in
    let file = file_for off w (shape_size shape) in
    out (ap_getitem (file_reader file) scale (bool_of_string mm) shape w off (parse_order o) (zi 0) (parse_ix ix))
  | "afni", [mm; shape; w; off; hasfac; ix] ->
    let shape = zlist_of_string shape and w = z_of_string w and off = z_of_string off in
    let file = file_for off w (shape_size shape) in
    let facs = if bool_of_string hasfac then Some (zrange (last shape)) else None in
    out (afni_getitem (file_reader file) scale noscale dF (bool_of_string mm) shape w off facs (parse_ix ix))
  | "parrec", [mm; shape; nrec; ind; w; ix] ->
    let shape = zlist_of_string shape and w = z_of_string w and nrec = z_of_string nrec in
    let m = shape_size (take_n 2 shape) in
    let file = file_for (zi 0) w (BigZ.mul (big_of_z m) (big_of_z nrec) |> z_of_big) in
    out (parrec_getitem (file_reader file) scale dF (bool_of_string mm) shape nrec (zlist_of_string ind) w (zrange nrec) (parse_ix ix))
  | ("ecat" | "ecatfull"), mm :: shape3 :: nfr :: w :: fmap :: gap :: rest ->
    let shape3 = zlist_of_string shape3 and w = z_of_string w and nfr = z_of_string nfr in
    let fmap = zlist_of_string fmap in
    let m = int_of_z (shape_size shape3) and gap = int_of_string gap and wi = int_of_z w in
    let nrecs = List.length fmap in
    let file = file_for (zi 0) w (zi (nrecs * (m + gap))) in
    let foffs = List.init nrecs (fun j -> zi (j * (m + gap) * wi)) in
    let facs = zrange (zi nrecs) in
    (match op, rest with
     | "ecat", [ix] -> out (ecat_getitem (file_reader file) scale dF dR (bool_of_string mm) shape3 nfr w fmap foffs facs (parse_ix ix))
     | _ -> out (ecat_full (file_reader file) scale dF (bool_of_string mm) shape3 nfr w fmap foffs facs))
  | "minc", [shape; nscales; ix] ->
    let shape = zlist_of_string shape and ns = z_of_string nscales in
    let elems = List.map (enc_be (nat_of_int 4)) (zseq (shape_size shape)) in
    let facs = zrange (shape_size (take_n (int_of_z ns) shape)) in
    out (minc_getitem scale dF shape ns elems facs (parse_ix ix))
  | "mincfull", [shape; nscales] ->
    let shape = zlist_of_string shape and ns = z_of_string nscales in
    let elems = List.map (enc_be (nat_of_int 4)) (zseq (shape_size shape)) in
    let facs = zrange (shape_size (take_n (int_of_z ns) shape)) in
    out (Ok (shape, minc_full scale dF shape ns elems facs))
  | "reshape", [shape; ns] ->
    (match ap_reshape (zlist_of_string shape) (zlist_of_string ns) with
     | Ok s -> "ok " ^ string_of_zlist s | Err e -> "err " ^ str_err e)
  | _ -> "err driver:badop"
let () = run_lines handle
