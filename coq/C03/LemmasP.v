(* C03/LemmasP.v — per-proxy, per-output-element form of the index theorems: every output element of
   proxy[ix] is the format's element formula applied to ONE raw element with the factors of THAT
   element's own volume / record / frame / slab, for any valid index (reordering, striding or
   dropping the scaled axis included); then instantiated with the concrete Flocq arithmetic of
   ModelS.v (AFNI, PAR/REC, ECAT, MINC). *)
From Coq Require Import ZArith List Bool Lia.
From NV Require Import Base.PySlice C06.Model C06.Lemmas C03.Model C03.Lemmas C03.ModelS C03.LemmasS.
Import ListNotations.
Open Scope Z_scope.

Lemma nth_blocks_in {A B} (F : A -> list B) (m : nat) (d : B) (da : A) : forall (O : list A),
  (forall o, In o O -> length (F o) = m) -> forall (j i : nat), (i < m)%nat -> (j < length O)%nat ->
  nth (i + m * j) (flat_map F O) d = nth i (F (nth j O da)) d.
Proof.
  induction O as [|o O IH]; intros HF j i Hi Hj; cbn [length] in Hj; [lia|].
  cbn [flat_map]. destruct j as [|j].
  - rewrite Nat.mul_0_r, Nat.add_0_r. rewrite app_nth1 by (rewrite HF by (left; reflexivity); lia). reflexivity.
  - rewrite app_nth2 by (rewrite HF by (left; reflexivity); lia). rewrite HF by (left; reflexivity).
    replace (i + m * S j - m)%nat with (i + m * j)%nat by lia. cbn [nth].
    apply IH; [intros o' Ho'; apply HF; now right|lia|lia].
Qed.

Section Explicit.
Context {F R : Type}.
Variable scale : F -> list Z -> R.
Variable noscale : list Z -> R.
Variable dF : F.
Variable dR : R.

(* element o of (broadcast factors) x (elements): the factor of slab o / m *)
Lemma nth_bcast_zip shape m (fl : list F) (elems : list (list Z)) o : 0 <= o < prod shape -> zlen elems = prod shape ->
  nth (Z.to_nat o) (zipw scale (bcast dF shape m fl) elems) dR
  = scale (nth (Z.to_nat (o / m)) fl dF) (nth (Z.to_nat o) elems []).
Proof.
  intros Ho Hl. pose proof (zlen_bcast dF shape m fl ltac:(lia)) as Hb. unfold zlen in *.
  rewrite (nth_zipw scale _ _ _ dF [] dR) by lia. f_equal.
  unfold bcast. rewrite (nth_map_in _ (zseq (prod shape)) _ dF 0) by (pose proof (zseq_length (prod shape) ltac:(lia)); lia).
  now rewrite nth_zseq by lia.
Qed.

Lemma index_bcast_explicit shape c m (fl : list F) (elems : list (list Z)) : ix_valid shape c -> zlen elems = prod shape ->
  np_index_F dR shape c (zipw scale (bcast dF shape m fl) elems)
  = (np_shape shape c,
     map (fun o => scale (nth (Z.to_nat (o / m)) fl dF) (nth (Z.to_nat o) elems [])) (offs shape c 1)).
Proof.
  intros Hv Hl. unfold np_index_F. f_equal. apply map_ext_in. intros o Ho.
  apply (offs_range c shape o Hv) in Ho. now apply nth_bcast_zip.
Qed.

(* ---- AFNI: factor of the element's own sub-brick (last-axis index o / prod(shape[:-1])) *)
Theorem afni_explicit rd file mm shape w off fl ix c : unscaled_hyps rd file mm shape w off ix c ->
  afni_getitem rd scale noscale dF mm shape w off (Some fl) ix
  = Ok (np_shape shape c,
        map (fun o => scale (nth (Z.to_nat (o / prod (removelast shape))) fl dF)
                            (nth (Z.to_nat o) (array_elems file shape w off) []))
            (offs shape c 1)).
Proof.
  intros H. rewrite (afni_getitem_spec scale noscale dF dR rd file mm shape w off (Some fl) ix c H).
  destruct H as (Hr & Hw & Ho & Hc & Hv & Hfit & Hok). cbn [np_index afni_full]. f_equal.
  apply index_bcast_explicit; [assumption|].
  apply length_array_elems; try assumption. now apply (ix_valid_shape_nonneg c).
Qed.

(* ---- PAR/REC: output slab o / (x*y) is REC record ind[o / (x*y)], scaled by THAT record's factors *)
Theorem parrec_explicit rd file mm shape nrec ind w facs ix c :
  parrec_hyps rd file mm shape nrec ind w ix c ->
  parrec_getitem rd scale dF mm shape nrec ind w facs ix
  = Ok (np_shape shape c,
        map (fun o => scale (nth (Z.to_nat (nth (Z.to_nat (o / prod (firstn 2 shape))) ind 0)) facs dF)
                            (nth (Z.to_nat o) (parrec_raw file shape nrec ind w) []))
            (offs shape c 1)).
Proof.
  intros H. rewrite (parrec_getitem_spec scale dF dR rd file mm shape nrec ind w facs ix c H).
  destruct (parrec_unscaled_spec rd file mm shape nrec ind w ix c H) as [_ Hl].
  destruct H as (Hr & Hw & Hc & Hv & Hn & Hfit & Hind & Hp & Hok & Hne).
  cbn [np_index]. unfold parrec_full. rewrite index_bcast_explicit by assumption. f_equal. f_equal.
  apply map_ext_in. intros o Ho. apply (offs_range c shape o Hv) in Ho. f_equal.
  set (m := prod (firstn 2 shape)) in *.
  assert (Hm : 0 <= m) by (apply prod_nonneg, Forall_firstn; now apply (ix_valid_shape_nonneg c)).
  assert (Hm' : 0 < m) by (pose proof (zlen_nonneg ind); nia).
  assert (Hq : 0 <= o / m < zlen ind) by (split; [apply Z.div_pos; lia|apply Z.div_lt_upper_bound; nia]).
  rewrite (nth_map_in (fun i => nth (Z.to_nat i) facs dF) ind _ dF 0) by (unfold zlen in Hq; lia). reflexivity.
Qed.

(* the raw element at sorted position o is element o mod (x*y) of record ind[o / (x*y)] *)
Lemma parrec_raw_nth rd file mm shape nrec ind w ix c o :
  parrec_hyps rd file mm shape nrec ind w ix c -> 0 <= o < prod shape ->
  let m := prod (firstn 2 shape) in
  nth (Z.to_nat o) (parrec_raw file shape nrec ind w) []
  = nth (Z.to_nat (m * nth (Z.to_nat (o / m)) ind 0 + o mod m)) (array_elems file (firstn 2 shape ++ [nrec]) w 0) [].
Proof.
  intros (Hr & Hw & Hc & Hv & Hn & Hfit & Hind & Hp & Hok & Hne) Ho m. fold m in Hfit, Hp.
  pose proof (ix_valid_shape_nonneg c shape Hv) as Hs.
  assert (Hm : 0 <= m) by (apply prod_nonneg; now apply Forall_firstn).
  assert (Hm' : 0 < m) by (pose proof (zlen_nonneg ind); nia).
  assert (Hrs : Forall (fun n => 0 <= n) (firstn 2 shape ++ [nrec]))
    by (apply Forall_app; split; [now apply Forall_firstn|repeat constructor; assumption]).
  assert (Hpr : prod (firstn 2 shape ++ [nrec]) = m * nrec)
    by (rewrite prod_app; cbn [prod fold_right]; fold m; lia).
  set (rec := array_elems file (firstn 2 shape ++ [nrec]) w 0).
  assert (Hrl : zlen rec = m * nrec) by (unfold rec; rewrite length_array_elems; try assumption; lia).
  assert (Hq : 0 <= o / m < zlen ind) by (split; [apply Z.div_pos; lia|apply Z.div_lt_upper_bound; nia]).
  pose proof (Z.mod_pos_bound o m Hm') as Hmod. pose proof (Z.div_mod o m ltac:(lia)) as Hdm.
  unfold parrec_raw. fold m. fold rec.
  assert (Hslab : forall i, In i ind -> length (slab m rec i) = Z.to_nat m).
  { intros i Hi. rewrite Forall_forall in Hind. specialize (Hind i Hi).
    unfold slab, take, drop. rewrite firstn_length, skipn_length. unfold zlen in Hrl. nia. }
  replace (Z.to_nat o) with (Z.to_nat (o mod m) + Z.to_nat m * Z.to_nat (o / m))%nat by nia.
  rewrite (nth_blocks_in (slab m rec) (Z.to_nat m) [] 0 ind Hslab) by (unfold zlen in Hq; lia).
  set (r := nth (Z.to_nat (o / m)) ind 0).
  assert (Hr' : 0 <= r < nrec).
  { rewrite Forall_forall in Hind. apply Hind. apply nth_In. unfold zlen in Hq. lia. }
  unfold slab, take, drop. rewrite my_nth_firstn by lia. rewrite my_nth_skipn. f_equal. nia.
Qed.

(* ---- ECAT: output element from frame i = o / prod(A) is scaled with frame i's record factors *)
Theorem ecat_explicit rd file mm A n w fmap foffs facs ix c :
  ecat_hyps rd file mm A n w fmap foffs ->
  canonical_slicers true ix (A ++ [n]) = Ok c -> ix_valid (A ++ [n]) c ->
  ecat_getitem rd scale dF dR mm A n w fmap foffs facs ix
  = Ok (np_shape (A ++ [n]) c,
        map (fun o => let i := o / prod A in
                      scale (nth (ecat_rec fmap i) facs dF)
                            (nth (Z.to_nat (o mod prod A)) (array_elems file A w (nth (ecat_rec fmap i) foffs 0)) []))
            (offs (A ++ [n]) c 1)).
Proof.
  intros H Hc Hv. rewrite (ecat_getitem_spec scale dF dR rd file mm A n w fmap foffs facs ix c H Hc Hv).
  cbn [np_index]. unfold np_index_F. f_equal. f_equal. apply map_ext_in. intros o Ho.
  apply (offs_range c (A ++ [n]) o Hv) in Ho.
  assert (Hpr : prod (A ++ [n]) = prod A * n) by (rewrite prod_app; cbn [prod fold_right]; lia).
  rewrite Hpr in Ho.
  pose proof H as (Hr & Hw & HA & Hok & Hn & Hoff).
  pose proof (prod_nonneg A HA) as HM. set (M := prod A) in *.
  assert (HM' : 0 < M) by (destruct (Z.eq_dec M 0) as [E|E]; [rewrite E in Ho; lia|lia]).
  assert (Hn0 : 0 < n) by nia.
  assert (Hq : 0 <= o / M < n) by (split; [apply Z.div_pos; lia|apply Z.div_lt_upper_bound; nia]).
  pose proof (Z.mod_pos_bound o M HM') as Hmod. pose proof (Z.div_mod o M ltac:(lia)) as Hdm.
  replace (Z.to_nat o) with (Z.to_nat (o mod M) + Z.to_nat M * Z.to_nat (o / M))%nat by nia.
  rewrite (nth_blocks (ecat_fr scale dF dR file A n w fmap foffs facs) (Z.to_nat M) (zseq n) dR 0).
  - rewrite nth_zseq by lia. unfold ecat_fr. replace ((0 <=? o / M) && (o / M <? n)) with true by lia.
    destruct (Hoff (o / M) Hq) as [H1 H2].
    apply nth_map_in. pose proof (length_array_elems file A w _ Hw H1 HA H2) as Hl. unfold zlen in Hl. fold M in Hl. lia.
  - intros i. pose proof (zlen_ecat_fr scale dF dR rd file mm A n w fmap foffs facs i H) as Hl. unfold zlen in Hl. fold M in Hl. lia.
  - lia.
  - pose proof (zseq_length n ltac:(lia)). lia.
Qed.
End Explicit.

(* ---- MINC (C order): factor of the element's own slab o / prod(shape[nscales:]) *)
Theorem minc_explicit {F R} (scale : F -> list Z -> R) (noscale : list Z -> R) (dF : F) (dR : R) shape nscales elems facs ix c :
  minc_hyps shape nscales elems facs ix c ->
  minc_getitem scale noscale dF false shape nscales elems facs ix
  = Ok (rev (np_shape (rev shape) (rev c)),
        map (fun o => scale (nth (Z.to_nat (o / prod (skipn (Z.to_nat nscales) shape))) facs dF) (nth (Z.to_nat o) elems []))
            (offs (rev shape) (rev c) 1)).
Proof.
  intros H. rewrite (minc_getitem_spec scale noscale dF dR shape nscales elems facs ix c H).
  destruct H as (Hc & Hv & Hl & Hns & Hfl). cbn [np_index]. unfold minc_full.
  change (map (fun o => nth (Z.to_nat (o / prod (skipn (Z.to_nat nscales) shape))) facs dF) (zseq (prod shape)))
    with (bcast dF shape (prod (skipn (Z.to_nat nscales) shape)) facs).
  assert (Eb : bcast dF shape (prod (skipn (Z.to_nat nscales) shape)) facs
               = bcast dF (rev shape) (prod (skipn (Z.to_nat nscales) shape)) facs) by (unfold bcast; now rewrite prod_rev).
  rewrite Eb. rewrite (index_bcast_explicit scale dF dR) by (try apply ix_valid_rev; try rewrite prod_rev; assumption).
  reflexivity.
Qed.

(* ====================================================================================
   the concrete (Flocq, bit-exact) element formulas of ModelS.v as `scale` *)
Section ConcreteProxies.
Variable decode : list Z -> sval.        (* bytes of one element -> its value (C10) *)
Variable d : sdt.                        (* on-disk dtype *)
Notation sf := NV.C02.ModelF.sf.

Definition afni_sc (f : sf) (e : list Z) : sdt * sval := afni_elem d f (decode e).
Definition parrec_sc (f : sf * sf) (e : list Z) : sdt * sval := parrec_elem d (fst f) (snd f) (decode e).
Definition ecat_sc (f : sf * sf) (e : list Z) : sdt * sval := ecat_elem d (fst f) (snd f) (decode e).
Definition minc_sc (dmin dmax : sf) (f : sf * sf) (e : list Z) : sdt * sval :=
  minc_elem d dmin dmax (fst f) (snd f) (decode e).

Theorem afni_bitexact (noscale : list Z -> sdt * sval) (dF : sf) rd file mm shape w off fl ix c :
  unscaled_hyps rd file mm shape w off ix c ->
  afni_getitem rd afni_sc noscale dF mm shape w off (Some fl) ix
  = Ok (np_shape shape c,
        map (fun o => afni_elem d (nth (Z.to_nat (o / prod (removelast shape))) fl dF)
                                  (decode (nth (Z.to_nat o) (array_elems file shape w off) [])))
            (offs shape c 1)).
Proof. exact (afni_explicit afni_sc noscale dF (d, decode []) rd file mm shape w off fl ix c). Qed.

Theorem parrec_bitexact (dF : sf * sf) rd file mm shape nrec ind w facs ix c :
  parrec_hyps rd file mm shape nrec ind w ix c ->
  parrec_getitem rd parrec_sc dF mm shape nrec ind w facs ix
  = Ok (np_shape shape c,
        map (fun o => let rec_no := nth (Z.to_nat (o / prod (firstn 2 shape))) ind 0 in
                      parrec_elem d (fst (nth (Z.to_nat rec_no) facs dF)) (snd (nth (Z.to_nat rec_no) facs dF))
                                  (decode (nth (Z.to_nat o) (parrec_raw file shape nrec ind w) [])))
            (offs shape c 1)).
Proof. exact (parrec_explicit parrec_sc dF (d, decode []) rd file mm shape nrec ind w facs ix c). Qed.

Theorem ecat_bitexact (dF : sf * sf) (dR : sdt * sval) rd file mm A n w fmap foffs facs ix c :
  ecat_hyps rd file mm A n w fmap foffs ->
  canonical_slicers true ix (A ++ [n]) = Ok c -> ix_valid (A ++ [n]) c ->
  ecat_getitem rd ecat_sc dF dR mm A n w fmap foffs facs ix
  = Ok (np_shape (A ++ [n]) c,
        map (fun o => let i := o / prod A in
                      ecat_elem d (fst (nth (ecat_rec fmap i) facs dF)) (snd (nth (ecat_rec fmap i) facs dF))
                                (decode (nth (Z.to_nat (o mod prod A)) (array_elems file A w (nth (ecat_rec fmap i) foffs 0)) [])))
            (offs (A ++ [n]) c 1)).
Proof. exact (ecat_explicit ecat_sc dF dR rd file mm A n w fmap foffs facs ix c). Qed.

Theorem minc_bitexact (noscale : list Z -> sdt * sval) (dmin dmax : sf) (dF : sf * sf) shape nscales elems facs ix c :
  minc_hyps shape nscales elems facs ix c ->
  minc_getitem (minc_sc dmin dmax) noscale dF false shape nscales elems facs ix
  = Ok (rev (np_shape (rev shape) (rev c)),
        map (fun o => let slab_no := Z.to_nat (o / prod (skipn (Z.to_nat nscales) shape)) in
                      minc_elem d dmin dmax (fst (nth slab_no facs dF)) (snd (nth slab_no facs dF))
                                (decode (nth (Z.to_nat o) elems [])))
            (offs (rev shape) (rev c) 1)).
Proof. exact (minc_explicit (minc_sc dmin dmax) noscale dF (d, decode []) shape nscales elems facs ix c). Qed.
End ConcreteProxies.
