(* C03/Model.v — array proxies: which raw element and which scale factor reach each output
   position.  Counterparts in /repo/nibabel (as of fix 88260c85 and the fileslice fixes):
     volumeutils.array_from_file                      -> array_from_file
     arrayproxy.ArrayProxy._get_unscaled/_get_scaled  -> ap_unscaled / ap_getitem
     arrayproxy.ArrayProxy.reshape                    -> ap_reshape
     brikhead.AFNIArrayProxy._get_scaled              -> afni_getitem
     parrec.PARRECArrayProxy._get_unscaled/_get_scaled-> parrec_unscaled / parrec_getitem
     ecat.EcatImageArrayProxy.__getitem__/__array__   -> ecat_getitem / ecat_full
     minc1.Minc1File.get_scaled_data/_normalize       -> minc_getitem
   The partial-read engine is C06's model of fileslice.py (calc_slicedefs etc.), re-used
   read-only; only the two functions that touch the file object (read_segments, fileslice) are
   repeated here over an abstract reader `rd off len` (seek(off); read(len)), which is where
   mmap / keep_file_open / compression / indexed_gzip / path-vs-fileobj enter.

   Element arithmetic is abstract: a raw element is its w-byte block (list Z), a scale factor
   is any value of a type F, and `scale : F -> list Z -> R` is an arbitrary pointwise
   function (raw*slope+inter, raw*calibration*frame_factor, MINC's clip-and-map, ...).  The
   model says WHICH element and WHICH factor reach each output position; rounding is C02's
   subject.  Arrays are (shape, elements in buffer order).  Definitions only. *)
From Coq Require Import ZArith List Bool.
From NV Require Import Base.PySlice C06.Model.
Import ListNotations.
Open Scope Z_scope.

(* tuple equality of canonical slicers (Python ==) *)
Definition cidx_eqb (a b : cidx) : bool :=
  match a, b with
  | CInt x, CInt y => x =? y
  | CSl s, CSl t => pslice_eqb s t
  | CNew, CNew => true
  | _, _ => false
  end.
Fixpoint cidx_list_eqb (a b : list cidx) : bool :=
  match a, b with
  | [], [] => true
  | x :: a', y :: b' => cidx_eqb x y && cidx_list_eqb a' b'
  | _, _ => false
  end.
Fixpoint zlist_eqb (a b : list Z) : bool :=
  match a, b with
  | [], [] => true
  | x :: a', y :: b' => (x =? y) && zlist_eqb a' b'
  | _, _ => false
  end.

Definition elems_of (w : Z) (b : list Z) : list (list Z) := chunks (length b) w b.

Definition zipw {A B C} (f : A -> B -> C) (la : list A) (lb : list B) : list C :=
  map (fun p => f (fst p) (snd p)) (combine la lb).

Definition is_cint (c : cidx) : bool := match c with CInt _ => true | _ => false end.

(* position of the (n+1)-th entry that is not None: (entries before, it, entries after) *)
Fixpoint split_real (n : nat) (c : list cidx) : option (list cidx * cidx * list cidx) :=
  match c with
  | [] => None
  | CNew :: r =>
      match split_real n r with Some (pre, x, post) => Some (CNew :: pre, x, post) | None => None end
  | y :: r =>
      match n with
      | O => Some ([], y, r)
      | S n' => match split_real n' r with Some (pre, x, post) => Some (y :: pre, x, post) | None => None end
      end
  end.

(* ------------------------------------------------------------------ file access *)
Section Reader.
Variable rd : Z -> Z -> res (list Z).      (* seek(off) then read(len); len < 0: to the end *)

Fixpoint read_all_rd (segs : list seg) : res (list Z) :=
  match segs with
  | [] => Ok []
  | (o, l) :: r => b <- rd o l ;; t <- read_all_rd r ;; Ok (b ++ t)
  end.

(* fileslice.read_segments over the reader *)
Definition read_segments_rd (segs : list seg) (n_bytes : Z) : res (list Z) :=
  match segs with
  | [] => if n_bytes =? 0 then Ok [] else Err EValue
  | [(o, l)] => b <- rd o l ;; if zlen b =? n_bytes then Ok b else Err EValue
  | _ =>
      if n_bytes =? 0 then
        (if forallb (fun s : seg => snd s =? 0) segs then Ok [] else Err EValue)
      else b <- read_all_rd segs ;; if zlen b =? n_bytes then Ok b else Err EValue
  end.

(* fileslice.fileslice (default heuristic) over the reader *)
Definition fileslice_rd (sl : list idx) (shape : list Z) (itemsize offset : Z) (o : order)
  : res (list Z * list Z) :=
  d <- calc_slicedefs sl shape itemsize offset o (threshold_heuristic SKIP_THRESH) ;;
  let '(segs, rshape, ps) := d in
  let n_bytes := prod rshape * itemsize in
  b <- read_segments_rd segs n_bytes ;;
  match ps with
  | [] => Ok (rshape, b)
  | _ =>
    let elems := chunks (length b) itemsize b in
    let '(s, e) := np_index [] o rshape (map post_to_cidx ps) elems in
    Ok (s, concat e)
  end.

(* volumeutils.array_from_file (as of fix 599d4b17).  mm = "np.memmap was tried" (mmap argument
   truthy and the file object not a compressed stream); a memmap that cannot be made (file too
   short) falls through to the read path, which returns a 1-D EMPTY array for a rank-0 shape
   (`len(shape) == 0`), zeros of the requested shape for a zero-size one (`n_bytes == 0`:
   np.zeros(shape)), and raises on a short read. *)
Definition array_from_file (mm : bool) (shape : list Z) (w off : Z) : res (list Z * list (list Z)) :=
  let n_bytes := prod shape * w in
  let read_path :=
    if zlen shape =? 0 then Ok ([0], [])
    else if n_bytes =? 0 then Ok (shape, [])
    else b <- rd off n_bytes ;;
         if zlen b =? n_bytes then Ok (shape, elems_of w b) else Err EIO in
  if mm then
    match rd off n_bytes with
    | Ok b => if zlen b =? n_bytes then Ok (shape, elems_of w b) else read_path
    | Err _ => read_path
    end
  else read_path.

(* ArrayProxy._get_unscaled: whole-array path when the canonical slicers (check_inds=False)
   equal those of (), else fileslice *)
Definition whole_index (ix : list idx) (shape : list Z) : res bool :=
  c1 <- canonical_slicers false ix shape ;;
  c2 <- canonical_slicers false [] shape ;;
  Ok (cidx_list_eqb c1 c2).

Definition ap_unscaled (mm : bool) (shape : list Z) (w off : Z) (o : order) (ix : list idx)
  : res (list Z * list (list Z)) :=
  wh <- whole_index ix shape ;;
  if wh then array_from_file mm shape w off
  else r <- fileslice_rd ix shape w off o ;; Ok (fst r, elems_of w (snd r)).

(* ------------------------------------------------------------------ scaling *)
Section Scale.
Context {F R : Type}.
Variable scale : F -> list Z -> R.     (* pointwise: factor, raw element -> output element *)
Variable noscale : list Z -> R.        (* "scaling is None": the raw element as output *)
Variable dF : F.
Variable dR : R.

(* ArrayProxy._get_scaled / __getitem__ / __array__ (ix = ()): one slope/intercept pair *)
Definition ap_getitem (mm : bool) (shape : list Z) (w off : Z) (o : order) (f : F) (ix : list idx)
  : res (list Z * list R) :=
  u <- ap_unscaled mm shape w off o ix ;; Ok (fst u, map (scale f) (snd u)).

(* np.broadcast_arrays(fake_data(shape), factors) for a factor array whose leading axes have
   length 1 and cover m = prod(leading lengths) elements: F-order element o of the broadcast
   array is factor number o / m *)
Definition bcast (shape : list Z) (m : Z) (facs : list F) : list F :=
  map (fun o => nth (Z.to_nat (o / m)) facs dF) (zseq (prod shape)).

(* AFNIArrayProxy._get_scaled: per-sub-brick factor on the last axis, sliced with the same
   slicer as the data *)
Definition afni_getitem (mm : bool) (shape : list Z) (w off : Z) (facs : option (list F))
    (ix : list idx) : res (list Z * list R) :=
  u <- ap_unscaled mm shape w off OrdF ix ;;
  match facs with
  | None => Ok (fst u, map noscale (snd u))
  | Some fl =>
      c <- canonical_slicers true ix shape ;;          (* scaling[slicer]: NumPy indexing *)
      let '(s, fsel) := np_index dF OrdF shape c (bcast shape (prod (removelast shape)) fl) in
      if zlist_eqb s (fst u) then Ok (s, zipw scale fsel (snd u)) else Err EValue
  end.

(* PARRECArrayProxy: REC file = nrec records of m = x*y elements; `ind` = sorted slice
   indices (record numbers in output order); facs = per-record factors in FILE order *)
Definition slab {A} (m : Z) (elems : list A) (i : Z) : list A := take m (drop (m * i) elems).

Fixpoint diffs_are_1 (l : list Z) : bool :=
  match l with
  | a :: ((b :: _) as r) => (b - a =? 1) && diffs_are_1 r
  | _ => true
  end.

Definition parrec_unscaled (mm : bool) (shape : list Z) (nrec : Z) (ind : list Z) (w : Z)
    (ix : list idx) : res (list Z * list (list Z)) :=
  let m := prod (firstn 2 shape) in
  let full :=
    u <- array_from_file mm (firstn 2 shape ++ [nrec]) w 0 ;;
    if negb (forallb (fun i => (0 <=? i) && (i <? nrec)) ind) then Err EIndex   (* rec_data[..., indices] *)
    else if negb (prod shape =? m * zlen ind) then Err EValue                   (* reshape *)
    else Ok (shape, flat_map (slab m (snd u)) ind) in
  match ix with
  | [] => full
  | _ =>
      match ind with
      | [] => Err EIndex                                                         (* indices[0] *)
      | i0 :: _ =>
          if negb (i0 =? 0) || negb (diffs_are_1 ind) then
            f <- full ;;
            c <- canonical_slicers true ix shape ;;                              (* full[slicer] *)
            Ok (np_index [] OrdF shape c (snd f))
          else r <- fileslice_rd ix shape w 0 OrdF ;; Ok (fst r, elems_of w (snd r))
      end
  end.

Definition parrec_getitem (mm : bool) (shape : list Z) (nrec : Z) (ind : list Z) (w : Z)
    (facs : list F) (ix : list idx) : res (list Z * list R) :=
  u <- parrec_unscaled mm shape nrec ind w ix ;;
  c <- canonical_slicers true ix shape ;;                    (* slopes[slicer] *)
  let fsorted := map (fun i => nth (Z.to_nat i) facs dF) ind in          (* slope[reorder] *)
  let '(s, fsel) := np_index dF OrdF shape c (bcast shape (prod (firstn 2 shape)) fsorted) in
  if zlist_eqb s (fst u) then Ok (s, zipw scale fsel (snd u)) else Err EValue.

(* ------------------------------------------------------------------ ECAT
   frame i of the image is stored record `nth i fmap` (get_frame_order); record j has its data
   at byte offset `nth j foffs` and its scale factor(s) `nth j facs`.  shape3 = frame shape. *)
Definition ecat_frame (mm : bool) (shape3 : list Z) (w : Z) (fmap foffs : list Z) (facs : list F)
    (i : Z) : res (list R) :=
  if (i <? 0) || (zlen fmap <=? i) then Err EIndex            (* frame_mapping[i]: KeyError *)
  else
    let j := Z.to_nat (nth (Z.to_nat i) fmap 0) in
    u <- array_from_file mm shape3 w (nth j foffs 0) ;;
    if zlist_eqb (fst u) shape3 then Ok (map (scale (nth j facs dF)) (snd u)) else Err EIndex.

(* out_data[..., k, ...] = blk along output axis of length L with `inner` elements before it
   (F order): position p = v + inner * (j + L * u) receives blk[v + inner * u] when j = k *)
Definition store_axis (inner L k : Z) (blk out : list R) : list R :=
  map (fun p =>
         let v := p mod inner in
         let j := (p / inner) mod L in
         let u := p / (inner * L) in
         if j =? k then nth (Z.to_nat (v + inner * u)) blk dR else nth (Z.to_nat p) out dR)
      (zseq (zlen out)).

Definition enumerate {A} (l : list A) : list (Z * A) := combine (zseq (zlen l)) l.

Section Frames.
Variable frame : Z -> res (list R).       (* data_from_fileobj(frame_mapping[i][0]) *)

(* `for out_i, i in enumerate(list(range(nframes))[slice3])` *)
Fixpoint ecat_loop (shape3 : list Z) (in_slicer : list cidx) (inner L : Z) (todo : list (Z * Z))
    (out : list R) : res (list R) :=
  match todo with
  | [] => Ok out
  | (out_i, i) :: r =>
      data <- frame i ;;
      let blk := snd (np_index dR OrdF shape3 in_slicer data) in
      ecat_loop shape3 in_slicer inner L r (store_axis inner L out_i blk out)
  end.

Definition ecat_getitem_f (shape3 : list Z) (nfr : Z) (ix : list idx) : res (list Z * list R) :=
  let shape := shape3 ++ [nfr] in
  c <- canonical_slicers true ix shape ;;
  match split_real (length shape3) c with            (* ax_inds[3] *)
  | None => Err EValue                               (* assert len(ax_inds) == len(shape) *)
  | Some (pre, slice3, post) =>
      let in_slicer := pre ++ post in
      match slice3 with
      | CNew => Err EValue
      | CInt k => data <- frame k ;; Ok (np_index dR OrdF shape3 in_slicer data)
      | CSl s =>
          out_shape <- predict_shape (map cidx_to_idx c) shape ;;
          oa <- slice2outax (zlen shape) (map cidx_to_idx c) ;;
          match nth (length shape3) oa None with
          | None => Err EValue
          | Some a =>
              let inner := prod (firstn (Z.to_nat a) out_shape) in
              let L := nth (Z.to_nat a) out_shape 0 in
              out <- ecat_loop shape3 in_slicer inner L
                       (enumerate (py_indices nfr s)) (repeat dR (Z.to_nat (prod out_shape))) ;;
              Ok (out_shape, out)
          end
      end
  end.

(* __array__: data[:, :, :, i] = frame i for every i *)
Fixpoint frames_all (l : list Z) : res (list R) :=
  match l with
  | [] => Ok []
  | i :: r => d <- frame i ;; t <- frames_all r ;; Ok (d ++ t)
  end.
Definition ecat_full_f (shape3 : list Z) (nfr : Z) : res (list Z * list R) :=
  d <- frames_all (zseq nfr) ;; Ok (shape3 ++ [nfr], d).
End Frames.

Definition ecat_getitem (mm : bool) (shape3 : list Z) (nfr w : Z) (fmap foffs : list Z)
    (facs : list F) (ix : list idx) : res (list Z * list R) :=
  ecat_getitem_f (ecat_frame mm shape3 w fmap foffs facs) shape3 nfr ix.
Definition ecat_full (mm : bool) (shape3 : list Z) (nfr w : Z) (fmap foffs : list Z)
    (facs : list F) : res (list Z * list R) :=
  ecat_full_f (ecat_frame mm shape3 w fmap foffs facs) shape3 nfr.

End Scale.
End Reader.

(* ------------------------------------------------------------------ MINC (no reader: the
   netCDF / HDF5 library hands over the C-order element array `elems` and NumPy/h5py
   indexing of it is the np_index oracle).  nscales = number of leading image axes that
   image-min/-max range over (0, 1 or 2); facs = their (min,max) pairs in C order. *)
Section Minc.
Context {F R : Type}.
Variable scale : F -> list Z -> R.
Variable noscale : list Z -> R.          (* float-typed image: _normalize returns the data as read *)
Variable dF : F.

Definition minc_getitem (isfloat : bool) (shape : list Z) (nscales : Z) (elems : list (list Z)) (facs : list F)
    (ix : list idx) : res (list Z * list R) :=
  c <- canonical_slicers true ix shape ;;                    (* image.data[sliceobj] *)
  (* get_scaled_data (as of fix 139e21b4): np.asarray(raw_data).view(dtype with the DATA's own
     byte order): only the signedness is reinterpreted, the bytes of every element — also of
     the native scalar an integers-only index yields — are kept *)
  let '(s, raw) := np_index [] OrdC shape c elems in
  if isfloat then Ok (s, map noscale raw)                    (* np.issubdtype(ddt.type, np.floating) *)
  else if nscales =? 0 then Ok (s, map (scale (nth 0 facs dF)) raw)
  else
    c' <- canonical_slicers true ix shape ;;                 (* _normalize re-canonicalises *)
    match split_real (Z.to_nat nscales) c' with              (* ax_inds[nscales] *)
    | None => Err EIndex
    | Some (pre, x, post) =>
        let rest := filter (fun y => negb (is_cint y)) (x :: post) in
        let i_slicer := pre ++ map (fun _ => CNew) rest in
        let '(fs, fsel) := np_index dF OrdC (firstn (Z.to_nat nscales) shape) i_slicer facs in
        (* NumPy broadcasting of imax[i_slicer] (shape lead ++ 1s) against the sliced data
           (shape lead ++ trail), C order: output element p takes factor p / prod(trail) *)
        let k := length rest in
        let nlead := (length s - k)%nat in
        if negb (zlist_eqb (firstn nlead fs) (firstn nlead s)) || negb (length fs =? length s)%nat
        then Err EValue
        else
          let T := prod (skipn nlead s) in
          Ok (s, zipw scale (map (fun p => nth (Z.to_nat (p / T)) fsel dF) (zseq (prod s))) raw)
    end.

(* the fully loaded array: factor of C-order element o is number o / prod(shape[nscales:]) *)
Definition minc_full (shape : list Z) (nscales : Z) (elems : list (list Z)) (facs : list F) : list R :=
  let m := prod (skipn (Z.to_nat nscales) shape) in
  zipw scale (map (fun o => nth (Z.to_nat (o / m)) facs dF) (zseq (prod shape))) elems.
End Minc.

(* ------------------------------------------------------------------ ArrayProxy.reshape
   (CIFTI-2: reshape_dataobj(dataobj, shape[4:])): one -1 allowed; the new proxy has the same
   file, dtype, offset, slope, inter and mmap, and the class default order 'F'. *)
Definition count_m1 (l : list Z) : Z := zlen (filter (fun e => e =? -1) l).
Definition ap_reshape (shape newshape : list Z) : res (list Z) :=
  let size := prod shape in
  let n_unknowns := count_m1 newshape in
  if 1 <? n_unknowns then Err EValue
  else
    ns <- (if n_unknowns =? 1 then
             let known_size := fold_left Z.mul newshape (-1) in
             (* size is a NumPy int64: `size // 0` is 0 with a RuntimeWarning, not an exception
                — which is also what Z.div gives *)
             Ok (map (fun e => if e =? -1 then size / known_size else e) newshape)
           else Ok newshape) ;;
    if prod ns =? size then Ok ns else Err EValue.

(* ------------------------------------------------------------------ driver support: a file
   whose i-th w-byte element is the big-endian encoding of i, preceded by `off` filler bytes *)
Fixpoint enc_be (w : nat) (v : Z) : list Z :=
  match w with
  | O => []
  | S w' => enc_be w' (v / 256) ++ [v mod 256]
  end.
Definition dec_be (b : list Z) : Z := fold_left (fun a x => a * 256 + x) b 0.
Definition index_file (off w n : Z) : list Z :=
  repeat 255 (Z.to_nat off) ++ flat_map (enc_be (Z.to_nat w)) (zseq n).
Definition shape_size (l : list Z) : Z := prod l.
Definition file_reader (file : list Z) : Z -> Z -> res (list Z) := fread_at file.
