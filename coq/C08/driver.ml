(* C08 driver body (after `open C08_model` and drvlib.ml).  Each op evaluates the model on a list
   of prefix lengths of one file and answers one letter per length:
   E = error (None), Q = the data written, D = other data.   Grammar: see harness/c08.py. *)
let offs = match trk_offs_now with Some o -> o | None -> failwith "layout"
let lens_of s full = if s = "all" then List.init (List.length full) (fun i -> i)
  else List.map int_of_z (zlist_of_string s)
let sweep lens full f =
  let b = Buffer.create 256 in
  List.iter (fun n -> Buffer.add_char b (f (take_n n full))) lens; "ok " ^ Buffer.contents b
let cls expected = function None -> 'E' | Some d -> if d = expected then 'Q' else 'D'
let handle op args = match op, args with
  | "single", [st; hs; vox; nb; be; h; lens] ->
    let full = bytes_of_hex h in
    let hs = z_of_string hs and vox = z_of_string vox and nb = z_of_string nb in
    let expected = take_n (int_of_z nb) (drop_n (int_of_z vox) full) in
    sweep (lens_of lens full) full (fun p ->
      cls expected (decode_single (bool_of_string st) hs vox nb (bool_of_string be) p))
  | "pairhdr", [st; hs; hasext; be; h; lens] ->
    let full = bytes_of_hex h in
    sweep (lens_of lens full) full (fun p ->
      if decode_pair_hdr (bool_of_string st) (z_of_string hs) (bool_of_string hasext) (bool_of_string be) p then 'Q' else 'E')
  | "img", [st; vox; nb; h; lens] ->
    let full = bytes_of_hex h in
    let vox = z_of_string vox and nb = z_of_string nb in
    let expected = take_n (int_of_z nb) (drop_n (int_of_z vox) full) in
    sweep (lens_of lens full) full (fun p -> cls expected (decode_img (bool_of_string st) vox nb p))
  | "mgh", [st; hr; doff; nb; ftr; h; lens] ->
    let full = bytes_of_hex h in
    let doff = z_of_string doff and nb = z_of_string nb in
    let expected = take_n (int_of_z nb) (drop_n (int_of_z doff) full) in
    sweep (lens_of lens full) full (fun p ->
      cls expected (decode_mgh (bool_of_string st) (z_of_string hr) doff nb (z_of_string ftr) p))
  | "tck", [st; b; h; lens] ->
    let full = bytes_of_hex h in
    (match decode_tck false (z_of_string b) full with
     | None -> "err full file does not load"
     | Some expected ->
       sweep (lens_of lens full) full (fun p -> cls expected (decode_tck (bool_of_string st) (z_of_string b) p)))
  | "trk", [st; h; lens] ->
    let full = bytes_of_hex h in
    (match decode_trk false offs full with
     | None -> "err full file does not load"
     | Some expected ->
       sweep (lens_of lens full) full (fun p -> cls expected (decode_trk (bool_of_string st) offs p)))
  (* partial reads through the array proxy: load (header readable) then fileslice of C06 *)
  | "psingle", [hs; vox; be; step; shape; w; h; lens] ->
    let full = bytes_of_hex h in
    let hs = z_of_string hs and vox = z_of_string vox and w = z_of_string w in
    let shape = zlist_of_string shape and step = z_of_string step in
    let run p = decode_partial (decode_single false hs vox (z_of_int 0) (bool_of_string be) p <> None) p step shape w vox in
    (match run full with
     | None -> "err full file does not give the slice"
     | Some expected -> sweep (lens_of lens full) full (fun p -> cls expected (run p)))
  | "pimg", [off; step; shape; w; h; lens] ->
    let full = bytes_of_hex h in
    let off = z_of_string off and w = z_of_string w in
    let shape = zlist_of_string shape and step = z_of_string step in
    let run p = decode_partial (p <> []) p step shape w off in
    (match run full with
     | None -> "err full file does not give the slice"
     | Some expected -> sweep (lens_of lens full) full (fun p -> cls expected (run p)))
  | "pmgh", [hr; doff; ftr; step; shape; w; h; lens] ->
    let full = bytes_of_hex h in
    let hr = z_of_string hr and doff = z_of_string doff and ftr = z_of_string ftr and w = z_of_string w in
    let shape = zlist_of_string shape and step = z_of_string step in
    let run p = decode_partial (decode_mgh false hr doff (z_of_int 0) ftr p <> None) p step shape w doff in
    (match run full with
     | None -> "err full file does not give the slice"
     | Some expected -> sweep (lens_of lens full) full (fun p -> cls expected (run p)))
  (* k successive reads from one lazily loaded object: E = load or every read raises, Q = the reads
     that succeed all give the data of the complete file, D = some read gives other data *)
  | "trkretry", [k; h; lens] ->
    let full = bytes_of_hex h in
    let k = nat_of_int (int_of_string k) in
    let classify exp = function
      | None -> 'E'
      | Some l -> let ok = List.filter_map (fun x -> x) l in
        if ok = [] then 'E' else if List.for_all (fun x -> x = exp) ok then 'Q' else 'D' in
    (match trk_lazy_retry offs k full with
     | Some (Some exp :: _) -> sweep (lens_of lens full) full (fun p -> classify exp (trk_lazy_retry offs k p))
     | _ -> "err full file does not load")
  | "tckretry", [b; k; h; lens] ->
    let full = bytes_of_hex h in
    let k = nat_of_int (int_of_string k) and b = z_of_string b in
    let classify exp = function
      | None -> 'E'
      | Some l -> let ok = List.filter_map (fun x -> x) l in
        if ok = [] then 'E' else if List.for_all (fun x -> x = exp) ok then 'Q' else 'D' in
    (match tck_lazy_retry b k full with
     | Some (Some exp :: _) -> sweep (lens_of lens full) full (fun p -> classify exp (tck_lazy_retry b k p))
     | _ -> "err full file does not load")
  (* the same through a compressed stream that RAISES when it runs out: lens = how many plain bytes
     the truncated stream delivers at each cut *)
  | "psingleR", [hs; vox; be; step; shape; w; h; lens] ->
    let full = bytes_of_hex h in
    let hs = z_of_string hs and vox = z_of_string vox and w = z_of_string w in
    let shape = zlist_of_string shape and step = z_of_string step in
    let run a = decode_partial_raising (decode_single true hs vox (z_of_int 0) (bool_of_string be) (take_n a full) <> None)
        full (z_of_int a) step shape w vox in
    (match run (List.length full) with
     | None -> "err full file does not give the slice"
     | Some expected ->
       let b = Buffer.create 256 in
       List.iter (fun a -> Buffer.add_char b (cls expected (run a))) (lens_of lens full); "ok " ^ Buffer.contents b)
  | "pimgR", [off; step; shape; w; h; lens] ->
    let full = bytes_of_hex h in
    let off = z_of_string off and w = z_of_string w in
    let shape = zlist_of_string shape and step = z_of_string step in
    let run a = decode_partial_raising (a > 0) full (z_of_int a) step shape w off in
    (match run (List.length full) with
     | None -> "err full file does not give the slice"
     | Some expected ->
       let b = Buffer.create 256 in
       List.iter (fun a -> Buffer.add_char b (cls expected (run a))) (lens_of lens full); "ok " ^ Buffer.contents b)
  (* the SPM .mat member: names (M|mat|other, comma separated) and sizes of its MATLAB-4 records;
     one digit per cut: 0 raises, 1 header affine, 2 affine from 'mat', 3 affine from 'M' *)
  | "spmmat", [names; sizes; lens] ->
    let names = List.map (function "M" -> VM | "mat" -> Vmat | _ -> Vother) (String.split_on_char ',' names) in
    let sizes = zlist_of_string sizes in
    let b = Buffer.create 256 in
    List.iter (fun n -> Buffer.add_string b (string_of_int (int_of_z (spm_mat_class names sizes n)))) (zlist_of_string lens);
    "ok " ^ Buffer.contents b
  | _ -> "err driver:badop"
let () = run_lines handle
