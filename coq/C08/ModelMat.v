(* C08/ModelMat.v — the SPM .mat member (Spm99AnalyzeImage / Spm2AnalyzeImage: .hdr, .img, .mat).
   The .mat file only carries the affine: from_file_map reads header and image first, then
     contents = matf.read(); if len(contents) == 0: return ret        (header affine kept)
     mats = scipy.io.loadmat(BytesIO(contents))
     'mat' in mats -> affine = mats['mat'] ; elif 'M' -> diag(-1,1,1,1) @ M if default_x_flip else M
     else ValueError ; affine = affine @ to_111
   and to_file_map writes savemat({'M': flip?(aff) @ from_111, 'mat': aff @ from_111}, format='4').
   scipy.io.loadmat is an ORACLE (Section variable); its contract is stated in LemmasMat.v.
   The voxel values never depend on the .mat member.  Definitions only. *)
From Coq Require Import ZArith List Bool.
Import ListNotations.
Open Scope Z_scope.

Inductive vname := VM | Vmat | Vother.
Definition vname_eqb (a b : vname) : bool :=
  match a, b with VM, VM | Vmat, Vmat | Vother, Vother => true | _, _ => false end.

Section SpmMat.
  Variable mx : Type.                         (* a 4x4 float64 matrix *)
  Variables flip from111 to111 : mx -> mx.    (* diag(-1,1,1,1) @ m ;  m @ from_111 ;  m @ to_111 *)
  Variable loadmat : list Z -> option (list (vname * mx)).   (* None = raises *)

  Fixpoint lookup (n : vname) (vs : list (vname * mx)) : option mx :=
    match vs with
    | [] => None
    | (k, m) :: r => if vname_eqb k n then Some m else lookup n r
    end.

  (* the affine of the loaded image; contents = None: there is no .mat file; result None = raises *)
  Definition spm_affine (x_flip : bool) (hdr_affine : mx) (contents : option (list Z)) : option mx :=
    match contents with
    | None => Some hdr_affine
    | Some [] => Some hdr_affine
    | Some c =>
        match loadmat c with
        | None => None
        | Some vs =>
            match lookup Vmat vs with
            | Some m => Some (to111 m)
            | None =>
                match lookup VM vs with
                | Some m => Some (to111 (if x_flip then flip m else m))
                | None => None
                end
            end
        end
    end.

  (* what to_file_map hands to savemat, in the order savemat writes it *)
  Definition spm_mat_vars (x_flip : bool) (aff : mx) : list (vname * mx) :=
    [(VM, from111 (if x_flip then flip aff else aff)); (Vmat, from111 aff)].

  (* load of the image with the bytes `contents` of the .mat member: voxel data and affine.
     `data` = what header + image give (C08_prefix_img etc.); the .mat cannot change it *)
  Definition spm_load {D} (data : option D) (x_flip : bool) (hdr_affine : mx) (contents : option (list Z))
    : option (D * mx) :=
    match data with
    | None => None
    | Some d => match spm_affine x_flip hdr_affine contents with None => None | Some a => Some (d, a) end
    end.
End SpmMat.

(* MATLAB 4 files are a sequence of self-delimiting records (20-byte header, name, data).
   What the harness measures of scipy's reader, as an executable contract: a file cut at byte n
   loads iff n is a record boundary, and then gives the records before the cut.
   sizes = the record sizes; result: None = raises | Some j = the first j variables *)
Fixpoint mat4_cut (sizes : list Z) (n : Z) : option nat :=
  if n =? 0 then Some O
  else match sizes with
       | [] => None
       | s :: r => if n <? s then None else option_map S (mat4_cut r (n - s))
       end.

(* outcome class of the image load for the .mat member cut at n, names = the variable names in
   file order: 0 raises | 1 header affine (empty .mat) | 2 affine from 'mat' | 3 affine from 'M' *)
Definition spm_mat_class (names : list vname) (sizes : list Z) (n : Z) : Z :=
  if n =? 0 then 1
  else match mat4_cut sizes n with
       | None => 0
       | Some j =>
           let vs := firstn j names in
           if existsb (vname_eqb Vmat) vs then 2 else if existsb (vname_eqb VM) vs then 3 else 0
       end.
