(* C08/LemmasXml.v — a truncated GIFTI document never loads as other data (given expat's contract) *)
From Coq Require Import ZArith List Bool Lia.
From NV Require Import Base.Bytes C17.Tables C17.Model C17.Lemmas C08.ModelXml.
Import ListNotations.
Open Scope Z_scope.

Section Gifti.
  Variable b64dec : str -> option (list Z).
  Variable zdecomp : list Z -> option (list Z).
  Variable loadtxt : Z -> str -> option (list nat * list Z).
  Variable xstate : Type.
  Variable x0 : xstate.
  Variable xparse : xstate -> list Z -> bool -> option (xstate * list event).

  (* what the document means: its events, None when it is not well-formed *)
  Variable events_of : list Z -> option (list event).

  (* contract of the incremental parser: however the bytes are cut into blocks, feeding them and
     finishing gives an error exactly when the document is not well-formed, and otherwise its
     events up to how character data is cut into chunks *)
  Hypothesis feed_spec : forall blocks,
    match feed xstate xparse x0 blocks [], events_of (concat blocks) with
    | None, None => True
    | Some e, Some e0 => merge e = merge e0
    | _, _ => False
    end.

  (* the written file: a document that ends with its root element, then optional white space *)
  Variables (doc tail : list Z).
  (* contract on this document: no strict prefix of it is well-formed (expat: "no element
     found" / "unclosed token"), and what follows the root element does not change the events *)
  Hypothesis strict_prefix_ill_formed : forall n, 0 <= n < zlen doc -> events_of (take n (doc ++ tail)) = None.
  Hypothesis tail_ignored : forall n m, zlen doc <= n -> zlen doc <= m ->
    match events_of (take n (doc ++ tail)), events_of (take m (doc ++ tail)) with
    | Some e, Some e' => merge e = merge e'
    | _, _ => False
    end.

  Lemma gifti_prefix blocks blocksF n :
    0 <= n -> concat blocks = take n (doc ++ tail) -> concat blocksF = doc ++ tail ->
    gifti_load b64dec zdecomp loadtxt xstate x0 xparse blocks = Err EParse
    \/ (gifti_load b64dec zdecomp loadtxt xstate x0 xparse blocks
        = gifti_load b64dec zdecomp loadtxt xstate x0 xparse blocksF /\ zlen doc <= n).
  Proof.
    intros Hn Hb HF. unfold gifti_load.
    pose proof (feed_spec blocks) as S. rewrite Hb in S.
    destruct (Z.lt_ge_cases n (zlen doc)) as [Hlt|Hge].
    - left. rewrite (strict_prefix_ill_formed n ltac:(lia)) in S.
      destruct (feed xstate xparse x0 blocks []); [contradiction|reflexivity].
    - right. split; [|exact Hge].
      pose proof (feed_spec blocksF) as SF. rewrite HF in SF.
      assert (EF : doc ++ tail = take (zlen (doc ++ tail)) (doc ++ tail)).
      { unfold take, zlen. rewrite Nat2Z.id. symmetry. apply firstn_all. }
      replace (events_of (doc ++ tail)) with (events_of (take (zlen (doc ++ tail)) (doc ++ tail))) in SF
        by (rewrite <- EF; reflexivity).
      assert (Lm : zlen doc <= zlen (doc ++ tail)).
      { unfold zlen. rewrite app_length. lia. }
      pose proof (tail_ignored n (zlen (doc ++ tail)) Hge Lm) as T.
      destruct (events_of (take n (doc ++ tail))) as [e|]; [|contradiction].
      destruct (events_of (take (zlen (doc ++ tail)) (doc ++ tail))) as [e'|]; [|contradiction].
      destruct (feed xstate xparse x0 blocks []) as [f|]; [|contradiction].
      destruct (feed xstate xparse x0 blocksF []) as [f'|]; [|contradiction].
      apply chunking_invariant. congruence.
  Qed.
End Gifti.

(* without the final call the contract says nothing about a truncated document: on a toy
   tokenizer (one event per byte, well-formed = ends with byte 62 '>') a truncated input is
   accepted by the loop that forgets final = true, and rejected by ParseFile's loop *)
Definition toy_parse2 (last : Z) (b : list Z) (final : bool) : option (Z * list event) :=
  if final then (if last =? 62 then Some (last, []) else None)
  else Some (List.last b last, map (fun c => Chars [c]) b).

Lemma nofinal_accepts_truncated :
  feed_nofinal Z toy_parse2 0 [[60; 97]] [] = Some [Chars [60]; Chars [97]]
  /\ feed Z toy_parse2 0 [[60; 97]] [] = None
  /\ feed Z toy_parse2 0 [[60; 97]; [62]] [] = Some [Chars [60]; Chars [97]; Chars [62]].
Proof. repeat split; reflexivity. Qed.
