(* C08/Extract.v — extraction of the executable model (ExtrOcamlBasic only) *)
Require Extraction. Require ExtrOcamlBasic.
From NV Require Import Base.Bytes C16.Tables C16.Model C08.Model C08.ModelSlice C08.ModelMat.
Extraction Language OCaml.
Extraction "c08_model.ml" decode_single decode_pair_hdr decode_img decode_mgh decode_tck decode_trk
  trk_offs_now decode_partial trk_lazy_retry tck_lazy_retry
  decode_partial_raising spm_mat_class.
