(* C08/Lemmas.v — proofs about C08/Model.v *)
From Coq Require Import ZArith List Bool Lia ZifyBool.
From NV Require Import Base.Bytes C16.Tables C16.Model C16.Lemmas C16.LemmasTrk C16.LemmasTckHdr C08.Model.
Import ListNotations.
Open Scope Z_scope.

(* ------------------------------------------------------------------ prefixes *)
Lemma zlen_take_le {A} n (l : list A) : 0 <= n -> zlen (take n l) <= n.
Proof. intros H. rewrite zlen_take by assumption. lia. Qed.

Lemma take_full {A} n (l : list A) : zlen l <= n -> take n l = l.
Proof. apply take_all. Qed.

Lemma sread_some strict n f d r : sread strict n f = Some (d, r) -> 0 <= n -> d = take n f.
Proof.
  unfold sread. intros H Hn. replace (n <? 0) with false in H by lia.
  destruct (strict && (zlen f <? n)); [discriminate|]. injection H as <- _. apply takez_eq.
Qed.

(* the data read: if it succeeds on a prefix, the prefix holds all the data bytes *)
Lemma read_data_prefix strict vox nbytes A data n x :
  zlen A = vox -> zlen data = nbytes -> 0 < nbytes -> 0 <= n ->
  read_data strict vox nbytes (take n (A ++ data)) = Some x ->
  x = data /\ vox + nbytes <= n.
Proof.
  intros HA Hd Hnb Hn H. unfold read_data in H. replace (nbytes =? 0) with false in H by lia.
  rewrite takez_eq, dropz_eq in H.
  destruct (Z.ltb_spec (zlen (take nbytes (drop vox (take n (A ++ data))))) nbytes) as [Hs|Hs]; [discriminate|].
  injection H as <-. pose proof (zlen_nonneg A).
  rewrite zlen_take in Hs by lia. rewrite zlen_drop in Hs by lia. rewrite zlen_take in Hs by lia.
  rewrite zlen_app in Hs.
  assert (Hge : vox + nbytes <= n) by lia. split; [|exact Hge].
  rewrite (take_all n) by (rewrite zlen_app; lia). rewrite drop_app_len by exact HA.
  apply take_all. lia.
Qed.

(* ------------------------------------------------------------------ NIfTI single file / CIFTI-2 *)
Lemma single_prefix strict hsize vox nbytes be A data n :
  zlen A = vox -> zlen data = nbytes -> 0 < nbytes -> 0 <= n ->
  decode_single strict hsize vox nbytes be (take n (A ++ data)) = None
  \/ (decode_single strict hsize vox nbytes be (take n (A ++ data)) = Some data /\ vox + nbytes <= n).
Proof.
  intros HA Hd Hnb Hn. unfold decode_single.
  destruct (zlen (take n (A ++ data)) =? 0); [now left|].
  destruct (read_header _ _ _ _ _ _); [|now left]. cbn [negb].
  destruct (read_data strict vox nbytes (take n (A ++ data))) as [x|] eqn:E; [|now left].
  destruct (read_data_prefix _ _ _ _ _ _ _ HA Hd Hnb Hn E) as [-> Hge]. right. split; [reflexivity|exact Hge].
Qed.

(* ------------------------------------------------------------------ members of a pair *)
Lemma read_header_needs strict hsize hasext be extsize f :
  0 <= hsize -> read_header strict hsize hasext be extsize f = true -> hsize <= zlen f.
Proof.
  intros Hh H. unfold read_header in H. destruct (sread strict hsize f) as [[hb f1]|] eqn:E; [|discriminate].
  apply sread_some in E; [|assumption]. subst hb.
  destruct (Z.ltb_spec (zlen (take hsize f)) hsize) as [Hs|Hs]; [discriminate|].
  rewrite zlen_take in Hs by assumption. lia.
Qed.

Lemma pair_hdr_prefix strict hsize hasext be F n : 0 <= hsize -> 0 <= n ->
  decode_pair_hdr strict hsize hasext be (take n F) = true -> hsize <= n.
Proof.
  intros Hh Hn H. unfold decode_pair_hdr in H. destruct (_ =? 0); [discriminate|].
  apply read_header_needs in H; [|assumption]. pose proof (zlen_take_le n F Hn). lia.
Qed.

Lemma img_prefix strict vox nbytes A data n :
  zlen A = vox -> zlen data = nbytes -> 0 < nbytes -> 0 <= n ->
  decode_img strict vox nbytes (take n (A ++ data)) = None
  \/ (decode_img strict vox nbytes (take n (A ++ data)) = Some data /\ vox + nbytes <= n).
Proof.
  intros HA Hd Hnb Hn. unfold decode_img. destruct (_ =? 0); [now left|].
  destruct (read_data strict vox nbytes (take n (A ++ data))) as [x|] eqn:E; [|now left].
  destruct (read_data_prefix _ _ _ _ _ _ _ HA Hd Hnb Hn E) as [-> Hge]. right. split; [reflexivity|exact Hge].
Qed.

(* ------------------------------------------------------------------ MGH *)
Lemma mgh_prefix strict hread doff nbytes ftrsize A data ftr n :
  zlen A = doff -> zlen data = nbytes -> 0 < nbytes -> 0 <= n ->
  decode_mgh strict hread doff nbytes ftrsize (take n (A ++ data ++ ftr)) = None
  \/ (decode_mgh strict hread doff nbytes ftrsize (take n (A ++ data ++ ftr)) = Some data /\ doff + nbytes <= n).
Proof.
  intros HA Hd Hnb Hn. unfold decode_mgh.
  set (P := take n (A ++ data ++ ftr)).
  destruct (zlen P =? 0); [now left|].
  destruct (sread strict hread P) as [[hb r]|]; [|now left].
  destruct (zlen hb <? hread); [now left|].
  destruct (strict && (zlen P <? doff + nbytes)); [now left|].
  destruct (sread strict ftrsize _); [|now left].
  destruct (read_data strict doff nbytes P) as [x|] eqn:E; [|now left].
  (* the data bytes are a prefix of data ++ ftr *)
  unfold read_data in E. replace (nbytes =? 0) with false in E by lia.
  rewrite takez_eq, dropz_eq in E.
  destruct (Z.ltb_spec (zlen (take nbytes (drop doff P))) nbytes) as [Hs|Hs]; [discriminate|].
  injection E as <-. pose proof (zlen_nonneg A). pose proof (zlen_nonneg ftr).
  unfold P in Hs |- *. rewrite zlen_take in Hs by lia. rewrite zlen_drop in Hs by lia. rewrite zlen_take in Hs by lia.
  rewrite !zlen_app in Hs. assert (Hge : doff + nbytes <= n) by lia.
  right. split; [|exact Hge]. f_equal.
  (* take nbytes (drop doff (take n (A ++ data ++ ftr))) = data *)
  assert (E1 : drop doff (take n (A ++ data ++ ftr)) = take (n - doff) (data ++ ftr)).
  { rewrite <- (drop_app_len doff A (data ++ ftr) HA) at 2.
    unfold take, drop. rewrite firstn_skipn_comm. do 2 f_equal. lia. }
  rewrite E1. rewrite take_take by lia. rewrite take_app_le by lia. apply take_all. lia.
Qed.

(* ------------------------------------------------------------------ compressed files *)
Section Compressed.
  Variable compress : list Z -> list Z.
  (* what a truncated compressed stream still delivers before running out (None: it cannot
     even be opened); the decompressor is an oracle with exactly this contract *)
  Variable avail : list Z -> option (list Z).
  Variable strict : bool.    (* does running out raise (bz2, zstd, gzip) or end silently (indexed_gzip)? *)
  Hypothesis avail_prefix : forall b n, 0 <= n < zlen (compress b) ->
    match avail (take n (compress b)) with
    | Some p => exists m, 0 <= m <= zlen b /\ p = take m b
    | None => True
    end.
  Variable A : Type.
  Variable decode : bool -> list Z -> option A.
  Variable d : A.
  Variable F : list Z.
  Hypothesis plain_prefix : forall st m, 0 <= m <= zlen F ->
    decode st (take m F) = None \/ decode st (take m F) = Some d.

  Definition load_compressed (c : list Z) : option A :=
    match avail c with None => None | Some p => decode strict p end.

  Lemma compressed_prefix n : 0 <= n < zlen (compress F) ->
    load_compressed (take n (compress F)) = None \/ load_compressed (take n (compress F)) = Some d.
  Proof.
    intros Hn. unfold load_compressed. pose proof (avail_prefix F n Hn) as H.
    destruct (avail (take n (compress F))) as [p|]; [|now left].
    destruct H as (m & Hm & ->). now apply plain_prefix.
  Qed.
End Compressed.

(* ------------------------------------------------------------------ TCK: a cut in the data *)
Lemma take_app_ge {A} n (a b : list A) : zlen a <= n -> take n (a ++ b) = a ++ take (n - zlen a) b.
Proof.
  intros H. unfold take. rewrite firstn_app. rewrite firstn_all2 by (unfold zlen in H; lia).
  do 2 f_equal. unfold zlen in *. lia.
Qed.

Lemma triples_of_firstn be : forall j l, triples_of be (firstn (12 * j) l) = firstn j (triples_of be l).
Proof.
  induction j as [|j IH]; intros l; [reflexivity|].
  replace (12 * S j)%nat with (S (S (S (S (S (S (S (S (S (S (S (S (12 * j))))))))))))) by lia.
  do 12 (destruct l as [|? l]; [reflexivity|]).
  cbn [firstn triples_of]. f_equal. apply IH.
Qed.

(* streamlines of the theorem: inside the quantifier of C16 and not beginning with an all-inf point *)
Definition wf_stream8 (s : list triple) : Prop := wf_stream s /\ inf3 (hd (0, 0, 0) s) = false.

Definition tck_triples (sl : list (list triple)) : list triple :=
  flat_map (fun s => s ++ [nan_delim3]) sl ++ [inf_delim3].

Lemma scan_prefix_err : forall sl out j, Forall wf_stream8 sl -> (j < length (tck_triples sl))%nat ->
  forall o c, scan (firstn j (tck_triples sl)) out [] = (o, c) -> exists e, tck_finish o c = Err e.
Proof.
  destruct tck_delims_wf as (_ & _ & _ & _ & Hnan & _).
  induction sl as [|s sl IH]; intros out j Hwf Hj o c E.
  - unfold tck_triples in *. cbn [flat_map app length] in Hj. assert (j = 0)%nat by lia. subst j.
    cbn in E. injection E as <- <-. unfold tck_finish. destruct out; eexists; reflexivity.
  - inversion Hwf as [|? ? [[Hne Hs] Hinf] Hsl]; subst.
    assert (Hnonan : Forall (fun t => nan3 t = false) s) by (eapply Forall_impl; [|exact Hs]; cbn; tauto).
    unfold tck_triples in *. cbn [flat_map] in *. rewrite <- !app_assoc in *.
    destruct (Nat.le_gt_cases j (length s)) as [Hle|Hgt].
    + (* the cut is inside this streamline *)
      rewrite firstn_app in E. replace (j - length s)%nat with 0%nat in E by lia.
      cbn [firstn] in E. rewrite app_nil_r in E.
      rewrite <- (app_nil_r (firstn j s)) in E. rewrite scan_points in E.
      * cbn [scan app] in E. injection E as <- <-.
        unfold tck_finish.
        destruct s as [|t0 s']; [congruence|]. destruct j as [|[|j]]; cbn [firstn hd] in *.
        -- destruct out; eexists; reflexivity.
        -- rewrite Hinf. destruct out; eexists; reflexivity.
        -- destruct s' as [|t1 s'']; [simpl in Hle; lia|]. cbn [firstn]. destruct out; eexists; reflexivity.
      * apply Forall_forall. intros t Ht. rewrite Forall_forall in Hnonan. apply Hnonan.
        eapply (In_firstn_In _ _ _ Ht) || (clear - Ht; revert s Ht; induction j; intros [|a s] H; cbn in *; try contradiction; destruct H; [now left|right; auto]).
    + (* the cut is after this streamline and its delimiter *)
      rewrite firstn_app in E. rewrite firstn_all2 in E by lia.
      destruct (j - length s)%nat as [|j'] eqn:Ej; [lia|].
      cbn [app firstn] in E. rewrite scan_points in E by assumption.
      cbn [scan app] in E. rewrite Hnan in E.
      destruct s as [|t0 s']; [congruence|]. cbn [app] in E.
      apply (IH (out ++ [t0 :: s']) j' Hsl); [|exact E].
      rewrite !app_length in Hj. rewrite app_length. cbn [length] in *. lia.
Qed.

Lemma triples_of_tck_data sl : Forall wf_stream sl -> triples_of false (tck_data sl) = tck_triples sl.
Proof.
  intros H. destruct tck_delims_wf as (_ & _ & He & _).
  rewrite tck_data_eq, triples_of_streams by assumption. rewrite He. reflexivity.
Qed.

Lemma tck_data_length sl : Forall wf_stream sl -> length (tck_data sl) = (12 * length (tck_triples sl))%nat.
Proof.
  intros H. destruct tck_delims_wf as (_ & Hnl & _ & Hel & _).
  unfold tck_triples. rewrite tck_data_eq. rewrite !app_length, Hel. cbn [length].
  induction sl as [|s sl IH]; [reflexivity|]. inversion H; subst.
  unfold streams_bytes in *. cbn [flat_map]. unfold stream_bytes at 1.
  rewrite !app_length, enc_points_length, Hnl. cbn [length]. specialize (IH H3). lia.
Qed.

Lemma chunk_check_not12 c : zlen c mod 12 <> 0 -> chunk_check c <> None.
Proof.
  intros H. unfold chunk_check.
  destruct (Z.eqb_spec (zlen c mod 4) 0) as [E4|E4]; cbn [negb]; [|discriminate].
  destruct (Z.eqb_spec (zlen c / 4 mod 3) 0) as [E3|E3]; cbn [negb]; [|discriminate].
  exfalso. apply H. Z.to_euclidean_division_equations; lia.
Qed.

(* any strict prefix of the data part makes the reader raise *)
Lemma tck_data_prefix_err sl k : Forall wf_stream8 sl -> 0 <= k < zlen (tck_data sl) ->
  exists e, tck_read_all false (take k (tck_data sl)) = Err e.
Proof.
  intros H Hk.
  assert (Hw : Forall wf_stream sl) by (eapply Forall_impl; [|exact H]; intros s [Hs _]; exact Hs).
  unfold tck_read_all.
  assert (Lk : zlen (take k (tck_data sl)) = k) by (rewrite zlen_take; lia).
  destruct (Z.eq_dec (k mod 12) 0) as [E|NE].
  - rewrite chunk_check_mult12 by (rewrite Lk; exact E).
    set (j := Z.to_nat (k / 12)).
    assert (Ek : Z.to_nat k = (12 * j)%nat) by (unfold j; Z.to_euclidean_division_equations; lia).
    unfold take. rewrite Ek, triples_of_firstn, triples_of_tck_data by assumption.
    destruct (scan (firstn j (tck_triples sl)) [] []) as [o c] eqn:Es.
    apply (scan_prefix_err sl [] j H) in Es; [exact Es|].
    pose proof (tck_data_length sl Hw) as L. unfold zlen in Hk. lia.
  - pose proof (chunk_check_not12 (take k (tck_data sl)) ltac:(rewrite Lk; exact NE)) as Hc.
    destruct (chunk_check (take k (tck_data sl))) as [e|]; [eexists; reflexivity|congruence].
Qed.

Lemma list_eqb_len a : forall b, list_eqb a b = true -> length a = length b.
Proof. intros b H. apply list_eqb_spec in H. now subst. Qed.

(* a TCK file cut inside its data, or inside its magic number, does not load *)
Lemma tck_prefix_data items sl b h n :
  wf_items items -> Forall wf_stream8 sl -> 0 <= b -> tck_header (zlen sl) items = Ok h ->
  (zlen h <= n < zlen (h ++ tck_data sl) \/ 0 <= n < zlen tck_magic) ->
  decode_tck false b (take n (h ++ tck_data sl)) = None.
Proof.
  intros Hwf Hsl Hb Eh [Hn|Hn]; unfold decode_tck; destruct (_ =? 0); try reflexivity; cbn [res_opt].
  - rewrite take_app_ge by lia. unfold tck_load.
    rewrite (tck_parse_written (zlen sl) items h _ (zlen_nonneg sl) Hwf Eh).
    pose proof (zlen_nonneg h). replace (zlen h <? 0) with false by lia.
    rewrite dropz_eq, drop_app_exact.
    destruct (tck_bufsize_ok b Hb) as [B1 B2]. rewrite chunk_independent by assumption.
    rewrite zlen_app in Hn.
    destruct (tck_data_prefix_err sl (n - zlen h) Hsl ltac:(lia)) as [e ->]. reflexivity.
  - unfold tck_load, tck_parse_header. rewrite takez_eq.
    destruct (list_eqb (take (zlen tck_magic) (take n (h ++ tck_data sl))) tck_magic) eqn:E; [|reflexivity].
    apply list_eqb_len in E. exfalso.
    assert (L : zlen (take (zlen tck_magic) (take n (h ++ tck_data sl))) <= n).
    { rewrite zlen_take by lia. pose proof (zlen_take_le n (h ++ tck_data sl) ltac:(lia)). lia. }
    unfold zlen in *. lia.
Qed.

(* ------------------------------------------------------------------ TRK: a cut in the records *)
Lemma zlen_record be S P s : wf_tstream S P s ->
  zlen (trk_record be s) = 4 + zlen (s_rows s) * ((3 + S) * 4) + P * 4.
Proof.
  intros (_ & _ & Hr & Hp & _). unfold trk_record. rewrite !zlen_app, zlen_enc_s, zlen_enc_list.
  rewrite (zlen_rows_bytes be (3 + S)) by assumption. lia.
Qed.

Lemma trk_step_partial be S P n k0 s rest k : 0 <= S -> 0 <= P -> wf_tstream S P s -> k0 < n ->
  0 <= k < zlen (trk_record be s) ->
  exists e, trk_step be (3 + S) P (Some n) k0 (take k (trk_record be s ++ rest)) = SErr e.
Proof.
  intros HS HP Hwf Hk0 Hk. pose proof (zlen_record be S P s Hwf) as Lr.
  destruct Hwf as (Hne & Hlt & Hrows & Hpl & Hpo). destruct s as [rows props]. cbn [s_rows s_props] in *.
  rewrite take_app_le by lia. unfold trk_step. replace (n <=? k0) with false by lia.
  unfold trk_record in *. cbn [s_rows s_props] in *.
  pose proof (zlen_nonneg rows) as Hr0.
  set (R := flat_map (enc_list be 4) rows) in *. set (Q := enc_list be 4 props) in *.
  assert (LR : zlen R = zlen rows * ((3 + S) * 4)) by (unfold R; now apply zlen_rows_bytes).
  assert (LQ : zlen Q = P * 4) by (unfold Q; rewrite zlen_enc_list; lia).
  rewrite !takez_eq, !dropz_eq.
  destruct (Z.lt_ge_cases k 4) as [H4|H4].
  - (* inside the 4-byte point count *)
    assert (L : zlen (take k (enc_s be 4 (zlen rows) ++ R ++ Q)) = k).
    { rewrite zlen_take by lia. rewrite !zlen_app, zlen_enc_s. pose proof (zlen_nonneg R). pose proof (zlen_nonneg Q). lia. }
    rewrite (take_all 4) by lia. rewrite L.
    destruct (Z.eqb_spec k 0); [eexists; reflexivity|].
    replace (k <? 4) with true by lia. eexists; reflexivity.
  - rewrite take_take by lia. rewrite (take_app_len 4) by apply zlen_enc_s. rewrite zlen_enc_s.
    change (Z.of_nat 4 =? 0) with false. change (Z.of_nat 4 <? 4) with false. cbv iota.
    rewrite dec_s_enc_s by (rewrite ?pow256_4_half; lia). replace (zlen rows <? 0) with false by lia.
    rewrite take_app_ge by (rewrite zlen_enc_s; lia). rewrite zlen_enc_s.
    rewrite (drop_app_len 4) by apply zlen_enc_s. change (Z.of_nat 4) with 4.
    set (psz := zlen rows * ((3 + S) * 4)) in *.
    destruct (Z.lt_ge_cases (k - 4) psz) as [Hp|Hp].
    + assert (L : zlen (take psz (take (k - 4) (R ++ Q))) < psz).
      { rewrite !zlen_take by lia. lia. }
      replace (zlen (take psz (take (k - 4) (R ++ Q))) <? psz) with true by lia. eexists; reflexivity.
    + rewrite take_app_ge by lia. rewrite (take_app_len psz) by exact LR. rewrite LR.
      replace (psz <? psz) with false by lia. rewrite (drop_app_len psz) by exact LR.
      assert (L : zlen (take (P * 4) (take (k - 4 - psz) Q)) < P * 4).
      { rewrite !zlen_take by lia. rewrite !zlen_app, zlen_enc_s in Hk. lia. }
      replace (zlen (take (P * 4) (take (k - 4 - psz) Q)) <? P * 4) with true by lia. eexists; reflexivity.
Qed.

Lemma trk_loop_prefix_err be S P : 0 <= S -> 0 <= P ->
  forall sl fuel k0 acc n k, Forall (wf_tstream S P) sl -> n = k0 + zlen sl ->
  0 <= k < zlen (flat_map (trk_record be) sl) ->
  exists e, trk_loop fuel be (3 + S) P (Some n) k0 (take k (flat_map (trk_record be) sl)) acc = Err e.
Proof.
  intros HS HP. induction sl as [|s sl IH]; intros fuel k0 acc n k Hwf Hn Hk.
  - cbn in Hk. lia.
  - inversion Hwf as [|? ? Hs Hsl]; subst. destruct fuel as [|fuel]; [eexists; reflexivity|].
    cbn [trk_loop flat_map]. rewrite zlen_cons. pose proof (zlen_nonneg sl).
    destruct (Z.lt_ge_cases k (zlen (trk_record be s))) as [Hlt|Hge].
    + destruct (trk_step_partial be S P (k0 + (1 + zlen sl)) k0 s (flat_map (trk_record be) sl) k HS HP Hs ltac:(lia) ltac:(lia)) as [e ->].
      eexists; reflexivity.
    + rewrite take_app_ge by exact Hge. rewrite trk_step_record by (assumption || lia).
      cbn [flat_map] in Hk. rewrite zlen_app in Hk.
      apply IH; [assumption|lia|lia].
Qed.

(* ------------------------------------------------------------------ TRK: the whole file *)
Lemma skipn_repeat_my {A} (x : A) : forall k m, skipn k (repeat x m) = repeat x (m - k).
Proof.
  induction k as [|k IH]; intros m; [now rewrite Nat.sub_0_r|].
  destruct m as [|m]; [reflexivity|]. cbn [repeat skipn]. rewrite IH. reflexivity.
Qed.

Lemma enc_s_1000 : enc_s false 4 1000 = [232; 3; 0; 0].
Proof. reflexivity. Qed.

(* the 1000-byte buffer that readinto() leaves when only n < 1000 bytes of the header hf are
   there: cutting just the two zero bytes of hdr_size changes nothing; cutting more destroys it *)
Lemma padded_header hf n : zlen hf = 1000 -> get_at 996 4 hf = [232; 3; 0; 0] -> 0 <= n < 1000 ->
  let hb := take n hf ++ zeros (1000 - n) in
  (998 <= n -> hb = hf) /\
  (n <= 997 -> get_at 996 4 hb = [0; 0; 0; 0] \/ get_at 996 4 hb = [232; 0; 0; 0]).
Proof.
  intros L G Hn hb.
  assert (Ehf : hf = take 996 hf ++ [232; 3; 0; 0]).
  { rewrite <- G. unfold get_at. rewrite takez_eq, dropz_eq.
    rewrite (take_all 4) by (rewrite zlen_drop; lia). symmetry. apply take_drop_id. }
  set (A := take 996 hf) in *. assert (LA : zlen A = 996) by (unfold A; rewrite zlen_take; lia).
  split.
  - intros H. unfold hb. rewrite Ehf. rewrite take_app_ge by lia. rewrite LA, <- app_assoc. f_equal.
    assert (n = 998 \/ n = 999) as [-> | ->] by lia; reflexivity.
  - intros H. unfold hb, get_at. rewrite takez_eq, dropz_eq.
    destruct (Z.le_gt_cases n 996) as [H6|H6].
    + left. rewrite drop_app_ge by (rewrite zlen_take; lia). rewrite zlen_take by lia. rewrite L.
      replace (996 - Z.min n 1000) with (996 - n) by lia.
      unfold drop, zeros. rewrite skipn_repeat_my.
      replace (Z.to_nat (1000 - n) - Z.to_nat (996 - n))%nat with 4%nat by lia. reflexivity.
    + right. assert (n = 997) by lia. subst n. rewrite Ehf. rewrite take_app_ge by lia. rewrite LA.
      rewrite <- app_assoc. rewrite (drop_app_len 996) by exact LA. reflexivity.
Qed.

Lemma parse_bad_hsize o hb :
  get_at (o_hsize o) 4 hb = [0; 0; 0; 0] \/ get_at (o_hsize o) 4 hb = [232; 0; 0; 0] ->
  trk_parse_header o hb = Err EHdrSize.
Proof.
  intros [E|E]; unfold trk_parse_header; rewrite E; change trk_header_size with 1000.
  - replace (dec_s false [0; 0; 0; 0]) with 0 by (vm_compute; reflexivity).
    replace (dec_s true [0; 0; 0; 0]) with 0 by (vm_compute; reflexivity). reflexivity.
  - replace (dec_s false [232; 0; 0; 0]) with 232 by (vm_compute; reflexivity).
    replace (dec_s true [232; 0; 0; 0]) with (-402653184) by (vm_compute; reflexivity). reflexivity.
Qed.

Lemma trk_loop_empty_truncated fuel be ncols nprop n : 0 < n ->
  trk_loop (S fuel) be ncols nprop (Some n) 0 [] [] = Err ETruncated.
Proof.
  intros H. cbn [trk_loop]. unfold trk_step. replace (n <=? 0) with false by lia. reflexivity.
Qed.

Lemma Ok_inj {A} (a b : A) : Ok a = Ok b -> a = b.
Proof. intros H. injection H as ->. reflexivity. Qed.

(* the three parts of the TRK theorem, for a file hf ++ recs whose header block parses *)
Section TrkFile.
  Variables (o : trk_offs) (hf : list Z) (sl : list trk_stream) (S P : Z) (ss ps : sdict).
  Hypothesis L5 : zlen hf = 1000.
  Hypothesis Pr : trk_parse_header o hf = Ok (mkInfo false (zlen sl) S P ss ps).
  Hypothesis H996 : o_hsize o = 996.
  Hypothesis Ghs : get_at 996 4 hf = [232; 3; 0; 0].
  Hypothesis S0 : 0 <= S.
  Hypothesis P0 : 0 <= P.
  Hypothesis Hsl : Forall (wf_tstream S P) sl.
  Hypothesis Hsl0 : 0 < zlen sl.
  Let recs := flat_map (trk_record false) sl.

  Lemma trk_cut_records n : 1000 <= n < 1000 + zlen recs -> trk_load o 0 (take n (hf ++ recs)) = Err ETruncated
     \/ exists e, trk_load o 0 (take n (hf ++ recs)) = Err e.
  Proof.
    intros Hn. right. unfold trk_load. rewrite !takez_eq, !dropz_eq. change trk_header_size with 1000.
    rewrite (drop_0 0) by lia.
    rewrite take_app_ge by lia. rewrite L5. rewrite (take_app_len 1000) by exact L5.
    rewrite L5. change (zeros (1000 - 1000)) with (@nil Z). rewrite app_nil_r, Pr.
    cbn [i_nscal i_nprop i_be i_count].
    replace ((S <? 0) || (P <? 0)) with false by lia.
    replace (zlen sl =? 0) with false by lia.
    replace (0 + 1000) with 1000 by lia. rewrite (drop_app_len 1000) by exact L5.
    destruct (trk_loop_prefix_err false S P S0 P0 sl
                (Datatypes.S (length (take (n - 1000) recs))) 0 [] (zlen sl) (n - 1000) Hsl ltac:(lia) ltac:(fold recs; lia)) as [e Ee].
    fold recs in Ee. rewrite Ee. eexists; reflexivity.
  Qed.

  Lemma trk_cut_header n : 0 <= n < 1000 -> exists e, trk_load o 0 (take n (hf ++ recs)) = Err e.
  Proof.
    intros Hn. unfold trk_load. rewrite !takez_eq, !dropz_eq. change trk_header_size with 1000.
    rewrite (drop_0 0) by lia. rewrite take_app_le by lia.
    assert (Lp : zlen (take n hf) = n) by (rewrite zlen_take; lia).
    rewrite (take_all 1000) by lia. rewrite Lp.
    destruct (padded_header hf n L5 Ghs ltac:(lia)) as [Hbig Hsmall]. cbv zeta in Hbig, Hsmall.
    destruct (Z.le_gt_cases 998 n) as [H8|H8].
    + rewrite (Hbig H8), Pr. cbn [i_nscal i_nprop i_be i_count].
      replace ((S <? 0) || (P <? 0)) with false by lia.
      replace (zlen sl =? 0) with false by lia.
      replace (0 + n) with n by lia. rewrite drop_all by lia.
      cbn [length]. rewrite trk_loop_empty_truncated by lia. eexists; reflexivity.
    + rewrite parse_bad_hsize; [eexists; reflexivity|]. rewrite H996. apply Hsmall. lia.
  Qed.

  (* ---- repeated reads from one lazily loaded object *)
  Let infoN := mkInfo false (zlen sl) S P ss ps.

  Lemma trk_open_cut_records n : 1000 <= n ->
    trk_open o (take n (hf ++ recs)) = Ok (infoN, take (n - 1000) recs).
  Proof.
    intros Hn. unfold trk_open. rewrite !takez_eq, !dropz_eq. change trk_header_size with 1000.
    rewrite take_app_ge by lia. rewrite L5. rewrite (take_app_len 1000) by exact L5.
    rewrite L5. change (zeros (1000 - 1000)) with (@nil Z). rewrite app_nil_r, Pr.
    cbn [i_nscal i_nprop]. replace ((S <? 0) || (P <? 0)) with false by lia.
    rewrite (drop_app_len 1000) by exact L5. reflexivity.
  Qed.

  Lemma trk_open_cut_header n : 0 <= n < 1000 ->
    (exists e, trk_open o (take n (hf ++ recs)) = Err e) \/ trk_open o (take n (hf ++ recs)) = Ok (infoN, []).
  Proof.
    intros Hn. unfold trk_open. rewrite !takez_eq, !dropz_eq. change trk_header_size with 1000.
    rewrite take_app_le by lia.
    assert (Lp : zlen (take n hf) = n) by (rewrite zlen_take; lia).
    rewrite (take_all 1000) by lia. rewrite Lp.
    destruct (padded_header hf n L5 Ghs ltac:(lia)) as [Hbig Hsmall]. cbv zeta in Hbig, Hsmall.
    destruct (Z.le_gt_cases 998 n) as [H8|H8].
    + right. rewrite (Hbig H8), Pr. cbn [i_nscal i_nprop].
      replace ((S <? 0) || (P <? 0)) with false by lia. rewrite drop_all by lia. reflexivity.
    + left. rewrite parse_bad_hsize; [eexists; reflexivity|]. rewrite H996. apply Hsmall. lia.
  Qed.

  Lemma take_loop_first fuel be ncols nprop N d l : 0 < N ->
    trk_take_loop (Datatypes.S (Datatypes.S fuel)) be ncols nprop (Some N) 0 1 d [] = Ok l -> l <> [].
  Proof.
    intros HN. cbn [trk_take_loop length Nat.leb]. unfold trk_step at 1. replace (N <=? 0) with false by lia.
    destruct (zlen (takez 4 d) =? 0); [discriminate|]. destruct (zlen (takez 4 d) <? 4); [discriminate|].
    destruct (dec_s be (takez 4 d) <? 0); [discriminate|].
    destruct (zlen _ <? _); [discriminate|]. destruct (zlen _ <? _); [discriminate|].
    intros H. apply Ok_inj in H. subst l. discriminate.
  Qed.

  Lemma retry_all_none k data : 0 < zlen sl ->
    (forall fuel, exists e, trk_loop fuel false (3 + S) P (Some (zlen sl)) 0 data [] = Err e) ->
    trk_retry_passes k infoN (zlen sl) data = repeat None k.
  Proof.
    intros HN H. induction k as [|k IH]; [reflexivity|]. cbn [trk_retry_passes repeat].
    unfold infoN at 1 2 3 4. cbn [i_be i_nscal i_nprop]. unfold trk_nb. replace (zlen sl =? 0) with false by lia.
    destruct (H (Datatypes.S (length data))) as [e ->]. f_equal. exact IH.
  Qed.

  (* every pass over a strict prefix raises, however many times the caller retries *)
  Lemma trk_lazy_retry_prefix k n : 0 <= n < zlen (hf ++ recs) ->
    trk_lazy_retry o k (take n (hf ++ recs)) = None \/ trk_lazy_retry o k (take n (hf ++ recs)) = Some (repeat None k).
  Proof.
    intros Hlen. rewrite zlen_app, L5 in Hlen. unfold trk_lazy_retry.
    destruct (zlen (take n (hf ++ recs)) =? 0); [now left|].
    assert (Hrecs : 0 < zlen recs).
    { unfold recs. destruct sl as [|s0 sl0]; [change (zlen (@nil trk_stream)) with 0 in Hsl0; lia|].
      cbn [flat_map]. rewrite zlen_app. unfold trk_record at 1. rewrite !zlen_app, zlen_enc_s.
      pose proof (zlen_nonneg (flat_map (enc_list false 4) (s_rows s0))). pose proof (zlen_nonneg (enc_list false 4 (s_props s0))).
      pose proof (zlen_nonneg (flat_map (trk_record false) sl0)). lia. }
    assert (Hdata : exists m, 0 <= m < zlen recs /\
              ((exists e, trk_open o (take n (hf ++ recs)) = Err e) \/ trk_open o (take n (hf ++ recs)) = Ok (infoN, take m recs))).
    { destruct (Z.le_gt_cases 1000 n) as [Hge|Hlt].
      - exists (n - 1000). split; [lia|]. right. now apply trk_open_cut_records.
      - exists 0. split; [lia|]. destruct (trk_open_cut_header n ltac:(lia)) as [E|E]; [now left|right].
        rewrite E. rewrite take_0 by lia. reflexivity. }
    destruct Hdata as (m & Hm & Hopen). destruct Hopen as [[e Eo]|Eo]; rewrite Eo; [now left|].
    cbn [i_be i_nscal i_nprop i_count infoN].
    assert (Enb : trk_nb (zlen sl) = Some (zlen sl)) by (unfold trk_nb; replace (zlen sl =? 0) with false by lia; reflexivity).
    rewrite Enb.
    match goal with |- context [match ?X with Ok _ => _ | Err _ => _ end] => destruct X as [first|] eqn:Ef end; [|now left].
    apply take_loop_first in Ef; [|lia]. right. f_equal.
    destruct first as [|f0 fr]; [congruence|].
    apply retry_all_none; [lia|]. intros fuel.
    apply (trk_loop_prefix_err false S P S0 P0 sl fuel 0 [] (zlen sl) m Hsl ltac:(lia)). fold recs. lia.
  Qed.

  Lemma retry_all_data k : 0 < zlen sl ->
    trk_retry_passes k infoN (zlen sl) recs = repeat (Some sl) k.
  Proof.
    intros HN. induction k as [|k IH]; [reflexivity|]. cbn [trk_retry_passes repeat].
    cbn [i_be i_nscal i_nprop infoN]. unfold trk_nb. replace (zlen sl =? 0) with false by lia.
    unfold recs. rewrite (trk_loop_records false S P S0 P0 sl _ 0 [] (zlen sl) Hsl); [|pose proof (records_length false sl); lia|lia].
    cbn [rev app]. f_equal. exact IH.
  Qed.

  (* on the complete file every pass yields all the streamlines *)
  Lemma trk_lazy_retry_full k : trk_lazy_retry o k (hf ++ recs) = Some (repeat (Some sl) k).
  Proof.
    unfold trk_lazy_retry. pose proof (zlen_nonneg recs) as Hr.
    replace (zlen (hf ++ recs) =? 0) with false by (rewrite zlen_app, L5; lia).
    rewrite <- (take_all (zlen (hf ++ recs)) (hf ++ recs)) at 1 by lia.
    rewrite trk_open_cut_records by (rewrite zlen_app, L5; lia).
    rewrite zlen_app, L5. replace (1000 + zlen recs - 1000) with (zlen recs) by lia. rewrite take_all by lia.
    cbn [i_be i_nscal i_nprop i_count infoN].
    assert (Enb : trk_nb (zlen sl) = Some (zlen sl)) by (unfold trk_nb; replace (zlen sl =? 0) with false by lia; reflexivity).
    rewrite Enb.
    assert (Ep : exists s0, trk_take_loop (Datatypes.S (Datatypes.S (length recs))) false (3 + S) P (Some (zlen sl)) 0 1 recs [] = Ok [s0]).
    { unfold recs. destruct sl as [|s0 sl0]; [change (zlen (@nil trk_stream)) with 0 in Hsl0; lia|].
      exists s0. inversion Hsl as [|? ? Hs Hsl']; subst. cbn [flat_map trk_take_loop length Nat.leb].
      rewrite trk_step_record by (assumption || lia). cbn [length Nat.leb rev app]. reflexivity. }
    destruct Ep as [s0 ->]. f_equal. now apply retry_all_data.
  Qed.

  Lemma trk_file_prefix n : 0 <= n < zlen (hf ++ recs) -> decode_trk false o (take n (hf ++ recs)) = None.
  Proof.
    intros Hlen. rewrite zlen_app, L5 in Hlen. unfold decode_trk.
    destruct (zlen (take n (hf ++ recs)) =? 0); [reflexivity|]. cbn [andb].
    destruct (Z.le_gt_cases 1000 n) as [Hge|Hlt].
    - destruct (trk_cut_records n ltac:(lia)) as [E|[e E]]; rewrite E; reflexivity.
    - destruct (trk_cut_header n ltac:(lia)) as [e E]. rewrite E. reflexivity.
  Qed.
End TrkFile.

Lemma trk_prefix_err o u skeys pkeys sl :
  wf_offs o = true -> o_hsize o = 996 -> wf_user u -> sl <> [] -> zlen sl < 2 ^ 31 ->
  Forall wf_key skeys -> Forall wf_key pkeys ->
  NoDup (map fst skeys) -> NoDup (map fst pkeys) -> zlen skeys <= 10 -> zlen pkeys <= 10 ->
  widths skeys < 2 ^ 15 -> widths pkeys < 2 ^ 15 ->
  Forall (wf_tstream (widths skeys) (widths pkeys)) sl ->
  exists F, trk_save o (mkF 0 []) u skeys pkeys sl = Ok F
    /\ decode_trk false o F = Some sl
    /\ forall n, 0 <= n < zlen F -> decode_trk false o (take n F) = None.
Proof.
  intros H H996 Hu Hne Hn Hsk Hpk Nds Ndp Lsk Lpk HS HP Hsl.
  assert (S0 : 0 <= widths skeys).
  { destruct skeys; [cbn; lia|]. pose proof (widths_pos _ Hsk ltac:(discriminate)). lia. }
  assert (P0 : 0 <= widths pkeys).
  { destruct pkeys; [cbn; lia|]. pose proof (widths_pos _ Hpk ltac:(discriminate)). lia. }
  assert (Hsl0 : 0 < zlen sl).
  { destruct sl; [congruence|]. rewrite zlen_cons. pose proof (zlen_nonneg sl). lia. }
  destruct (trk_roundtrip_struct o u skeys pkeys sl [] H Hu Hne Hn Hsk Hpk Nds Ndp Lsk Lpk HS HP Hsl) as (F & E1 & E2).
  pose proof (trk_save_bytes o u skeys pkeys sl [] (widths skeys) (widths pkeys) H Hu Hne Hn Hsk Hpk Lsk Lpk Hsl S0 P0) as Es.
  destruct (template_facts o u H Hu) as (Lt & Ths & Tv).
  destruct (hdr_final_parse o (trk_template o u) skeys pkeys (zlen sl) (widths skeys) (widths pkeys)
              H Lt Ths Tv Hsk Hpk Nds Ndp Lsk Lpk eq_refl eq_refl ltac:(lia) ltac:(lia) ltac:(lia)) as (L5 & Pr & Ghs).
  cbv zeta in L5, Pr, Ghs.
  remember (hdr_final o (trk_template o u) (flat_map enc_field pkeys ++ zeros (200 - 20 * zlen pkeys))
              (flat_map enc_field skeys ++ zeros (200 - 20 * zlen skeys)) (zlen sl) (widths skeys) (widths pkeys)) as hf eqn:Ehf.
  rewrite H996, enc_s_1000 in Ghs.
  assert (EF : F = hf ++ flat_map (trk_record false) sl).
  { rewrite E1 in Es. apply Ok_inj in Es. rewrite Es. apply app_nil_l. }
  exists F. split; [exact E1|]. change (zlen (@nil Z)) with 0 in E2.
  split.
  { unfold decode_trk. rewrite E2. destruct (zlen F =? 0) eqn:Z0; [|reflexivity].
    exfalso. rewrite EF, zlen_app, L5 in Z0. pose proof (zlen_nonneg (flat_map (trk_record false) sl)). lia. }
  intros n Hlen. rewrite EF in Hlen |- *.
  exact (trk_file_prefix o hf sl (widths skeys) (widths pkeys) _ _ L5 Pr H996 Ghs S0 P0 Hsl Hsl0 n Hlen).
Qed.

(* ------------------------------------------------------------------ TCK: a cut in the header text *)
Lemma read_line_no_nl : forall q, Forall (fun c => c <> 10) q -> read_line q = (q, []).
Proof.
  induction q as [|c q IH]; intros H; [reflexivity|]. inversion H as [|? ? Hc Hq]; subst.
  cbn [read_line]. destruct (Z.eqb_spec c 10); [contradiction|]. now rewrite IH.
Qed.

(* an unterminated last line: either an error, or it is the END line and nothing was added *)
Lemma loop_partial fuel q key d c : Forall (fun x => x <> 10) q ->
  (exists e, tck_lines_loop fuel q key d c = Err e) \/ tck_lines_loop fuel q key d c = Ok (d, c + zlen q).
Proof.
  intros Hq. destruct fuel as [|fuel]; [left; eexists; reflexivity|].
  destruct q as [|x q']; [left; eexists; reflexivity|]. set (q := x :: q') in *.
  cbn [tck_lines_loop]. unfold q at 1. rewrite read_line_no_nl by assumption.
  assert (Hnil : forall k dd cc, exists e, tck_lines_loop fuel [] k dd cc = Err e).
  { intros. destruct fuel; eexists; reflexivity. }
  destruct (strip q) as [|l0 line'] eqn:Es.
  - left. apply Hnil.
  - destruct (list_eqb (l0 :: line') S_END); [right; reflexivity|].
    destruct (split_colon (l0 :: line')) as [[k v]|]; cbv iota beta.
    + left. apply Hnil.
    + destruct key; [left; apply Hnil|left; eexists; reflexivity].
Qed.

Lemma kv_line_no_nl kv : wf_kv kv -> Forall (fun c => c <> 10) (kv_line kv).
Proof.
  intros [Hk Hv]. unfold kv_line. apply Forall_app. split; [now apply clean_no10|].
  apply Forall_app. split; [|now apply clean_no10]. repeat constructor; discriminate.
Qed.

Lemma In_firstn_In_my {A} (x : A) : forall n l, In x (firstn n l) -> In x l.
Proof.
  induction n as [|n IH]; intros [|a l] H; cbn in *; try contradiction.
  destruct H as [->|H]; [now left|right; now apply IH].
Qed.

Lemma Forall_take {A} (P : A -> Prop) n l : Forall P l -> Forall P (take n l).
Proof.
  intros H. unfold take. apply Forall_forall. intros x Hx. rewrite Forall_forall in H. apply H.
  eapply In_firstn_In_my; exact Hx.
Qed.

Lemma lines_bytes_cons kv kvs : lines_bytes (kv :: kvs) = (kv_line kv ++ [10]) ++ lines_bytes kvs.
Proof. reflexivity. Qed.

Lemma prefix_decomp : forall kvs m, Forall wf_kv kvs ->
  0 <= m < zlen (lines_bytes kvs ++ S_END ++ [10]) ->
  exists i q, (i <= length kvs)%nat
    /\ take m (lines_bytes kvs ++ S_END ++ [10]) = lines_bytes (firstn i kvs) ++ q
    /\ Forall (fun c => c <> 10) q.
Proof.
  induction kvs as [|kv kvs IH]; intros m Hwf Hm.
  - exists 0%nat, (take m S_END). split; [cbn; lia|]. split.
    + cbn [lines_bytes flat_map firstn app] in *. rewrite zlen_app in Hm. change (zlen S_END) with 3 in *.
      change (zlen [10]) with 1 in Hm. apply take_app_le. change (zlen S_END) with 3. lia.
    + apply Forall_take. repeat constructor; discriminate.
  - inversion Hwf as [|? ? Hkv Hkvs]; subst. rewrite lines_bytes_cons in *.
    pose proof (kv_line_no_nl kv Hkv) as Hl. pose proof (zlen_nonneg (kv_line kv)) as L0.
    destruct (Z.le_gt_cases m (zlen (kv_line kv))) as [Hle|Hgt].
    + exists 0%nat, (take m (kv_line kv)). split; [cbn; lia|]. split.
      * cbn [firstn lines_bytes flat_map app]. rewrite <- !app_assoc.
        apply take_app_le. exact Hle.
      * now apply Forall_take.
    + rewrite <- (app_assoc (kv_line kv ++ [10])) in Hm |- *.
      assert (Ll : zlen (kv_line kv ++ [10]) = zlen (kv_line kv) + 1) by (rewrite zlen_app; reflexivity).
      rewrite take_app_ge by lia. rewrite zlen_app in Hm.
      destruct (IH (m - zlen (kv_line kv ++ [10])) Hkvs ltac:(lia)) as (i & q & Hi & E & Hq).
      exists (S i), q. split; [cbn; lia|]. split; [|exact Hq].
      rewrite E. cbn [firstn]. rewrite lines_bytes_cons. rewrite <- !app_assoc. reflexivity.
Qed.

Lemma tck_read_nothing be B : 12 <= B -> B mod 12 = 0 -> tck_read_data be B [] = Err EDelim.
Proof. intros H1 H2. rewrite chunk_independent by assumption. destruct be; reflexivity. Qed.

Lemma Forall_firstn_my {A} (P : A -> Prop) n l : Forall P l -> Forall P (firstn n l).
Proof.
  intros H. apply Forall_forall. intros x Hx. rewrite Forall_forall in H. apply H.
  eapply In_firstn_In_my; exact Hx.
Qed.

Lemma firstn_app_le {A} i (a b : list A) : (i <= length a)%nat -> firstn i (a ++ b) = firstn i a.
Proof.
  intros H. rewrite firstn_app. replace (i - length a)%nat with 0%nat by lia. cbn. apply app_nil_r.
Qed.

(* after the lines loop has found END at the very end of a cut header, with a dictionary whose
   'file' entry is absent or states an offset not below the length of what is there *)
Lemma tck_after_end b (P : list Z) d consumed :
  0 <= b -> zlen P = zlen tck_magic + 1 + consumed ->
  (hd_get S_file d = None \/ exists N, zlen P <= N /\ hd_get S_file d = Some (46 :: 32 :: dec_str N)) ->
  forall be off,
  (let offset_data := zlen tck_magic + 1 + consumed in
   let datatype := match hd_get S_datatype d with Some v => v | None => S_Float32LE end in
   if negb (starts_with S_Float32 datatype) then Err EDatatype
   else
     let file := match hd_get S_file d with Some v => v | None => S_dotsp ++ dec_str offset_data end in
     match ws_split file with
     | dot :: off :: _ =>
       if negb (list_eqb dot [46]) then Err EFile
       else match parse_int off with
            | Some o => Ok (ends_with S_BE datatype, o)
            | None => Err EFile
            end
     | [dot] => Err EFile
     | [] => Err EFile
     end) = Ok (be, off) -> zlen P <= off.
Proof.
  intros Hb HP Hfile be off. cbv zeta. remember (zlen tck_magic + 1 + consumed) as od eqn:Eod. clear Eod.
  destruct (negb _); [discriminate|].
  assert (Ews : forall N, 0 <= N -> ws_split (46 :: 32 :: dec_str N) = [[46]; dec_str N]).
  { intros N HN. unfold ws_split. cbn [ws_split_aux]. change (is_ws 46) with false. change (is_ws 32) with true. cbv iota.
    cbn [app]. f_equal. destruct (dec_str_digits N HN) as [_ Hne].
    rewrite ws_split_nows; [reflexivity|now apply digits_nows|exact Hne]. }
  pose proof (zlen_nonneg P) as HP0.
  destruct Hfile as [-> | (N & HN & ->)].
  - change (S_dotsp ++ dec_str od) with (46 :: 32 :: dec_str od).
    rewrite Ews by lia. change (list_eqb [46] [46]) with true. cbn [negb].
    rewrite parse_int_dec_str by lia. intros E. apply Ok_inj in E. injection E as _ E'. lia.
  - rewrite Ews by lia. change (list_eqb [46] [46]) with true. cbn [negb].
    rewrite parse_int_dec_str by lia. intros E. apply Ok_inj in E. injection E as _ E'. lia.
Qed.

Lemma tck_prefix_header items (sl : list (list triple)) b h n :
  wf_items items -> 0 <= b -> tck_header (zlen sl) items = Ok h ->
  zlen tck_magic <= n < zlen h -> forall data,
  decode_tck false b (take n (h ++ data)) = None.
Proof.
  intros Hwf Hb Eh Hn data. rewrite take_app_le by lia.
  destruct (tck_header_structure (zlen sl) items h (zlen_nonneg sl) Hwf Eh) as (kvs & Hh & Wk & Kf).
  set (fkv := (S_file, 46 :: 32 :: dec_str (zlen h))) in *. set (kvs' := kvs ++ [fkv]) in *.
  unfold decode_tck. destruct (_ =? 0); [reflexivity|]. cbn [res_opt].
  change (zlen tck_magic) with 13 in Hn.
  assert (LP : zlen (take n h) = n) by (rewrite zlen_take; lia).
  set (P := take n h) in *.
  enough (exists e, tck_load b P = Err e) as [e ->] by reflexivity.
  unfold tck_load, tck_parse_header. rewrite takez_eq, dropz_eq.
  assert (Emagic : take (zlen tck_magic) P = tck_magic).
  { unfold P. rewrite take_take by (change (zlen tck_magic) with 13; lia). rewrite Hh at 1. apply take_app_exact. }
  rewrite Emagic. replace (list_eqb tck_magic tck_magic) with true by (symmetry; now apply list_eqb_spec).
  cbn [negb]. change (zlen tck_magic + 1) with 14.
  set (body := drop 14 P).
  (* the body is a strict prefix of the header lines *)
  assert (Ebody : body = take (n - 14) (lines_bytes kvs' ++ S_END ++ [10]) /\ zlen body = Z.max 0 (n - 14)).
  { unfold body, P. split.
    - rewrite Hh at 1.
      replace (tck_magic ++ 10 :: lines_bytes kvs' ++ S_END ++ [10])
        with ((tck_magic ++ [10]) ++ lines_bytes kvs' ++ S_END ++ [10]) by (rewrite <- app_assoc; reflexivity).
      destruct (Z.le_gt_cases 14 n).
      + rewrite take_app_ge by (rewrite zlen_app; change (zlen tck_magic) with 13; change (zlen [10]) with 1; lia).
        rewrite drop_app_len by reflexivity. reflexivity.
      + rewrite (take_0 (n - 14)) by lia. apply drop_all. rewrite zlen_take by lia. lia.
    - rewrite zlen_drop by lia. fold P. rewrite LP. reflexivity. }
  destruct Ebody as [Ebody Lbody].
  destruct (Z.le_gt_cases n 14) as [H14|H14].
  { (* nothing after the magic number: no END *)
    assert (body = []) as -> by (rewrite Ebody; apply take_0; lia). eexists; reflexivity. }
  assert (Hm : 0 <= n - 14 < zlen (lines_bytes kvs' ++ S_END ++ [10])).
  { rewrite Hh in Hn at 1. rewrite zlen_app, zlen_cons in Hn. change (zlen tck_magic) with 13 in Hn. lia. }
  destruct (prefix_decomp kvs' (n - 14) Wk Hm) as (i & q & Hi & Eq & Hq).
  rewrite Eq in Ebody.
  assert (Wi : Forall wf_kv (firstn i kvs')) by now apply Forall_firstn_my.
  assert (Hfuel : (length (firstn i kvs') <= length body)%nat).
  { rewrite Ebody, app_length. pose proof (lines_bytes_length (firstn i kvs')). lia. }
  replace (S (length body)) with (length body + 1)%nat by lia.
  replace (tck_lines_loop (length body + 1) body) with (tck_lines_loop (length body + 1) (lines_bytes (firstn i kvs') ++ q))
    by (rewrite <- Ebody; reflexivity).
  destruct (loop_kv_lines (firstn i kvs') (length body) q None [] 0 Wi Hfuel) as [key' El]. rewrite El.
  set (di := dict_of (firstn i kvs') []).
  destruct (loop_partial (length body + 1 - length (firstn i kvs')) q key' di (0 + zlen (lines_bytes (firstn i kvs'))) Hq)
    as [[e ->] | ->]; [eexists; reflexivity|].
  (* END was found at the very end of what is there *)
  assert (Hcons : zlen P = zlen tck_magic + 1 + (0 + zlen (lines_bytes (firstn i kvs')) + zlen q)).
  { rewrite LP. change (zlen tck_magic) with 13. rewrite Ebody, zlen_app in Lbody. lia. }
  assert (Hfile : hd_get S_file di = None \/ exists N, zlen P <= N /\ hd_get S_file di = Some (46 :: 32 :: dec_str N)).
  { destruct (Nat.le_gt_cases i (length kvs)) as [Hik|Hik].
    - left. unfold di, kvs'. rewrite firstn_app_le by exact Hik.
      rewrite hd_get_dict_other by (apply Forall_firstn_my; exact Kf). reflexivity.
    - right. exists (zlen h). split; [lia|].
      assert (i = length kvs') by (unfold kvs' in *; rewrite app_length in *; cbn [length] in *; lia).
      unfold di. subst i. rewrite firstn_all. unfold kvs'. rewrite dict_of_app. unfold fkv at 1. cbn [dict_of fold_left fst snd].
      apply hd_get_append_new. rewrite hd_get_dict_other by exact Kf. reflexivity. }
  pose proof (tck_after_end b P di _ Hb Hcons Hfile) as Hoff. cbv zeta in Hoff.
  match goal with |- exists e, match ?X with _ => _ end = Err e => destruct X as [[be off]|e] eqn:EX end; [|eexists; reflexivity].
  specialize (Hoff be off EX).
  pose proof (zlen_nonneg P). replace (off <? 0) with false by lia.
  rewrite dropz_eq, drop_all by lia.
  destruct (tck_bufsize_ok b Hb) as [B1 B2]. rewrite tck_read_nothing by assumption. eexists; reflexivity.
Qed.

(* ------------------------------------------------------------------ summary lemmas *)
Lemma tck_prefix_all items sl b h :
  wf_items items -> Forall wf_stream8 sl -> 0 <= b -> tck_header (zlen sl) items = Ok h ->
  forall strict n, 0 <= n < zlen (h ++ tck_data sl) -> decode_tck strict b (take n (h ++ tck_data sl)) = None.
Proof.
  intros Hwf Hsl Hb Eh strict n Hn. destruct strict.
  { unfold decode_tck. destruct (_ =? 0); reflexivity. }
  destruct (Z.lt_ge_cases n (zlen tck_magic)) as [H1|H1].
  - apply (tck_prefix_data items sl b h n Hwf Hsl Hb Eh). right. lia.
  - destruct (Z.lt_ge_cases n (zlen h)) as [H2|H2].
    + apply (tck_prefix_header items sl b h n Hwf Hb Eh). lia.
    + apply (tck_prefix_data items sl b h n Hwf Hsl Hb Eh). left. lia.
Qed.

Lemma decode_trk_strict_le o f x : decode_trk true o f = Some x -> decode_trk false o f = Some x.
Proof.
  unfold decode_trk. destruct (_ =? 0); [discriminate|]. destruct (trk_load o 0 f) as [[info sl]|]; [|discriminate].
  cbn [andb]. destruct (_ || _); [discriminate|]. tauto.
Qed.

Lemma trk_prefix_all o u skeys pkeys sl :
  wf_offs o = true -> o_hsize o = 996 -> wf_user u -> sl <> [] -> zlen sl < 2 ^ 31 ->
  Forall wf_key skeys -> Forall wf_key pkeys ->
  NoDup (map fst skeys) -> NoDup (map fst pkeys) -> zlen skeys <= 10 -> zlen pkeys <= 10 ->
  widths skeys < 2 ^ 15 -> widths pkeys < 2 ^ 15 ->
  Forall (wf_tstream (widths skeys) (widths pkeys)) sl ->
  exists F, trk_save o (mkF 0 []) u skeys pkeys sl = Ok F
    /\ decode_trk false o F = Some sl
    /\ forall strict n, 0 <= n < zlen F -> decode_trk strict o (take n F) = None.
Proof.
  intros. destruct (trk_prefix_err o u skeys pkeys sl) as (F & E1 & E2 & E3); try assumption.
  exists F. split; [exact E1|]. split; [exact E2|]. intros strict n Hn. destruct strict; [|now apply E3].
  destruct (decode_trk true o (take n F)) as [x|] eqn:E; [|reflexivity].
  apply decode_trk_strict_le in E. rewrite E3 in E by assumption. discriminate.
Qed.

(* ------------------------------------------------------------------ repeated lazy reads *)
Lemma trk_lazy_retry_all o u skeys pkeys sl :
  wf_offs o = true -> o_hsize o = 996 -> wf_user u -> sl <> [] -> zlen sl < 2 ^ 31 ->
  Forall wf_key skeys -> Forall wf_key pkeys ->
  NoDup (map fst skeys) -> NoDup (map fst pkeys) -> zlen skeys <= 10 -> zlen pkeys <= 10 ->
  widths skeys < 2 ^ 15 -> widths pkeys < 2 ^ 15 ->
  Forall (wf_tstream (widths skeys) (widths pkeys)) sl ->
  exists F, trk_save o (mkF 0 []) u skeys pkeys sl = Ok F
    /\ (forall k, trk_lazy_retry o k F = Some (repeat (Some sl) k))
    /\ (forall k n, 0 <= n < zlen F ->
          trk_lazy_retry o k (take n F) = None \/ trk_lazy_retry o k (take n F) = Some (repeat None k)).
Proof.
  intros H H996 Hu Hne Hn Hsk Hpk Nds Ndp Lsk Lpk HS HP Hsl.
  assert (S0 : 0 <= widths skeys).
  { destruct skeys; [cbn; lia|]. pose proof (widths_pos _ Hsk ltac:(discriminate)). lia. }
  assert (P0 : 0 <= widths pkeys).
  { destruct pkeys; [cbn; lia|]. pose proof (widths_pos _ Hpk ltac:(discriminate)). lia. }
  assert (Hsl0 : 0 < zlen sl).
  { destruct sl; [congruence|]. rewrite zlen_cons. pose proof (zlen_nonneg sl). lia. }
  pose proof (trk_save_bytes o u skeys pkeys sl [] (widths skeys) (widths pkeys) H Hu Hne Hn Hsk Hpk Lsk Lpk Hsl S0 P0) as Es.
  destruct (template_facts o u H Hu) as (Lt & Ths & Tv).
  destruct (hdr_final_parse o (trk_template o u) skeys pkeys (zlen sl) (widths skeys) (widths pkeys)
              H Lt Ths Tv Hsk Hpk Nds Ndp Lsk Lpk eq_refl eq_refl ltac:(lia) ltac:(lia) ltac:(lia)) as (L5 & Pr & Ghs).
  cbv zeta in L5, Pr, Ghs.
  remember (hdr_final o (trk_template o u) (flat_map enc_field pkeys ++ zeros (200 - 20 * zlen pkeys))
              (flat_map enc_field skeys ++ zeros (200 - 20 * zlen skeys)) (zlen sl) (widths skeys) (widths pkeys)) as hf eqn:Ehf.
  rewrite H996, enc_s_1000 in Ghs.
  exists (hf ++ flat_map (trk_record false) sl). split; [|split].
  - change (zlen (@nil Z)) with 0 in Es. rewrite Es, app_nil_l. reflexivity.
  - intros k. exact (trk_lazy_retry_full o hf sl (widths skeys) (widths pkeys) _ _ L5 Pr S0 P0 Hsl Hsl0 k).
  - intros k n Hlen.
    exact (trk_lazy_retry_prefix o hf sl (widths skeys) (widths pkeys) _ _ L5 Pr H996 Ghs S0 P0 Hsl Hsl0 k n Hlen).
Qed.

Lemma repeat_eq {A} (x y : A) k : x = y -> repeat x k = repeat y k.
Proof. now intros ->. Qed.

Lemma tck_lazy_retry_all items sl b h :
  wf_items items -> Forall wf_stream8 sl -> 0 <= b -> tck_header (zlen sl) items = Ok h ->
  forall k n, 0 <= n < zlen (h ++ tck_data sl) ->
    tck_lazy_retry b k (take n (h ++ tck_data sl)) = None
    \/ tck_lazy_retry b k (take n (h ++ tck_data sl)) = Some (repeat None k).
Proof.
  intros Hwf Hsl Hb Eh k n Hn.
  pose proof (tck_prefix_all items sl b h Hwf Hsl Hb Eh false n Hn) as D.
  unfold decode_tck in D. unfold tck_lazy_retry.
  destruct (zlen (take n (h ++ tck_data sl)) =? 0); [now left|]. cbn [res_opt] in D.
  unfold tck_load in D.
  destruct (tck_parse_header (take n (h ++ tck_data sl))) as [[be off]|]; [|now left].
  destruct (off <? 0); [now left|].
  destruct (tck_take_loop _ _ _ _ _ _ _); [|now left]. right. f_equal. apply repeat_eq.
  destruct (tck_read_data be (tck_bufsize b) (dropz off (take n (h ++ tck_data sl)))); [discriminate D|reflexivity].
Qed.
