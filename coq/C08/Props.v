(* C08/Props.v — property theorems only.  Property C08: a truncated file is never read back as
   different data.  For every format: for every valid file F (written by the writer model or
   of the stated layout) and every strict prefix, the loader model returns None (an exception)
   or Some of exactly the data written, the latter only past all mandatory bytes.  `strict`
   covers both behaviours of a truncated compressed stream (raise / end silently). *)
From Coq Require Import ZArith List Bool Lia.
From NV Require Import Base.Bytes C16.Tables C16.Model C16.Lemmas C16.LemmasTrk C16.LemmasTckHdr
  C08.Model C08.Lemmas.
From NV Require C06.Model C06.Lemmas C08.ModelSlice C08.LemmasSlice.
From NV Require C17.Model C17.Lemmas C08.ModelXml C08.LemmasXml.
From NV Require C08.ModelMat C08.LemmasMat.
Import ListNotations.
Open Scope Z_scope.

(* ---- NIfTI-1/2 single file, CIFTI-2: F = A ++ data with |A| = vox_offset (header block,
   extender, extensions, fill - whatever they contain), data non-empty *)
Theorem C08_prefix_single : forall strict hsize vox nbytes be A data n,
  zlen A = vox -> zlen data = nbytes -> 0 < nbytes -> 0 <= n ->
  decode_single strict hsize vox nbytes be (take n (A ++ data)) = None
  \/ (decode_single strict hsize vox nbytes be (take n (A ++ data)) = Some data /\ vox + nbytes <= n).
Proof. exact single_prefix. Qed.
Print Assumptions C08_prefix_single.

(* so no strict prefix loads at all *)
Theorem C08_prefix_single_strict : forall strict hsize vox nbytes be A data n,
  zlen A = vox -> zlen data = nbytes -> 0 < nbytes -> 0 <= n < zlen (A ++ data) ->
  decode_single strict hsize vox nbytes be (take n (A ++ data)) = None.
Proof.
  intros strict hsize vox nbytes be A data n HA Hd Hnb Hn. rewrite zlen_app in Hn.
  destruct (single_prefix strict hsize vox nbytes be A data n HA Hd Hnb ltac:(lia)) as [E|[_ Hge]]; [exact E|lia].
Qed.
Print Assumptions C08_prefix_single_strict.

(* ---- header member of a pair (NIfTI pairs with their extensions, Analyze, SPM): if a prefix
   is accepted it contains the whole header block; the voxel values then come from the intact
   image member, so they are the ones written; only trailing extensions can be lost *)
Theorem C08_prefix_pair_header : forall strict hsize hasext be F n, 0 <= hsize -> 0 <= n ->
  decode_pair_hdr strict hsize hasext be (take n F) = true -> hsize <= n.
Proof. exact pair_hdr_prefix. Qed.
Print Assumptions C08_prefix_pair_header.

(* ---- image member of a pair *)
Theorem C08_prefix_image_member : forall strict vox nbytes A data n,
  zlen A = vox -> zlen data = nbytes -> 0 < nbytes -> 0 <= n ->
  decode_img strict vox nbytes (take n (A ++ data)) = None
  \/ (decode_img strict vox nbytes (take n (A ++ data)) = Some data /\ vox + nbytes <= n).
Proof. exact img_prefix. Qed.
Print Assumptions C08_prefix_image_member.

(* ---- MGH: F = A ++ data ++ footer, |A| = 284: only a cut inside the optional footer loads *)
Theorem C08_prefix_mgh : forall strict hread doff nbytes ftrsize A data ftr n,
  zlen A = doff -> zlen data = nbytes -> 0 < nbytes -> 0 <= n ->
  decode_mgh strict hread doff nbytes ftrsize (take n (A ++ data ++ ftr)) = None
  \/ (decode_mgh strict hread doff nbytes ftrsize (take n (A ++ data ++ ftr)) = Some data /\ doff + nbytes <= n).
Proof. exact mgh_prefix. Qed.
Print Assumptions C08_prefix_mgh.

(* ---- TCK: the file TckFile.save writes (C16_tck_roundtrip), no streamline beginning with an
   all-inf point: EVERY strict prefix - cut in the magic number, anywhere in the header text, or
   anywhere in the data - makes the loader raise *)
Theorem C08_prefix_tck : forall items sl b h,
  wf_items items -> Forall wf_stream8 sl -> 0 <= b -> tck_header (zlen sl) items = Ok h ->
  forall strict n, 0 <= n < zlen (h ++ tck_data sl) -> decode_tck strict b (take n (h ++ tck_data sl)) = None.
Proof. exact tck_prefix_all. Qed.
Print Assumptions C08_prefix_tck.

(* streamlines beginning with an all-inf point (finding S-C08b: cut right after that point, the
   file loaded silently with fewer streamlines) can no longer be written: TckFile.save refuses any
   all-NaN / all-inf point (C16_tck_save_refuses_delimiter_points), so every file the writer
   produces satisfies the hypothesis of C08_prefix_tck *)
Theorem C08_tck_writer_excludes_inf_first : forall count0 items sl f,
  tck_save count0 items sl = Ok f -> sl <> [] ->
  existsb (existsb (fun t => nan3 t || inf3 t)) sl = false.
Proof.
  intros count0 items sl f H Hne. unfold tck_save in H.
  destruct (tck_header count0 items); [|discriminate]. destruct sl as [|s sl']; [congruence|].
  destruct (existsb _ (s :: sl')); [discriminate|reflexivity].
Qed.
Print Assumptions C08_tck_writer_excludes_inf_first.

(* ---- TRK: the file TrkFile.save writes for a non-empty tractogram (C16_trk_roundtrip_struct),
   header layout with hdr_size as its last field (C08_trk_layout): EVERY strict prefix - cut in
   the header (readinto leaves zeros), between records, or inside a record - raises.  The cut
   between records is what fix 6c9e0989 made an error *)
Theorem C08_prefix_trk : forall o u skeys pkeys sl,
  wf_offs o = true -> o_hsize o = 996 -> wf_user u -> sl <> [] -> zlen sl < 2 ^ 31 ->
  Forall wf_key skeys -> Forall wf_key pkeys ->
  NoDup (map fst skeys) -> NoDup (map fst pkeys) -> zlen skeys <= 10 -> zlen pkeys <= 10 ->
  widths skeys < 2 ^ 15 -> widths pkeys < 2 ^ 15 ->
  Forall (wf_tstream (widths skeys) (widths pkeys)) sl ->
  exists F, trk_save o (mkF 0 []) u skeys pkeys sl = Ok F
    /\ decode_trk false o F = Some sl
    /\ forall strict n, 0 <= n < zlen F -> decode_trk strict o (take n F) = None.
Proof. exact trk_prefix_all. Qed.
Print Assumptions C08_prefix_trk.

Theorem C08_trk_layout : exists o, trk_offs_now = Some o /\ wf_offs o = true /\ o_hsize o = 996.
Proof. eexists. split; [reflexivity|]. split; vm_compute; reflexivity. Qed.
Print Assumptions C08_trk_layout.

(* ---- compressed files: for ANY compressor whose truncated streams deliver a prefix of the
   plain bytes (or cannot be opened), whether running out raises or not, a decoder with the
   prefix property on plain bytes has it on compressed files *)
Theorem C08_prefix_compressed :
  forall (compress : list Z -> list Z) (avail : list Z -> option (list Z)) (strict : bool),
  (forall b n, 0 <= n < zlen (compress b) ->
     match avail (take n (compress b)) with
     | Some p => exists m, 0 <= m <= zlen b /\ p = take m b
     | None => True
     end) ->
  forall (A : Type) (decode : bool -> list Z -> option A) (d : A) (F : list Z),
  (forall st m, 0 <= m <= zlen F -> decode st (take m F) = None \/ decode st (take m F) = Some d) ->
  forall n, 0 <= n < zlen (compress F) ->
  load_compressed avail strict A decode (take n (compress F)) = None
  \/ load_compressed avail strict A decode (take n (compress F)) = Some d.
Proof. exact compressed_prefix. Qed.
Print Assumptions C08_prefix_compressed.

(* ---- partial reads through the array proxy (img.dataobj[index] -> fileslice, the model of
   coq/C06/Model.v): for ANY heuristic, index, shape (any rank), item size, offset and order, if
   the read of the complete file F gives r, the same read of ANY prefix of F gives r or raises:
   every segment read is checked against the number of bytes requested, and a short segment can
   only make the total too small.  (Holds as well for the bytes a silently ending compressed
   stream delivers: they are a prefix of the plain bytes.) *)
Theorem C08_prefix_partial_read : forall (h : C06.Model.heuristic) F n ix shape w off o r,
  C06.Model.fileslice_h h F ix shape w off o = C06.Model.Ok r ->
  C06.Model.fileslice_h h (C06.Model.take n F) ix shape w off o = C06.Model.Ok r
  \/ exists e, C06.Model.fileslice_h h (C06.Model.take n F) ix shape w off o = C06.Model.Err e.
Proof. exact C08.LemmasSlice.fileslice_prefix. Qed.
Print Assumptions C08_prefix_partial_read.

(* with C06_fileslice_eq_numpy: for a complete, long-enough file and a valid index, a partial
   read of any prefix returns NumPy's arr[ix] of the COMPLETE array, or raises *)
Theorem C08_prefix_partial_read_numpy : forall (h : C06.Model.heuristic) F n ix shape w off o c,
  C06.Lemmas.h_ok h -> 0 < w -> 0 <= off ->
  C06.Model.canonical_slicers true ix shape = C06.Model.Ok c -> C06.Lemmas.ix_valid shape c ->
  off + w * C06.Model.prod shape <= C06.Model.zlen F ->
  C06.Model.fileslice_h h (C06.Model.take n F) ix shape w off o
    = C06.Model.Ok (C06.Lemmas.result_of o F shape w off c)
  \/ exists e, C06.Model.fileslice_h h (C06.Model.take n F) ix shape w off o = C06.Model.Err e.
Proof. exact C08.LemmasSlice.fileslice_prefix_numpy. Qed.
Print Assumptions C08_prefix_partial_read_numpy.

(* the two reads of the sweep (img.dataobj[..., 1::2] and img.dataobj[..., -1], Fortran order,
   default heuristic), as run by the extracted model *)
Theorem C08_prefix_partial_read_sweep : forall F n ix shape w off r,
  C08.ModelSlice.partial_read F ix shape w off = Some r ->
  C08.ModelSlice.partial_read (C06.Model.take n F) ix shape w off = Some r
  \/ C08.ModelSlice.partial_read (C06.Model.take n F) ix shape w off = None.
Proof. exact C08.LemmasSlice.partial_read_prefix. Qed.
Print Assumptions C08_prefix_partial_read_sweep.

Example C08_partial_read_nonvacuous :
  let F := map Z.of_nat (seq 0 40) in
  C08.ModelSlice.partial_read F (C08.ModelSlice.idx_step 3) [2; 3; 4] 1 8 = Some ([2; 3; 2], [14; 15; 16; 17; 18; 19; 26; 27; 28; 29; 30; 31])
  /\ C08.ModelSlice.partial_read (C06.Model.take 31 F) (C08.ModelSlice.idx_step 3) [2; 3; 4] 1 8 = None
  /\ C08.ModelSlice.partial_read (C06.Model.take 31 F) C08.ModelSlice.idx_last [2; 3; 4] 1 8 = None
  /\ C08.ModelSlice.partial_read (C06.Model.take 39 F) (C08.ModelSlice.idx_step 3) [2; 3; 4] 1 8
     = C08.ModelSlice.partial_read F (C08.ModelSlice.idx_step 3) [2; 3; 4] 1 8.
Proof. cbv zeta. repeat split; vm_compute; reflexivity. Qed.

(* ---- repeated reads from ONE lazily loaded tractogram object (the header dict and the file
   position survive from one pass to the next): on the complete file every pass yields all the
   streamlines; on ANY strict prefix load(lazy_load=True) raises or every pass raises, however
   many times the caller retries (a pass that raises stores nothing into the shared header, and
   the position is restored by the finally clause) *)
Theorem C08_prefix_lazy_retry_trk : forall o u skeys pkeys sl,
  wf_offs o = true -> o_hsize o = 996 -> wf_user u -> sl <> [] -> zlen sl < 2 ^ 31 ->
  Forall wf_key skeys -> Forall wf_key pkeys ->
  NoDup (map fst skeys) -> NoDup (map fst pkeys) -> zlen skeys <= 10 -> zlen pkeys <= 10 ->
  widths skeys < 2 ^ 15 -> widths pkeys < 2 ^ 15 ->
  Forall (wf_tstream (widths skeys) (widths pkeys)) sl ->
  exists F, trk_save o (mkF 0 []) u skeys pkeys sl = Ok F
    /\ (forall k, trk_lazy_retry o k F = Some (repeat (Some sl) k))
    /\ (forall k n, 0 <= n < zlen F ->
          trk_lazy_retry o k (take n F) = None \/ trk_lazy_retry o k (take n F) = Some (repeat None k)).
Proof. exact trk_lazy_retry_all. Qed.
Print Assumptions C08_prefix_lazy_retry_trk.

Theorem C08_prefix_lazy_retry_tck : forall items sl b h,
  wf_items items -> Forall wf_stream8 sl -> 0 <= b -> tck_header (zlen sl) items = Ok h ->
  forall k n, 0 <= n < zlen (h ++ tck_data sl) ->
    tck_lazy_retry b k (take n (h ++ tck_data sl)) = None
    \/ tck_lazy_retry b k (take n (h ++ tck_data sl)) = Some (repeat None k).
Proof. exact tck_lazy_retry_all. Qed.
Print Assumptions C08_prefix_lazy_retry_tck.

(* ---- GIFTI.  expat is an oracle with an explicit contract: `events_of` says what a byte string
   means (its events, None when not well-formed); however the bytes are cut into blocks, feeding
   them with final = false and finishing with final = true (ParseFile) raises exactly when the
   string is not well-formed and otherwise delivers its events up to the chunking of character
   data (feed_spec).  For a written document `doc` followed by optional white space `tail` such
   that no strict prefix of doc is well-formed and nothing after doc changes the events: loading
   ANY prefix, cut into blocks in ANY way (any buffer_size), raises - or returns exactly the image
   of the complete file, the latter only when all of doc is there.  The handlers are the state
   machine of coq/C17/Model.v; chunk-independence is C17_chunking_invariant. *)
Theorem C08_prefix_gifti :
  forall (b64dec : C17.Model.str -> option (list Z)) (zdecomp : list Z -> option (list Z))
         (loadtxt : Z -> C17.Model.str -> option (list nat * list Z))
         (xstate : Type) (x0 : xstate)
         (xparse : xstate -> list Z -> bool -> option (xstate * list C17.Model.event))
         (events_of : list Z -> option (list C17.Model.event)),
  (forall blocks,
     match C08.ModelXml.feed xstate xparse x0 blocks [], events_of (concat blocks) with
     | None, None => True
     | Some e, Some e0 => C17.Model.merge e = C17.Model.merge e0
     | _, _ => False
     end) ->
  forall doc tail : list Z,
  (forall n, 0 <= n < zlen doc -> events_of (take n (doc ++ tail)) = None) ->
  (forall n m, zlen doc <= n -> zlen doc <= m ->
     match events_of (take n (doc ++ tail)), events_of (take m (doc ++ tail)) with
     | Some e, Some e' => C17.Model.merge e = C17.Model.merge e'
     | _, _ => False
     end) ->
  forall blocks blocksF n,
    0 <= n -> concat blocks = take n (doc ++ tail) -> concat blocksF = doc ++ tail ->
    C08.ModelXml.gifti_load b64dec zdecomp loadtxt xstate x0 xparse blocks = C17.Model.Err C17.Model.EParse
    \/ (C08.ModelXml.gifti_load b64dec zdecomp loadtxt xstate x0 xparse blocks
        = C08.ModelXml.gifti_load b64dec zdecomp loadtxt xstate x0 xparse blocksF /\ zlen doc <= n).
Proof. exact C08.LemmasXml.gifti_prefix. Qed.
Print Assumptions C08_prefix_gifti.

(* the final call matters: a feed loop that never passes final = true accepts a truncated input
   that ParseFile's loop rejects (toy tokenizer; this is what the seeded change C08-9 did) *)
Theorem C08_gifti_nofinal_refuted :
  C08.ModelXml.feed_nofinal Z C08.LemmasXml.toy_parse2 0 [[60; 97]] [] = Some [C17.Model.Chars [60]; C17.Model.Chars [97]]
  /\ C08.ModelXml.feed Z C08.LemmasXml.toy_parse2 0 [[60; 97]] [] = None
  /\ C08.ModelXml.feed Z C08.LemmasXml.toy_parse2 0 [[60; 97]; [62]] []
     = Some [C17.Model.Chars [60]; C17.Model.Chars [97]; C17.Model.Chars [62]].
Proof. exact C08.LemmasXml.nofinal_accepts_truncated. Qed.
Print Assumptions C08_gifti_nofinal_refuted.

(* ---- partial reads through ANY stream.  fileslice only does seek+read; `rd off len` is that
   pair of calls on whatever delivers the file (Ok bytes | Err = it raised).  The contract
   reader_below F rd: a read that does not raise returns a prefix of what the same read returns
   on the complete file F.  Both stream behaviours satisfy it - a plain truncated file or a
   silently ending stream (indexed_gzip) returns fewer bytes, a raising stream (bz2, zstd:
   EOFError in read or already in seek) returns all the bytes or raises - and so does any
   mixture.  Under it, for any heuristic, index, shape, item size, offset and order: the result
   of the complete file, or an exception. *)
Theorem C08_prefix_partial_read_any_stream :
  forall F (rd : Z -> Z -> C06.Model.res (list Z)) (h : C06.Model.heuristic) ix shape w off o r,
  C08.LemmasSlice.reader_below F rd ->
  C06.Model.fileslice_h h F ix shape w off o = C06.Model.Ok r ->
  C08.ModelSlice.fileslice_r rd h ix shape w off o = C06.Model.Ok r
  \/ exists e, C08.ModelSlice.fileslice_r rd h ix shape w off o = C06.Model.Err e.
Proof. intros F rd h ix shape w off o r RB. exact (C08.LemmasSlice.fileslice_reader F rd RB h ix shape w off o r). Qed.
Print Assumptions C08_prefix_partial_read_any_stream.

Theorem C08_prefix_partial_read_any_stream_numpy :
  forall F (rd : Z -> Z -> C06.Model.res (list Z)) (h : C06.Model.heuristic) ix shape w off o c,
  C08.LemmasSlice.reader_below F rd ->
  C06.Lemmas.h_ok h -> 0 < w -> 0 <= off ->
  C06.Model.canonical_slicers true ix shape = C06.Model.Ok c -> C06.Lemmas.ix_valid shape c ->
  off + w * C06.Model.prod shape <= C06.Model.zlen F ->
  C08.ModelSlice.fileslice_r rd h ix shape w off o = C06.Model.Ok (C06.Lemmas.result_of o F shape w off c)
  \/ exists e, C08.ModelSlice.fileslice_r rd h ix shape w off o = C06.Model.Err e.
Proof. intros F rd h ix shape w off o c RB. exact (C08.LemmasSlice.fileslice_reader_numpy F rd RB h ix shape w off o c). Qed.
Print Assumptions C08_prefix_partial_read_any_stream_numpy.

(* the two stream contracts are instances, and the reader form of fileslice is fileslice *)
Theorem C08_stream_contracts : forall F n avail,
  C08.LemmasSlice.reader_below F (C06.Model.fread_at (C06.Model.take n F))
  /\ C08.LemmasSlice.reader_below F (C08.ModelSlice.rd_raising F avail)
  /\ (forall o l a, C08.ModelSlice.rd_raising F avail o l = C06.Model.Ok a -> C06.Model.fread_at F o l = C06.Model.Ok a)
  /\ (forall h ix shape w off o,
        C08.ModelSlice.fileslice_r (C06.Model.fread_at F) h ix shape w off o = C06.Model.fileslice_h h F ix shape w off o).
Proof.
  intros F n avail. split; [apply C08.LemmasSlice.reader_below_plain|].
  split; [apply C08.LemmasSlice.reader_below_raising|].
  split; [apply C08.LemmasSlice.rd_raising_exact|]. intros. apply C08.LemmasSlice.fileslice_r_plain.
Qed.
Print Assumptions C08_stream_contracts.

(* the reads of the sweep through a raising stream that can deliver `avail` bytes, as run by the
   extracted model; with avail >= |F| it is the read of the complete file *)
Theorem C08_prefix_partial_read_raising_sweep : forall F avail ix shape w off r,
  C08.ModelSlice.partial_read F ix shape w off = Some r ->
  (C08.ModelSlice.partial_read_r (C08.ModelSlice.rd_raising F avail) ix shape w off = Some r
   \/ C08.ModelSlice.partial_read_r (C08.ModelSlice.rd_raising F avail) ix shape w off = None)
  /\ (C06.Model.zlen F <= avail ->
      C08.ModelSlice.partial_read_r (C08.ModelSlice.rd_raising F avail) ix shape w off = Some r).
Proof.
  intros F avail ix shape w off r H. split; [exact (C08.LemmasSlice.partial_read_raising F avail ix shape w off r H)|].
  intros Ha. rewrite C08.LemmasSlice.partial_read_raising_complete by exact Ha. exact H.
Qed.
Print Assumptions C08_prefix_partial_read_raising_sweep.

Example C08_partial_read_raising_nonvacuous :
  let F := map Z.of_nat (seq 0 40) in
  C08.ModelSlice.partial_read_r (C08.ModelSlice.rd_raising F 40) (C08.ModelSlice.idx_step 3) [2; 3; 4] 1 8
    = Some ([2; 3; 2], [14; 15; 16; 17; 18; 19; 26; 27; 28; 29; 30; 31])
  /\ C08.ModelSlice.partial_read_r (C08.ModelSlice.rd_raising F 31) (C08.ModelSlice.idx_step 3) [2; 3; 4] 1 8 = None
  /\ C08.ModelSlice.partial_read_r (C08.ModelSlice.rd_raising F 31) C08.ModelSlice.idx_last [2; 3; 4] 1 8 = None
  /\ C08.ModelSlice.partial_read_r (C08.ModelSlice.rd_raising F 32) C08.ModelSlice.idx_last [2; 3; 4] 1 8 = Some ([2; 3], [26; 27; 28; 29; 30; 31])
  /\ C08.ModelSlice.rd_raising F 20 10 5 = C06.Model.Ok [10; 11; 12; 13; 14]
  /\ C08.ModelSlice.rd_raising F 20 18 5 = C06.Model.Err C06.Model.EIO.
Proof. cbv zeta. repeat split; vm_compute; reflexivity. Qed.

(* ---- the SPM .mat member (it only carries the affine).  scipy.io.loadmat is an oracle with the
   contract: on the complete file it gives the variables written; on a prefix it raises or gives
   a leading part of them, values unchanged (MATLAB-4 records are self-delimiting and every read
   of the reader is length-checked; measured at every cut: it loads only at record boundaries).
   With the two float facts about the sign flip: loading the image with ANY prefix of the .mat
   raises, or returns the voxel data of header+image with the affine of the complete .mat, or -
   only for the EMPTY .mat, which nibabel by design treats like a missing one - with the affine
   of the header.  The voxel values never change. *)
Theorem C08_prefix_spm_mat :
  forall (mx : Type) (flip from111 to111 : mx -> mx)
         (loadmat : list Z -> option (list (C08.ModelMat.vname * mx))),
  (forall m, flip (flip m) = m) -> (forall m, flip (from111 m) = from111 (flip m)) ->
  forall (x_flip : bool) (aff hdr_affine : mx) (F : list Z),
  loadmat F = Some (C08.ModelMat.spm_mat_vars mx flip from111 x_flip aff) ->
  (forall P t r, F = P ++ t -> loadmat P = Some r ->
     exists j, r = firstn j (C08.ModelMat.spm_mat_vars mx flip from111 x_flip aff)) ->
  forall (D : Type) (data : option D) P t, F = P ++ t ->
    C08.ModelMat.spm_load mx flip to111 loadmat data x_flip hdr_affine (Some P) = None
    \/ (exists d, data = Some d /\
          (C08.ModelMat.spm_load mx flip to111 loadmat data x_flip hdr_affine (Some P) = Some (d, to111 (from111 aff))
           \/ (P = [] /\ C08.ModelMat.spm_load mx flip to111 loadmat data x_flip hdr_affine (Some P) = Some (d, hdr_affine)))).
Proof.
  intros mx flip from111 to111 loadmat H1 H2 x_flip aff hdr F HF HP D data P t E.
  eapply C08.LemmasMat.spm_load_prefix; eassumption.
Qed.
Print Assumptions C08_prefix_spm_mat.

(* the executable form of the measured contract, for the two records nibabel writes (M, mat):
   class 0 raises | 1 header affine | 2 affine from 'mat' | 3 affine from 'M' (equal to 2 by the
   theorem above) *)
Theorem C08_spm_mat_cut_classes : forall s1 s2 n, 0 < s1 -> 0 < s2 ->
  C08.ModelMat.spm_mat_class [C08.ModelMat.VM; C08.ModelMat.Vmat] [s1; s2] n =
    if n =? 0 then 1 else if n =? s1 then 3 else if n =? s1 + s2 then 2 else 0.
Proof. exact C08.LemmasMat.spm_mat_class_written. Qed.
Print Assumptions C08_spm_mat_cut_classes.

(* ---- non-vacuity *)
Example C08_nonvacuous :
  let sl := [[(1065353216, 0, 3212836864); (1, 2, 3)]; [(7, 2139095040, 9)]] in
  Forall wf_stream8 sl /\ wf_items [] /\
  exists h, tck_header (zlen sl) [] = Ok h /\ decode_tck false 0 (h ++ tck_data sl) = Some sl
    /\ decode_tck false 0 (take 60 (h ++ tck_data sl)) = None
    /\ decode_single false 4 8 4 false [1; 2; 3; 4; 0; 0; 0; 0; 9; 9; 9; 9] = Some [9; 9; 9; 9].
Proof.
  cbv zeta. split; [repeat constructor; try discriminate; cbn; lia|]. split; [constructor|].
  eexists. split; [vm_compute; reflexivity|]. split; [vm_compute; reflexivity|]. split; vm_compute; reflexivity.
Qed.
