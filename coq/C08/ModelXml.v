(* C08/ModelXml.v — loading a (possibly truncated) GIFTI document.
   nibabel/xmlutils.py XmlParser.parse hands the file to expat's ParseFile, which feeds the
   document block by block (Parse(block, False)) and finishes with Parse(b'', True); expat
   calls the handlers of GiftiImageParser (the state machine of coq/C17/Model.v: `parse` over
   the delivered events) as it goes.  expat itself is an oracle: an incremental tokenizer
   `xparse state block final` that returns the new state and the events of that block, or
   fails (ExpatError).  Definitions only. *)
From Coq Require Import ZArith List Bool.
From NV Require Import Base.Bytes C17.Tables C17.Model.
Import ListNotations.
Open Scope Z_scope.

Section Expat.
  (* oracles of the data-array codec (C17) *)
  Variable b64dec : str -> option (list Z).
  Variable zdecomp : list Z -> option (list Z).
  Variable loadtxt : Z -> str -> option (list nat * list Z).
  (* expat *)
  Variable xstate : Type.
  Variable x0 : xstate.
  Variable xparse : xstate -> list Z -> bool -> option (xstate * list event).

  (* ParseFile: every block with final = false, then the empty block with final = true.
     None = ExpatError; Some = all the events delivered, in order *)
  Fixpoint feed (xs : xstate) (blocks : list (list Z)) (acc : list event) : option (list event) :=
    match blocks with
    | [] => match xparse xs [] true with
            | None => None
            | Some (_, ev) => Some (acc ++ ev)
            end
    | b :: r => match xparse xs b false with
                | None => None
                | Some (xs', ev) => feed xs' r (acc ++ ev)
                end
    end.

  (* a feed loop that forgets the final call (what a hand-written chunk loop can get wrong) *)
  Fixpoint feed_nofinal (xs : xstate) (blocks : list (list Z)) (acc : list event) : option (list event) :=
    match blocks with
    | [] => Some acc
    | b :: r => match xparse xs b false with
                | None => None
                | Some (xs', ev) => feed_nofinal xs' r (acc ++ ev)
                end
    end.

  (* GiftiImage.from_file_map / parser.img: an expat error or a handler error raises (the
     handlers run while the blocks are fed, so which of the two comes first does not matter for
     the outcome); otherwise the image the handlers have built *)
  Definition gifti_load (blocks : list (list Z)) : res image :=
    match feed x0 blocks [] with
    | None => Err EParse
    | Some evs => parse b64dec zdecomp loadtxt evs
    end.
End Expat.
