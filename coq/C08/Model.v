(* C08/Model.v — loading a (possibly truncated) image or tractogram file: readers over byte
   lists returning None (an exception is raised) or Some data.  Definitions only.
   Counterparts in /repo/nibabel:
     loadsave.load (empty file), wrapstruct.WrapStruct.from_fileobj (header size check),
     nifti1.Nifti1Header.from_fileobj + Nifti1Extensions.from_fileobj -> ext_loop / read_nifti_header
     volumeutils.array_from_file ("Expected N bytes, got M")            -> read_data
     analyze / spm99 / nifti pair members                               -> decode_pair_hdr / decode_img
     freesurfer/mghformat.MGHHeader.from_fileobj (optional footer)      -> decode_mgh
     streamlines TckFile / TrkFile (model of C16)                       -> decode_tck / decode_trk
   What the header block says (vox_offset, number of data bytes, byte order) is taken from the
   intact block by the implementation's own header class (C10's subject) and passed in; the
   theorems hold whatever these values are.
   `strict` = the bytes come from a truncated compressed stream: a read that asks for more than
   is available raises (EOFError) instead of returning fewer bytes. *)
From Coq Require Import ZArith List Bool.
From NV Require Import Base.Bytes C16.Tables C16.Model.
Import ListNotations.
Open Scope Z_scope.

(* fileobj.read(n): n < 0 reads everything *)
Definition sread (strict : bool) (n : Z) (f : list Z) : option (list Z * list Z) :=
  if n <? 0 then (if strict then None else Some (f, []))
  else if strict && (zlen f <? n) then None
  else Some (takez n f, dropz n f).

(* the `while size >= 16 or size < 0` loop of Nifti1Extensions.from_fileobj; true = no error *)
Fixpoint ext_loop (fuel : nat) (strict be : bool) (size : Z) (f : list Z) : bool :=
  match fuel with
  | O => false
  | S fuel' =>
    if (16 <=? size) || (size <? 0) then
      match sread strict 8 f with
      | None => false
      | Some (d, f1) =>
        if (zlen d =? 0) && (size <? 0) then true
        else if negb (zlen d =? 8) then false
        else
          let esize := dec_s be (takez 4 d) in
          match sread strict (esize - 8) f1 with
          | None => false
          | Some (v, f2) =>
            if negb (zlen v =? esize - 8) then false
            else ext_loop fuel' strict be (size - esize) f2
          end
      end
    else true
  end.

(* header block + extender + extensions; extsize = vox_offset - hsize - 4 for a single file,
   -1 for the header member of a pair; hasext = false for Analyze/SPM headers (nothing follows) *)
Definition read_header (strict : bool) (hsize : Z) (hasext be : bool) (extsize : Z) (f : list Z) : bool :=
  match sread strict hsize f with
  | None => false
  | Some (hb, f1) =>
    if zlen hb <? hsize then false           (* WrapStructError: Binary block is wrong size *)
    else if negb hasext then true
    else
      match sread strict 4 f1 with
      | None => false
      | Some (st, f2) =>
        if (zlen st <? 4) || (nth 0 st 0 =? 0) then true
        else ext_loop (S (length f2)) strict be extsize f2
      end
  end.

(* array_from_file: seek(offset); read n_bytes; n_bytes = 0 returns at once *)
Definition read_data (strict : bool) (offset nbytes : Z) (f : list Z) : option (list Z) :=
  if nbytes =? 0 then Some []
  else
    let d := takez nbytes (dropz offset f) in
    if zlen d <? nbytes then None else Some d.

(* single-file NIfTI-1/2 (also CIFTI-2): load + np.asanyarray(img.dataobj) *)
Definition decode_single (strict : bool) (hsize vox nbytes : Z) (be : bool) (f : list Z) : option (list Z) :=
  if zlen f =? 0 then None                    (* ImageFileError: Empty file *)
  else if negb (read_header strict hsize true be (vox - hsize - 4) f) then None
  else read_data strict vox nbytes f.

(* header member of a pair, the image member being intact *)
Definition decode_pair_hdr (strict : bool) (hsize : Z) (hasext be : bool) (f : list Z) : bool :=
  if zlen f =? 0 then false else read_header strict hsize hasext be (-1) f.

(* image member of a pair, the header member being intact *)
Definition decode_img (strict : bool) (vox nbytes : Z) (f : list Z) : option (list Z) :=
  if zlen f =? 0 then None else read_data strict vox nbytes f.

(* MGH: read the header fields (hread bytes), seek past the data (which start at doff), read
   the optional footer, then the data *)
Definition decode_mgh (strict : bool) (hread doff nbytes ftrsize : Z) (f : list Z) : option (list Z) :=
  if zlen f =? 0 then None
  else match sread strict hread f with
  | None => None
  | Some (hb, _) =>
    if zlen hb <? hread then None             (* np.ndarray: buffer is too small *)
    else
      (* seek(doff + nbytes) on a truncated compressed stream raises when it runs out *)
      if strict && (zlen f <? doff + nbytes) then None
      else match sread strict ftrsize (dropz (doff + nbytes) f) with
      | None => None
      | Some _ => read_data strict doff nbytes f
      end
  end.

(* ---- tractograms (readers of C16).  On a truncated compressed stream TckFile._read always asks
   for a buffer larger than what is left, so it raises.  TrkFile (loaded lazily from compressed
   files: the eager loader needs seek(0, SEEK_END), which indexed gzip refuses) asks for exactly
   what the header announces and only probes the end when the header gives no count. *)
Definition res_opt {A} (r : res A) : option A := match r with Ok a => Some a | Err _ => None end.

Definition decode_tck (strict : bool) (b : Z) (f : list Z) : option (list (list triple)) :=
  if zlen f =? 0 then None
  else if strict then None else res_opt (tck_load b f).

Definition decode_trk (strict : bool) (o : trk_offs) (f : list Z) : option (list trk_stream) :=
  if zlen f =? 0 then None
  else match trk_load o 0 f with
       | Err _ => None
       | Ok (info, sl) =>
         if strict && ((zlen f <? trk_header_size) || (i_count info =? 0)) then None else Some sl
       end.

(* ---- repeated reads from ONE lazily loaded tractogram object (load(lazy_load=True), then several
   passes over .streamlines, each of which may raise).  What survives from one pass to the next:
   the file position (restored by the `finally` of _read since c36353e5, so every pass starts
   from _offset_data again) and the header dict, in which TrkFile._read stores the number of
   streamlines read only when a pass runs to its end (`header[nb_streamlines] = count` after the
   loop; nothing is stored when the pass raises).  None = the pass raised. *)
Definition trk_open (o : trk_offs) (f : list Z) : res (trk_info * list Z) :=
  let got := takez trk_header_size f in
  let hb := got ++ zeros (trk_header_size - zlen got) in
  match trk_parse_header o hb with
  | Err e => Err e
  | Ok info =>
    if (i_nscal info <? 0) || (i_nprop info <? 0) then Err ENegPts
    else Ok (info, dropz (zlen got) f)
  end.

Definition trk_nb (count : Z) : option Z := if count =? 0 then None else Some count.

Fixpoint trk_retry_passes (k : nat) (info : trk_info) (count : Z) (data : list Z)
  : list (option (list trk_stream)) :=
  match k with
  | O => []
  | S k' =>
    match trk_loop (S (length data)) (i_be info) (3 + i_nscal info) (i_nprop info) (trk_nb count) 0 data [] with
    | Ok sl => Some sl :: trk_retry_passes k' info (zlen sl) data
    | Err _ => None :: trk_retry_passes k' info count data
    end
  end.

(* None: load(lazy_load=True) itself raises (header, or the first-item pass of from_data_func) *)
Definition trk_lazy_retry (o : trk_offs) (k : nat) (f : list Z) : option (list (option (list trk_stream))) :=
  if zlen f =? 0 then None else
  match trk_open o f with
  | Err _ => None
  | Ok (info, data) =>
    match trk_take_loop (S (S (length data))) (i_be info) (3 + i_nscal info) (i_nprop info)
            (trk_nb (i_count info)) 0 1 data [] with
    | Err _ => None
    | Ok first =>
      (* a first-item pass that ends without an item ran to its end: it stores count = 0 *)
      let count := match first with [] => 0 | _ => i_count info end in
      Some (trk_retry_passes k info count data)
    end
  end.

(* TCK: _read keeps nothing between passes *)
Definition tck_lazy_retry (b : Z) (k : nat) (f : list Z) : option (list (option (list (list triple)))) :=
  if zlen f =? 0 then None else
  match tck_parse_header f with
  | Err _ => None
  | Ok (be, off) =>
    if off <? 0 then None else
    let data := dropz off f in
    match tck_take_loop (S (length data)) be (tck_bufsize b) 1 data [] [] with
    | Err _ => None
    | Ok _ => Some (repeat (res_opt (tck_read_data be (tck_bufsize b) data)) k)
    end
  end.
