(* C08/LemmasSlice.v — a partial read (fileslice) of a strict prefix of a file never returns
   other data than the same read of the complete file: every segment read is checked against
   the number of bytes requested.  Uses only the model of C06. *)
From Coq Require Import ZArith List Bool Lia.
From NV Require Import Base.PySlice C06.Model C06.Lemmas C08.ModelSlice.
Import ListNotations.
Open Scope Z_scope.

Definition prefix (a b : list Z) : Prop := exists t, b = a ++ t.

(* simpler: work with explicit decompositions *)
Lemma prefix_refl a : prefix a a.
Proof. exists []. now rewrite app_nil_r. Qed.

Lemma prefix_len a b : prefix a b -> (length a <= length b)%nat.
Proof. intros [t ->]. rewrite app_length. lia. Qed.

Lemma prefix_same_len a b : prefix a b -> length a = length b -> a = b.
Proof.
  intros [t ->] H. rewrite app_length in H. destruct t; [now rewrite app_nil_r|]. cbn in H. lia.
Qed.

Lemma firstn_prefix k (l : list Z) : prefix (firstn k l) l.
Proof. exists (skipn k l). symmetry. apply firstn_skipn. Qed.

Lemma prefix_skipn k : forall a b, prefix a b -> prefix (skipn k a) (skipn k b).
Proof.
  induction k as [|k IH]; intros a b H; [exact H|].
  destruct a as [|x a].
  - cbn [skipn]. exists (skipn (S k) b). reflexivity.
  - destruct H as [t ->]. cbn [app skipn]. apply IH. exists t. reflexivity.
Qed.

Lemma prefix_firstn' k : forall a b, prefix a b -> prefix (firstn k a) (firstn k b).
Proof.
  induction k as [|k IH]; intros a b H; [apply prefix_refl|].
  destruct a as [|x a].
  - cbn [firstn]. exists (firstn (S k) b). reflexivity.
  - destruct H as [t ->]. cbn [app firstn]. destruct (IH a (a ++ t)) as [u Hu]; [exists t; reflexivity|].
    exists u. rewrite Hu. reflexivity.
Qed.

(* one read: what a prefix of the file delivers is a prefix of what the file delivers *)
Lemma fread_at_prefix F n o l a : fread_at (take n F) o l = Ok a ->
  exists a', fread_at F o l = Ok a' /\ prefix a a'.
Proof.
  unfold fread_at. destruct (o <? 0); [discriminate|]. intros H. injection H as <-.
  eexists. split; [reflexivity|].
  assert (P : prefix (drop o (take n F)) (drop o F)) by (apply prefix_skipn, firstn_prefix).
  destruct (l <? 0); [exact P|]. now apply prefix_firstn'.
Qed.

Lemma zlen_length (a b : list Z) : zlen a = zlen b <-> length a = length b.
Proof. unfold zlen. lia. Qed.

Lemma read_all_prefix F n : forall segs bP bF,
  read_all (take n F) segs = Ok bP -> read_all F segs = Ok bF ->
  (length bP <= length bF)%nat /\ (length bP = length bF -> bP = bF).
Proof.
  induction segs as [|[o l] r IH]; intros bP bF HP HF; cbn [read_all] in HP, HF.
  - injection HP as <-. injection HF as <-. split; [lia|reflexivity].
  - unfold bind in HP, HF. revert HP HF.
    destruct (fread_at (take n F) o l) as [a|] eqn:Ea; [|intros HP; cbv beta iota in HP; discriminate HP].
    destruct (fread_at_prefix F n o l a Ea) as (a' & Ea' & Hp). rewrite Ea'.
    destruct (read_all (take n F) r) as [tP|] eqn:EtP; [|intros HP; cbv beta iota in HP; discriminate HP].
    destruct (read_all F r) as [tF|] eqn:EtF; [|intros _ HF; cbv beta iota in HF; discriminate HF].
    intros HP HF. injection HP as <-. injection HF as <-.
    destruct (IH tP tF eq_refl eq_refl) as [Hl He]. pose proof (prefix_len _ _ Hp) as Hla.
    rewrite !app_length. split; [lia|]. intros E.
    assert (length a = length a') by lia. assert (length tP = length tF) by lia.
    rewrite (prefix_same_len _ _ Hp) by assumption. rewrite He by assumption. reflexivity.
Qed.

(* the checked read of the segments: a success on the prefix returns what the complete file returns *)
Lemma checked_read_all F n segs nb bP bF :
  (b <- read_all F segs ;; if zlen b =? nb then Ok b else Err EValue) = Ok bF ->
  (b <- read_all (take n F) segs ;; if zlen b =? nb then Ok b else Err EValue) = Ok bP -> bP = bF.
Proof.
  unfold bind.
  destruct (read_all (take n F) segs) as [b|] eqn:EbP; [|intros _ HP; discriminate HP].
  destruct (read_all F segs) as [b'|] eqn:EbF; [|intros HF; discriminate HF].
  destruct (Z.eqb_spec (zlen b) nb) as [E1|]; [|intros _ HP; discriminate HP].
  destruct (Z.eqb_spec (zlen b') nb) as [E2|]; [|intros HF; discriminate HF].
  intros HF HP. injection HP as <-. injection HF as <-.
  destruct (read_all_prefix F n _ _ _ EbP EbF) as [_ He]. apply He. apply zlen_length. congruence.
Qed.

Lemma checked_fread F n o l nb bP bF :
  (b <- fread_at F o l ;; if zlen b =? nb then Ok b else Err EValue) = Ok bF ->
  (b <- fread_at (take n F) o l ;; if zlen b =? nb then Ok b else Err EValue) = Ok bP -> bP = bF.
Proof.
  unfold bind.
  destruct (fread_at (take n F) o l) as [a|] eqn:Ea; [|intros _ HP; discriminate HP].
  destruct (fread_at_prefix F n o l a Ea) as (a' & Ea' & Hp). rewrite Ea'.
  destruct (Z.eqb_spec (zlen a) nb) as [E1|]; [|intros _ HP; discriminate HP].
  destruct (Z.eqb_spec (zlen a') nb) as [E2|]; [|intros HF; discriminate HF].
  intros HF HP. injection HP as <-. injection HF as <-.
  apply prefix_same_len; [exact Hp|]. apply zlen_length. congruence.
Qed.

Lemma read_segments_prefix F n segs nb bP bF :
  read_segments F segs nb = Ok bF -> read_segments (take n F) segs nb = Ok bP -> bP = bF.
Proof.
  unfold read_segments. destruct segs as [|[o l] [|s2 r]].
  - destruct (nb =? 0); congruence.
  - apply checked_fread.
  - destruct (nb =? 0).
    + destruct (forallb _ _); congruence.
    + apply checked_read_all.
Qed.

(* fileslice with ANY heuristic, index, shape, item size, offset, order: if the complete file
   gives r, a prefix of it gives r or raises *)
Lemma fileslice_prefix (h : heuristic) F n ix shape w off o r :
  fileslice_h h F ix shape w off o = Ok r ->
  fileslice_h h (take n F) ix shape w off o = Ok r \/ exists e, fileslice_h h (take n F) ix shape w off o = Err e.
Proof.
  unfold fileslice_h, bind. destruct (calc_slicedefs ix shape w off o h) as [[[segs rshape] ps]|e]; [|intros HF; cbv beta iota in HF; discriminate HF].
  destruct (read_segments F segs (prod rshape * w)) as [bF|] eqn:EF; [|intros HF; cbv beta iota in HF; discriminate HF].
  destruct (read_segments (take n F) segs (prod rshape * w)) as [bP|e] eqn:EP; [|intros _; right; eexists; reflexivity].
  rewrite (read_segments_prefix F n segs _ bP bF EF EP). intros HF. left. exact HF.
Qed.

(* with the theorem of C06: a partial read of a prefix of a long-enough file returns NumPy's
   arr[ix] of the COMPLETE array, or raises *)
Lemma fileslice_prefix_numpy (h : heuristic) F n ix shape w off o c :
  h_ok h -> 0 < w -> 0 <= off ->
  canonical_slicers true ix shape = Ok c -> ix_valid shape c ->
  off + w * prod shape <= zlen F ->
  fileslice_h h (take n F) ix shape w off o = Ok (result_of o F shape w off c)
  \/ exists e, fileslice_h h (take n F) ix shape w off o = Err e.
Proof.
  intros Hh Hw Ho Hc Hv Hl.
  destruct (fileslice_eq_numpy h F ix shape w off o c Hh Hw Ho Hc Hv Hl) as [E1 E2].
  apply fileslice_prefix. rewrite E1. exact E2.
Qed.

(* the two reads of the sweep *)
Lemma partial_read_prefix F n ix shape w off r :
  partial_read F ix shape w off = Some r ->
  partial_read (take n F) ix shape w off = Some r \/ partial_read (take n F) ix shape w off = None.
Proof.
  unfold partial_read, fileslice. intros H.
  destruct (fileslice_h (threshold_heuristic SKIP_THRESH) F ix shape w off OrdF) as [r'|] eqn:E; [|discriminate].
  injection H as ->.
  destruct (fileslice_prefix _ F n ix shape w off OrdF r E) as [-> | [e ->]]; [left|right]; reflexivity.
Qed.

(* ------------------------------------------------------------------ any reader, raising or not
   The contract of a reader of (a truncated delivery of) the file F: whatever a seek+read returns
   without raising is a prefix of what the same seek+read returns on the complete file.  A plain
   truncated file and a silently ending stream satisfy it (they return fewer bytes), a raising
   stream satisfies it (it returns all the bytes or raises), and so does any mixture. *)
Definition reader_below (F : list Z) (rd : Z -> Z -> res (list Z)) : Prop :=
  forall o l a, rd o l = Ok a -> exists a', fread_at F o l = Ok a' /\ prefix a a'.

Lemma reader_below_plain F n : reader_below F (fread_at (take n F)).
Proof. intros o l a H. exact (fread_at_prefix F n o l a H). Qed.

Lemma reader_below_raising F avail : reader_below F (rd_raising F avail).
Proof.
  intros o l a. unfold rd_raising.
  assert (P : fread_at F o l = Ok a -> exists a', fread_at F o l = Ok a' /\ prefix a a')
    by (intros E; exists a; split; [exact E|apply prefix_refl]).
  destruct (avail <? zlen F); [|exact P].
  destruct (o <? 0); [discriminate|]. destruct (l <? 0); [discriminate|].
  destruct (Z.min (o + l) (zlen F) <=? avail); [exact P|discriminate].
Qed.

(* the same, said directly: a raising reader returns exactly what the complete file returns *)
Lemma rd_raising_exact F avail o l a : rd_raising F avail o l = Ok a -> fread_at F o l = Ok a.
Proof.
  unfold rd_raising. destruct (avail <? zlen F); [|exact (fun E => E)].
  destruct (o <? 0); [discriminate|]. destruct (l <? 0); [discriminate|].
  destruct (Z.min (o + l) (zlen F) <=? avail); [exact (fun E => E)|discriminate].
Qed.

Lemma fileslice_r_read_all F : forall segs, read_all_r (fread_at F) segs = read_all F segs.
Proof. induction segs as [|[o l] r IH]; [reflexivity|]. cbn [read_all_r read_all]. rewrite IH. reflexivity. Qed.

Lemma fileslice_r_plain h F ix shape w off o :
  fileslice_r (fread_at F) h ix shape w off o = fileslice_h h F ix shape w off o.
Proof.
  unfold fileslice_r, fileslice_h.
  assert (E : forall segs nb, read_segments_r (fread_at F) segs nb = read_segments F segs nb).
  { intros segs nb. unfold read_segments_r, read_segments. destruct segs as [|[o1 l1] [|s2 r]]; try reflexivity.
    rewrite fileslice_r_read_all. reflexivity. }
  unfold bind. destruct (calc_slicedefs ix shape w off o h) as [[[segs rshape] ps]|e]; [|reflexivity].
  rewrite E. reflexivity.
Qed.

Section AnyReader.
  Variables (F : list Z) (rd : Z -> Z -> res (list Z)).
  Hypothesis RB : reader_below F rd.

  Lemma read_all_r_prefix : forall segs bP bF,
    read_all_r rd segs = Ok bP -> read_all F segs = Ok bF ->
    (length bP <= length bF)%nat /\ (length bP = length bF -> bP = bF).
  Proof.
    induction segs as [|[o l] r IH]; intros bP bF HP HF; cbn [read_all_r read_all] in HP, HF.
    - injection HP as <-. injection HF as <-. split; [lia|reflexivity].
    - unfold bind in HP, HF. revert HP HF.
      destruct (rd o l) as [a|] eqn:Ea; [|intros HP; cbv beta iota in HP; discriminate HP].
      destruct (RB o l a Ea) as (a' & Ea' & Hp). rewrite Ea'.
      destruct (read_all_r rd r) as [tP|] eqn:EtP; [|intros HP; cbv beta iota in HP; discriminate HP].
      destruct (read_all F r) as [tF|] eqn:EtF; [|intros _ HF; cbv beta iota in HF; discriminate HF].
      intros HP HF. injection HP as <-. injection HF as <-.
      destruct (IH tP tF eq_refl eq_refl) as [Hl He]. pose proof (prefix_len _ _ Hp) as Hla.
      rewrite !app_length. split; [lia|]. intros E.
      assert (length a = length a') by lia. assert (length tP = length tF) by lia.
      rewrite (prefix_same_len _ _ Hp) by assumption. rewrite He by assumption. reflexivity.
  Qed.

  Lemma read_segments_r_prefix segs nb bP bF :
    read_segments F segs nb = Ok bF -> read_segments_r rd segs nb = Ok bP -> bP = bF.
  Proof.
    unfold read_segments, read_segments_r. destruct segs as [|[o l] [|s2 r]].
    - destruct (nb =? 0); congruence.
    - unfold bind.
      destruct (rd o l) as [a|] eqn:Ea; [|intros _ HP; discriminate HP].
      destruct (RB o l a Ea) as (a' & Ea' & Hp). rewrite Ea'.
      destruct (Z.eqb_spec (zlen a) nb) as [E1|]; [|intros _ HP; discriminate HP].
      destruct (Z.eqb_spec (zlen a') nb) as [E2|]; [|intros HF; discriminate HF].
      intros HF HP. injection HP as <-. injection HF as <-.
      apply prefix_same_len; [exact Hp|]. apply zlen_length. congruence.
    - destruct (nb =? 0).
      + destruct (forallb _ _); congruence.
      + unfold bind.
        destruct (read_all_r rd _) as [b|] eqn:EbP; [|intros _ HP; discriminate HP].
        destruct (read_all F _) as [b'|] eqn:EbF; [|intros HF; discriminate HF].
        destruct (Z.eqb_spec (zlen b) nb) as [E1|]; [|intros _ HP; discriminate HP].
        destruct (Z.eqb_spec (zlen b') nb) as [E2|]; [|intros HF; discriminate HF].
        intros HF HP. injection HP as <-. injection HF as <-.
        destruct (read_all_r_prefix _ _ _ EbP EbF) as [_ He]. apply He. apply zlen_length. congruence.
  Qed.

  (* fileslice through ANY reader below F: the result of the complete file, or an exception *)
  Lemma fileslice_reader (h : heuristic) ix shape w off o r :
    fileslice_h h F ix shape w off o = Ok r ->
    fileslice_r rd h ix shape w off o = Ok r \/ exists e, fileslice_r rd h ix shape w off o = Err e.
  Proof.
    unfold fileslice_h, fileslice_r, bind.
    destruct (calc_slicedefs ix shape w off o h) as [[[segs rshape] ps]|e]; [|intros HF; cbv beta iota in HF; discriminate HF].
    destruct (read_segments F segs (prod rshape * w)) as [bF|] eqn:EF; [|intros HF; cbv beta iota in HF; discriminate HF].
    destruct (read_segments_r rd segs (prod rshape * w)) as [bP|e] eqn:EP; [|intros _; right; eexists; reflexivity].
    rewrite (read_segments_r_prefix segs _ bP bF EF EP). intros HF. left. exact HF.
  Qed.

  Lemma fileslice_reader_numpy (h : heuristic) ix shape w off o c :
    h_ok h -> 0 < w -> 0 <= off ->
    canonical_slicers true ix shape = Ok c -> ix_valid shape c ->
    off + w * prod shape <= zlen F ->
    fileslice_r rd h ix shape w off o = Ok (result_of o F shape w off c)
    \/ exists e, fileslice_r rd h ix shape w off o = Err e.
  Proof.
    intros Hh Hw Ho Hc Hv Hl.
    destruct (fileslice_eq_numpy h F ix shape w off o c Hh Hw Ho Hc Hv Hl) as [E1 E2].
    apply fileslice_reader. rewrite E1. exact E2.
  Qed.
End AnyReader.

(* the reads of the sweep through a raising stream *)
Lemma partial_read_raising F avail ix shape w off r :
  partial_read F ix shape w off = Some r ->
  partial_read_r (rd_raising F avail) ix shape w off = Some r
  \/ partial_read_r (rd_raising F avail) ix shape w off = None.
Proof.
  unfold partial_read, partial_read_r, fileslice. intros H.
  destruct (fileslice_h (threshold_heuristic SKIP_THRESH) F ix shape w off OrdF) as [r'|] eqn:E; [|discriminate].
  injection H as ->.
  destruct (fileslice_reader F _ (reader_below_raising F avail) _ ix shape w off OrdF r E) as [-> | [e ->]]; [left|right]; reflexivity.
Qed.

(* a raising stream that can deliver everything is the complete file *)
Lemma partial_read_raising_complete F avail ix shape w off :
  zlen F <= avail -> partial_read_r (rd_raising F avail) ix shape w off = partial_read F ix shape w off.
Proof.
  intros H. unfold partial_read_r, partial_read, fileslice.
  assert (E : rd_raising F avail = fread_at F).
  { unfold rd_raising. destruct (Z.ltb_spec avail (zlen F)); [lia|reflexivity]. }
  rewrite E, fileslice_r_plain. reflexivity.
Qed.
