(* C08/LemmasMat.v — a truncated SPM .mat member: the image load raises, or returns the voxel
   data of the image with the affine of the complete .mat, or (only for the EMPTY .mat, which
   nibabel treats like a missing one) with the affine of the header. *)
From Coq Require Import ZArith List Bool Lia.
From NV Require Import C08.ModelMat.
Import ListNotations.
Open Scope Z_scope.

Section SpmMat.
  Variable mx : Type.
  Variables flip from111 to111 : mx -> mx.
  Variable loadmat : list Z -> option (list (vname * mx)).
  (* float facts: negating the first row twice is the identity, and it commutes with the
     right-multiplication by from_111 (round-to-nearest is symmetric: -(a+b) = (-a)+(-b)) *)
  Hypothesis flip_invol : forall m, flip (flip m) = m.
  Hypothesis flip_from : forall m, flip (from111 m) = from111 (flip m).

  Variables (x_flip : bool) (aff hdr_affine : mx) (F : list Z).
  Let vars := spm_mat_vars mx flip from111 x_flip aff.
  (* the oracle contract: the complete file gives the variables written; a prefix of it raises
     or gives a leading part of them, values unchanged *)
  Hypothesis loadmat_full : loadmat F = Some vars.
  Hypothesis loadmat_prefix : forall P t r, F = P ++ t -> loadmat P = Some r -> exists j, r = firstn j vars.

  Lemma spm_affine_full : F <> [] ->
    spm_affine mx flip to111 loadmat x_flip hdr_affine (Some F) = Some (to111 (from111 aff)).
  Proof.
    intros HF. unfold spm_affine. destruct F as [|b F']; [congruence|]. rewrite loadmat_full. reflexivity.
  Qed.

  Lemma spm_affine_prefix P t : F = P ++ t ->
    spm_affine mx flip to111 loadmat x_flip hdr_affine (Some P) = None
    \/ spm_affine mx flip to111 loadmat x_flip hdr_affine (Some P) = Some (to111 (from111 aff))
    \/ (P = [] /\ spm_affine mx flip to111 loadmat x_flip hdr_affine (Some P) = Some hdr_affine).
  Proof.
    intros E. destruct P as [|b P']; [right; right; split; reflexivity|].
    unfold spm_affine. destruct (loadmat (b :: P')) as [r|] eqn:El; [|left; reflexivity].
    destruct (loadmat_prefix _ _ _ E El) as [j ->].
    destruct j as [|[|j]].
    - left. reflexivity.
    - right; left. unfold vars, spm_mat_vars. cbn. destruct x_flip.
      + rewrite flip_from, flip_invol. reflexivity.
      + reflexivity.
    - right; left. unfold vars, spm_mat_vars. cbn. reflexivity.
  Qed.

  (* the whole load: never other voxel data, never another affine than the two documented ones *)
  Lemma spm_load_prefix {D} (data : option D) P t : F = P ++ t ->
    spm_load mx flip to111 loadmat data x_flip hdr_affine (Some P) = None
    \/ (exists d, data = Some d /\
          (spm_load mx flip to111 loadmat data x_flip hdr_affine (Some P) = Some (d, to111 (from111 aff))
           \/ (P = [] /\ spm_load mx flip to111 loadmat data x_flip hdr_affine (Some P) = Some (d, hdr_affine)))).
  Proof.
    intros E. unfold spm_load. destruct data as [d|]; [|left; reflexivity].
    destruct (spm_affine_prefix P t E) as [-> | [-> | [-> H]]].
    - left; reflexivity.
    - right. exists d. split; [reflexivity|]. left. reflexivity.
    - right. exists d. split; [reflexivity|]. right. split; [reflexivity|]. cbn. reflexivity.
  Qed.
End SpmMat.

(* the executable contract agrees with the abstract one: a cut that loads gives the first j names *)
Lemma mat4_cut_bound : forall sizes n j, mat4_cut sizes n = Some j -> (j <= length sizes)%nat.
Proof.
  induction sizes as [|s r IH]; intros n j; cbn [mat4_cut]; destruct (n =? 0).
  - intros H; injection H as <-. lia.
  - discriminate.
  - intros H; injection H as <-. cbn. lia.
  - destruct (n <? s); [discriminate|]. destruct (mat4_cut r (n - s)) as [k|] eqn:E; [|discriminate].
    cbn. intros H; injection H as <-. specialize (IH _ _ E). cbn. lia.
Qed.

(* for the files nibabel writes (M then mat): the class of a cut is 0, 1 (n = 0), 2 or 3 - never
   "loads with some other affine" - and the complete file is class 2 *)
Lemma spm_mat_class_written s1 s2 n : 0 < s1 -> 0 < s2 ->
  spm_mat_class [VM; Vmat] [s1; s2] n =
    if n =? 0 then 1 else if n =? s1 then 3 else if n =? s1 + s2 then 2 else 0.
Proof.
  intros H1 H2. unfold spm_mat_class. destruct (Z.eqb_spec n 0) as [|N0]; [reflexivity|].
  cbn [mat4_cut]. destruct (Z.eqb_spec n 0); [contradiction|].
  destruct (Z.ltb_spec n s1).
  - destruct (Z.eqb_spec n s1); [lia|]. destruct (Z.eqb_spec n (s1 + s2)); [lia|]. reflexivity.
  - destruct (Z.eqb_spec (n - s1) 0).
    + destruct (Z.eqb_spec n s1); [|lia]. reflexivity.
    + destruct (Z.eqb_spec n s1); [lia|].
      destruct (Z.ltb_spec (n - s1) s2).
      * destruct (Z.eqb_spec n (s1 + s2)); [lia|]. reflexivity.
      * destruct (Z.eqb_spec (n - s1 - s2) 0).
        -- destruct (Z.eqb_spec n (s1 + s2)); [|lia]. reflexivity.
        -- destruct (Z.eqb_spec n (s1 + s2)); [lia|]. reflexivity.
Qed.
