(* C08/ModelSlice.v — partial reads of a (possibly truncated) volume through the array proxy:
   img.dataobj[index] -> nibabel.fileslice.fileslice on the file bytes.  The reader is the model
   of C06 (coq/C06/Model.v: calc_slicedefs, read_segments with its length checks, post-slicing);
   this file only fixes the two index shapes the sweep uses and turns the result into an option.
   Definitions only. *)
From Coq Require Import ZArith List Bool.
From NV Require Import Base.PySlice.
From NV Require C06.Model.
Import ListNotations.
Open Scope Z_scope.

(* img.dataobj[:, ..., :, 1::2] on an ndim-dimensional array, and img.dataobj[..., -1] *)
Definition idx_step (ndim : nat) : list C06.Model.idx :=
  repeat (C06.Model.ISl (mkSl None None None)) (ndim - 1)
  ++ [C06.Model.ISl (mkSl (Some 1) None (Some 2))].
Definition idx_last : list C06.Model.idx := [C06.Model.IEll; C06.Model.IInt (-1)].
(* img.dataobj[..., 0]: only the first slab is read, a file cut behind it still answers *)
Definition idx_first : list C06.Model.idx := [C06.Model.IEll; C06.Model.IInt 0].
(* the reads of the sweep: 0 = [..., -1], 1 = [:, ..., :, 1::2], 2 = [..., 0] *)
Definition idx_sel (sel : Z) (ndim : nat) : list C06.Model.idx :=
  if sel =? 1 then idx_step ndim else if sel =? 2 then idx_first else idx_last.

(* fileslice(fileobj, index, shape, dtype, offset, order='F'): None = an exception *)
Definition partial_read (file : list Z) (ix : list C06.Model.idx) (shape : list Z) (w off : Z)
  : option (list Z * list Z) :=
  match C06.Model.fileslice file ix shape w off C06.Model.OrdF with
  | C06.Model.Ok r => Some r
  | C06.Model.Err _ => None
  end.

(* load (header readable: `loaded`) then read the slice *)
Definition decode_partial (loaded : bool) (file : list Z) (sel : Z) (shape : list Z) (w off : Z)
  : option (list Z * list Z) :=
  if loaded then partial_read file (idx_sel sel (length shape)) shape w off
  else None.

(* ------------------------------------------------------------------ the file as a READER
   fileslice only ever does `fileobj.seek(off); fileobj.read(len)`.  A compressed stream that has
   run out does not return fewer bytes like a plain file: bz2 and zstd RAISE (EOFError), in the
   read or already in the seek.  `rd off len` is that pair of calls: Ok bytes | Err (raised).
   read_all_r / read_segments_r / fileslice_r are read_all / read_segments / fileslice_h of
   coq/C06/Model.v with `fread_at file` replaced by `rd` (fileslice_r_plain in LemmasSlice.v:
   they coincide for rd := fread_at file). *)
Section Reader.
  Variable rd : Z -> Z -> C06.Model.res (list Z).

  Fixpoint read_all_r (segs : list C06.Model.seg) : C06.Model.res (list Z) :=
    match segs with
    | [] => C06.Model.Ok []
    | (o, l) :: r =>
        C06.Model.bind (rd o l) (fun b => C06.Model.bind (read_all_r r) (fun t => C06.Model.Ok (b ++ t)))
    end.

  Definition read_segments_r (segs : list C06.Model.seg) (n_bytes : Z) : C06.Model.res (list Z) :=
    match segs with
    | [] => if n_bytes =? 0 then C06.Model.Ok [] else C06.Model.Err C06.Model.EValue
    | [(o, l)] =>
        C06.Model.bind (rd o l) (fun b =>
          if C06.Model.zlen b =? n_bytes then C06.Model.Ok b else C06.Model.Err C06.Model.EValue)
    | _ =>
        if n_bytes =? 0 then
          (if forallb (fun s : C06.Model.seg => snd s =? 0) segs then C06.Model.Ok []
           else C06.Model.Err C06.Model.EValue)
        else C06.Model.bind (read_all_r segs) (fun b =>
          if C06.Model.zlen b =? n_bytes then C06.Model.Ok b else C06.Model.Err C06.Model.EValue)
    end.

  Definition fileslice_r (h : C06.Model.heuristic) (sl : list C06.Model.idx) (shape : list Z)
      (itemsize offset : Z) (o : C06.Model.order) : C06.Model.res (list Z * list Z) :=
    C06.Model.bind (C06.Model.calc_slicedefs sl shape itemsize offset o h) (fun d =>
      let '(segs, rshape, ps) := d in
      let n_bytes := C06.Model.prod rshape * itemsize in
      C06.Model.bind (read_segments_r segs n_bytes) (fun b =>
        match ps with
        | [] => C06.Model.Ok (rshape, b)
        | _ =>
          let elems := C06.Model.chunks (length b) itemsize b in
          let '(s, e) := C06.Model.np_index [] o rshape (map C06.Model.post_to_cidx ps) elems in
          C06.Model.Ok (s, concat e)
        end)).
End Reader.

(* the reader of a truncated stream that RAISES when it runs out: F = the plain bytes of the
   complete file, avail = how many of them the truncated stream can still deliver.  A read that
   would need a byte beyond avail raises; so does a read to the end of the file (len < 0). *)
Definition rd_raising (F : list Z) (avail : Z) (off len : Z) : C06.Model.res (list Z) :=
  if avail <? C06.Model.zlen F then
    (if off <? 0 then C06.Model.Err C06.Model.EValue
     else if len <? 0 then C06.Model.Err C06.Model.EIO
     else if Z.min (off + len) (C06.Model.zlen F) <=? avail then C06.Model.fread_at F off len
     else C06.Model.Err C06.Model.EIO)
  else C06.Model.fread_at F off len.

Definition partial_read_r (rd : Z -> Z -> C06.Model.res (list Z)) (ix : list C06.Model.idx)
    (shape : list Z) (w off : Z) : option (list Z * list Z) :=
  match fileslice_r rd (C06.Model.threshold_heuristic C06.Model.SKIP_THRESH) ix shape w off C06.Model.OrdF with
  | C06.Model.Ok r => Some r
  | C06.Model.Err _ => None
  end.

(* load (header readable from the delivered bytes: `loaded`), then the slice through a raising stream *)
Definition decode_partial_raising (loaded : bool) (F : list Z) (avail : Z) (sel : Z) (shape : list Z) (w off : Z)
  : option (list Z * list Z) :=
  if loaded then partial_read_r (rd_raising F avail) (idx_sel sel (length shape)) shape w off
  else None.
