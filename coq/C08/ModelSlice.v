(* C08/ModelSlice.v — partial reads of a (possibly truncated) volume through the array proxy:
   img.dataobj[index] -> nibabel.fileslice.fileslice on the file bytes.  The reader is the model
   of C06 (coq/C06/Model.v: calc_slicedefs, read_segments with its length checks, post-slicing);
   this file only fixes the two index shapes the sweep uses and turns the result into an option.
   Definitions only. *)
From Coq Require Import ZArith List Bool.
From NV Require Import Base.PySlice.
From NV Require C06.Model.
Import ListNotations.
Open Scope Z_scope.

(* img.dataobj[:, ..., :, 1::2] on an ndim-dimensional array, and img.dataobj[..., -1] *)
Definition idx_step (ndim : nat) : list C06.Model.idx :=
  repeat (C06.Model.ISl (mkSl None None None)) (ndim - 1)
  ++ [C06.Model.ISl (mkSl (Some 1) None (Some 2))].
Definition idx_last : list C06.Model.idx := [C06.Model.IEll; C06.Model.IInt (-1)].

(* fileslice(fileobj, index, shape, dtype, offset, order='F'): None = an exception *)
Definition partial_read (file : list Z) (ix : list C06.Model.idx) (shape : list Z) (w off : Z)
  : option (list Z * list Z) :=
  match C06.Model.fileslice file ix shape w off C06.Model.OrdF with
  | C06.Model.Ok r => Some r
  | C06.Model.Err _ => None
  end.

(* load (header readable: `loaded`) then read the slice *)
Definition decode_partial (loaded : bool) (file : list Z) (step : bool) (shape : list Z) (w off : Z)
  : option (list Z * list Z) :=
  if loaded then partial_read file (if step then idx_step (length shape) else idx_last) shape w off
  else None.
