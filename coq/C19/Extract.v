(* C19/Extract.v — extraction of the executable model (ExtrOcamlBasic only) *)
Require Extraction. Require ExtrOcamlBasic.
From NV Require Import Base.Bytes C19.Model.
Extraction Language OCaml.
Extraction "c19_model.ml" write_geometry read_geometry serialize_volume_info read_volume_info
  write_morph read_morph morph_shape_ok pack_rgb write_annot read_annot relabel
  mgh_write mgh_read mgh_save fs_get set_data_shape get_data_shape ndims get_zooms mdims.
