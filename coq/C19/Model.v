(* C19/Model.v — FreeSurfer geometry, morphometry, annotation files and the MGH header.
   Counterparts in /repo/nibabel/freesurfer:
     io._fread3, np.fromfile, fobj.readline              -> fread3, fromfile, readline
     io.write_geometry / read_geometry (triangle files)   -> write_geometry / read_geometry
     io._serialize_volume_info / _read_volume_info        -> serialize_volume_info / read_volume_info
     io.write_morph_data / read_morph_data                -> write_morph / read_morph
     io._pack_rgb, write_annot, read_annot (+ _read_annot_ctab_new_format)
                                                          -> pack_rgb, write_annot, read_annot
     mghformat.MGHHeader (writehdr_to, writeftr_to, from_fileobj, __init__, check_fix,
       set/get_data_shape, _ndims, get_zooms), MGHImage.to_file_map layout
                                                          -> mgh_write / mgh_read, set_data_shape, ...
   Bytes are Z in [0,256).  Floats are opaque bit patterns (Z in [0,2^32)): the code only
   moves them.  Text values of the volume-info footer are byte strings; formatting numbers
   ('%.10g', str(int)) and parsing them back (float(), int()) are outside the model (tokens).
   Definitions only. *)
From Coq Require Import ZArith List Bool.
From NV Require Import Base.Bytes.
Import ListNotations.
Open Scope Z_scope.

Inductive ferr :=
  | ErrShort        (* short read: unpacking / [0] / reshape fails *)
  | ErrMagic        (* not a triangle surface *)
  | ErrNotModelled  (* legacy read-only formats: quad surfaces, old curv, old-style colour table *)
  | ErrVolInfo      (* OSError('Error parsing volume info.') *)
  | ErrNoCtab | ErrVersion
  | ErrIndex        (* IndexError *)
  | ErrValue        (* ValueError *)
  | ErrHeader       (* MGHError / HeaderDataError *)
  | ErrAlias.       (* a memory map read past the end of its (truncated) file: zeros or SIGBUS *)
Inductive res (A : Type) := Ok (a : A) | Err (e : ferr).
Arguments Ok {A}. Arguments Err {A}.

Definition i4 (z : Z) : list Z := enc_s true 4 z.        (* '>i4' *)
Definition u4 (z : Z) : list Z := enc true 4 z.          (* '>f4' bit pattern *)
Definition i2 (z : Z) : list Z := enc_s true 2 z.        (* '>i2' *)
Definition rd_i (c : list Z) : Z := dec_s true c.
Definition rd_u (c : list Z) : Z := dec true c.

(* np.fromfile(fobj, dtype of w bytes, count): as many complete items as are there, at most count *)
Fixpoint chunks (w n : nat) (f : list Z) : list (list Z) * list Z :=
  match n with
  | O => ([], f)
  | S n' =>
    if (length f <? w)%nat then ([], f)
    else let '(cs, r) := chunks w n' (skipn w f) in (firstn w f :: cs, r)
  end.
Definition fromfile (w : nat) (count : Z) (f : list Z) : list (list Z) * list Z :=
  chunks w (Z.to_nat count) f.

(* np.fromfile(fobj, dt, 1)[0] *)
Definition read1 (f : list Z) : res (Z * list Z) :=
  match fromfile 4 1 f with
  | ([c], r) => Ok (rd_i c, r)
  | _ => Err ErrShort
  end.

(* _fread3 *)
Definition fread3 (f : list Z) : res (Z * list Z) :=
  match f with
  | b1 :: b2 :: b3 :: r => Ok (b1 * 65536 + b2 * 256 + b3, r)
  | _ => Err ErrShort
  end.

(* binary fobj.readline(): up to and including the first '\n', or to the end *)
Fixpoint readline (f : list Z) : list Z * list Z :=
  match f with
  | [] => ([], [])
  | c :: r => if c =? 10 then ([10], r) else let '(l, r') := readline r in (c :: l, r')
  end.

Fixpoint dropwhile (p : Z -> bool) (l : list Z) : list Z :=
  match l with
  | [] => []
  | c :: r => if p c then dropwhile p r else l
  end.
Definition rstrip_by (p : Z -> bool) (l : list Z) : list Z := rev (dropwhile p (rev l)).
Definition is_nl (c : Z) : bool := c =? 10.
(* str.isspace on ASCII *)
Definition is_space (c : Z) : bool := ((9 <=? c) && (c <=? 13)) || ((28 <=? c) && (c <=? 32)).
Definition strip (l : list Z) : list Z := rstrip_by is_space (dropwhile is_space l).

(* str.split(sep) for a one-character separator *)
Fixpoint split_on (sep : Z) (l : list Z) : list (list Z) :=
  match l with
  | [] => [[]]
  | c :: r =>
    match split_on sep r with
    | [] => [[]]                                   (* unreachable *)
    | h :: t => if c =? sep then [] :: h :: t else (c :: h) :: t
    end
  end.

(* str.split() *)
Fixpoint split_ws_aux (l cur : list Z) : list (list Z) :=
  match l with
  | [] => match cur with [] => [] | _ => [rev cur] end
  | c :: r =>
    if is_space c then match cur with [] => split_ws_aux r [] | _ => rev cur :: split_ws_aux r [] end
    else split_ws_aux r (c :: cur)
  end.
Definition split_ws (l : list Z) : list (list Z) := split_ws_aux l [].

Fixpoint list_eqb (a b : list Z) : bool :=
  match a, b with
  | [], [] => true
  | x :: a', y :: b' => (x =? y) && list_eqb a' b'
  | _, _ => false
  end.

(* ------------------------------------------------------------------ volume info footer *)
Definition K_VALID : list Z := [118;97;108;105;100].
Definition K_FILENAME : list Z := [102;105;108;101;110;97;109;101].
Definition K_VOLUME : list Z := [118;111;108;117;109;101].
Definition K_VOXELSIZE : list Z := [118;111;120;101;108;115;105;122;101].
Definition K_XRAS : list Z := [120;114;97;115].
Definition K_YRAS : list Z := [121;114;97;115].
Definition K_ZRAS : list Z := [122;114;97;115].
Definition K_CRAS : list Z := [99;114;97;115].
Definition NUM_KEYS : list (list Z) := [K_VOLUME; K_VOXELSIZE; K_XRAS; K_YRAS; K_ZRAS; K_CRAS].

(* head, 'valid', 'filename', and the token lists of volume, voxelsize, xras, yras, zras, cras *)
Record vinfo := mkV { vhead : list Z; vvalid : list Z; vfilename : list Z; vnums : list (list (list Z)) }.

Definition SEP : list Z := [32;61;32].                   (* " = " *)
(* f'{key:6s}' *)
Definition pad6 (k : list Z) : list Z := k ++ repeat 32 (6 - length k).
Fixpoint join_sp (toks : list (list Z)) : list Z :=
  match toks with
  | [] => []
  | [t] => t
  | t :: r => t ++ 32 :: join_sp r
  end.
Definition str_line (k v : list Z) : list Z := k ++ SEP ++ v ++ [10].
Definition num_line (k : list Z) (toks : list (list Z)) : list Z := pad6 k ++ SEP ++ join_sp toks ++ [10].

(* _serialize_volume_info (all nine keys present; numeric values given as their three tokens) *)
Definition serialize_volume_info (v : vinfo) : list Z :=
  flat_map i4 (vhead v) ++ str_line K_VALID (vvalid v) ++ str_line K_FILENAME (vfilename v)
  ++ concat (map (fun kt => num_line (fst kt) (snd kt)) (combine NUM_KEYS (vnums v))).

(* one `for key in (...)` step: returns pair[1] *)
Definition read_key (k : list Z) (f : list Z) : res (list Z * list Z) :=
  let '(line, r) := readline f in
  match split_on 61 line with
  | [p0; p1] => if list_eqb (strip p0) k then Ok (p1, r) else Err ErrVolInfo
  | _ => Err ErrVolInfo
  end.

Fixpoint read_num_keys (ks : list (list Z)) (f : list Z) : res (list (list (list Z)) * list Z) :=
  match ks with
  | [] => Ok ([], f)
  | k :: ks' =>
    match read_key k f with
    | Err e => Err e
    | Ok (p1, r) =>
      match read_num_keys ks' r with
      | Err e => Err e
      | Ok (l, r') => Ok (split_ws p1 :: l, r')
      end
    end
  end.

Definition read_vinfo_body (head : list Z) (f : list Z) : res (option vinfo * list Z) :=
  match read_key K_VALID f with
  | Err e => Err e
  | Ok (p1, r1) =>
    match read_key K_FILENAME r1 with
    | Err e => Err e
    | Ok (p2, r2) =>
      match read_num_keys NUM_KEYS r2 with
      | Err e => Err e
      | Ok (nums, r3) => Ok (Some (mkV head (strip p1) (strip p2) nums), r3)
      end
    end
  end.

(* _read_volume_info: None = the empty dict (with a warning) *)
Definition read_volume_info (f : list Z) : res (option vinfo * list Z) :=
  let '(h1, f1) := fromfile 4 1 f in
  let head := map rd_i h1 in
  if list_eqb head [20] then read_vinfo_body head f1
  else
    let '(h2, f2) := fromfile 4 2 f1 in
    let head := head ++ map rd_i h2 in
    if list_eqb head [2; 0; 20] then read_vinfo_body head f2
    else Ok (None, f2).

(* ------------------------------------------------------------------ geometry (triangle files) *)
(* coords: vnum*3 float32 bit patterns; faces: fnum*3 integers *)
Definition write_geometry (stamp : list Z) (nv nf : Z) (coords faces : list Z)
  (vi : option vinfo) : list Z :=
  [255; 255; 254] ++ stamp ++ [10; 10] ++ i4 nv ++ i4 nf
  ++ flat_map u4 coords ++ flat_map i4 faces
  ++ match vi with Some v => serialize_volume_info v | None => [] end.

Record geom := mkG { gstamp : list Z; gnv : Z; gnf : Z; gcoords : list Z; gfaces : list Z;
                     gvinfo : option vinfo }.

Definition read_geometry (read_metadata : bool) (f : list Z) : res geom :=
  match fread3 f with
  | Err e => Err e
  | Ok (magic, f1) =>
    if (magic =? 16777215) || (magic =? 16777213) then Err ErrNotModelled   (* quad files *)
    else if negb (magic =? 16777214) then Err ErrMagic
    else
      let '(l1, f2) := readline f1 in
      let stamp := rstrip_by is_nl l1 in
      let '(_, f3) := readline f2 in
      match read1 f3 with
      | Err e => Err e
      | Ok (vnum, f4) =>
        match read1 f4 with
        | Err e => Err e
        | Ok (fnum, f5) =>
          if (vnum <? 0) || (fnum <? 0) then Err ErrValue
          else
            let '(cs, f6) := fromfile 4 (vnum * 3) f5 in
            if negb (zlen cs =? vnum * 3) then Err ErrShort           (* reshape(vnum, 3) *)
            else
              let '(fs, f7) := fromfile 4 (fnum * 3) f6 in
              if negb (zlen fs =? fnum * 3) then Err ErrShort
              else
                if read_metadata then
                  match read_volume_info f7 with
                  | Err e => Err e
                  | Ok (vi, _) => Ok (mkG stamp vnum fnum (map rd_u cs) (map rd_i fs) vi)
                  end
                else Ok (mkG stamp vnum fnum (map rd_u cs) (map rd_i fs) None)
        end
      end
  end.

(* ------------------------------------------------------------------ morphometry ("curv") *)
Definition prodZ (l : list Z) : Z := fold_right Z.mul 1 l.
Definition zlist_eqb := list_eqb.
(* vector.shape in ((vnum,), (vnum, 1), (1, vnum), (vnum, 1, 1)) *)
Definition morph_shape_ok (shape : list Z) : bool :=
  let vnum := prodZ shape in
  match shape with
  | [] => false                                  (* np.prod(()) is 1.0, () is in no tuple *)
  | _ => list_eqb shape [vnum] || list_eqb shape [vnum; 1] || list_eqb shape [1; vnum]
         || list_eqb shape [vnum; 1; 1]
  end.

Definition I4MAX : Z := 2147483647.
Definition I4MIN : Z := -2147483648.

(* values: the vnum float32 bit patterns of vector.astype('>f4') in C order *)
Definition write_morph (shape values : list Z) (fnum : Z) : res (list Z) :=
  let vnum := prodZ shape in
  if negb (morph_shape_ok shape) then Err ErrValue
  else if I4MAX <? vnum then Err ErrValue
  else if negb ((I4MIN <=? fnum) && (fnum <=? I4MAX)) then Err ErrValue
  else Ok ([255; 255; 255] ++ i4 vnum ++ i4 fnum ++ i4 1 ++ flat_map u4 values).

Definition read_morph (f : list Z) : res (list Z) :=
  match fread3 f with
  | Err e => Err e
  | Ok (magic, f1) =>
    if magic =? 16777215 then
      match fromfile 4 3 f1 with
      | (c :: _, f2) =>
        let vnum := rd_i c in
        if vnum <? 0 then Err ErrValue
        else Ok (map rd_u (fst (fromfile 4 vnum f2)))     (* short file: fewer values, silently *)
      | ([], _) => Err ErrShort
      end
    else Err ErrNotModelled                              (* old int16/100 format *)
  end.

(* ------------------------------------------------------------------ annotation *)
(* integer arithmetic of a NumPy dtype: None = exact (Python ints / float64 on small values),
   Some (bits, signed) = wraps like that integer type *)
Definition wrap (dt : option (Z * bool)) (z : Z) : Z :=
  match dt with
  | None => z
  | Some (bits, signed) =>
    let m := z mod 2 ^ bits in
    if signed && (2 ^ (bits - 1) <=? m) then m - 2 ^ bits else m
  end.
(* _pack_rgb: for an integer/bool rgb the factors and the dot product are computed in
   np.result_type(rgb.dtype, np.int32): int32 for every type narrower than 32 bits and for int32,
   int64 for uint32 and int64, float64 (exact here) for uint64 *)
Definition promote (dt : option (Z * bool)) : option (Z * bool) :=
  match dt with
  | None => None
  | Some (bits, signed) =>
    if bits <? 32 then Some (32, true)
    else if bits =? 32 then (if signed then Some (32, true) else Some (64, true))
    else if signed then Some (64, true) else None
  end.
Definition pack_rgb_raw (dt : option (Z * bool)) (row : list Z) : Z :=
  wrap dt (nth 0 row 0 * wrap dt 1 + nth 1 row 0 * wrap dt 256 + nth 2 row 0 * wrap dt 65536).
Definition pack_rgb (dt : option (Z * bool)) (row : list Z) : Z := pack_rgb_raw (promote dt) row.

Definition I32 : option (Z * bool) := Some (32, true).

(* Python/NumPy indexing with one integer *)
Definition py_index {A} (l : list A) (i : Z) : option A :=
  let n := zlen l in
  if (0 <=? i) && (i <? n) then nth_error l (Z.to_nat i)
  else if (- n <=? i) && (i <? 0) then nth_error l (Z.to_nat (n + i))
  else None.

Fixpoint map_opt {A B} (f : A -> option B) (l : list A) : option (list B) :=
  match l with
  | [] => Some []
  | x :: r => match f x, map_opt f r with Some y, Some ys => Some (y :: ys) | _, _ => None end
  end.

Definition wstring (s : list Z) : list Z := i4 (zlen s + 1) ++ s ++ [0].
Definition NOFILE : list Z := [78;79;70;73;76;69].

Definition maxZ (l : list Z) : Z := fold_right Z.max (hd 0 l) l.

Fixpoint zseq (start : Z) (n : nat) : list Z :=
  match n with O => [] | S n' => start :: zseq (start + 1) n' end.

(* write_annot: rows of ctab have 4 or 5 columns; names are already bytes *)
Definition write_annot (dt : option (Z * bool)) (labels : list Z) (ctab : list (list Z))
  (names : list (list Z)) (fill_ctab : bool) : res (list Z) :=
  let ctab5 := if fill_ctab then map (fun row => firstn 4 row ++ [pack_rgb dt row]) ctab else ctab in
  if negb (forallb (fun row => (length row =? 5)%nat) ctab5) then Err ErrIndex
  else
    let vnum := zlen labels in
    let lastcol := map (fun row => nth 4 row 0) ctab5 in
    match map_opt (py_index lastcol) labels with                 (* ctab[:, -1][labels] *)
    | None => Err ErrIndex
    | Some cl =>
      let clut := map (fun lc => if fst lc =? -1 then 0 else snd lc) (combine labels cl) in
      match labels with
      | [] => Err ErrValue                                       (* np.max of an empty array *)
      | _ =>
        let n := zlen ctab5 in
        Ok (i4 vnum
            ++ flat_map (fun ic => i4 (fst ic) ++ i4 (snd ic)) (combine (zseq 0 (length labels)) clut)
            ++ i4 1 ++ i4 (-2) ++ i4 (Z.max (maxZ labels + 1) n)
            ++ wstring NOFILE ++ i4 n
            ++ flat_map (fun e => i4 (fst e) ++ wstring (snd (snd e)) ++ flat_map i4 (firstn 4 (fst (snd e))))
                 (combine (zseq 0 (length ctab5)) (combine ctab5 names)))
      end
    end.

(* np.fromfile(fobj, '|S{n}', 1)[0]: n bytes, trailing NULs dropped *)
Definition read_S (n : Z) (f : list Z) : res (list Z * list Z) :=
  if n <? 0 then Err ErrValue
  else if zlen f <? n then Err ErrShort
  else if n =? 0 then Err ErrNotModelled
  else Ok (rstrip0 (take n f), drop n f).

Fixpoint set_nth {A} (n : nat) (x : A) (l : list A) : list A :=
  match l, n with
  | [], _ => []
  | _ :: r, O => x :: r
  | y :: r, S n' => y :: set_nth n' x r
  end.

(* the loop of _read_annot_ctab_new_format *)
Fixpoint read_entries (n : nat) (f : list Z) (ctab : list (list Z)) (names : list (list Z))
  : res (list (list Z) * list (list Z)) :=
  match n with
  | O => Ok (ctab, rev names)
  | S n' =>
    match read1 f with
    | Err e => Err e
    | Ok (idx, f1) =>
      match read1 f1 with
      | Err e => Err e
      | Ok (nlen, f2) =>
        match read_S nlen f2 with
        | Err e => Err e
        | Ok (name, f3) =>
          let '(cs, f4) := fromfile 4 4 f3 in
          if negb (length cs =? 4)%nat then Err ErrShort
          else
            let m := zlen ctab in
            let i := if idx <? 0 then m + idx else idx in
            if (i <? 0) || (m <=? i) then Err ErrIndex
            else read_entries n' f4 (set_nth (Z.to_nat i) (map rd_i cs ++ [0]) ctab) (name :: names)
        end
      end
    end
  end.

(* np.argsort / np.searchsorted(side='left') on the annotation-value column *)
Fixpoint insert_pair (p : Z * Z) (l : list (Z * Z)) : list (Z * Z) :=
  match l with
  | [] => [p]
  | q :: r => if fst p <=? fst q then p :: l else q :: insert_pair p r
  end.
Definition sort_pairs (l : list (Z * Z)) : list (Z * Z) := fold_right insert_pair [] l.
Fixpoint searchsorted (l : list Z) (v : Z) : nat :=
  match l with
  | [] => O
  | a :: r => if a <? v then S (searchsorted r v) else O
  end.

Definition relabel (packed : list Z) (l : Z) : option Z :=
  if l =? 0 then Some (-1)
  else
    let s := sort_pairs (combine packed (zseq 0 (length packed))) in
    match nth_error (map snd s) (searchsorted (map fst s) l) with
    | Some i => Some i
    | None => None
    end.

Record annot := mkA { alabels : list Z; actab : list (list Z); anames : list (list Z) }.

Fixpoint pairs_second (cs : list (list Z)) : list Z :=
  match cs with
  | _ :: b :: r => rd_i b :: pairs_second r
  | _ => []
  end.

Definition read_annot (orig_ids : bool) (f : list Z) : res annot :=
  match read1 f with
  | Err e => Err e
  | Ok (vnum, f1) =>
    if vnum <? 0 then Err ErrValue
    else
      let '(cs, f2) := fromfile 4 (vnum * 2) f1 in
      if negb (zlen cs =? vnum * 2) then Err ErrShort
      else
        let labels := pairs_second cs in
        match read1 f2 with
        | Err e => Err e
        | Ok (ctab_exists, f3) =>
          if ctab_exists =? 0 then Err ErrNoCtab
          else
            match read1 f3 with
            | Err e => Err e
            | Ok (n_entries, f4) =>
              if 0 <? n_entries then Err ErrNotModelled        (* old-style colour table *)
              else if negb (- n_entries =? 2) then Err ErrVersion
              else
                match read1 f4 with
                | Err e => Err e
                | Ok (max_index, f5) =>
                  if max_index <? 0 then Err ErrValue
                  else
                    match read1 f5 with
                    | Err e => Err e
                    | Ok (len, f6) =>
                      match read_S len f6 with
                      | Err e => Err e
                      | Ok (_, f7) =>
                        match read1 f7 with
                        | Err e => Err e
                        | Ok (nread, f8) =>
                          match read_entries (Z.to_nat nread) f8
                                  (repeat [0;0;0;0;0] (Z.to_nat max_index)) [] with
                          | Err e => Err e
                          | Ok (ctab0, names) =>
                            let ctab := map (fun row => firstn 4 row ++ [pack_rgb I32 row]) ctab0 in
                            if orig_ids then Ok (mkA labels ctab names)
                            else
                              match map_opt (relabel (map (fun row => nth 4 row 0) ctab)) labels with
                              | None => Err ErrIndex
                              | Some ls => Ok (mkA ls ctab names)
                              end
                          end
                        end
                      end
                    end
                end
            end
        end
  end.

(* ------------------------------------------------------------------ MGH header, footer, layout *)
(* hints: version, dims[4], type, dof; hflags: goodRASFlag; hfloats: delta[3], Mdc[9], Pxyz_c[3];
   hfooter: tr, flip_angle, te, ti, fov (bit patterns) *)
Record mgh := mkM { hints : list Z; hgood : Z; hfloats : list Z; hfooter : list Z }.
Definition mdims (m : mgh) : list Z := firstn 4 (skipn 1 (hints m)).
Definition mtype (m : mgh) : Z := nth 5 (hints m) 0.
Definition mversion (m : mgh) : Z := nth 0 (hints m) 0.
Definition mdelta (m : mgh) : list Z := firstn 3 (hfloats m).
Definition mtr (m : mgh) : Z := nth 0 (hfooter m) 0.

(* data_type_codes.bytespervox *)
Definition bytespervox (tp : Z) : option Z :=
  if tp =? 0 then Some 1 else if tp =? 4 then Some 2 else if tp =? 1 then Some 4
  else if tp =? 3 then Some 4 else None.

Definition DATA_OFFSET : Z := 284.
Definition hdr_bytes (m : mgh) : list Z := flat_map i4 (hints m) ++ i2 (hgood m) ++ flat_map u4 (hfloats m).

(* MGHImage.to_file_map: writehdr_to at 0, data at 284 (gap zero filled), writeftr_to after it *)
Definition mgh_write (m : mgh) (data : list Z) : list Z :=
  let h := hdr_bytes m in
  h ++ zeros (DATA_OFFSET - zlen h) ++ data ++ flat_map u4 (hfooter m).

Definition ONE_F32 : Z := 1065353216.          (* 1.0 *)
Definition MONE_F32 : Z := 3212836864.         (* -1.0 *)
Definition DEFAULT_FLOATS : list Z :=
  [ONE_F32; ONE_F32; ONE_F32; MONE_F32; 0; 0; 0; 0; ONE_F32; 0; MONE_F32; 0; 0; 0; 0].

(* MGHHeader.from_fileobj + __init__ (+ check_fix) and the data chunk *)
Definition mgh_read (f : list Z) : res (mgh * list Z) :=
  if zlen f <? 90 then Err ErrShort
  else
    let '(ci, f1) := fromfile 4 7 f in
    let ints := map rd_i ci in
    let good := dec_s true (take 2 f1) in
    let '(cf, _) := fromfile 4 15 (drop 2 f1) in
    let dims := firstn 4 (skipn 1 ints) in
    if existsb (fun d => d =? 0) dims then Err ErrHeader
    else
      match bytespervox (nth 5 ints 0) with
      | None => Err ErrIndex
      | Some bpv =>
        let size := bpv * prodZ dims in
        let ftr_raw := take 20 (drop (DATA_OFFSET + size) f) in
        let ftr := ftr_raw ++ zeros (20 - zlen ftr_raw) in          (* right zero-pad *)
        let '(cft, _) := fromfile 4 5 ftr in
        let floats := if good =? 0 then DEFAULT_FLOATS else map rd_u cf in
        let good' := if good =? 0 then 1 else good in
        if negb (nth 0 ints 0 =? 1) then Err ErrHeader             (* chk_version *)
        else if (size <? 0) || (zlen f <? DATA_OFFSET + size) then Err ErrShort
        else Ok (mkM ints good' floats (map rd_u cft), take size (drop DATA_OFFSET f))
      end.

(* set_data_shape / get_data_shape / _ndims / get_zooms *)
Definition set_data_shape (shape : list Z) : res (list Z) :=
  if (4 <? length shape)%nat then Err ErrValue
  else Ok (shape ++ repeat 1 (4 - length shape)).
Definition get_data_shape (dims : list Z) : list Z :=
  if nth 3 dims 0 =? 1 then firstn 3 dims else dims.
Definition ndims (dims : list Z) : Z := 3 + (if 1 <? nth 3 dims 0 then 1 else 0).
Definition get_zooms (m : mgh) : list Z :=
  mdelta m ++ (if 3 <? ndims (mdims m) then [mtr m] else []).

(* ------------------------------------------------------------------ saving onto a file an array is mapped from
   MGHImage.to_file_map: data = unmap_if_target(np.asanyarray(self.dataobj), file_map); then the
   file is opened 'wb' (truncated), header written, array_to_file(data) at 284, footer.
   An array is either in memory (Own) or a memory map of (name, offset, length): its value is
   whatever the file holds WHEN it is read. *)
Inductive buffer := Own (b : list Z) | Mapped (name off len : Z).
Definition fsys := list (Z * list Z).
Fixpoint fs_get (fs : fsys) (name : Z) : option (list Z) :=
  match fs with
  | [] => None
  | (n, b) :: r => if n =? name then Some b else fs_get r name
  end.
Definition fs_set (fs : fsys) (name : Z) (b : list Z) : fsys := (name, b) :: fs.

(* reading a buffer now; a map reaching past the end of its file is undefined (ErrAlias) *)
Definition buf_read (fs : fsys) (buf : buffer) : res (list Z) :=
  match buf with
  | Own b => Ok b
  | Mapped name off len =>
    match fs_get fs name with
    | Some f => if (0 <=? off) && (0 <=? len) && (off + len <=? zlen f) then Ok (take len (drop off f)) else Err ErrAlias
    | None => Err ErrAlias
    end
  end.
Definition aliases (buf : buffer) (target : Z) : bool :=
  match buf with Own _ => false | Mapped name _ _ => name =? target end.

(* `copies` = the writer's decision to copy the array before opening the target;
   unmap_if_target makes it true exactly when the array is a memmap of the target *)
Definition mgh_save (fs : fsys) (target : Z) (m : mgh) (buf : buffer) (copies : bool) : res fsys :=
  let step (b : buffer) : res fsys :=
    let h := hdr_bytes m in
    let fs1 := fs_set fs target (h ++ zeros (DATA_OFFSET - zlen h)) in       (* 'wb', header, seek(284) *)
    match buf_read fs1 b with
    | Err e => Err e
    | Ok data => Ok (fs_set fs target (mgh_write m data))
    end in
  if copies then
    match buf_read fs buf with
    | Err e => Err e
    | Ok v => step (Own v)
    end
  else step buf.
Definition unmap_if_target_decision (buf : buffer) (target : Z) : bool := aliases buf target.
