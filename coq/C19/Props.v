(* C19/Props.v — property theorems only.  Property C19: FreeSurfer surface, morphometry,
   annotation and MGH files round-trip.  Floats are 32-bit patterns (u32_ok), integers fit
   '>i4' (i32_ok); files are lists of bytes. *)
From Coq Require Import ZArith List Bool Lia.
From NV Require Import Base.Bytes C19.Model C19.Lemmas.
Import ListNotations.
Open Scope Z_scope.

(* triangle surface: any stamp without a newline, 0..2^31-1 vertices and faces, any coordinate
   bit patterns (NaN payloads, infinities, -0 included), any int32 face entries, no volume info
   or a well-formed one (head [20] or [2,0,20]; strings without '=', newline or outer blanks;
   numeric values as non-empty blank-free tokens): read back exactly, with or without
   read_metadata *)
Theorem C19_geometry_roundtrip : forall meta stamp nv nf coords faces vi,
  ~ In 10 stamp -> 0 <= nv < 2 ^ 31 -> 0 <= nf < 2 ^ 31 ->
  zlen coords = nv * 3 -> zlen faces = nf * 3 ->
  Forall u32_ok coords -> Forall i32_ok faces -> vi_wf vi ->
  read_geometry meta (write_geometry stamp nv nf coords faces vi)
  = Ok (mkG stamp nv nf coords faces (if meta then vi else None)).
Proof. exact geometry_roundtrip. Qed.
Print Assumptions C19_geometry_roundtrip.

(* the volume-info footer alone, followed by anything *)
Theorem C19_volume_info_roundtrip : forall v rest, wf_vinfo v ->
  read_volume_info (serialize_volume_info v ++ rest) = Ok (Some v, rest).
Proof. exact read_volume_info_ok. Qed.
Print Assumptions C19_volume_info_roundtrip.

(* morphometry: every accepted shape (n,), (n,1), (1,n), (n,1,1) with n = 0 included, any
   fnum in int32, any value bit patterns; every other shape is refused before writing *)
Theorem C19_morph_roundtrip : forall n shape values fnum,
  In shape (morph_shapes n) -> 0 <= n <= I4MAX -> I4MIN <= fnum <= I4MAX ->
  zlen values = n -> Forall u32_ok values ->
  exists b, write_morph shape values fnum = Ok b /\ read_morph b = Ok values.
Proof. exact morph_roundtrip. Qed.
Print Assumptions C19_morph_roundtrip.

Theorem C19_morph_refusal : forall shape values fnum,
  morph_shape_ok shape = false -> write_morph shape values fnum = Err ErrValue.
Proof. exact morph_refused. Qed.
Print Assumptions C19_morph_refusal.

(* annotation: >= 1 vertex, labels in {-1} + [0, n), n >= 1 colours with R,G,B in 0..255 whose
   packed values are pairwise distinct AND non-zero, names without trailing NUL, a colour table of
   ANY integer dtype (uint8 ... int64; _pack_rgb computes in result_type(dtype, int32)): labels
   (incl. -1), colour table (with the packed fifth column) and names read back equal *)
Theorem C19_annot_roundtrip : forall dt labels ctab names,
  labels <> [] -> zlen labels * 2 < 2 ^ 31 -> 1 <= zlen ctab < 2 ^ 31 -> length names = length ctab ->
  ctab_ok ctab -> Forall name_ok names -> Forall (label_ok (zlen ctab)) labels ->
  NoDup (map epack ctab) -> ~ In 0 (map epack ctab) ->
  exists b, write_annot dt labels ctab names true = Ok b
    /\ read_annot false b = Ok (mkA labels (fill ctab) names).
Proof. exact annot_roundtrip_any. Qed.
Print Assumptions C19_annot_roundtrip.

(* _pack_rgb is exact for every integer dtype of the table (the repaired S-C19b) *)
Theorem C19_pack_rgb_any_dtype : forall dt row, rgb_ok row -> pack_rgb dt row = epack row.
Proof. exact pack_rgb_exact. Qed.
Print Assumptions C19_pack_rgb_any_dtype.

(* without "non-zero": a label whose colour packs to 0 (black) reads back as -1 (S-C19a) *)
Theorem C19_annot_black_refuted :
  exists labels ctab names b a,
    write_annot None labels ctab names true = Ok b /\ read_annot false b = Ok a
    /\ NoDup (map epack ctab) /\ Forall (label_ok (zlen ctab)) labels /\ alabels a <> labels.
Proof. exact annot_black_refuted. Qed.
Print Assumptions C19_annot_black_refuted.

(* MGH: header (version, dims, type, dof, goodRASFlag, delta, Mdc, Pxyz_c), data chunk and
   footer (tr, flip_angle, te, ti, fov) read back exactly; a 3-D shape, or a 4-D shape whose
   last dimension exceeds 1, survives set_data_shape/get_data_shape with the right
   dimensionality; get_zooms is delta, plus TR exactly for 4-D volumes *)
Theorem C19_mgh_shape_zooms :
  (forall m data, wf_mgh m data -> mgh_read (mgh_write m data) = Ok (m, data))
  /\ (forall shape, Forall (fun d => 0 < d) shape ->
        (length shape = 3%nat \/ (length shape = 4%nat /\ 1 < nth 3 shape 0)) ->
        exists dims, set_data_shape shape = Ok dims /\ get_data_shape dims = shape
                     /\ ndims dims = Z.of_nat (length shape))
  /\ (forall m, get_zooms m = mdelta m ++ (if 1 <? nth 3 (mdims m) 0 then [mtr m] else [])).
Proof. exact (conj mgh_roundtrip (conj shape_roundtrip zooms_of)). Qed.
Print Assumptions C19_mgh_shape_zooms.

(* 1-D and 2-D shapes come back padded to 3-D (S-C01a) *)
Theorem C19_mgh_lowdim_refuted :
  exists shape dims, Forall (fun d => 0 < d) shape /\ set_data_shape shape = Ok dims /\ get_data_shape dims <> shape.
Proof. exact shape_padded_refuted. Qed.
Print Assumptions C19_mgh_lowdim_refuted.

(* saving onto a file that the array being saved is memory-mapped from.  A buffer is in memory
   or a map of (file, offset, length) whose value is what the file holds when it is read; the writer
   opens the target 'wb' (truncating it) before it reads the array.  Under the contract of
   unmap_if_target - copy every array that aliases the target first - the target afterwards decodes
   to header m and exactly the value the array had before the save, and no other file changes;
   MGHImage.to_file_map's decision (copy iff the array is a map of the target) meets the contract *)
Theorem C19_mgh_save_onto_mapped_file : forall fs target m buf copies value,
  wf_mgh m value -> buf_read fs buf = Ok value ->
  (aliases buf target = true -> copies = true) ->
  exists fs', mgh_save fs target m buf copies = Ok fs'
    /\ fs_get fs' target = Some (mgh_write m value)
    /\ (forall f, fs_get fs' target = Some f -> mgh_read f = Ok (m, value))
    /\ (forall n, n <> target -> fs_get fs' n = fs_get fs n).
Proof. exact mgh_save_contract. Qed.
Print Assumptions C19_mgh_save_onto_mapped_file.

Theorem C19_mgh_save_unmap_if_target : forall fs target m buf value,
  wf_mgh m value -> buf_read fs buf = Ok value ->
  exists fs', mgh_save fs target m buf (unmap_if_target_decision buf target) = Ok fs'
    /\ (forall f, fs_get fs' target = Some f -> mgh_read f = Ok (m, value)).
Proof. exact mgh_save_unmap. Qed.
Print Assumptions C19_mgh_save_unmap_if_target.

(* a writer that skips the copy for a map of the target's data region reads it after the truncation *)
Theorem C19_mgh_save_without_copy_refuted : forall fs target m len,
  0 < len -> zlen (hdr_bytes m) <= DATA_OFFSET ->
  mgh_save fs target m (Mapped target DATA_OFFSET len) false = Err ErrAlias.
Proof. exact mgh_save_alias_refuted. Qed.
Print Assumptions C19_mgh_save_without_copy_refuted.

(* non-vacuity: concrete inputs (a uint8 colour table) meet the hypotheses of the annotation and
   volume-info theorems *)
Example C19_nonvacuous :
  let ctab := [[25; 5; 25; 0]; [220; 20; 10; 255]; [0; 0; 1; 7]] in
  let names := [[117; 110; 107]; []; [98; 32; 99]] in
  let labels := [2; -1; 0; 1; 1] in
  ctab_ok ctab /\ Forall name_ok names /\ Forall (label_ok (zlen ctab)) labels
  /\ NoDup (map epack ctab) /\ ~ In 0 (map epack ctab)
  /\ (exists b, write_annot (Some (8, false)) labels ctab names true = Ok b
                /\ read_annot false b = Ok (mkA labels (fill ctab) names))
  /\ wf_vinfo (mkV [2; 0; 20] [49; 32; 118] [97; 46; 109]
                   [[[50; 53]; [49]]; [[48; 46; 53]]; [[45; 49]; [48]]; []; [[48]]; [[49; 101; 45; 48; 53]]]).
Proof. exact nonvacuous_instance. Qed.
