(* C19 driver body (after `open C19_model` and drvlib.ml).  Ops: see harness/c19.py. *)
let zl = zlist_of_string
let sl = string_of_zlist
let hx = bytes_of_hex
let xh = hex_of_bytes
let split c s = if s = "-" || s = "" then [] else String.split_on_char c s
let string_of_ferr = function
  | ErrShort -> "short" | ErrMagic -> "magic" | ErrNotModelled -> "not_modelled" | ErrVolInfo -> "volinfo"
  | ErrNoCtab -> "noctab" | ErrVersion -> "version" | ErrIndex -> "index" | ErrValue -> "value" | ErrHeader -> "header" | ErrAlias -> "alias"
(* vinfo: "<head> <validhex> <filenamehex> <x..,x..,x../x..,..>" *)
let vinfo_of head valid fname nums =
  { vhead = zl head; vvalid = hx valid; vfilename = hx fname;
    vnums = List.map (fun g -> List.map hx (split ',' g)) (split '/' nums) }
let string_of_vinfo v =
  "head=" ^ sl v.vhead ^ " valid=" ^ xh v.vvalid ^ " filename=" ^ xh v.vfilename ^ " nums=" ^
  String.concat "/" (List.map (fun g -> String.concat "," (List.map xh g)) v.vnums)
let dt_of s = if s = "-" then None else
  (match String.split_on_char ':' s with
   | [b; sg] -> Some (z_of_string b, bool_of_string sg)
   | _ -> failwith "bad dtype")
let rows_of s = List.map zl (split '/' s)
let string_of_rows r = if r = [] then "-" else String.concat "/" (List.map sl r)
let names_of s = List.map hx (split ',' s)
let string_of_names n = if n = [] then "-" else String.concat "," (List.map xh n)
let handle op args = match op, args with
  | "gw", [stamp; nv; nf; coords; faces] ->
    "ok " ^ xh (write_geometry (hx stamp) (z_of_string nv) (z_of_string nf) (zl coords) (zl faces) None)
  | "gw", [stamp; nv; nf; coords; faces; head; valid; fname; nums] ->
    "ok " ^ xh (write_geometry (hx stamp) (z_of_string nv) (z_of_string nf) (zl coords) (zl faces)
                  (Some (vinfo_of head valid fname nums)))
  | "gr", [meta; h] ->
    (match read_geometry (bool_of_string meta) (hx h) with
     | Ok g -> "ok stamp=" ^ xh g.gstamp ^ " " ^ string_of_z g.gnv ^ " " ^ string_of_z g.gnf ^
               " coords=" ^ sl g.gcoords ^ " faces=" ^ sl g.gfaces ^ " vi=" ^
               (match g.gvinfo with None -> "-" | Some v -> string_of_vinfo v)
     | Err e -> "err " ^ string_of_ferr e)
  | "mw", [shape; values; fnum] ->
    (match write_morph (zl shape) (zl values) (z_of_string fnum) with
     | Ok b -> "ok " ^ xh b | Err e -> "err " ^ string_of_ferr e)
  | "mr", [h] ->
    (match read_morph (hx h) with Ok v -> "ok " ^ sl v | Err e -> "err " ^ string_of_ferr e)
  | "aw", [dt; labels; ctab; names; fill] ->
    (match write_annot (dt_of dt) (zl labels) (rows_of ctab) (names_of names) (bool_of_string fill) with
     | Ok b -> "ok " ^ xh b | Err e -> "err " ^ string_of_ferr e)
  | "ar", [orig; h] ->
    (match read_annot (bool_of_string orig) (hx h) with
     | Ok a -> "ok labels=" ^ sl a.alabels ^ " ctab=" ^ string_of_rows a.actab ^ " names=" ^ string_of_names a.anames
     | Err e -> "err " ^ string_of_ferr e)
  | "pack", [dt; row] -> "ok " ^ string_of_z (pack_rgb (dt_of dt) (zl row))
  | "hw", [ints; good; floats; footer; data] ->
    "ok " ^ xh (mgh_write { hints = zl ints; hgood = z_of_string good; hfloats = zl floats; hfooter = zl footer } (hx data))
  | "hr", [h] ->
    (match mgh_read (hx h) with
     | Ok (m, d) -> "ok ints=" ^ sl m.hints ^ " good=" ^ string_of_z m.hgood ^ " floats=" ^ sl m.hfloats ^
                    " footer=" ^ sl m.hfooter ^ " shape=" ^ sl (get_data_shape (mdims m)) ^
                    " zooms=" ^ sl (get_zooms m) ^ " data=" ^ xh d
     | Err e -> "err " ^ string_of_ferr e)
  | "hsave", [mapped; copies; ints; good; floats; footer; data] ->
    (* file 1 holds an MGH file with these fields; the buffer is a map of its data region (mapped=1)
       or an in-memory copy; save onto file 1 *)
    let m = { hints = zl ints; hgood = z_of_string good; hfloats = zl floats; hfooter = zl footer } in
    let d = hx data in
    let one = z_of_int 1 in
    let fs = [ (one, mgh_write m d) ] in
    let buf = if bool_of_string mapped then Mapped (one, z_of_int 284, z_of_int (List.length d)) else Own d in
    (match mgh_save fs one m buf (bool_of_string copies) with
     | Ok fs2 -> (match fs_get fs2 one with Some f -> "ok " ^ xh f | None -> "err nofile")
     | Err e -> "err " ^ string_of_ferr e)
  | "shape", [s] ->
    (match set_data_shape (zl s) with
     | Ok d -> "ok dims=" ^ sl d ^ " shape=" ^ sl (get_data_shape d) ^ " ndims=" ^ string_of_z (ndims d)
     | Err e -> "err " ^ string_of_ferr e)
  | "mshape", [s] -> "ok " ^ string_of_bool (morph_shape_ok (zl s))
  | _ -> "err driver:badop"
let () = run_lines handle
