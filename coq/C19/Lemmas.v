(* C19/Lemmas.v — proofs about C19/Model.v *)
From Coq Require Import ZArith List Bool Lia ZifyBool.
From NV Require Import Base.Bytes C19.Model.
Import ListNotations.
Open Scope Z_scope.

(* ------------------------------------------------------------------ codecs *)
Definition u32_ok (z : Z) : Prop := 0 <= z < 2 ^ 32.
Definition i32_ok (z : Z) : Prop := - 2 ^ 31 <= z < 2 ^ 31.

Lemma zlen_nonneg {A} (l : list A) : 0 <= zlen l.
Proof. unfold zlen; lia. Qed.
Lemma zlen_app {A} (a b : list A) : zlen (a ++ b) = zlen a + zlen b.
Proof. unfold zlen. rewrite app_length. lia. Qed.
Lemma zlen_cons {A} (x : A) l : zlen (x :: l) = 1 + zlen l.
Proof. unfold zlen. cbn [length]. lia. Qed.
Lemma to_nat_zlen {A} (l : list A) : Z.to_nat (zlen l) = length l.
Proof. unfold zlen. apply Nat2Z.id. Qed.

Lemma pow256_4 : pow256 4 = 2 ^ 32. Proof. reflexivity. Qed.
Lemma pow256_4_half : pow256 4 / 2 = 2 ^ 31. Proof. reflexivity. Qed.

Lemma i4_length z : length (i4 z) = 4%nat.
Proof. unfold i4, enc_s. apply enc_length. Qed.
Lemma u4_length z : length (u4 z) = 4%nat.
Proof. unfold u4. apply enc_length. Qed.
Lemma rd_i4 z : i32_ok z -> rd_i (i4 z) = z.
Proof. intros H. unfold rd_i, i4. apply dec_s_enc_s; [lia|]. rewrite pow256_4_half. exact H. Qed.
Lemma rd_u4 z : u32_ok z -> rd_u (u4 z) = z.
Proof. intros H. unfold rd_u, u4. apply dec_enc. rewrite pow256_4. exact H. Qed.

Lemma map_rd_i4 l : Forall i32_ok l -> map rd_i (map i4 l) = l.
Proof. induction 1; cbn [map]; [reflexivity|]. now rewrite rd_i4, IHForall. Qed.
Lemma map_rd_u4 l : Forall u32_ok l -> map rd_u (map u4 l) = l.
Proof. induction 1; cbn [map]; [reflexivity|]. now rewrite rd_u4, IHForall. Qed.

(* np.fromfile on the concatenation of fixed-width items *)
Lemma chunks_flat_map {A} (g : A -> list Z) (w : nat) l rest :
  (0 < w)%nat -> (forall x, length (g x) = w) ->
  chunks w (length l) (flat_map g l ++ rest) = (map g l, rest).
Proof.
  intros Hw Hg. induction l as [|x l IH]; [reflexivity|].
  cbn [length chunks flat_map map]. rewrite <- app_assoc.
  assert (Hlen : (length (g x ++ flat_map g l ++ rest) <? w)%nat = false).
  { apply Nat.ltb_ge. rewrite app_length, Hg. lia. }
  rewrite Hlen.
  set (R := flat_map g l ++ rest) in *.
  assert (Hf : firstn w (g x ++ R) = g x).
  { rewrite <- (Hg x). rewrite firstn_app, Nat.sub_diag, firstn_all. cbn [firstn]. apply app_nil_r. }
  assert (Hs : skipn w (g x ++ R) = R).
  { rewrite <- (Hg x). rewrite skipn_app, Nat.sub_diag, skipn_all. reflexivity. }
  rewrite Hf, Hs, IH. reflexivity.
Qed.

Lemma fromfile_flat_map {A} (g : A -> list Z) (w : nat) l rest n :
  (0 < w)%nat -> (forall x, length (g x) = w) -> n = zlen l ->
  fromfile w n (flat_map g l ++ rest) = (map g l, rest).
Proof. intros Hw Hg ->. unfold fromfile. rewrite to_nat_zlen. now apply chunks_flat_map. Qed.

Lemma fromfile_i4 l rest n : n = zlen l -> fromfile 4 n (flat_map i4 l ++ rest) = (map i4 l, rest).
Proof. apply fromfile_flat_map; [lia|apply i4_length]. Qed.
Lemma fromfile_u4 l rest n : n = zlen l -> fromfile 4 n (flat_map u4 l ++ rest) = (map u4 l, rest).
Proof. apply fromfile_flat_map; [lia|apply u4_length]. Qed.

Lemma read1_i4 z rest : i32_ok z -> read1 (i4 z ++ rest) = Ok (z, rest).
Proof.
  intros H. unfold read1.
  pose proof (fromfile_i4 [z] rest 1 eq_refl) as E. cbn [flat_map map] in E. rewrite app_nil_r in E.
  rewrite E. now rewrite rd_i4.
Qed.

Lemma zlen_map {A B} (f : A -> B) l : zlen (map f l) = zlen l.
Proof. unfold zlen. now rewrite map_length. Qed.

(* ------------------------------------------------------------------ text *)
Lemma readline_line s r : ~ In 10 s -> readline (s ++ 10 :: r) = (s ++ [10], r).
Proof.
  induction s as [|c s IH]; intros H; cbn [app readline].
  - reflexivity.
  - destruct (Z.eqb_spec c 10) as [->|]; [exfalso; apply H; now left|].
    rewrite IH; [reflexivity|]. intros Hin. apply H. now right.
Qed.

Lemma dropwhile_head p c l : p c = false -> dropwhile p (c :: l) = c :: l.
Proof. intros H. cbn. now rewrite H. Qed.

Lemma rstrip_by_app_one p s c : p c = true -> rstrip_by p (s ++ [c]) = rstrip_by p s.
Proof. intros H. unfold rstrip_by. rewrite rev_app_distr. cbn [rev app dropwhile]. now rewrite H. Qed.

Lemma rstrip_by_clean p s : (forall a t, s = t ++ [a] -> p a = false) -> rstrip_by p s = s.
Proof.
  intros H. unfold rstrip_by. destruct (rev s) as [|a t] eqn:E.
  - cbn. destruct s; [reflexivity|]. apply (f_equal (@length Z)) in E. rewrite rev_length in E. discriminate.
  - assert (Hs : s = rev t ++ [a]) by (rewrite <- (rev_involutive s), E; reflexivity).
    rewrite (dropwhile_head p a t (H a (rev t) Hs)). rewrite <- E. apply rev_involutive.
Qed.

Lemma rstrip_nl_stamp s : ~ In 10 s -> rstrip_by is_nl (s ++ [10]) = s.
Proof.
  intros H. rewrite rstrip_by_app_one by reflexivity. apply rstrip_by_clean.
  intros a t E. unfold is_nl. destruct (Z.eqb_spec a 10) as [->|]; [|reflexivity].
  exfalso. apply H. rewrite E. apply in_or_app. right. now left.
Qed.

Lemma split_on_nonempty sep l : split_on sep l <> [].
Proof.
  induction l as [|c l IH]; cbn; [discriminate|].
  destruct (split_on sep l); [congruence|]. destruct (c =? sep); discriminate.
Qed.

Lemma split_on_notin sep a : ~ In sep a -> split_on sep a = [a].
Proof.
  induction a as [|c a IH]; intros H; cbn; [reflexivity|].
  rewrite IH by (intros Hin; apply H; now right).
  destruct (Z.eqb_spec c sep) as [->|]; [exfalso; apply H; now left|reflexivity].
Qed.

Lemma split_on_app sep a b : ~ In sep a -> split_on sep (a ++ sep :: b) = a :: split_on sep b.
Proof.
  induction a as [|c a IH]; intros H; cbn [app split_on].
  - destruct (split_on sep b) eqn:E; [now apply split_on_nonempty in E|]. now rewrite Z.eqb_refl.
  - rewrite IH by (intros Hin; apply H; now right).
    destruct (Z.eqb_spec c sep) as [->|]; [exfalso; apply H; now left|reflexivity].
Qed.

(* a value string the reader returns unchanged: no newline, no '=', no blank at either end *)
Definition clean_str (s : list Z) : Prop :=
  ~ In 10 s /\ ~ In 61 s /\ (forall a t, s = a :: t -> is_space a = false)
  /\ (forall a t, s = t ++ [a] -> is_space a = false).
(* a token of a numeric value *)
Definition good_tok (t : list Z) : Prop :=
  t <> [] /\ Forall (fun c => is_space c = false /\ c <> 61) t.

Lemma strip_clean v : clean_str v -> strip (32 :: v ++ [10]) = v.
Proof.
  intros (_ & _ & Hh & Ht). unfold strip. cbn [dropwhile]. change (is_space 32) with true. cbn iota.
  destruct v as [|a v].
  - reflexivity.
  - cbn [app]. rewrite (dropwhile_head is_space a _ (Hh a v eq_refl)).
    change (a :: v ++ [10]) with ((a :: v) ++ [10]).
    rewrite rstrip_by_app_one by reflexivity. now apply rstrip_by_clean.
Qed.

Lemma split_ws_aux_tok t cur r : Forall (fun c => is_space c = false /\ c <> 61) t ->
  split_ws_aux (t ++ r) cur = split_ws_aux r (rev t ++ cur).
Proof.
  revert cur. induction t as [|c t IH]; intros cur H; [reflexivity|].
  inversion H as [|? ? [Hc _] Ht]; subst. cbn [app split_ws_aux]. rewrite Hc, IH by assumption.
  cbn [rev]. now rewrite <- app_assoc.
Qed.

Lemma good_tok_rev_nonempty (t cur : list Z) : t <> [] -> rev t ++ cur <> [].
Proof. intros H E. apply app_eq_nil in E as [E _]. apply (f_equal (@rev Z)) in E. rewrite rev_involutive in E. now apply H. Qed.

(* " t1 t2 t3\n".split() *)
Lemma split_ws_join toks : Forall good_tok toks -> split_ws (32 :: join_sp toks ++ [10]) = toks.
Proof.
  unfold split_ws. cbn [split_ws_aux]. change (is_space 32) with true. cbn iota.
  induction toks as [|t toks IH]; intros H.
  - reflexivity.
  - inversion H as [|? ? [Hn Ht] Hr]; subst.
    destruct toks as [|t2 toks].
    + cbn [join_sp]. rewrite (split_ws_aux_tok t [] [10] Ht). cbn [split_ws_aux]. change (is_space 10) with true. cbn iota.
      rewrite app_nil_r. destruct (rev t) eqn:E; [exfalso; apply (good_tok_rev_nonempty t [] Hn); now rewrite app_nil_r|].
      rewrite <- E, rev_involutive. reflexivity.
    + change (join_sp (t :: t2 :: toks)) with (t ++ 32 :: join_sp (t2 :: toks)).
      rewrite <- app_assoc. cbn [app]. rewrite (split_ws_aux_tok t [] _ Ht). cbn [split_ws_aux].
      change (is_space 32) with true. cbn iota. rewrite app_nil_r.
      destruct (rev t) eqn:E; [exfalso; apply (good_tok_rev_nonempty t [] Hn); now rewrite app_nil_r|].
      rewrite <- E, rev_involutive. f_equal. now apply IH.
Qed.

(* ------------------------------------------------------------------ volume info footer *)
Definition key_ok (k : list Z) : Prop :=
  ~ In 10 (pad6 k) /\ ~ In 61 (pad6 k) /\ strip (pad6 k ++ [32]) = k /\ ~ In 10 k /\ ~ In 61 k /\ strip (k ++ [32]) = k.

Lemma keys_ok : Forall key_ok (K_VALID :: K_FILENAME :: NUM_KEYS).
Proof.
  repeat constructor; cbn; try (intros H; repeat (destruct H as [H|H]; [discriminate|]); exact H); reflexivity.
Qed.

Lemma notin_app {A} (x : A) a b : ~ In x a -> ~ In x b -> ~ In x (a ++ b).
Proof. intros Ha Hb H. apply in_app_or in H as [H|H]; auto. Qed.

(* one "key = value\n" line, key possibly padded: read_key returns " value\n" *)
Lemma read_key_line k kp v rest :
  ~ In 10 kp -> ~ In 61 kp -> strip (kp ++ [32]) = k -> ~ In 10 v -> ~ In 61 v ->
  read_key k ((kp ++ SEP ++ v ++ [10]) ++ rest) = Ok (32 :: v ++ [10], rest).
Proof.
  intros Hk10 Hk61 Hst Hv10 Hv61. unfold read_key.
  replace ((kp ++ SEP ++ v ++ [10]) ++ rest) with ((kp ++ SEP ++ v) ++ 10 :: rest)
    by (rewrite <- !app_assoc; reflexivity).
  rewrite readline_line.
  2:{ apply notin_app; [assumption|]. apply notin_app; [|assumption].
      cbn. intros H; repeat (destruct H as [H|H]; [discriminate|]); exact H. }
  replace ((kp ++ SEP ++ v) ++ [10]) with ((kp ++ [32]) ++ 61 :: (32 :: v ++ [10]))
    by (unfold SEP; rewrite <- !app_assoc; reflexivity).
  rewrite split_on_app.
  2:{ apply notin_app; [assumption|]. cbn. intros [H|H]; [discriminate|exact H]. }
  rewrite split_on_notin.
  2:{ cbn. intros [H|H]; [discriminate|]. apply in_app_or in H as [H|H]; [auto|]. destruct H as [H|H]; [discriminate|exact H]. }
  rewrite Hst. assert (E : list_eqb k k = true).
  { clear. induction k; cbn; [reflexivity|]. now rewrite Z.eqb_refl. }
  now rewrite E.
Qed.

Lemma good_tok_join toks : Forall good_tok toks -> ~ In 10 (join_sp toks) /\ ~ In 61 (join_sp toks).
Proof.
  induction 1 as [|t toks [Hn Ht] Hr IH]; [cbn; tauto|].
  assert (Ht' : ~ In 10 t /\ ~ In 61 t).
  { rewrite Forall_forall in Ht. split; intros Hin; apply Ht in Hin as [Hs Hc]; [discriminate|congruence]. }
  destruct toks as [|t2 toks]; [exact Ht'|].
  change (join_sp (t :: t2 :: toks)) with (t ++ 32 :: join_sp (t2 :: toks)).
  destruct IH as [I1 I2]. destruct Ht' as [T1 T2].
  split; apply notin_app; auto; intros [H|H]; try discriminate; auto.
Qed.

Lemma read_num_keys_lines ks : forall nums rest,
  Forall key_ok ks -> length nums = length ks -> Forall (Forall good_tok) nums ->
  read_num_keys ks (concat (map (fun kt => num_line (fst kt) (snd kt)) (combine ks nums)) ++ rest) = Ok (nums, rest).
Proof.
  induction ks as [|k ks IH]; intros nums rest Hk Hl Hn.
  - destruct nums; [reflexivity|discriminate].
  - destruct nums as [|toks nums]; [discriminate|].
    inversion Hk as [|? ? (K1 & K2 & K3 & _) Hk']; subst. inversion Hn as [|? ? Ht Hn']; subst.
    cbn [combine map concat fst snd read_num_keys]. unfold num_line at 1. rewrite <- app_assoc.
    destruct (good_tok_join toks Ht) as [J1 J2].
    rewrite (read_key_line k (pad6 k) (join_sp toks) _ K1 K2 K3 J1 J2).
    rewrite IH by (auto; cbn in Hl; lia). now rewrite split_ws_join.
Qed.

Definition wf_vinfo (v : vinfo) : Prop :=
  (vhead v = [20] \/ vhead v = [2; 0; 20]) /\ clean_str (vvalid v) /\ clean_str (vfilename v)
  /\ length (vnums v) = 6%nat /\ Forall (Forall good_tok) (vnums v).

Lemma read_vinfo_body_ok v head rest : wf_vinfo v ->
  read_vinfo_body head
    (str_line K_VALID (vvalid v) ++ str_line K_FILENAME (vfilename v)
     ++ concat (map (fun kt => num_line (fst kt) (snd kt)) (combine NUM_KEYS (vnums v))) ++ rest)
  = Ok (Some (mkV head (vvalid v) (vfilename v) (vnums v)), rest).
Proof.
  intros (_ & Hv & Hf & Hl & Hn). unfold read_vinfo_body.
  pose proof keys_ok as HK. inversion HK as [|? ? (_ & _ & _ & A1 & A2 & A3) HK1]; subst.
  inversion HK1 as [|? ? (_ & _ & _ & B1 & B2 & B3) HK2]; subst.
  destruct Hv as (V1 & V2 & V3 & V4). destruct Hf as (F1 & F2 & F3 & F4).
  unfold str_line at 1.
  rewrite (read_key_line K_VALID K_VALID (vvalid v) _ A1 A2 A3 V1 V2).
  unfold str_line at 1.
  rewrite (read_key_line K_FILENAME K_FILENAME (vfilename v) _ B1 B2 B3 F1 F2).
  rewrite (read_num_keys_lines NUM_KEYS (vnums v) rest HK2 Hl Hn).
  rewrite !strip_clean by (repeat split; assumption). reflexivity.
Qed.

Lemma read_volume_info_ok v rest : wf_vinfo v ->
  read_volume_info (serialize_volume_info v ++ rest) = Ok (Some v, rest).
Proof.
  intros Hwf. pose proof Hwf as (Hh & _). unfold serialize_volume_info, read_volume_info.
  rewrite <- !app_assoc.
  destruct v as [head valid fname nums]. cbn [vhead vvalid vfilename vnums] in *.
  destruct Hh as [-> | ->].
  - cbn [flat_map]. rewrite app_nil_r.
    pose proof (fromfile_i4 [20] (str_line K_VALID valid ++ str_line K_FILENAME fname ++
      concat (map (fun kt => num_line (fst kt) (snd kt)) (combine NUM_KEYS nums)) ++ rest) 1 eq_refl) as E.
    cbn [flat_map map] in E. rewrite app_nil_r in E. rewrite E. cbn [map].
    rewrite rd_i4 by (unfold i32_ok; lia). cbn [list_eqb Z.eqb Pos.eqb andb].
    apply (read_vinfo_body_ok (mkV [20] valid fname nums) [20] rest Hwf).
  - cbn [flat_map]. rewrite app_nil_r, <- !app_assoc.
    pose proof (fromfile_i4 [2] (i4 0 ++ i4 20 ++ str_line K_VALID valid ++ str_line K_FILENAME fname ++
      concat (map (fun kt => num_line (fst kt) (snd kt)) (combine NUM_KEYS nums)) ++ rest) 1 eq_refl) as E.
    cbn [flat_map map] in E. rewrite app_nil_r in E. rewrite E. cbn [map].
    rewrite rd_i4 by (unfold i32_ok; lia). cbn [list_eqb Z.eqb Pos.eqb andb].
    pose proof (fromfile_i4 [0; 20] (str_line K_VALID valid ++ str_line K_FILENAME fname ++
      concat (map (fun kt => num_line (fst kt) (snd kt)) (combine NUM_KEYS nums)) ++ rest) 2 eq_refl) as E2.
    cbn [flat_map map] in E2. rewrite app_nil_r, <- app_assoc in E2. rewrite E2. cbn [map app].
    rewrite !rd_i4 by (unfold i32_ok; lia). cbn [list_eqb Z.eqb Pos.eqb andb].
    apply (read_vinfo_body_ok (mkV [2; 0; 20] valid fname nums) [2; 0; 20] rest Hwf).
Qed.

(* ------------------------------------------------------------------ geometry *)
Definition vi_wf (vi : option vinfo) : Prop := match vi with Some v => wf_vinfo v | None => True end.

Lemma read_volume_info_eof : read_volume_info [] = Ok (None, []).
Proof. reflexivity. Qed.

Lemma geometry_roundtrip meta stamp nv nf coords faces vi :
  ~ In 10 stamp -> 0 <= nv < 2 ^ 31 -> 0 <= nf < 2 ^ 31 ->
  zlen coords = nv * 3 -> zlen faces = nf * 3 ->
  Forall u32_ok coords -> Forall i32_ok faces -> vi_wf vi ->
  read_geometry meta (write_geometry stamp nv nf coords faces vi)
  = Ok (mkG stamp nv nf coords faces (if meta then vi else None)).
Proof.
  intros Hs Hnv Hnf Hlc Hlf Hc Hf Hvi. unfold write_geometry, read_geometry.
  cbn [app fread3]. change (255 * 65536 + 255 * 256 + 254) with 16777214. cbn [Z.eqb Pos.eqb orb negb].
  replace (stamp ++ [10; 10] ++ i4 nv ++ i4 nf ++ flat_map u4 coords ++ flat_map i4 faces ++
           match vi with Some v => serialize_volume_info v | None => [] end)
    with (stamp ++ 10 :: ([] ++ 10 :: (i4 nv ++ i4 nf ++ flat_map u4 coords ++ flat_map i4 faces ++
           match vi with Some v => serialize_volume_info v | None => [] end))) by reflexivity.
  rewrite (readline_line stamp _ Hs), (rstrip_nl_stamp stamp Hs).
  cbn [app]. change (readline (10 :: ?r)) with ([10], r). cbn [readline Z.eqb Pos.eqb].
  rewrite read1_i4 by (unfold i32_ok; lia). rewrite read1_i4 by (unfold i32_ok; lia).
  destruct (Z.ltb_spec nv 0); [lia|]. destruct (Z.ltb_spec nf 0); [lia|]. cbn [orb].
  rewrite (fromfile_u4 coords _ (nv * 3) (eq_sym Hlc)). rewrite zlen_map, Hlc, Z.eqb_refl. cbn [negb].
  rewrite (fromfile_i4 faces _ (nf * 3) (eq_sym Hlf)). rewrite zlen_map, Hlf, Z.eqb_refl. cbn [negb].
  rewrite (map_rd_u4 coords Hc), (map_rd_i4 faces Hf).
  destruct meta; [|reflexivity].
  destruct vi as [v|].
  - rewrite <- (app_nil_r (serialize_volume_info v)), (read_volume_info_ok v [] Hvi). reflexivity.
  - rewrite read_volume_info_eof. reflexivity.
Qed.

(* ------------------------------------------------------------------ morphometry *)
Lemma list_eqb_refl l : list_eqb l l = true.
Proof. induction l; cbn; [reflexivity|]. now rewrite Z.eqb_refl. Qed.

Definition morph_shapes (n : Z) : list (list Z) := [[n]; [n; 1]; [1; n]; [n; 1; 1]].

Lemma morph_shape_accepted n shape : In shape (morph_shapes n) -> prodZ shape = n /\ morph_shape_ok shape = true.
Proof.
  intros H. cbn in H.
  assert (E : prodZ shape = n) by (repeat (destruct H as [<-|H]; [unfold prodZ; cbn [fold_right]; lia|]); contradiction).
  split; [assumption|]. unfold morph_shape_ok. rewrite E.
  repeat (destruct H as [<-|H]; [rewrite ?list_eqb_refl, ?orb_true_r; reflexivity|]). contradiction.
Qed.

Lemma morph_roundtrip n shape values fnum :
  In shape (morph_shapes n) -> 0 <= n <= I4MAX -> I4MIN <= fnum <= I4MAX ->
  zlen values = n -> Forall u32_ok values ->
  exists b, write_morph shape values fnum = Ok b /\ read_morph b = Ok values.
Proof.
  intros Hsh Hn Hf Hl Hv. destruct (morph_shape_accepted n shape Hsh) as [Ep Eok].
  unfold write_morph. rewrite Ep, Eok. cbn [negb].
  destruct (Z.ltb_spec I4MAX n); [lia|].
  destruct (Z.leb_spec I4MIN fnum); [|lia]. destruct (Z.leb_spec fnum I4MAX); [|lia]. cbn [andb negb].
  eexists. split; [reflexivity|].
  unfold read_morph. cbn [app fread3]. change (255 * 65536 + 255 * 256 + 255 =? 16777215) with true. cbn iota.
  pose proof (fromfile_i4 [n; fnum; 1] (flat_map u4 values) 3 eq_refl) as E.
  cbn [flat_map map] in E. rewrite app_nil_r, <- !app_assoc in E. rewrite E.
  unfold I4MAX, I4MIN in *. rewrite rd_i4 by (unfold i32_ok; lia).
  destruct (Z.ltb_spec n 0); [lia|].
  rewrite <- (app_nil_r (flat_map u4 values)), (fromfile_u4 values [] n (eq_sym Hl)). cbn [fst].
  now rewrite map_rd_u4.
Qed.

(* the shapes that are refused are refused before anything is written *)
Lemma morph_refused shape values fnum : morph_shape_ok shape = false -> write_morph shape values fnum = Err ErrValue.
Proof. intros H. unfold write_morph. now rewrite H. Qed.

(* ------------------------------------------------------------------ annotation: label <-> annotation value *)
From Coq Require Import Sorting.Sorted.

Definition le_fst (a b : Z * Z) : Prop := fst a <= fst b.

Lemma insert_pair_In p l x : In x (insert_pair p l) <-> x = p \/ In x l.
Proof.
  induction l as [|q l IH]; cbn.
  - intuition.
  - destruct (fst p <=? fst q); cbn; [intuition|]. rewrite IH. intuition.
Qed.

Lemma sort_pairs_In l x : In x (sort_pairs l) <-> In x l.
Proof.
  induction l as [|p l IH]; cbn; [tauto|]. rewrite insert_pair_In, IH. intuition.
Qed.

Lemma insert_pair_sorted p l : StronglySorted le_fst l -> StronglySorted le_fst (insert_pair p l).
Proof.
  induction 1 as [|q l Hs IH Hq]; cbn.
  - repeat constructor.
  - destruct (Z.leb_spec (fst p) (fst q)).
    + constructor; [now constructor|]. constructor; [assumption|].
      rewrite Forall_forall in *. intros x Hx. specialize (Hq x Hx). unfold le_fst in *. lia.
    + constructor; [assumption|]. rewrite Forall_forall in *. intros x Hx.
      apply insert_pair_In in Hx as [->|Hx]; [unfold le_fst; lia|auto].
Qed.

Lemma sort_pairs_sorted l : StronglySorted le_fst (sort_pairs l).
Proof. induction l; cbn; [constructor|now apply insert_pair_sorted]. Qed.

Lemma insert_pair_fst_In p l x : In x (map fst (insert_pair p l)) <-> x = fst p \/ In x (map fst l).
Proof.
  rewrite !in_map_iff. split.
  - intros (y & <- & Hy). apply insert_pair_In in Hy as [->|Hy]; [now left|right; now exists y].
  - intros [->|(y & <- & Hy)]; [exists p|exists y]; (split; [reflexivity|]); apply insert_pair_In; auto.
Qed.

Lemma insert_pair_NoDup p l : ~ In (fst p) (map fst l) -> NoDup (map fst l) -> NoDup (map fst (insert_pair p l)).
Proof.
  induction l as [|q l IH]; cbn; intros Hn Hd.
  - constructor; [auto|constructor].
  - destruct (fst p <=? fst q); cbn.
    + constructor; assumption.
    + inversion Hd as [|? ? Hq Hd']; subst. constructor.
      * rewrite insert_pair_fst_In. intros [E|Hin]; [apply Hn; left; congruence|contradiction].
      * apply IH; [intros Hin; apply Hn; now right|assumption].
Qed.

Lemma sort_pairs_NoDup l : NoDup (map fst l) -> NoDup (map fst (sort_pairs l)).
Proof.
  induction l as [|p l IH]; cbn; intros H; [constructor|]. inversion H as [|? ? Hp Hd]; subst.
  apply insert_pair_NoDup; [|now apply IH].
  intros Hin. apply Hp. apply in_map_iff in Hin as (y & E & Hy). apply (proj1 (sort_pairs_In l y)) in Hy.
  apply in_map_iff. exists y. split; assumption.
Qed.

(* in a strictly sorted table the left insertion point of a present key is its position *)
Lemma searchsorted_hit s v l :
  StronglySorted le_fst s -> NoDup (map fst s) -> In (v, l) s ->
  nth_error (map snd s) (searchsorted (map fst s) v) = Some l.
Proof.
  induction 1 as [|[a i] s Hs IH Ha]; intros Hd Hin; [contradiction|].
  cbn [map fst snd searchsorted]. inversion Hd as [|? ? Hna Hd']; subst.
  destruct (Z.ltb_spec a v) as [Hlt|Hge].
  - cbn [nth_error]. apply IH; [assumption|]. destruct Hin as [E|Hin]; [inversion E; lia|assumption].
  - cbn [nth_error]. destruct Hin as [E|Hin]; [now inversion E|].
    exfalso. rewrite Forall_forall in Ha. specialize (Ha _ Hin). unfold le_fst in Ha. cbn [fst] in Ha.
    assert (a = v) by lia. subst a. apply Hna. apply in_map_iff. now exists (v, l).
Qed.

Lemma zseq_length s n : length (zseq s n) = n.
Proof. revert s; induction n; intros s; cbn; [reflexivity|]. now rewrite IHn. Qed.

Lemma map_fst_combine {A B} (a : list A) (b : list B) : length a = length b -> map fst (combine a b) = a.
Proof. revert b; induction a as [|x a IH]; intros [|y b] H; cbn; try discriminate; [reflexivity|]. f_equal. apply IH. now inversion H. Qed.
Lemma map_snd_combine {A B} (a : list A) (b : list B) : length a = length b -> map snd (combine a b) = b.
Proof. revert b; induction a as [|x a IH]; intros [|y b] H; cbn; try discriminate; [reflexivity|]. f_equal. apply IH. now inversion H. Qed.

Lemma combine_zseq_In (packed : list Z) : forall start k v,
  nth_error packed k = Some v -> In (v, start + Z.of_nat k) (combine packed (zseq start (length packed))).
Proof.
  induction packed as [|p packed IH]; intros start k v H; [destruct k; discriminate|].
  cbn [length zseq combine]. destruct k as [|k]; cbn in H.
  - inversion H; subst. left. f_equal. lia.
  - right. replace (start + Z.of_nat (S k)) with ((start + 1) + Z.of_nat k) by lia. now apply IH.
Qed.

Lemma relabel_hit packed l :
  NoDup packed -> 0 <= l < zlen packed -> nth (Z.to_nat l) packed 0 <> 0 ->
  relabel packed (nth (Z.to_nat l) packed 0) = Some l.
Proof.
  intros Hd Hl Hnz. unfold relabel.
  destruct (Z.eqb_spec (nth (Z.to_nat l) packed 0) 0) as [E|_]; [contradiction|].
  set (s := sort_pairs (combine packed (zseq 0 (length packed)))).
  assert (Hin : In (nth (Z.to_nat l) packed 0, l) s).
  { apply sort_pairs_In. replace l with (0 + Z.of_nat (Z.to_nat l)) at 2 by lia.
    apply combine_zseq_In. apply nth_error_nth'. unfold zlen in Hl. lia. }
  assert (Hnd : NoDup (map fst s)).
  { apply sort_pairs_NoDup. rewrite map_fst_combine; [assumption|now rewrite zseq_length]. }
  now rewrite (searchsorted_hit s _ l (sort_pairs_sorted _) Hnd Hin).
Qed.

Lemma relabel_zero packed : relabel packed 0 = Some (-1).
Proof. reflexivity. Qed.

(* ------------------------------------------------------------------ annotation: records *)
Definition epack (row : list Z) : Z := nth 0 row 0 + nth 1 row 0 * 256 + nth 2 row 0 * 65536.
Definition rgb_ok (row : list Z) : Prop :=
  0 <= nth 0 row 0 < 256 /\ 0 <= nth 1 row 0 < 256 /\ 0 <= nth 2 row 0 < 256.

Lemma epack_range row : rgb_ok row -> 0 <= epack row < 2 ^ 24.
Proof. unfold rgb_ok, epack. lia. Qed.

Lemma pack_rgb_None row : pack_rgb None row = epack row.
Proof. unfold pack_rgb, pack_rgb_raw, promote, epack, wrap. lia. Qed.

Lemma wrap_I32_small z : 0 <= z < 2 ^ 31 -> wrap I32 z = z.
Proof.
  intros H. unfold wrap, I32. rewrite Z.mod_small by lia.
  change (32 - 1) with 31. destruct (Z.leb_spec (2 ^ 31) z); [lia|reflexivity].
Qed.

Lemma pack_rgb_I32 row : rgb_ok row -> pack_rgb I32 row = epack row.
Proof.
  intros H. pose proof (epack_range row H) as Hr. unfold pack_rgb. change (promote I32) with I32. unfold pack_rgb_raw.
  rewrite (wrap_I32_small 1), (wrap_I32_small 256), (wrap_I32_small 65536) by lia.
  unfold epack in *. rewrite wrap_I32_small; lia.
Qed.

(* any arithmetic wide enough for 24 bits packs exactly *)
Lemma pack_rgb_wide bits sg row : 25 <= bits -> rgb_ok row -> pack_rgb_raw (Some (bits, sg)) row = epack row.
Proof.
  intros Hb H. pose proof (epack_range row H) as Hr.
  assert (Hp : 2 ^ 24 <= 2 ^ (bits - 1)) by (apply Z.pow_le_mono_r; lia).
  assert (Hp2 : 2 ^ bits = 2 * 2 ^ (bits - 1)) by (rewrite <- Z.pow_succ_r by lia; f_equal; lia).
  assert (Hw : forall z, 0 <= z < 2 ^ 24 -> wrap (Some (bits, sg)) z = z).
  { intros z Hz. unfold wrap. rewrite Z.mod_small by lia.
    destruct sg; cbn [andb]; [|reflexivity]. destruct (Z.leb_spec (2 ^ (bits - 1)) z); [lia|reflexivity]. }
  unfold pack_rgb_raw. rewrite (Hw 1), (Hw 256), (Hw 65536) by lia. unfold epack in *. rewrite Hw; lia.
Qed.

(* whatever the integer dtype of the colour table, the promoted arithmetic is exact *)
Lemma pack_rgb_exact dt row : rgb_ok row -> pack_rgb dt row = epack row.
Proof.
  intros H. unfold pack_rgb. destruct dt as [[bits sg]|]; [|apply pack_rgb_None].
  unfold promote. destruct (bits <? 32); [apply pack_rgb_wide; [lia|assumption]|].
  destruct (bits =? 32); [destruct sg; apply pack_rgb_wide; (lia || assumption)|].
  destruct sg; [apply pack_rgb_wide; [lia|assumption]|apply pack_rgb_None].
Qed.

Lemma flat_map_pairs (l : list (Z * Z)) :
  flat_map (fun ic => i4 (fst ic) ++ i4 (snd ic)) l = flat_map i4 (flat_map (fun ic => [fst ic; snd ic]) l).
Proof. induction l as [|p l IH]; cbn [flat_map app]; [reflexivity|]. rewrite IH, <- app_assoc. reflexivity. Qed.

Lemma pairs_second_i4 (l : list (Z * Z)) : Forall (fun p => i32_ok (snd p)) l ->
  pairs_second (map i4 (flat_map (fun ic => [fst ic; snd ic]) l)) = map snd l.
Proof. induction 1 as [|p l Hp Hl IH]; cbn [flat_map app map pairs_second]; [reflexivity|]. now rewrite rd_i4, IH. Qed.

Lemma zlen_interleave (l : list (Z * Z)) : zlen (flat_map (fun ic => [fst ic; snd ic]) l) = zlen l * 2.
Proof. induction l as [|p l IH]; [reflexivity|]. cbn [flat_map app]. rewrite !zlen_cons, IH. lia. Qed.

Lemma read_S_wstring s rest : zlen s + 1 < 2 ^ 31 ->
  read_S (zlen s + 1) (s ++ [0] ++ rest) = Ok (rstrip0 s, rest).
Proof.
  intros H. unfold read_S. pose proof (zlen_nonneg s).
  destruct (Z.ltb_spec (zlen s + 1) 0); [lia|].
  rewrite app_assoc. assert (Hl : zlen (s ++ [0]) = zlen s + 1) by (rewrite zlen_app; reflexivity).
  destruct (Z.ltb_spec (zlen ((s ++ [0]) ++ rest)) (zlen s + 1)) as [Hlt|_].
  { rewrite zlen_app, Hl in Hlt. pose proof (zlen_nonneg rest). lia. }
  destruct (Z.eqb_spec (zlen s + 1) 0); [lia|].
  rewrite <- Hl, take_app_exact, drop_app_exact.
  change [0] with (repeat 0 1%nat). now rewrite (rstrip0_app_zeros s 1).
Qed.

Lemma set_nth_app {A} (pre : list A) x y tail : set_nth (length pre) x (pre ++ y :: tail) = pre ++ x :: tail.
Proof. induction pre as [|a pre IH]; cbn; [reflexivity|]. now rewrite IH. Qed.

Definition ZROW : list Z := [0; 0; 0; 0; 0].
Definition entry_bytes (e : Z * (list Z * list Z)) : list Z :=
  i4 (fst e) ++ wstring (snd (snd e)) ++ flat_map i4 (firstn 4 (fst (snd e))).

Definition row_ok (row : list Z) : Prop := length row = 5%nat /\ Forall i32_ok row.
Definition name_ok (nm : list Z) : Prop := rstrip0 nm = nm /\ zlen nm + 1 < 2 ^ 31.

Lemma firstn_Forall {A} (P : A -> Prop) n l : Forall P l -> Forall P (firstn n l).
Proof.
  intros H. revert n. induction H as [|x l Hx Hl IH]; intros [|n]; cbn; constructor; auto.
Qed.

Lemma read_entries_ok rs : forall ns pre nacc rest,
  length rs = length ns -> Forall row_ok rs -> Forall name_ok ns -> zlen pre + zlen rs < 2 ^ 31 ->
  read_entries (length rs)
    (flat_map entry_bytes (combine (zseq (zlen pre) (length rs)) (combine rs ns)) ++ rest)
    (pre ++ repeat ZROW (length rs)) nacc
  = Ok (pre ++ map (fun row => firstn 4 row ++ [0]) rs, rev nacc ++ ns).
Proof.
  induction rs as [|row rs IH]; intros ns pre nacc rest Hl Hr Hn Hb.
  - destruct ns; [|discriminate]. cbn. now rewrite !app_nil_r.
  - destruct ns as [|nm ns]; [discriminate|].
    inversion Hr as [|? ? [Hrl Hri] Hr']; subst. inversion Hn as [|? ? [Hn1 Hn2] Hn']; subst.
    pose proof (zlen_nonneg pre) as Hp0. pose proof (zlen_nonneg rs) as Hr0. rewrite zlen_cons in Hb.
    cbn [length zseq combine flat_map read_entries repeat]. unfold entry_bytes at 1. cbn [fst snd].
    unfold wstring. rewrite <- !app_assoc.
    rewrite read1_i4 by (unfold i32_ok; lia).
    pose proof (zlen_nonneg nm) as Hm0.
    rewrite read1_i4 by (unfold i32_ok; lia).
    rewrite (read_S_wstring nm _ Hn2), Hn1.
    assert (H4 : zlen (firstn 4 row) = 4).
    { unfold zlen. rewrite firstn_length, Hrl. reflexivity. }
    rewrite (fromfile_i4 (firstn 4 row) _ 4 (eq_sym H4)).
    rewrite map_length, firstn_length, Hrl. cbn [Nat.min Nat.eqb negb].
    rewrite zlen_app, zlen_cons.
    assert (Hrep : zlen (repeat ZROW (length rs)) = zlen rs) by (unfold zlen; now rewrite repeat_length).
    rewrite Hrep.
    destruct (Z.ltb_spec (zlen pre) 0); [lia|].
    destruct (Z.ltb_spec (zlen pre) 0); [lia|].
    destruct (Z.leb_spec (zlen pre + (1 + zlen rs)) (zlen pre)); [lia|]. cbn [orb].
    rewrite to_nat_zlen, set_nth_app.
    rewrite (map_rd_i4 (firstn 4 row)) by (now apply firstn_Forall).
    replace (pre ++ (firstn 4 row ++ [0]) :: repeat ZROW (length rs))
      with ((pre ++ [firstn 4 row ++ [0]]) ++ repeat ZROW (length rs)) by (now rewrite <- app_assoc).
    replace (zlen pre + 1) with (zlen (pre ++ [firstn 4 row ++ [0]])) by (rewrite zlen_app; reflexivity).
    rewrite IH; [|now inversion Hl|assumption|assumption|rewrite zlen_app; change (zlen [firstn 4 row ++ [0]]) with 1; lia].
    cbn [map rev]. now rewrite <- !app_assoc.
Qed.

(* write side: ctab[:, -1][labels] and the -1 -> 0 override *)
Definition label_ok (n l : Z) : Prop := l = -1 \/ 0 <= l < n.
Definition clut_of (lastcol : list Z) (l : Z) : Z := if l =? -1 then 0 else nth (Z.to_nat l) lastcol 0.

Lemma clut_labels lastcol labels : 1 <= zlen lastcol -> Forall (label_ok (zlen lastcol)) labels ->
  exists cl, map_opt (py_index lastcol) labels = Some cl
    /\ map (fun lc : Z * Z => if fst lc =? -1 then 0 else snd lc) (combine labels cl) = map (clut_of lastcol) labels.
Proof.
  intros Hn. induction 1 as [|l labels Hl Hr (cl & E1 & E2)]; [now exists []|].
  cbn [map_opt]. rewrite E1.
  assert (Hp : exists v, py_index lastcol l = Some v /\ (l <> -1 -> v = nth (Z.to_nat l) lastcol 0)).
  { unfold py_index. destruct Hl as [->|Hl].
    - destruct (Z.leb_spec 0 (-1)); [lia|]. cbn [andb].
      destruct (Z.leb_spec (- zlen lastcol) (-1)); [|lia]. cbn [andb Z.ltb Z.compare].
      destruct (nth_error lastcol (Z.to_nat (zlen lastcol + -1))) eqn:E; [eexists; split; [reflexivity|congruence]|].
      apply nth_error_None in E. unfold zlen in *. lia.
    - destruct (Z.leb_spec 0 l); [|lia]. destruct (Z.ltb_spec l (zlen lastcol)); [|lia]. cbn [andb].
      rewrite (nth_error_nth' lastcol 0) by (unfold zlen in *; lia). eexists; split; [reflexivity|auto]. }
  destruct Hp as (v & -> & Hv). exists (v :: cl). split; [reflexivity|].
  cbn [combine map fst snd]. rewrite E2. f_equal. unfold clut_of.
  destruct (Z.eqb_spec l (-1)); [reflexivity|auto].
Qed.

Lemma maxZ_le l b : l <> [] -> Forall (fun x => x <= b) l -> maxZ l <= b.
Proof.
  intros Hn H. unfold maxZ. destruct l as [|a l]; [congruence|]. cbn [hd].
  assert (Ha : a <= b) by now inversion H.
  generalize dependent (a :: l). intros l0 _ H. induction H as [|x l' Hx Hl IH]; cbn [fold_right]; lia.
Qed.

Definition annot_file (labels : list Z) (ctab5 : list (list Z)) (names : list (list Z)) : list Z :=
  let lastcol := map (fun row => nth 4 row 0) ctab5 in
  i4 (zlen labels)
  ++ flat_map (fun ic => i4 (fst ic) ++ i4 (snd ic)) (combine (zseq 0 (length labels)) (map (clut_of lastcol) labels))
  ++ i4 1 ++ i4 (-2) ++ i4 (zlen ctab5) ++ wstring NOFILE ++ i4 (zlen ctab5)
  ++ flat_map entry_bytes (combine (zseq 0 (length ctab5)) (combine ctab5 names)).

Definition fill (ctab : list (list Z)) : list (list Z) := map (fun row => firstn 4 row ++ [epack row]) ctab.

Lemma zseq_range s n x : In x (zseq s n) -> s <= x < s + Z.of_nat n.
Proof. revert s; induction n as [|n IH]; intros s H; cbn in H; [contradiction|]. destruct H as [<-|H]; [lia|]. apply IH in H. lia. Qed.

(* what write_annot produces for a table in the property's quantifier *)
Lemma write_annot_ok dt labels ctab names :
  labels <> [] -> 1 <= zlen ctab ->
  Forall (fun row => (4 <= length row)%nat /\ pack_rgb dt row = epack row) ctab ->
  Forall (label_ok (zlen ctab)) labels ->
  write_annot dt labels ctab names true = Ok (annot_file labels (fill ctab) names).
Proof.
  intros Hne Hn Hc Hl. unfold write_annot.
  assert (Efill : map (fun row => firstn 4 row ++ [pack_rgb dt row]) ctab = fill ctab).
  { unfold fill. apply map_ext_in. intros row Hin. rewrite Forall_forall in Hc. now destruct (Hc row Hin) as [_ ->]. }
  rewrite Efill.
  assert (H5 : forallb (fun row => (length row =? 5)%nat) (fill ctab) = true).
  { unfold fill. apply forallb_forall. intros r Hr. apply in_map_iff in Hr as (row & <- & Hin).
    rewrite Forall_forall in Hc. destruct (Hc row Hin) as [H4 _].
    rewrite app_length, firstn_length. cbn [length]. apply Nat.eqb_eq. lia. }
  rewrite H5. cbn [negb].
  set (lastcol := map (fun row => nth 4 row 0) (fill ctab)).
  assert (Hlc : zlen lastcol = zlen ctab) by (unfold lastcol, fill; now rewrite !zlen_map).
  destruct (clut_labels lastcol labels) as (cl & E1 & E2); [lia|now rewrite Hlc|].
  rewrite E1, E2. destruct labels as [|l0 labels']; [congruence|]. set (labels := l0 :: labels') in *.
  assert (Hmax : Z.max (maxZ labels + 1) (zlen (fill ctab)) = zlen (fill ctab)).
  { assert (zlen (fill ctab) = zlen ctab) by (unfold fill; now rewrite zlen_map).
    assert (maxZ labels <= zlen ctab - 1); [|lia].
    apply maxZ_le; [discriminate|]. eapply Forall_impl; [|exact Hl]. intros x [->|Hx]; lia. }
  rewrite Hmax. reflexivity.
Qed.

Lemma nth_fill_row row : (4 <= length row)%nat ->
  firstn 4 (firstn 4 row ++ [epack row]) = firstn 4 row /\ nth 4 (firstn 4 row ++ [epack row]) 0 = epack row
  /\ length (firstn 4 row ++ [epack row]) = 5%nat.
Proof.
  intros H. assert (Hl : length (firstn 4 row) = 4%nat) by (rewrite firstn_length; lia).
  repeat split.
  - rewrite <- Hl at 1. rewrite firstn_app, Nat.sub_diag, firstn_all. cbn [firstn]. apply app_nil_r.
  - rewrite app_nth2 by lia. now rewrite Hl.
  - rewrite app_length, Hl. reflexivity.
Qed.

Lemma firstn4_app (row x : list Z) : (4 <= length row)%nat -> firstn 4 (firstn 4 row ++ x) = firstn 4 row.
Proof.
  intros H. assert (Hl : length (firstn 4 row) = 4%nat) by (rewrite firstn_length; lia).
  rewrite <- Hl at 1. rewrite firstn_app, Nat.sub_diag, firstn_all. cbn [firstn]. apply app_nil_r.
Qed.

Lemma nth_firstn_lt {A} (l : list A) n k d : (k < n)%nat -> nth k (firstn n l) d = nth k l d.
Proof.
  revert n k; induction l as [|a l IH]; intros n k H; [now rewrite firstn_nil|].
  destruct n; [lia|]. destruct k; cbn; [reflexivity|]. apply IH. lia.
Qed.

Lemma epack_firstn row x : (4 <= length row)%nat -> epack (firstn 4 row ++ x) = epack row /\ (rgb_ok (firstn 4 row ++ x) <-> rgb_ok row).
Proof.
  intros H. assert (Hl : length (firstn 4 row) = 4%nat) by (rewrite firstn_length; lia).
  assert (E : forall k, (k < 3)%nat -> nth k (firstn 4 row ++ x) 0 = nth k row 0).
  { intros k Hk. rewrite app_nth1 by lia. apply nth_firstn_lt. lia. }
  unfold epack, rgb_ok. rewrite !E by lia. tauto.
Qed.

(* the round trip *)
Lemma annot_roundtrip dt labels ctab names :
  labels <> [] -> zlen labels * 2 < 2 ^ 31 -> 1 <= zlen ctab < 2 ^ 31 -> length names = length ctab ->
  Forall (fun row => (4 <= length row)%nat /\ pack_rgb dt row = epack row /\ rgb_ok row /\ Forall i32_ok row) ctab ->
  Forall name_ok names ->
  Forall (label_ok (zlen ctab)) labels ->
  NoDup (map epack ctab) -> ~ In 0 (map epack ctab) ->
  exists b, write_annot dt labels ctab names true = Ok b
    /\ read_annot false b = Ok (mkA labels (fill ctab) names).
Proof.
  intros Hne Hvn Hn Hnl Hc Hnm Hl Hnd Hnz.
  assert (Hc' : Forall (fun row => (4 <= length row)%nat /\ pack_rgb dt row = epack row) ctab)
    by (eapply Forall_impl; [|exact Hc]; intros r (A & B & _); auto).
  rewrite (write_annot_ok dt labels ctab names Hne (proj1 Hn) Hc' Hl).
  eexists. split; [reflexivity|].
  set (c5 := fill ctab).
  assert (Hlen5 : zlen c5 = zlen ctab) by (unfold c5, fill; now rewrite zlen_map).
  set (lastcol := map (fun row => nth 4 row 0) c5).
  assert (Hlast : lastcol = map epack ctab).
  { unfold lastcol, c5, fill. rewrite map_map. apply map_ext_in. intros row Hin.
    rewrite Forall_forall in Hc. destruct (Hc row Hin) as (H4 & _). now destruct (nth_fill_row row H4) as (_ & -> & _). }
  unfold annot_file, read_annot. fold c5. fold lastcol.
  pose proof (zlen_nonneg labels) as Hv0.
  rewrite read1_i4 by (unfold i32_ok; lia).
  destruct (Z.ltb_spec (zlen labels) 0); [lia|].
  (* the (vertex, annotation value) pairs *)
  set (pairs := combine (zseq 0 (length labels)) (map (clut_of lastcol) labels)).
  assert (Hpl : length pairs = length labels) by (unfold pairs; rewrite combine_length, zseq_length, map_length; lia).
  rewrite flat_map_pairs.
  assert (Hil : zlen labels * 2 = zlen (flat_map (fun ic : Z * Z => [fst ic; snd ic]) pairs)).
  { rewrite zlen_interleave. unfold zlen. now rewrite Hpl. }
  rewrite (fromfile_i4 _ _ _ Hil). rewrite zlen_map, <- Hil, Z.eqb_refl. cbn [negb].
  assert (Hclut : forall l, label_ok (zlen ctab) l -> 0 <= clut_of lastcol l < 2 ^ 24).
  { intros l Hlo. unfold clut_of. destruct (Z.eqb_spec l (-1)); [lia|]. destruct Hlo as [->|Hlo]; [congruence|].
    rewrite Hlast. assert (Hin : In (nth (Z.to_nat l) (map epack ctab) 0) (map epack ctab)).
    { apply nth_In. rewrite map_length. unfold zlen in Hlo. lia. }
    apply in_map_iff in Hin as (row & <- & Hin). rewrite Forall_forall in Hc. destruct (Hc row Hin) as (_ & _ & Hrgb & _).
    now apply epack_range. }
  rewrite pairs_second_i4.
  2:{ unfold pairs. apply Forall_forall. intros p Hp. apply (in_map snd) in Hp.
      rewrite map_snd_combine in Hp by (now rewrite zseq_length, map_length).
      apply in_map_iff in Hp as (l & <- & Hlin). rewrite Forall_forall in Hl. specialize (Hclut l (Hl l Hlin)).
      unfold i32_ok. lia. }
  unfold pairs at 1. rewrite map_snd_combine by (now rewrite zseq_length, map_length).
  rewrite read1_i4 by (unfold i32_ok; lia). cbn [Z.eqb].
  rewrite read1_i4 by (unfold i32_ok; lia). cbn [Z.ltb Z.compare Z.opp Z.eqb Pos.eqb negb].
  rewrite read1_i4 by (unfold i32_ok; lia).
  destruct (Z.ltb_spec (zlen c5) 0); [lia|].
  unfold wstring at 1. rewrite <- !app_assoc.
  rewrite read1_i4 by (unfold i32_ok; cbn; lia).
  rewrite (read_S_wstring NOFILE) by (cbn; lia).
  rewrite read1_i4 by (unfold i32_ok; lia).
  (* the colour table entries *)
  assert (Hrows : Forall row_ok c5).
  { unfold c5, fill. apply Forall_forall. intros r Hr. apply in_map_iff in Hr as (row & <- & Hin).
    rewrite Forall_forall in Hc. destruct (Hc row Hin) as (H4 & _ & Hrgb & Hi).
    destruct (nth_fill_row row H4) as (_ & _ & L5). split; [assumption|].
    apply Forall_app. split; [now apply firstn_Forall|]. constructor; [|constructor].
    pose proof (epack_range row Hrgb). unfold i32_ok. lia. }
  assert (Hc5l : length c5 = length names) by (unfold c5, fill; rewrite map_length; lia).
  pose proof (read_entries_ok c5 names [] [] [] Hc5l Hrows Hnm) as Hre.
  cbn [app rev] in Hre. change (zlen (@nil (list Z))) with 0 in Hre. rewrite Z.add_0_l in Hre.
  rewrite !to_nat_zlen. change [0; 0; 0; 0; 0] with ZROW.
  rewrite <- (app_nil_r (flat_map entry_bytes _)).
  rewrite Hre by lia. clear Hre.
  (* packing on the read side gives the same table *)
  assert (Hct : map (fun row => firstn 4 row ++ [pack_rgb I32 row]) (map (fun row => firstn 4 row ++ [0]) c5) = c5).
  { rewrite map_map. unfold c5, fill. rewrite map_map. apply map_ext_in. intros row Hin.
    rewrite Forall_forall in Hc. destruct (Hc row Hin) as (H4 & _ & Hrgb & _).
    rewrite (firstn4_app row [epack row] H4), (firstn4_app row [0] H4).
    destruct (epack_firstn row [0] H4) as (P1 & P2).
    rewrite pack_rgb_I32 by (apply P2, Hrgb). now rewrite P1. }
  rewrite Hct. fold lastcol.
  (* the labels *)
  assert (Hmo : map_opt (relabel lastcol) (map (clut_of lastcol) labels) = Some labels).
  { clear - Hl Hlast Hnd Hnz. induction Hl as [|l labels Hlo Hr IH]; [reflexivity|].
    cbn [map map_opt]. rewrite IH. unfold clut_of at 1.
    destruct (Z.eqb_spec l (-1)) as [->|Hne]; [reflexivity|]. destruct Hlo as [->|Hlo]; [congruence|].
    rewrite relabel_hit; [reflexivity| | |].
    - now rewrite Hlast.
    - rewrite Hlast, zlen_map. exact Hlo.
    - intros E. apply Hnz. rewrite <- Hlast, <- E. apply nth_In. rewrite Hlast, map_length. unfold zlen in Hlo. lia. }
  rewrite Hmo. reflexivity.
Qed.

(* ------------------------------------------------------------------ MGH *)
Lemma zlen_flat_map4 {A} (g : A -> list Z) l : (forall x, length (g x) = 4%nat) -> zlen (flat_map g l) = 4 * zlen l.
Proof.
  intros Hg. induction l as [|x l IH]; [reflexivity|]. cbn [flat_map]. rewrite zlen_app, zlen_cons, IH.
  unfold zlen at 1. rewrite Hg. lia.
Qed.

Definition i16_ok (z : Z) : Prop := - 2 ^ 15 <= z < 2 ^ 15.

Lemma rd_i2 z : i16_ok z -> dec_s true (i2 z) = z.
Proof. intros H. unfold i2. apply dec_s_enc_s; [lia|]. exact H. Qed.

Definition wf_mgh (m : mgh) (data : list Z) : Prop :=
  length (hints m) = 7%nat /\ length (hfloats m) = 15%nat /\ length (hfooter m) = 5%nat
  /\ Forall i32_ok (hints m) /\ Forall u32_ok (hfloats m) /\ Forall u32_ok (hfooter m)
  /\ i16_ok (hgood m) /\ hgood m <> 0 /\ mversion m = 1
  /\ Forall (fun d => 0 < d) (mdims m)
  /\ exists bpv, bytespervox (mtype m) = Some bpv /\ zlen data = bpv * prodZ (mdims m).

Lemma take_app_len {A} n (a r : list A) : zlen a = n -> take n (a ++ r) = a.
Proof. intros <-. apply take_app_exact. Qed.
Lemma drop_app_len {A} n (a r : list A) : zlen a = n -> drop n (a ++ r) = r.
Proof. intros <-. apply drop_app_exact. Qed.

Lemma take_all {A} (l : list A) n : zlen l <= n -> take n l = l.
Proof. intros H. unfold take. apply firstn_all2. unfold zlen in H. lia. Qed.

Lemma prodZ_pos l : Forall (fun d => 0 < d) l -> 0 < prodZ l.
Proof. induction 1 as [|x l Hx Hl IH]; unfold prodZ in *; cbn [fold_right]; [lia|nia]. Qed.

Lemma mgh_roundtrip m data : wf_mgh m data -> mgh_read (mgh_write m data) = Ok (m, data).
Proof.
  intros (Hi & Hf & Ht & Ri & Rf & Rt & Rg & Gnz & Hver & Hd & bpv & Hb & Hl).
  destruct m as [ints good floats footer]. cbn [hints hgood hfloats hfooter] in *.
  unfold mversion, mdims, mtype in *. cbn [hints] in *.
  unfold mgh_write, mgh_read, hdr_bytes. cbn [hints hgood hfloats hfooter].
  assert (Li : zlen (flat_map i4 ints) = 28) by (rewrite (zlen_flat_map4 i4 ints i4_length); unfold zlen; rewrite Hi; reflexivity).
  assert (Lf : zlen (flat_map u4 floats) = 60) by (rewrite (zlen_flat_map4 u4 floats u4_length); unfold zlen; rewrite Hf; reflexivity).
  assert (Lt : zlen (flat_map u4 footer) = 20) by (rewrite (zlen_flat_map4 u4 footer u4_length); unfold zlen; rewrite Ht; reflexivity).
  assert (Lg : zlen (i2 good) = 2) by (unfold zlen, i2, enc_s; now rewrite enc_length).
  assert (Lh : zlen (flat_map i4 ints ++ i2 good ++ flat_map u4 floats) = 90) by (rewrite !zlen_app; lia).
  rewrite Lh. change (DATA_OFFSET - 90) with 194.
  set (tail := zeros 194 ++ data ++ flat_map u4 footer).
  assert (Lz : zlen (zeros 194) = 194) by (apply zeros_length; lia).
  pose proof (zlen_nonneg data) as Hd0.
  assert (Ltail : zlen tail = 194 + zlen data + 20) by (unfold tail; rewrite !zlen_app; lia).
  set (f := (flat_map i4 ints ++ i2 good ++ flat_map u4 floats) ++ tail).
  assert (Lfile : zlen f = 284 + zlen data + 20) by (unfold f; rewrite zlen_app; lia).
  destruct (Z.ltb_spec (zlen f) 90); [lia|].
  unfold f at 1. rewrite <- !app_assoc.
  rewrite (fromfile_i4 ints _ 7) by (unfold zlen; now rewrite Hi).
  rewrite (map_rd_i4 ints Ri).
  rewrite (take_app_len 2 (i2 good)) by assumption.
  rewrite (drop_app_len 2 (i2 good)) by assumption.
  rewrite (rd_i2 good Rg).
  rewrite (fromfile_u4 floats _ 15) by (unfold zlen; now rewrite Hf).
  assert (Ez : existsb (fun d => d =? 0) (firstn 4 (skipn 1 ints)) = false).
  { destruct (existsb _ _) eqn:E; [|reflexivity]. apply existsb_exists in E as (d & Hin & E0).
    rewrite Forall_forall in Hd. apply Hd in Hin. lia. }
  rewrite Ez, Hb.
  pose proof (prodZ_pos _ Hd) as Hpp.
  assert (Hbp : 0 < bpv).
  { unfold bytespervox in Hb. repeat (destruct (_ =? _) in Hb; [inversion Hb; lia|]). discriminate. }
  set (size := bpv * prodZ (firstn 4 (skipn 1 ints))) in *.
  assert (Hsz : 0 < size) by (unfold size; lia).
  (* the footer *)
  assert (Edrop : drop (DATA_OFFSET + size) f = flat_map u4 footer).
  { unfold f, tail. rewrite !app_assoc. apply drop_app_len. rewrite !zlen_app. unfold DATA_OFFSET. lia. }
  rewrite Edrop, (take_all (flat_map u4 footer) 20) by lia. rewrite Lt. change (zeros (20 - 20)) with (@nil Z).
  rewrite app_nil_r. rewrite <- (app_nil_r (flat_map u4 footer)) at 1.
  rewrite (fromfile_u4 footer [] 5) by (unfold zlen; now rewrite Ht).
  destruct (Z.eqb_spec good 0); [contradiction|].
  rewrite Hver. cbn [Z.eqb Pos.eqb negb].
  destruct (Z.ltb_spec size 0); [lia|].
  destruct (Z.ltb_spec (zlen f) (DATA_OFFSET + size)); [unfold DATA_OFFSET in *; lia|]. cbn [orb].
  rewrite (map_rd_u4 floats Rf), (map_rd_u4 footer Rt).
  assert (Edata : take size (drop DATA_OFFSET f) = data).
  { unfold f, tail.
    replace ((flat_map i4 ints ++ i2 good ++ flat_map u4 floats) ++ zeros 194 ++ data ++ flat_map u4 footer)
      with (((flat_map i4 ints ++ i2 good ++ flat_map u4 floats) ++ zeros 194) ++ data ++ flat_map u4 footer)
      by (now rewrite <- !app_assoc).
    rewrite (drop_app_len DATA_OFFSET) by (rewrite zlen_app; unfold DATA_OFFSET; lia).
    apply take_app_len. exact Hl. }
  rewrite Edata. reflexivity.
Qed.

(* 3-D versus 4-D: set_data_shape then get_data_shape *)
Lemma shape_roundtrip shape :
  Forall (fun d => 0 < d) shape ->
  (length shape = 3%nat \/ (length shape = 4%nat /\ 1 < nth 3 shape 0)) ->
  exists dims, set_data_shape shape = Ok dims /\ get_data_shape dims = shape
    /\ ndims dims = Z.of_nat (length shape).
Proof.
  intros Hp [H3|[H4 Hl]].
  - destruct shape as [|a [|b [|c [|]]]]; try discriminate. eexists. split; [reflexivity|]. split; reflexivity.
  - destruct shape as [|a [|b [|c [|d [|]]]]]; try discriminate. cbn [nth] in Hl.
    eexists. split; [reflexivity|]. unfold get_data_shape, ndims. cbn [nth app repeat length Nat.sub].
    destruct (Z.eqb_spec d 1); [lia|]. destruct (Z.ltb_spec 1 d); [|lia]. split; reflexivity.
Qed.

(* lower-dimensional shapes come back padded to 3-D (S-C01a), 4-D ones ending in 1 as 3-D *)
Lemma shape_padded_refuted :
  exists shape dims, Forall (fun d => 0 < d) shape /\ set_data_shape shape = Ok dims /\ get_data_shape dims <> shape.
Proof. exists [2; 3], [2; 3; 1; 1]. split; [repeat constructor; lia|]. split; [reflexivity|discriminate]. Qed.

Lemma zooms_of m : get_zooms m = mdelta m ++ (if 1 <? nth 3 (mdims m) 0 then [mtr m] else []).
Proof. unfold get_zooms, ndims. destruct (1 <? nth 3 (mdims m) 0); reflexivity. Qed.

(* ------------------------------------------------------------------ the statements that fail without their guard *)
(* S-C19a: a label whose colour packs to 0 reads back as -1 *)
Lemma annot_black_refuted :
  exists labels ctab names b a,
    write_annot None labels ctab names true = Ok b /\ read_annot false b = Ok a
    /\ NoDup (map epack ctab) /\ Forall (label_ok (zlen ctab)) labels /\ alabels a <> labels.
Proof.
  exists [0; 1], [[0; 0; 0; 0]; [10; 20; 30; 0]], [[97]; [98]]. eexists. eexists.
  split; [vm_compute; reflexivity|]. split; [vm_compute; reflexivity|].
  split; [repeat constructor; cbn; intuition discriminate|].
  split; [repeat (apply Forall_cons; [right; unfold zlen; cbn; lia|]); apply Forall_nil|]. cbn. discriminate.
Qed.


Definition ctab_ok (ctab : list (list Z)) : Prop :=
  Forall (fun row => (4 <= length row)%nat /\ rgb_ok row /\ Forall i32_ok row) ctab.

(* for ANY integer dtype of the colour table *)
Lemma annot_roundtrip_any dt labels ctab names :
  labels <> [] -> zlen labels * 2 < 2 ^ 31 -> 1 <= zlen ctab < 2 ^ 31 -> length names = length ctab ->
  ctab_ok ctab -> Forall name_ok names -> Forall (label_ok (zlen ctab)) labels ->
  NoDup (map epack ctab) -> ~ In 0 (map epack ctab) ->
  exists b, write_annot dt labels ctab names true = Ok b
    /\ read_annot false b = Ok (mkA labels (fill ctab) names).
Proof.
  intros Hne Hv Hn Hnl Hc Hnm Hl Hnd Hnz. apply annot_roundtrip; try assumption.
  eapply Forall_impl; [|exact Hc]. intros row (H4 & Hrgb & Hi).
  split; [assumption|]. split; [|split; assumption]. now apply pack_rgb_exact.
Qed.

(* fill_ctab=False with a consistent fifth column writes the same file *)
Lemma write_annot_nofill dt labels ctab names :
  Forall (fun row => length row = 5%nat /\ nth 4 row 0 = pack_rgb dt row) ctab ->
  write_annot dt labels ctab names false = write_annot dt labels ctab names true.
Proof.
  intros H. unfold write_annot.
  assert (E : map (fun row => firstn 4 row ++ [pack_rgb dt row]) ctab = ctab).
  { rewrite <- (map_id ctab) at 2. apply map_ext_in. intros row Hin. rewrite Forall_forall in H.
    destruct (H row Hin) as [H5 H4]. rewrite <- H4.
    destruct row as [|a [|b [|c [|d [|e [|]]]]]]; try discriminate. reflexivity. }
  now rewrite E.
Qed.

(* ------------------------------------------------------------------ a concrete instance of the hypotheses *)
Lemma clean_str_intro (s : list Z) a b m : s = a :: m ++ [b] ->
  forallb (fun c => negb (c =? 10) && negb (c =? 61)) s = true -> is_space a = false -> is_space b = false ->
  clean_str s.
Proof.
  intros -> Hf Ha Hb. rewrite forallb_forall in Hf.
  assert (Hno : forall c, In c (a :: m ++ [b]) -> c <> 10 /\ c <> 61).
  { intros c Hc. specialize (Hf c Hc). lia. }
  repeat split.
  - intros H. now apply Hno in H.
  - intros H. now apply Hno in H.
  - intros a0 t E. now inversion E; subst.
  - intros a0 t E. change (a :: m ++ [b]) with ((a :: m) ++ [b]) in E. apply app_inj_tail in E as [_ <-]. exact Hb.
Qed.

Lemma good_tok_intro (t : list Z) : t <> [] -> forallb (fun c => negb (is_space c) && negb (c =? 61)) t = true -> good_tok t.
Proof.
  intros Hn Hf. split; [assumption|]. apply Forall_forall. intros c Hc. rewrite forallb_forall in Hf.
  specialize (Hf c Hc). apply andb_true_iff in Hf as [H1 H2]. split; [now apply negb_true_iff in H1|lia].
Qed.

Lemma nonvacuous_instance :
  let ctab := [[25; 5; 25; 0]; [220; 20; 10; 255]; [0; 0; 1; 7]] in
  let names := [[117; 110; 107]; []; [98; 32; 99]] in
  let labels := [2; -1; 0; 1; 1] in
  ctab_ok ctab /\ Forall name_ok names /\ Forall (label_ok (zlen ctab)) labels
  /\ NoDup (map epack ctab) /\ ~ In 0 (map epack ctab)
  /\ (exists b, write_annot (Some (8, false)) labels ctab names true = Ok b
                /\ read_annot false b = Ok (mkA labels (fill ctab) names))
  /\ wf_vinfo (mkV [2; 0; 20] [49; 32; 118] [97; 46; 109]
                   [[[50; 53]; [49]]; [[48; 46; 53]]; [[45; 49]; [48]]; []; [[48]]; [[49; 101; 45; 48; 53]]]).
Proof.
  cbv zeta.
  assert (Ep : map epack [[25; 5; 25; 0]; [220; 20; 10; 255]; [0; 0; 1; 7]] = [1639705; 660700; 65536]) by (vm_compute; reflexivity).
  assert (Ez : zlen [[25; 5; 25; 0]; [220; 20; 10; 255]; [0; 0; 1; 7]] = 3) by reflexivity.
  rewrite Ep, Ez.
  split.
  { unfold ctab_ok. repeat (apply Forall_cons; [split; [cbn [length]; lia|split;
      [unfold rgb_ok; cbn [nth]; lia|repeat (apply Forall_cons; [unfold i32_ok; lia|]); apply Forall_nil]]|]). apply Forall_nil. }
  split. { repeat (apply Forall_cons; [split; [reflexivity|unfold zlen; cbn [length]; lia]|]). apply Forall_nil. }
  split. { apply Forall_cons; [right; lia|]. apply Forall_cons; [now left|].
           repeat (apply Forall_cons; [right; lia|]). apply Forall_nil. }
  split. { repeat (apply NoDup_cons; [cbn [In]; intuition discriminate|]). apply NoDup_nil. }
  split. { cbn [In]. intuition discriminate. }
  split. { eexists. split; [vm_compute; reflexivity|vm_compute; reflexivity]. }
  unfold wf_vinfo. cbn [vhead vvalid vfilename vnums]. split; [now right|].
  split. { apply (clean_str_intro _ 49 118 [32]); reflexivity. }
  split. { apply (clean_str_intro _ 97 109 [46]); reflexivity. }
  split; [reflexivity|].
  repeat (apply Forall_cons; [repeat (apply Forall_cons; [apply good_tok_intro; [discriminate|reflexivity]|]); apply Forall_nil|]).
  apply Forall_nil.
Qed.

(* ------------------------------------------------------------------ saving onto the file the data are mapped from *)
Lemma fs_get_set_same fs n b : fs_get (fs_set fs n b) n = Some b.
Proof. unfold fs_set. cbn. now rewrite Z.eqb_refl. Qed.
Lemma fs_get_set_other fs n n' b : n' <> n -> fs_get (fs_set fs n b) n' = fs_get fs n'.
Proof. intros H. unfold fs_set. cbn. destruct (Z.eqb_spec n n'); [congruence|reflexivity]. Qed.

Lemma buf_read_other fs target b buf : aliases buf target = false -> buf_read (fs_set fs target b) buf = buf_read fs buf.
Proof.
  destruct buf as [v|name off len]; [reflexivity|]. cbn [aliases buf_read]. intros H.
  rewrite fs_get_set_other; [reflexivity|]. intros ->. now rewrite Z.eqb_refl in H.
Qed.

(* the contract of unmap_if_target: whoever copies every array that aliases the target (and may copy
   others) writes exactly the value the array had before the save, whatever the file system holds *)
Lemma mgh_save_contract fs target m buf copies value :
  wf_mgh m value -> buf_read fs buf = Ok value ->
  (aliases buf target = true -> copies = true) ->
  exists fs', mgh_save fs target m buf copies = Ok fs'
    /\ fs_get fs' target = Some (mgh_write m value)
    /\ (forall f, fs_get fs' target = Some f -> mgh_read f = Ok (m, value))
    /\ (forall n, n <> target -> fs_get fs' n = fs_get fs n).
Proof.
  intros Hwf Hv Hc. unfold mgh_save.
  assert (Hstep : forall b, buf_read (fs_set fs target (hdr_bytes m ++ zeros (DATA_OFFSET - zlen (hdr_bytes m)))) b = Ok value ->
    exists fs', (match buf_read (fs_set fs target (hdr_bytes m ++ zeros (DATA_OFFSET - zlen (hdr_bytes m)))) b with
                 | Err e => Err e | Ok data => Ok (fs_set fs target (mgh_write m data)) end) = Ok fs'
      /\ fs_get fs' target = Some (mgh_write m value)
      /\ (forall f, fs_get fs' target = Some f -> mgh_read f = Ok (m, value))
      /\ (forall n, n <> target -> fs_get fs' n = fs_get fs n)).
  { intros b Hb. rewrite Hb. eexists. split; [reflexivity|]. rewrite fs_get_set_same. split; [reflexivity|]. split.
    - intros f E. inversion E; subst. now apply mgh_roundtrip.
    - intros n Hn. now apply fs_get_set_other. }
  destruct copies.
  - rewrite Hv. apply Hstep. reflexivity.
  - apply Hstep. rewrite buf_read_other; [assumption|].
    destruct (aliases buf target); [specialize (Hc eq_refl); discriminate|reflexivity].
Qed.

Lemma mgh_save_unmap fs target m buf value :
  wf_mgh m value -> buf_read fs buf = Ok value ->
  exists fs', mgh_save fs target m buf (unmap_if_target_decision buf target) = Ok fs'
    /\ (forall f, fs_get fs' target = Some f -> mgh_read f = Ok (m, value)).
Proof.
  intros Hwf Hv. destruct (mgh_save_contract fs target m buf _ value Hwf Hv (fun H => H)) as (fs' & H1 & _ & H3 & _).
  exists fs'. split; assumption.
Qed.

(* without the copy, a map of the target's data region is read after the truncation: undefined *)
Lemma mgh_save_alias_refuted fs target m len :
  0 < len -> zlen (hdr_bytes m) <= DATA_OFFSET ->
  mgh_save fs target m (Mapped target DATA_OFFSET len) false = Err ErrAlias.
Proof.
  intros Hl Hh. unfold mgh_save. cbn [buf_read]. rewrite fs_get_set_same.
  assert (E : zlen (hdr_bytes m ++ zeros (DATA_OFFSET - zlen (hdr_bytes m))) = DATA_OFFSET).
  { rewrite zlen_app, zeros_length by lia. lia. }
  rewrite E. unfold DATA_OFFSET in *.
  destruct (Z.leb_spec (284 + len) 284); [lia|]. now rewrite andb_false_r.
Qed.
