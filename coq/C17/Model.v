(* C17/Model.v — GIFTI: data-array codec, the expat handler state machine of
   GiftiImageParser, and the container operations of GiftiImage.
   Counterparts in /repo/nibabel:
     gifti/gifti.py  _data_tag_element (B64BIN/B64GZ branch)    -> tobytes, data_tag_text
     gifti/parse_gifti_fast.py  read_data_block                 -> read_data_block
       GiftiImageParser.StartElementHandler / EndElementHandler /
       CharacterDataHandler / flush_chardata                    -> start_h / end_h / Chars case of step / flush_chardata
     xmlutils.py XmlParser.parse (expat driving the handlers)    -> run over an event list
     gifti/gifti.py  GiftiImage.add_gifti_data_array / remove_gifti_data_array /
       remove_gifti_data_array_by_intent (after fix f8bf2610) /
       get_arrays_from_intent / agg_data (selection part)       -> c_add / c_remove / c_remove_by_intent /
                                                                   c_select / c_agg
   Strings are lists of code points (Z); array elements are unsigned bit patterns of the
   element width; an array value is (dims, elements in C order).  expat is represented by
   the event list it delivers: Start tag attrs | Chars chunk | End tag, attribute values
   already decoded (int(), Recoder lookups).  base64, zlib and np.loadtxt are Section
   variables (oracles).  Definitions only. *)
From Coq Require Import ZArith List Bool.
From NV Require Import Base.Bytes C17.Tables.
Import ListNotations.
Open Scope Z_scope.

Definition str := list Z.

(* ------------------------------------------------------------ str.strip() *)
Definition is_space (c : Z) : bool := existsb (Z.eqb c) space_table.
Fixpoint lstrip (l : str) : str :=
  match l with
  | [] => []
  | c :: r => if is_space c then lstrip r else l
  end.
Definition rstrip (l : str) : str := rev (lstrip (rev l)).
Definition strip (l : str) : str := rstrip (lstrip l).

(* ------------------------------------------------------------ index orders *)
(* mixed radix, least significant digit first = Fortran order *)
Fixpoint unravel_F (dims : list nat) (k : nat) : list nat :=
  match dims with
  | [] => []
  | d :: ds => (k mod d)%nat :: unravel_F ds (k / d)%nat
  end.
Fixpoint ravel_F (dims idx : list nat) : nat :=
  match dims, idx with
  | d :: ds, i :: r => (i + d * ravel_F ds r)%nat
  | _, _ => O
  end.
Definition ravel_C (dims idx : list nat) : nat := ravel_F (rev dims) (rev idx).
Definition unravel_C (dims : list nat) (k : nat) : list nat := rev (unravel_F (rev dims) k).
(* C position of the element at F position k, and conversely *)
Definition f2c (dims : list nat) (k : nat) : nat := ravel_C dims (unravel_F dims k).
Definition c2f (dims : list nat) (k : nat) : nat := ravel_F dims (unravel_C dims k).
Definition nprod (dims : list nat) : nat := fold_right Nat.mul 1%nat dims.

(* ord = true: ColumnMajorOrder ('F').  a.tobytes(order) element sequence of a C-order array *)
Definition reorder_to (colmajor : bool) (dims : list nat) (dataC : list Z) : list Z :=
  if colmajor then map (fun k => nth (f2c dims k) dataC 0) (seq 0 (length dataC)) else dataC.
(* flat.reshape(dims, order) seen in C order *)
Definition reorder_from (colmajor : bool) (dims : list nat) (buf : list Z) : list Z :=
  if colmajor then map (fun k => nth (c2f dims k) buf 0) (seq 0 (length buf)) else buf.

(* ------------------------------------------------------------ element codec *)
Fixpoint chunks (w : nat) (fuel : nat) (b : list Z) : list (list Z) :=
  match fuel with
  | O => []
  | S f => match b with [] => [] | _ => firstn w b :: chunks w f (skipn w b) end
  end.
(* np.frombuffer(buf, dtype): None when the length is not a multiple of the item size *)
Definition frombuffer (be : bool) (w : nat) (buf : list Z) : option (list Z) :=
  if (w =? 0)%nat then None
  else if negb ((length buf mod w) =? 0)%nat then None
  else Some (map (dec be) (chunks w (length buf) buf)).
Definition tobytes (be : bool) (w : nat) (colmajor : bool) (dims : list nat) (dataC : list Z) : list Z :=
  flat_map (enc be w) (reorder_to colmajor dims dataC).

Fixpoint assoc (k : Z) (t : list (Z * Z)) : option Z :=
  match t with [] => None | (a, b) :: r => if a =? k then Some b else assoc k r end.

Record da_attrs := mkAttrs {
  a_intent : Z; a_datatype : Z; a_ind_ord : Z; a_dims : list Z; a_encoding : Z; a_endian : Z;
  a_ext_fname : str; a_ext_offset : Z }.

Inductive perr :=
  | EParse        (* GiftiParseError *)
  | EState        (* AttributeError / TypeError / IndexError from a handler used out of context *)
  | EData         (* read_data_block could not decode / reshape *)
  | EUnsupported. (* outside the model: external files, DataArray inside an open coordinate system *)
Inductive res (A : Type) := Ok (a : A) | Err (e : perr).
Arguments Ok {A}. Arguments Err {A}.
Definition bind {A B} (r : res A) (f : A -> res B) : res B :=
  match r with Ok a => f a | Err e => Err e end.

(* ------------------------------------------------------------ ASCII integers *)
(* '%d' % v and int(word) on code points; _arr2txt / np.loadtxt for integer datatypes *)
Fixpoint digits_aux (fuel : nat) (n : Z) (acc : str) : str :=
  match fuel with
  | O => acc
  | S f => let acc' := (48 + n mod 10) :: acc in
           if n / 10 =? 0 then acc' else digits_aux f (n / 10) acc'
  end.
Definition fmt_nat (n : Z) : str := digits_aux (S (Z.to_nat (Z.log2 n))) n [].
Definition fmt_int (v : Z) : str := if v <? 0 then 45 :: fmt_nat (- v) else fmt_nat v.
Fixpoint parse_nat (l : str) (acc : Z) : option Z :=
  match l with
  | [] => Some acc
  | c :: r => if (48 <=? c) && (c <=? 57) then parse_nat r (10 * acc + (c - 48)) else None
  end.
Definition parse_int (l : str) : option Z :=
  match l with
  | [] => None
  | c :: r => if c =? 45 then match r with [] => None | _ => option_map Z.opp (parse_nat r 0) end
              else parse_nat l 0
  end.

(* str.join *)
Fixpoint join (sep : Z) (l : list str) : str :=
  match l with
  | [] => []
  | [x] => x
  | x :: r => x ++ sep :: join sep r
  end.
(* split on any of the separator characters, dropping empty pieces (str.split() / blank lines) *)
Fixpoint split_aux (seps : list Z) (l : str) (cur : str) : list str :=
  match l with
  | [] => match cur with [] => [] | _ => [rev cur] end
  | c :: r => if existsb (Z.eqb c) seps
              then match cur with [] => split_aux seps r [] | _ => rev cur :: split_aux seps r [] end
              else split_aux seps r (c :: cur)
  end.
Definition split (seps : list Z) (l : str) : list str := split_aux seps l [].

Fixpoint rows_of {A} (c : nat) (fuel : nat) (l : list A) : list (list A) :=
  match fuel with
  | O => []
  | S f => match l with [] => [] | _ => firstn c l :: rows_of c f (skipn c l) end
  end.
Fixpoint all_some {A} (l : list (option A)) : option (list A) :=
  match l with
  | [] => Some []
  | None :: _ => None
  | Some x :: r => match all_some r with Some r' => Some (x :: r') | None => None end
  end.

(* the value an element (bit pattern of w bytes) is printed as, and back *)
Definition elem_value (signed : bool) (w : nat) (u : Z) : Z := if signed then to_signed w u else u.
Definition elem_of_value (signed : bool) (w : nat) (v : Z) : option Z :=
  if signed then (if (- (pow256 w / 2) <=? v) && (v <? pow256 w / 2) then Some (of_signed w v) else None)
  else (if (0 <=? v) && (v <? pow256 w) then Some v else None).

(* _arr2txt(arr, '%d'): 1-D arrays one element per line, 2-D arrays one row per line; more
   dimensions are refused (TypeError) *)
Definition arr2txt_int (signed : bool) (w : nat) (dims : list nat) (dataC : list Z) : option str :=
  let f := fun u => fmt_int (elem_value signed w u) in
  match dims with
  | [_] => Some (join 10 (map f dataC))
  | [_; c] => Some (join 10 (map (fun row => join 32 (map f row)) (rows_of c (length dataC) dataC)))
  | _ => None
  end.
(* np.loadtxt(text, integer dtype, ndmin=1): shape (unit axes squeezed) and elements, C order *)
Definition loadtxt_int (signed : bool) (w : nat) (text : str) : option (list nat * list Z) :=
  let rows := map (split [32; 9]) (split [10] text) in
  match rows with
  | [] => Some ([O], [])
  | r0 :: _ =>
    let c := length r0 in
    if negb (forallb (fun r => (length r =? c)%nat) rows) then None
    else match all_some (map (fun wd => match parse_int wd with Some v => elem_of_value signed w v | None => None end)
                             (concat rows)) with
         | None => None
         | Some elems =>
           let r := length rows in
           Some (if (r =? 1)%nat || (c =? 1)%nat then [(r * c)%nat] else [r; c], elems)
         end
  end.
Fixpoint assoc_b (k : Z) (t : list (Z * bool)) : option bool :=
  match t with [] => None | (a, b) :: r => if a =? k then Some b else assoc_b k r end.

Section Oracles.
  Variable b64dec : str -> option (list Z).      (* base64.b64decode(text.encode('ascii')) *)
  Variable zdecomp : list Z -> option (list Z).  (* zlib.decompress *)
  (* np.loadtxt(StringIO(text), dtype, ndmin=1): shape and elements (C order) *)
  Variable loadtxt : Z -> str -> option (list nat * list Z).

  (* read_data_block(darray, fname=None, data, mmap); data = None when the element was empty *)
  Definition read_data_block (a : da_attrs) (data : option str) : res (list Z) :=
    let e := a_encoding a in
    if negb ((e =? enc_ascii) || (e =? enc_b64bin) || (e =? enc_b64gz) || (e =? enc_external)) then Err EParse
    else
      match (if a_endian a =? end_big then Some true else if a_endian a =? end_little then Some false else None),
            assoc (a_datatype a) dtype_table,
            (if a_ind_ord a =? ord_c then Some false else if a_ind_ord a =? ord_f then Some true else None) with
      | Some be, Some w, Some colmajor =>
        let dims := map Z.to_nat (a_dims a) in
        if existsb (fun d => d <? 0) (a_dims a) then Err EUnsupported   (* numpy treats -1 specially *)
        else if e =? enc_ascii then
          (* StringIO(None) is an empty file: an empty element reads as empty text *)
          match (match assoc_b (a_datatype a) int_kind_table with
                 | Some signed => loadtxt_int signed (Z.to_nat w)   (* integer datatypes: in the model *)
                 | None => loadtxt (a_datatype a)                   (* floats: oracle *)
                 end) (match data with Some text => text | None => [] end) with
          | None => Err EData
          | Some (shp, elems) =>
            if negb ((length elems =? nprod dims)%nat && (length elems =? nprod shp)%nat) then Err EData
            else Ok (reorder_from colmajor dims (reorder_to colmajor shp elems))
          end
        else if e =? enc_external then Err EUnsupported
        else
          match data with
          | None => Err EData
          | Some text =>
            match b64dec text with
            | None => Err EData
            | Some dec =>
              match (if e =? enc_b64bin then Some dec else zdecomp dec) with
              | None => Err EData
              | Some buf =>
                match frombuffer be (Z.to_nat w) buf with
                | None => Err EData
                | Some elems =>
                  if negb (length elems =? nprod dims)%nat then Err EData
                  else Ok (reorder_from colmajor dims elems)
                end
              end
            end
          end
      | _, _, _ => Err EData
      end.

  (* ---------------------------------------------------------- parsed structures *)
  Definition meta := list (str * str).
  Fixpoint str_eqb (a b : str) : bool :=
    match a, b with
    | [], [] => true
    | x :: a', y :: b' => (x =? y) && str_eqb a' b'
    | _, _ => false
    end.
  (* dict[key] = val: an existing key keeps its position *)
  Fixpoint dict_set (m : meta) (k v : str) : meta :=
    match m with
    | [] => [(k, v)]
    | (k', v') :: r => if str_eqb k' k then (k', v) :: r else (k', v') :: dict_set r k v
    end.

  Record label := mkLabel { lb_key : Z; lb_rgba : list (option Z); lb_text : option str }.
  Record coordsys := mkCS { cs_dataspace : option str; cs_xformspace : option str; cs_xform : option (list Z) }.
  Definition cs_default : coordsys := mkCS None None None.   (* GiftiCoordSystem(): codes 0, identity *)
  Record darray := mkDA { d_attrs : da_attrs; d_meta : option meta; d_cs : coordsys; d_data : option (list Z) }.
  Record image := mkImg { i_version : option str; i_meta : meta; i_labels : list label; i_darrays : list darray }.

  Inductive tag := TGifti | TMetaData | TMD | TName | TValue | TLabelTable | TLabel | TDataArray | TCSTM
                 | TDataSpace | TTransformedSpace | TMatrixData | TData | TOther.
  Inductive attrs := ANone | AGifti (version : option str) | ALabel (key : Z) (rgba : list (option Z))
                   | ADataArray (a : da_attrs).
  Inductive event := Start (t : tag) (a : attrs) | Chars (c : str) | End (t : tag).
  Inductive wt := WName | WValue | WDataSpace | WTransformedSpace | WMatrixData | WData | WLabel.

  (* parser state; the current data array (self.da) and coordinate system (self.coordsys)
     are the last element of s_darrays / its d_cs (aliases of the objects in the image) *)
  Record st := mkSt {
    s_img : bool;                       (* self.img is not None *)
    s_version : option str;
    s_img_meta : meta;
    s_img_labels : list label;
    s_darrays : list darray;
    s_depth : nat;                      (* len(self.fsm_state) *)
    s_nvpair : option (str * str);
    s_meta_global : option meta;
    s_meta_da : option meta;
    s_lata : option (list label);
    s_label : option label;
    s_cs_open : bool;                   (* self.coordsys is not None *)
    s_write_to : option wt;
    s_chars : option (list str)         (* self._char_blocks *)
  }.
  Definition st0 : st := mkSt false None [] [] [] O None None None None None false None None.

  Definition set_chars (s : st) (c : option (list str)) : st :=
    mkSt (s_img s) (s_version s) (s_img_meta s) (s_img_labels s) (s_darrays s) (s_depth s) (s_nvpair s)
         (s_meta_global s) (s_meta_da s) (s_lata s) (s_label s) (s_cs_open s) (s_write_to s) c.
  Definition set_write_to (s : st) (w : option wt) : st :=
    mkSt (s_img s) (s_version s) (s_img_meta s) (s_img_labels s) (s_darrays s) (s_depth s) (s_nvpair s)
         (s_meta_global s) (s_meta_da s) (s_lata s) (s_label s) (s_cs_open s) w (s_chars s).
  Definition set_nvpair (s : st) (p : option (str * str)) : st :=
    mkSt (s_img s) (s_version s) (s_img_meta s) (s_img_labels s) (s_darrays s) (s_depth s) p
         (s_meta_global s) (s_meta_da s) (s_lata s) (s_label s) (s_cs_open s) (s_write_to s) (s_chars s).
  Definition set_darrays (s : st) (d : list darray) : st :=
    mkSt (s_img s) (s_version s) (s_img_meta s) (s_img_labels s) d (s_depth s) (s_nvpair s)
         (s_meta_global s) (s_meta_da s) (s_lata s) (s_label s) (s_cs_open s) (s_write_to s) (s_chars s).
  Definition set_depth (s : st) (n : nat) : st :=
    mkSt (s_img s) (s_version s) (s_img_meta s) (s_img_labels s) (s_darrays s) n (s_nvpair s)
         (s_meta_global s) (s_meta_da s) (s_lata s) (s_label s) (s_cs_open s) (s_write_to s) (s_chars s).
  Definition set_metas (s : st) (g d : option meta) : st :=
    mkSt (s_img s) (s_version s) (s_img_meta s) (s_img_labels s) (s_darrays s) (s_depth s) (s_nvpair s)
         g d (s_lata s) (s_label s) (s_cs_open s) (s_write_to s) (s_chars s).
  Definition set_img_meta (s : st) (m : meta) : st :=
    mkSt (s_img s) (s_version s) m (s_img_labels s) (s_darrays s) (s_depth s) (s_nvpair s)
         (s_meta_global s) (s_meta_da s) (s_lata s) (s_label s) (s_cs_open s) (s_write_to s) (s_chars s).
  Definition set_img_labels (s : st) (l : list label) : st :=
    mkSt (s_img s) (s_version s) (s_img_meta s) l (s_darrays s) (s_depth s) (s_nvpair s)
         (s_meta_global s) (s_meta_da s) (s_lata s) (s_label s) (s_cs_open s) (s_write_to s) (s_chars s).
  Definition set_lata (s : st) (l : option (list label)) : st :=
    mkSt (s_img s) (s_version s) (s_img_meta s) (s_img_labels s) (s_darrays s) (s_depth s) (s_nvpair s)
         (s_meta_global s) (s_meta_da s) l (s_label s) (s_cs_open s) (s_write_to s) (s_chars s).
  Definition set_label (s : st) (l : option label) : st :=
    mkSt (s_img s) (s_version s) (s_img_meta s) (s_img_labels s) (s_darrays s) (s_depth s) (s_nvpair s)
         (s_meta_global s) (s_meta_da s) (s_lata s) l (s_cs_open s) (s_write_to s) (s_chars s).
  Definition set_cs_open (s : st) (b : bool) : st :=
    mkSt (s_img s) (s_version s) (s_img_meta s) (s_img_labels s) (s_darrays s) (s_depth s) (s_nvpair s)
         (s_meta_global s) (s_meta_da s) (s_lata s) (s_label s) b (s_write_to s) (s_chars s).

  (* update the last data array (self.da / self.img.darrays[-1]); None when there is none *)
  Fixpoint upd_last (f : darray -> darray) (l : list darray) : option (list darray) :=
    match l with
    | [] => None
    | [d] => Some [f d]
    | d :: r => match upd_last f r with Some r' => Some (d :: r') | None => None end
    end.
  Definition upd_cs (f : coordsys -> coordsys) (d : darray) : darray :=
    mkDA (d_attrs d) (d_meta d) (f (d_cs d)) (d_data d).

  Definition chars_data (s : st) : option str := option_map (@concat Z) (s_chars s).

  (* flush_chardata *)
  Definition flush_chardata (s : st) : res st :=
    match s_write_to s, s_chars s with
    | Some WData, _ | _, Some _ =>
      let data := chars_data s in
      let s0 := set_chars s None in
      match s_write_to s, data with
      | Some WName, Some d =>
        match s_nvpair s with Some (_, v) => Ok (set_nvpair s0 (Some (strip d, v))) | None => Err EState end
      | Some WValue, Some d =>
        match s_nvpair s with Some (n, _) => Ok (set_nvpair s0 (Some (n, strip d))) | None => Err EState end
      | Some WDataSpace, Some d =>
        if negb (s_cs_open s) then Err EState else
        match upd_last (upd_cs (fun c => mkCS (Some (strip d)) (cs_xformspace c) (cs_xform c))) (s_darrays s) with
        | Some l => Ok (set_darrays s0 l) | None => Err EState end
      | Some WTransformedSpace, Some d =>
        if negb (s_cs_open s) then Err EState else
        match upd_last (upd_cs (fun c => mkCS (cs_dataspace c) (Some (strip d)) (cs_xform c))) (s_darrays s) with
        | Some l => Ok (set_darrays s0 l) | None => Err EState end
      | Some WMatrixData, Some d =>
        if negb (s_cs_open s) then Err EState else
        match loadtxt 64 d with
        | None => Err EData
        | Some (_, x) =>
          match upd_last (upd_cs (fun c => mkCS (cs_dataspace c) (cs_xformspace c) (Some x))) (s_darrays s) with
          | Some l => Ok (set_darrays s0 l) | None => Err EState end
        end
      | Some WData, data =>
        match rev (s_darrays s) with
        | [] => Err EState
        | d :: _ =>
          match read_data_block (d_attrs d) data with
          | Err e => Err e
          | Ok x =>
            match upd_last (fun d => mkDA (d_attrs d) (d_meta d) (d_cs d) (Some x)) (s_darrays s) with
            | Some l => Ok (set_darrays s0 l) | None => Err EState end
          end
        end
      | Some WLabel, Some d =>
        match s_label s with
        | Some lb => Ok (set_label s0 (Some (mkLabel (lb_key lb) (lb_rgba lb) (Some (strip d)))))
        | None => Err EState end
      | _, _ => Ok s0
      end
    | _, None => Ok s
    end.

  Definition da_new (a : da_attrs) : darray := mkDA a (Some []) cs_default None.

  (* StartElementHandler after its flush_chardata *)
  Definition start_h (t : tag) (a : attrs) (s : st) : res st :=
    match t with
    | TGifti =>
      let v := match a with AGifti v => v | _ => None end in
      Ok (mkSt true v [] [] [] (S (s_depth s)) (s_nvpair s) (s_meta_global s) (s_meta_da s) (s_lata s)
               (s_label s) (s_cs_open s) (s_write_to s) (s_chars s))
    | TMetaData =>
      let s1 := set_depth s (S (s_depth s)) in
      if (s_depth s1 =? 2)%nat then Ok (set_metas s1 (Some []) (s_meta_da s1))
      else Ok (set_metas s1 (s_meta_global s1) (Some []))
    | TMD => Ok (set_depth (set_nvpair s (Some ([], []))) (S (s_depth s)))
    | TName => match s_nvpair s with None => Err EParse | Some _ => Ok (set_write_to s (Some WName)) end
    | TValue => match s_nvpair s with None => Err EParse | Some _ => Ok (set_write_to s (Some WValue)) end
    | TLabelTable => Ok (set_depth (set_lata s (Some [])) (S (s_depth s)))
    | TLabel =>
      match a with
      (* self.label.label = '' (fix 616e06f9): a Label element without text has the empty text *)
      | ALabel k c => Ok (set_write_to (set_label s (Some (mkLabel k c (Some [])))) (Some WLabel))
      | _ => Ok (set_write_to (set_label s (Some (mkLabel 0 [None; None; None; None] (Some [])))) (Some WLabel))
      end
    | TDataArray =>
      if negb (s_img s) then Err EState
      else if s_cs_open s then Err EUnsupported
      else match a with
           | ADataArray at_ => Ok (set_depth (set_darrays s (s_darrays s ++ [da_new at_])) (S (s_depth s)))
           | _ => Err EUnsupported
           end
    | TCSTM =>
      match upd_last (upd_cs (fun _ => cs_default)) (s_darrays s) with
      | None => Err EState
      | Some l => Ok (set_depth (set_cs_open (set_darrays s l) true) (S (s_depth s)))
      end
    | TDataSpace => if s_cs_open s then Ok (set_write_to s (Some WDataSpace)) else Err EParse
    | TTransformedSpace => if s_cs_open s then Ok (set_write_to s (Some WTransformedSpace)) else Err EParse
    | TMatrixData => if s_cs_open s then Ok (set_write_to s (Some WMatrixData)) else Err EParse
    | TData => Ok (set_write_to s (Some WData))
    | TOther => Ok s
    end.

  (* EndElementHandler after its flush_chardata *)
  Definition end_h (t : tag) (s : st) : res st :=
    match t with
    | TGifti => match s_depth s with O => Err EState | S n => Ok (set_depth s n) end
    | TMetaData =>
      match s_depth s with
      | O => Err EState
      | S n =>
        let s1 := set_depth s n in
        if (n =? 1)%nat then
          match s_meta_global s1 with
          | None => Err EState        (* the meta setter rejects None *)
          | Some m => if s_img s1 then Ok (set_metas (set_img_meta s1 m) None (s_meta_da s1)) else Err EState
          end
        else
          match upd_last (fun d => mkDA (d_attrs d) (s_meta_da s1) (d_cs d) (d_data d)) (s_darrays s1) with
          | None => Err EState
          | Some l => Ok (set_metas (set_darrays s1 l) (s_meta_global s1) None)
          end
      end
    | TMD =>
      match s_depth s with
      | O => Err EState
      | S n =>
        match s_nvpair s with
        | None => Err EState
        | Some (k, v) =>
          let s1 := set_nvpair (set_depth s n) None in
          match s_meta_global s, s_meta_da s with
          | Some g, None => Ok (set_metas s1 (Some (dict_set g k v)) None)
          | None, Some d => Ok (set_metas s1 None (Some (dict_set d k v)))
          | _, _ => Ok s1
          end
        end
      end
    | TLabelTable =>
      match s_depth s with
      | O => Err EState
      | S n =>
        match s_lata s with
        | None => Err EState
        | Some l => if s_img s then Ok (set_lata (set_img_labels (set_depth s n) l) None) else Err EState
        end
      end
    | TDataArray => match s_depth s with O => Err EState | S n => Ok (set_depth s n) end
    | TCSTM => match s_depth s with O => Err EState | S n => Ok (set_cs_open (set_depth s n) false) end
    | TDataSpace | TTransformedSpace | TMatrixData | TName | TValue | TData => Ok (set_write_to s None)
    | TLabel =>
      match s_lata s, s_label s with
      | Some l, Some lb => Ok (set_write_to (set_label (set_lata s (Some (l ++ [lb]))) None) None)
      | Some l, None => Err EUnsupported
      | None, _ => Err EState
      end
    | TOther => Ok s
    end.

  Definition add_chunk (s : st) (c : str) : st :=
    set_chars s (Some (match s_chars s with None => [] | Some b => b end ++ [c])).

  Definition step (s : st) (e : event) : res st :=
    match e with
    | Chars c => Ok (add_chunk s c)
    | Start t a => bind (flush_chardata s) (start_h t a)
    | End t => bind (flush_chardata s) (end_h t)
    end.

  Fixpoint run (s : st) (evs : list event) : res st :=
    match evs with
    | [] => Ok s
    | e :: r => bind (step s e) (fun s' => run s' r)
    end.

  (* parser.img after ParseFile *)
  Definition finish (s : st) : res image :=
    if s_img s then Ok (mkImg (s_version s) (s_img_meta s) (s_img_labels s) (s_darrays s)) else Err EState.
  Definition parse (evs : list event) : res image := bind (run st0 evs) finish.

  (* merging adjacent character-data events (what a larger expat buffer does) *)
  Fixpoint merge (evs : list event) : list event :=
    match evs with
    | [] => []
    | Chars a :: r =>
      match merge r with
      | Chars b :: r' => Chars (a ++ b) :: r'
      | mr => Chars a :: mr
      end
    | e :: r => e :: merge r
    end.
End Oracles.

(* ------------------------------------------------------------ writer side of the Base64 encodings *)
Section Encode.
  Variable b64enc : list Z -> str.
  Variable zcomp : list Z -> list Z.
  (* _data_tag_element for B64BIN (gz = false) / B64GZ (gz = true); be = machine byte order *)
  Definition data_tag_text (be gz : bool) (w : nat) (colmajor : bool) (dims : list nat) (dataC : list Z) : str :=
    let out := tobytes be w colmajor dims dataC in
    b64enc (if gz then zcomp out else out).
End Encode.

(* ------------------------------------------------------------ container operations *)
(* a data array is (identity, intent) here *)
Definition item := (Z * Z)%type.
Definition c_add (l : list item) (x : item) : list item := l ++ [x].
(* list.pop(i): negative positions count from the end; None = IndexError *)
Definition c_remove (l : list item) (i : Z) : option (list item) :=
  let n := Z.of_nat (length l) in
  let j := if i <? 0 then i + n else i in
  if (j <? 0) || (n <=? j) then None
  else Some (firstn (Z.to_nat j) l ++ skipn (S (Z.to_nat j)) l).
Definition c_remove_by_intent (l : list item) (intent : Z) : list item :=
  filter (fun x => negb (snd x =? intent)) l.
Definition c_select (l : list item) (intent : Z) : list item := filter (fun x => snd x =? intent) l.
Inductive agg := AStack (ids : list Z) | ASingle (id : Z) | ATuple (ids : list Z).
(* agg_data(intent_code) for None / one code: which arrays, and how they are packed *)
Definition c_agg (l : list item) (intent : option Z) : agg :=
  let sel := match intent with None => l | Some i => c_select l i end in
  let ids := map fst sel in
  if negb (length sel =? 0)%nat && forallb (fun x => snd x =? intent_time_series) sel then AStack ids
  else match ids with [x] => ASingle x | _ => ATuple ids end.
