(* C17 driver body (after `open C17_model` and drvlib.ml).
   strip [cps]                                   -> ok [cps]
   tobytes <be> <w> <colmajor> [dims] [elems]    -> ok x<hex>
   frombuf <be> <w> <colmajor> [dims] x<hex>     -> ok [elems] | err data
   arr2txt <signed> <w> [dims] [elems]           -> ok [cps] | err refused     (_arr2txt with '%d')
   cont <n> (<id> <intent>)* OP*                 -> ok <r1>;<r2>;...
        OP = add <id> <intent> | rm <i> | rmi <intent> | sel <intent> | agg <intent|->
        r  = [ids] (list after add/rm/rmi, selection for sel) | IndexError | S[ids] | O<id> | T[ids]
   parse <nt> TAB* <ne> EV*  /  pmerge ... (same, events merged by the model first)
        TAB = b64 [text] x<hex>|- | z x<hex> x<hex>|- | lt <dtcode> [text] [shape]|- [elems]|-
        EV  = S <tag> <attrs> | C [cps] | E <tag>
              attrs: GIFTI: <[version]|-> ; Label: <key> <r> <g> <b> <a> (float64 bits or -)
                     DataArray: <intent> <datatype> <ind_ord> [dims] <encoding> <endian> [ext_fname] <ext_offset>
        -> ok v=<[cps]|-> meta=<M> labels=<L> da=<D>  | err parse|state|data|unsupported *)
let nat_of_z x = nat_of_int (int_of_z x)
let natlist_of_string s = List.map nat_of_z (zlist_of_string s)
let opt_z s = if s = "-" then None else Some (z_of_string s)
let opt_zl s = if s = "-" then None else Some (zlist_of_string s)
let str_opt_zl = function None -> "-" | Some l -> string_of_zlist l
let tag_of_string = function
  | "GIFTI" -> TGifti | "MetaData" -> TMetaData | "MD" -> TMD | "Name" -> TName | "Value" -> TValue
  | "LabelTable" -> TLabelTable | "Label" -> TLabel | "DataArray" -> TDataArray
  | "CoordinateSystemTransformMatrix" -> TCSTM | "DataSpace" -> TDataSpace
  | "TransformedSpace" -> TTransformedSpace | "MatrixData" -> TMatrixData | "Data" -> TData | _ -> TOther
let rec tabs_of_args n args (b, z, l) = if n = 0 then ((b, z, l), args) else match args with
  | "b64" :: t :: r :: rest -> tabs_of_args (n - 1) rest ((zlist_of_string t, (if r = "-" then None else Some (bytes_of_hex r))) :: b, z, l)
  | "z" :: t :: r :: rest -> tabs_of_args (n - 1) rest (b, (bytes_of_hex t, (if r = "-" then None else Some (bytes_of_hex r))) :: z, l)
  | "lt" :: c :: t :: sh :: el :: rest ->
    let v = if sh = "-" then None else Some (natlist_of_string sh, zlist_of_string el) in
    tabs_of_args (n - 1) rest (b, z, ((z_of_string c, zlist_of_string t), v) :: l)
  | _ -> failwith "bad table"
let rec evs_of_args n args = if n = 0 then [] else match args with
  | "C" :: c :: rest -> Chars (zlist_of_string c) :: evs_of_args (n - 1) rest
  | "E" :: t :: rest -> End (tag_of_string t) :: evs_of_args (n - 1) rest
  | "S" :: "GIFTI" :: v :: rest -> Start (TGifti, AGifti (opt_zl v)) :: evs_of_args (n - 1) rest
  | "S" :: "Label" :: k :: r :: g :: b :: a :: rest ->
    Start (TLabel, ALabel (z_of_string k, [opt_z r; opt_z g; opt_z b; opt_z a])) :: evs_of_args (n - 1) rest
  | "S" :: "DataArray" :: i :: dt :: io :: dims :: en :: ed :: fn :: off :: rest ->
    Start (TDataArray, ADataArray { a_intent = z_of_string i; a_datatype = z_of_string dt; a_ind_ord = z_of_string io;
                                    a_dims = zlist_of_string dims; a_encoding = z_of_string en; a_endian = z_of_string ed;
                                    a_ext_fname = zlist_of_string fn; a_ext_offset = z_of_string off }) :: evs_of_args (n - 1) rest
  | "S" :: t :: rest -> Start (tag_of_string t, ANone) :: evs_of_args (n - 1) rest
  | _ -> failwith "bad event"
let string_of_meta m = "{" ^ String.concat "," (List.map (fun (k, v) -> string_of_zlist k ^ ":" ^ string_of_zlist v) m) ^ "}"
let string_of_optz = function None -> "-" | Some x -> string_of_z x
let string_of_label l =
  string_of_z l.lb_key ^ "/" ^ String.concat "/" (List.map string_of_optz l.lb_rgba) ^ "/" ^ str_opt_zl l.lb_text
let string_of_da d =
  let a = d.d_attrs in
  "(" ^ String.concat "," [string_of_z a.a_intent; string_of_z a.a_datatype; string_of_z a.a_ind_ord;
                            string_of_zlist a.a_dims; string_of_z a.a_encoding; string_of_z a.a_endian;
                            string_of_zlist a.a_ext_fname; string_of_z a.a_ext_offset]
  ^ ",meta=" ^ (match d.d_meta with None -> "-" | Some m -> string_of_meta m)
  ^ ",cs=" ^ str_opt_zl d.d_cs.cs_dataspace ^ "/" ^ str_opt_zl d.d_cs.cs_xformspace ^ "/" ^ str_opt_zl d.d_cs.cs_xform
  ^ ",data=" ^ str_opt_zl d.d_data ^ ")"
let string_of_perr = function EParse -> "parse" | EState -> "state" | EData -> "data" | EUnsupported -> "unsupported"
let do_parse merged args = match args with
  | nt :: rest ->
    let ((b, z, l), rest) = tabs_of_args (int_of_string nt) rest ([], [], []) in
    (match rest with
     | ne :: rest ->
       let evs = evs_of_args (int_of_string ne) rest in
       let evs = if merged then merge evs else evs in
       let b64dec t = (try List.assoc t b with Not_found -> failwith "oracle:b64") in
       let zdec t = (try List.assoc t z with Not_found -> failwith "oracle:zlib") in
       let lt c t = (try List.assoc (c, t) l with Not_found -> failwith "oracle:loadtxt") in
       (match parse b64dec zdec lt evs with
        | Ok i -> "ok v=" ^ str_opt_zl i.i_version ^ " meta=" ^ string_of_meta i.i_meta
                  ^ " labels=" ^ String.concat ";" (List.map string_of_label i.i_labels)
                  ^ " da=" ^ String.concat ";" (List.map string_of_da i.i_darrays)
        | Err e -> "err " ^ string_of_perr e)
     | _ -> failwith "bad parse args")
  | _ -> failwith "bad parse args"
let rec items_of_args n args = if n = 0 then ([], args) else match args with
  | i :: t :: r -> let (l, r') = items_of_args (n - 1) r in ((z_of_string i, z_of_string t) :: l, r')
  | _ -> failwith "bad items"
let ids l = string_of_zlist (List.map fst l)
let rec do_ops l ops = match ops with
  | [] -> []
  | "add" :: i :: t :: r -> let l' = c_add l (z_of_string i, z_of_string t) in ids l' :: do_ops l' r
  | "rm" :: i :: r -> (match c_remove l (z_of_string i) with
                       | Some l' -> ids l' :: do_ops l' r
                       | None -> "IndexError" :: do_ops l r)
  | "rmi" :: t :: r -> let l' = c_remove_by_intent l (z_of_string t) in ids l' :: do_ops l' r
  | "sel" :: t :: r -> ids (c_select l (z_of_string t)) :: do_ops l r
  | "agg" :: t :: r ->
    (match c_agg l (opt_z t) with
     | AStack x -> "S" ^ string_of_zlist x | ASingle x -> "O" ^ string_of_z x | ATuple x -> "T" ^ string_of_zlist x) :: do_ops l r
  | _ -> failwith "bad op"
let handle op args = match op, args with
  | "strip", [s] -> "ok " ^ string_of_zlist (strip (zlist_of_string s))
  | "tobytes", [be; w; cm; dims; el] ->
    "ok " ^ hex_of_bytes (tobytes (bool_of_string be) (nat_of_int (int_of_string w)) (bool_of_string cm)
                                  (natlist_of_string dims) (zlist_of_string el))
  | "frombuf", [be; w; cm; dims; h] ->
    (match frombuffer (bool_of_string be) (nat_of_int (int_of_string w)) (bytes_of_hex h) with
     | Some e -> "ok " ^ string_of_zlist (reorder_from (bool_of_string cm) (natlist_of_string dims) e)
     | None -> "err data")
  | "arr2txt", [sg; w; dims; el] ->
    (match arr2txt_int (bool_of_string sg) (nat_of_int (int_of_string w)) (natlist_of_string dims) (zlist_of_string el) with
     | Some t -> "ok " ^ string_of_zlist t | None -> "err refused")
  | "cont", n :: r -> let (l, ops) = items_of_args (int_of_string n) r in "ok " ^ String.concat ";" (do_ops l ops)
  | "parse", _ -> do_parse false args
  | "pmerge", _ -> do_parse true args
  | _ -> "err driver:badop"
let () = run_lines handle
