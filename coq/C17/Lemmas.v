(* C17/Lemmas.v — proofs about C17/Model.v *)
From Coq Require Import ZArith List Bool Lia ZifyBool Arith PeanoNat.
From NV Require Import Base.Bytes C17.Tables C17.Model.
Import ListNotations.
Open Scope Z_scope.

(* ------------------------------------------------------------ str.strip *)
Lemma lstrip_suffix l : exists p, l = p ++ lstrip l /\ Forall (fun c => is_space c = true) p.
Proof.
  induction l as [|c r IH]; cbn [lstrip]; [exists []; auto|].
  destruct (is_space c) eqn:E.
  - destruct IH as [p [Hp Fp]]. exists (c :: p). split; [cbn; now f_equal|now constructor].
  - exists []. auto.
Qed.

Lemma lstrip_length l : (length (lstrip l) <= length l)%nat.
Proof.
  destruct (lstrip_suffix l) as [p [Hp _]]. rewrite Hp at 2. rewrite app_length. lia.
Qed.

Lemma lstrip_same_length l : length (lstrip l) = length l -> lstrip l = l.
Proof.
  intros H. destruct (lstrip_suffix l) as [p [Hp _]].
  assert (length p = O) by (rewrite Hp in H at 2; rewrite app_length in H; lia).
  destruct p; [|discriminate]. now rewrite Hp at 2.
Qed.

Lemma lstrip_id_iff l : lstrip l = l <-> (l = [] \/ is_space (hd 0 l) = false).
Proof.
  destruct l as [|c r]; cbn [lstrip hd]; [tauto|].
  destruct (is_space c) eqn:E; split; auto.
  - intros H. pose proof (lstrip_length r) as L. rewrite H in L. cbn in L. lia.
  - intros [H|H]; discriminate.
Qed.

Lemma hd_rev (l : str) : hd 0 (rev l) = last l 0.
Proof.
  induction l as [|c r IH] using rev_ind; [reflexivity|].
  rewrite rev_app_distr, last_last. reflexivity.
Qed.

Lemma rstrip_id_iff l : rstrip l = l <-> (l = [] \/ is_space (last l 0) = false).
Proof.
  unfold rstrip. rewrite <- hd_rev.
  assert (E1 : rev (lstrip (rev l)) = l <-> lstrip (rev l) = rev l).
  { split; intros H; [rewrite <- H at 2; now rewrite rev_involutive|rewrite H; apply rev_involutive]. }
  assert (E2 : rev l = [] <-> l = []).
  { split; intros H; [rewrite <- (rev_involutive l), H; reflexivity|now subst]. }
  rewrite E1, lstrip_id_iff, E2. reflexivity.
Qed.

Lemma rstrip_length l : (length (rstrip l) <= length l)%nat.
Proof. unfold rstrip. rewrite rev_length. etransitivity; [apply lstrip_length|]. now rewrite rev_length. Qed.

Lemma rstrip_same_length l : length (rstrip l) = length l -> rstrip l = l.
Proof.
  unfold rstrip. rewrite rev_length. intros H.
  rewrite lstrip_same_length by now rewrite rev_length. apply rev_involutive.
Qed.

(* the text round trip is exact iff there is no leading/trailing whitespace *)
Lemma strip_id_iff s : strip s = s <-> (s = [] \/ (is_space (hd 0 s) = false /\ is_space (last s 0) = false)).
Proof.
  unfold strip. split.
  - intros H.
    assert (L : length (lstrip s) = length s).
    { pose proof (rstrip_length (lstrip s)) as A. pose proof (lstrip_length s) as B. rewrite H in A. lia. }
    apply lstrip_same_length in L. rewrite L in H.
    apply lstrip_id_iff in L. apply rstrip_id_iff in H. tauto.
  - intros [->|[H1 H2]]; [reflexivity|].
    assert (L : lstrip s = s) by (apply lstrip_id_iff; now right).
    rewrite L. apply rstrip_id_iff. now right.
Qed.

Lemma strip_nil : strip [] = [].
Proof. reflexivity. Qed.

(* ------------------------------------------------------------ index orders *)
Open Scope nat_scope.

Fixpoint valid_idx (dims idx : list nat) : Prop :=
  match dims, idx with
  | [], [] => True
  | d :: ds, i :: r => i < d /\ valid_idx ds r
  | _, _ => False
  end.

Lemma unravel_F_valid dims k : k < nprod dims -> valid_idx dims (unravel_F dims k).
Proof.
  revert k; induction dims as [|d ds IH]; intros k H; cbn; [trivial|].
  cbn [nprod fold_right] in H. fold (nprod ds) in H.
  assert (d <> 0) by (intros ->; lia).
  split; [now apply Nat.mod_upper_bound|].
  apply IH. apply Nat.div_lt_upper_bound; [assumption|lia].
Qed.

Lemma ravel_unravel_F dims k : k < nprod dims -> ravel_F dims (unravel_F dims k) = k.
Proof.
  revert k; induction dims as [|d ds IH]; intros k H; cbn [unravel_F ravel_F].
  - cbn in H. lia.
  - cbn [nprod fold_right] in H. fold (nprod ds) in H.
    assert (d <> 0) by (intros ->; lia).
    rewrite IH by (apply Nat.div_lt_upper_bound; [assumption|lia]).
    rewrite (Nat.div_mod k d) at 3 by assumption. lia.
Qed.

Lemma unravel_ravel_F dims idx : valid_idx dims idx -> unravel_F dims (ravel_F dims idx) = idx.
Proof.
  revert idx; induction dims as [|d ds IH]; intros [|i r] H; cbn in H; try tauto; try reflexivity.
  destruct H as [Hi Hr]. cbn [ravel_F unravel_F].
  assert (d <> 0) by lia.
  f_equal.
  - rewrite (Nat.mul_comm d), Nat.mod_add by assumption. now apply Nat.mod_small.
  - rewrite (Nat.mul_comm d), Nat.div_add by assumption.
    rewrite (Nat.div_small i d) by assumption. cbn [Nat.add]. now apply IH.
Qed.

Lemma ravel_F_bound dims idx : valid_idx dims idx -> ravel_F dims idx < nprod dims.
Proof.
  revert idx; induction dims as [|d ds IH]; intros [|i r] H; cbn in H; try tauto; try (cbn; lia).
  destruct H as [Hi Hr]. cbn [ravel_F nprod fold_right]. fold (nprod ds).
  specialize (IH r Hr). nia.
Qed.

Lemma valid_idx_app d1 i1 d2 i2 : valid_idx d1 i1 -> valid_idx d2 i2 -> valid_idx (d1 ++ d2) (i1 ++ i2).
Proof.
  revert i1; induction d1 as [|d ds IH]; intros [|i r] H1 H2; cbn in *; try tauto.
  destruct H1. split; [assumption|now apply IH].
Qed.

Lemma valid_idx_rev dims idx : valid_idx dims idx -> valid_idx (rev dims) (rev idx).
Proof.
  revert idx; induction dims as [|d ds IH]; intros [|i r] H; cbn in H; try tauto; try exact I.
  destruct H as [Hi Hr]. cbn [rev]. apply valid_idx_app; [now apply IH|]. cbn. auto.
Qed.

Lemma nprod_app a b : nprod (a ++ b) = nprod a * nprod b.
Proof.
  induction a as [|x a IH]; [cbn [app]; unfold nprod at 2; cbn; lia|].
  change (nprod ((x :: a) ++ b)) with (x * nprod (a ++ b)). change (nprod (x :: a)) with (x * nprod a).
  rewrite IH. lia.
Qed.

Lemma nprod_rev dims : nprod (rev dims) = nprod dims.
Proof.
  induction dims as [|d ds IH]; [reflexivity|]. cbn [rev]. rewrite nprod_app, IH.
  change (nprod [d]) with (d * 1). change (nprod (d :: ds)) with (d * nprod ds). lia.
Qed.

Lemma unravel_C_valid dims k : k < nprod dims -> valid_idx dims (unravel_C dims k).
Proof.
  intros H. unfold unravel_C. rewrite <- (rev_involutive dims) at 1.
  apply valid_idx_rev. apply unravel_F_valid. now rewrite nprod_rev.
Qed.

Lemma ravel_unravel_C dims k : k < nprod dims -> ravel_C dims (unravel_C dims k) = k.
Proof.
  intros H. unfold ravel_C, unravel_C. rewrite rev_involutive.
  apply ravel_unravel_F. now rewrite nprod_rev.
Qed.

Lemma unravel_ravel_C dims idx : valid_idx dims idx -> unravel_C dims (ravel_C dims idx) = idx.
Proof.
  intros H. unfold ravel_C, unravel_C. rewrite unravel_ravel_F by now apply valid_idx_rev.
  apply rev_involutive.
Qed.

Lemma ravel_C_bound dims idx : valid_idx dims idx -> ravel_C dims idx < nprod dims.
Proof.
  intros H. unfold ravel_C. rewrite <- nprod_rev. apply ravel_F_bound. now apply valid_idx_rev.
Qed.

Lemma c2f_bound dims k : k < nprod dims -> c2f dims k < nprod dims.
Proof. intros H. apply ravel_F_bound. now apply unravel_C_valid. Qed.
Lemma f2c_bound dims k : k < nprod dims -> f2c dims k < nprod dims.
Proof. intros H. apply ravel_C_bound. now apply unravel_F_valid. Qed.

Lemma f2c_c2f dims k : k < nprod dims -> f2c dims (c2f dims k) = k.
Proof.
  intros H. unfold f2c, c2f. rewrite unravel_ravel_F by now apply unravel_C_valid.
  now apply ravel_unravel_C.
Qed.
Lemma c2f_f2c dims k : k < nprod dims -> c2f dims (f2c dims k) = k.
Proof.
  intros H. unfold f2c, c2f. rewrite unravel_ravel_C by now apply unravel_F_valid.
  now apply ravel_unravel_F.
Qed.

Lemma reorder_to_length cm dims d : length (reorder_to cm dims d) = length d.
Proof. unfold reorder_to. destruct cm; [now rewrite map_length, seq_length|reflexivity]. Qed.
Lemma reorder_from_length cm dims d : length (reorder_from cm dims d) = length d.
Proof. unfold reorder_from. destruct cm; [now rewrite map_length, seq_length|reflexivity]. Qed.

Lemma map_nth_seq (l : list Z) : map (fun k => nth k l 0%Z) (seq 0 (length l)) = l.
Proof.
  apply nth_ext with (d := 0%Z) (d' := 0%Z); [now rewrite map_length, seq_length|].
  intros n H. rewrite map_length, seq_length in H.
  rewrite (nth_indep _ 0%Z (nth 0 l 0%Z)) by now rewrite map_length, seq_length.
  rewrite (map_nth (fun k => nth k l 0%Z)). now rewrite seq_nth.
Qed.

(* reshape(dims, order) undoes tobytes(order), both orders, any number of dimensions *)
Lemma reorder_roundtrip cm dims d : length d = nprod dims -> reorder_from cm dims (reorder_to cm dims d) = d.
Proof.
  intros L. destruct cm; [|reflexivity]. unfold reorder_from. rewrite reorder_to_length.
  rewrite <- (map_nth_seq d) at 2. apply map_ext_in. intros k Hk. apply in_seq in Hk.
  unfold reorder_to.
  rewrite (nth_indep _ 0%Z (nth (f2c dims 0) d 0%Z)) by (rewrite map_length, seq_length, L; apply c2f_bound; lia).
  rewrite (map_nth (fun k => nth (f2c dims k) d 0%Z)).
  rewrite seq_nth by (rewrite L; apply c2f_bound; lia). cbn [Nat.add].
  now rewrite f2c_c2f by lia.
Qed.

Lemma reorder_roundtrip' cm dims d : length d = nprod dims -> reorder_to cm dims (reorder_from cm dims d) = d.
Proof.
  intros L. destruct cm; [|reflexivity]. unfold reorder_to. rewrite reorder_from_length.
  rewrite <- (map_nth_seq d) at 2. apply map_ext_in. intros k Hk. apply in_seq in Hk.
  unfold reorder_from.
  rewrite (nth_indep _ 0%Z (nth (c2f dims 0) d 0%Z)) by (rewrite map_length, seq_length, L; apply f2c_bound; lia).
  rewrite (map_nth (fun k => nth (c2f dims k) d 0%Z)).
  rewrite seq_nth by (rewrite L; apply f2c_bound; lia). cbn [Nat.add].
  now rewrite c2f_f2c by lia.
Qed.
Lemma order_roundtrip cm dims d : length d = nprod dims ->
  reorder_from cm dims (reorder_to cm dims d) = d /\ reorder_to cm dims (reorder_from cm dims d) = d.
Proof. intros H. split; [now apply reorder_roundtrip|now apply reorder_roundtrip']. Qed.
Close Scope nat_scope.

(* ------------------------------------------------------------ element codec *)
Lemma flat_map_length_const {A} (f : A -> list Z) (w : nat) l :
  (forall x, length (f x) = w) -> length (flat_map f l) = (w * length l)%nat.
Proof.
  intros H. induction l as [|x l IH]; cbn; [lia|]. rewrite app_length, H, IH. lia.
Qed.

Lemma chunks_flat_map {A} (f : A -> list Z) (w : nat) l fuel :
  (0 < w)%nat -> (forall x, length (f x) = w) -> (length (flat_map f l) <= fuel)%nat ->
  chunks w fuel (flat_map f l) = map f l.
Proof.
  intros Hw H. revert fuel; induction l as [|x l IH]; intros fuel Hf.
  - cbn. destruct fuel; reflexivity.
  - cbn [flat_map map] in *. rewrite app_length, H in Hf.
    destruct fuel as [|fuel]; [lia|]. cbn [chunks].
    destruct (f x ++ flat_map f l) as [|b0 r0] eqn:E.
    + apply (f_equal (@length Z)) in E. rewrite app_length, H in E. cbn in E. lia.
    + rewrite <- E.
      assert (F1 : firstn w (f x ++ flat_map f l) = f x).
      { rewrite <- (H x). rewrite firstn_app, Nat.sub_diag, firstn_all. cbn. apply app_nil_r. }
      assert (F2 : skipn w (f x ++ flat_map f l) = flat_map f l).
      { rewrite <- (H x). rewrite skipn_app, Nat.sub_diag, skipn_all. reflexivity. }
      rewrite F1, F2. f_equal. apply IH. lia.
Qed.

Lemma frombuffer_tobytes be w l :
  (0 < w)%nat -> Forall (fun z => 0 <= z < pow256 w) l ->
  frombuffer be w (flat_map (enc be w) l) = Some l.
Proof.
  intros Hw Hr. unfold frombuffer.
  destruct (Nat.eqb_spec w 0) as [->|_]; [lia|].
  rewrite (flat_map_length_const (enc be w) w) by (intros; apply enc_length).
  rewrite Nat.mul_comm, Nat.mod_mul by lia. cbn [Nat.eqb negb].
  rewrite (chunks_flat_map (enc be w) w); try assumption.
  - f_equal. rewrite map_map. rewrite <- (map_id l) at 2. apply map_ext_in. intros z Hz.
    apply dec_enc. rewrite Forall_forall in Hr. now apply Hr.
  - intros; apply enc_length.
  - rewrite (flat_map_length_const (enc be w) w) by (intros; apply enc_length). lia.
Qed.

(* facts about the generated code tables; re-checked whenever Tables.v is regenerated *)
Lemma codes_wf :
  (enc_b64gz =? enc_ascii) = false /\ (enc_b64gz =? enc_b64bin) = false /\ (enc_b64gz =? enc_external) = false /\
  (enc_b64bin =? enc_ascii) = false /\ (enc_b64bin =? enc_external) = false /\
  (end_little =? end_big) = false /\ (ord_f =? ord_c) = false.
Proof. vm_compute. repeat split; reflexivity. Qed.

Lemma no_negative_dims dimsn : existsb (fun d => d <? 0) (map Z.of_nat dimsn) = false.
Proof. induction dimsn as [|d ds IH]; [reflexivity|]. cbn. rewrite IH. destruct (Z.ltb_spec (Z.of_nat d) 0); [lia|reflexivity]. Qed.

Lemma to_nat_of_nat_map l : map Z.to_nat (map Z.of_nat l) = l.
Proof. rewrite map_map. rewrite <- (map_id l) at 2. apply map_ext. intros; apply Nat2Z.id. Qed.

Section Block.
  Variable b64enc : list Z -> str.
  Variable b64dec : str -> option (list Z).
  Variable zcomp : list Z -> list Z.
  Variable zdecomp : list Z -> option (list Z).
  Variable loadtxt : Z -> str -> option (list nat * list Z).
  Hypothesis b64_inv : forall x, b64dec (b64enc x) = Some x.
  Hypothesis zlib_inv : forall x, zdecomp (zcomp x) = Some x.

  (* C17_block_roundtrip *)
  Lemma block_roundtrip (be gz cm : bool) (a : da_attrs) (w : nat) (dimsn : list nat) (dataC : list Z) :
    a_encoding a = (if gz then enc_b64gz else enc_b64bin) ->
    a_endian a = (if be then end_big else end_little) ->
    assoc (a_datatype a) dtype_table = Some (Z.of_nat w) -> (0 < w)%nat ->
    a_ind_ord a = (if cm then ord_f else ord_c) ->
    a_dims a = map Z.of_nat dimsn ->
    length dataC = nprod dimsn ->
    Forall (fun z => 0 <= z < pow256 w) dataC ->
    read_data_block b64dec zdecomp loadtxt a (Some (data_tag_text b64enc zcomp be gz w cm dimsn dataC)) = Ok dataC.
  Proof.
    intros He Hend Hw Hw0 Ho Hd HL HR.
    destruct codes_wf as [C1 [C2 [C3 [C4 [C5 [C6 C7]]]]]].
    unfold read_data_block, data_tag_text. rewrite He, Hend, Hw, Ho, Hd.
    rewrite no_negative_dims, to_nat_of_nat_map, Nat2Z.id.
    assert (E0 : negb (((if gz then enc_b64gz else enc_b64bin) =? enc_ascii)
                       || ((if gz then enc_b64gz else enc_b64bin) =? enc_b64bin)
                       || ((if gz then enc_b64gz else enc_b64bin) =? enc_b64gz)
                       || ((if gz then enc_b64gz else enc_b64bin) =? enc_external)) = false).
    { destruct gz; rewrite ?Z.eqb_refl, ?orb_true_r; reflexivity. }
    rewrite E0.
    assert (E1 : (if (if be then end_big else end_little) =? end_big then Some true
                  else if (if be then end_big else end_little) =? end_little then Some false else None) = Some be).
    { destruct be; [now rewrite Z.eqb_refl|now rewrite C6, Z.eqb_refl]. }
    rewrite E1.
    assert (E2 : (if (if cm then ord_f else ord_c) =? ord_c then Some false
                  else if (if cm then ord_f else ord_c) =? ord_f then Some true else None) = Some cm).
    { destruct cm; [now rewrite C7, Z.eqb_refl|now rewrite Z.eqb_refl]. }
    rewrite E2.
    assert (E3 : ((if gz then enc_b64gz else enc_b64bin) =? enc_ascii) = false) by (destruct gz; assumption).
    assert (E4 : ((if gz then enc_b64gz else enc_b64bin) =? enc_external) = false) by (destruct gz; assumption).
    rewrite E3, E4, b64_inv.
    assert (E5 : (if (if gz then enc_b64gz else enc_b64bin) =? enc_b64bin
                  then Some (if gz then zcomp (tobytes be w cm dimsn dataC) else tobytes be w cm dimsn dataC)
                  else zdecomp (if gz then zcomp (tobytes be w cm dimsn dataC) else tobytes be w cm dimsn dataC))
                 = Some (tobytes be w cm dimsn dataC)).
    { destruct gz; [rewrite C2; apply zlib_inv|now rewrite Z.eqb_refl]. }
    rewrite E5. unfold tobytes.
    assert (HR' : Forall (fun z => 0 <= z < pow256 w) (reorder_to cm dimsn dataC)).
    { unfold reorder_to. destruct cm; [|assumption]. rewrite Forall_forall. intros z Hz.
      apply in_map_iff in Hz. destruct Hz as [k [<- Hk]]. apply in_seq in Hk.
      rewrite Forall_forall in HR. apply HR. apply nth_In. rewrite HL. apply f2c_bound. lia. }
    rewrite (frombuffer_tobytes be w _ Hw0 HR').
    rewrite reorder_to_length, HL, Nat.eqb_refl. cbn [negb].
    now rewrite reorder_roundtrip.
  Qed.
End Block.

(* ------------------------------------------------------------ chunking of character data *)
Section Parser.
  Variable b64dec : str -> option (list Z).
  Variable zdecomp : list Z -> option (list Z).
  Variable loadtxt : Z -> str -> option (list nat * list Z).
  Notation flush_chardata := (flush_chardata b64dec zdecomp loadtxt).
  Notation step := (step b64dec zdecomp loadtxt).
  Notation run := (run b64dec zdecomp loadtxt).
  Notation parse := (parse b64dec zdecomp loadtxt).

  (* the pending character data collapsed to one block *)
  Definition norm (s : st) : st := set_chars s (option_map (fun b => [concat b]) (s_chars s)).
  Definition rnorm (r : res st) : res st := match r with Ok s => Ok (norm s) | Err e => Err e end.
  Definition rfin (r : res st) : res image := bind r finish.

  Lemma flush_norm s : flush_chardata (norm s) = flush_chardata s.
  Proof.
    destruct s as [im ve me la da de nv mg md lt lb co wt ch]. destruct ch as [b|]; [|reflexivity].
    unfold norm, Model.flush_chardata, chars_data. cbn [s_chars s_write_to set_chars option_map s_nvpair s_cs_open
      s_darrays s_label s_img s_version s_img_meta s_img_labels s_depth s_meta_global s_meta_da s_lata].
    cbn [concat]. rewrite app_nil_r. reflexivity.
  Qed.

  Lemma norm_idem s : norm (norm s) = norm s.
  Proof.
    destruct s as [im ve me la da de nv mg md lt lb co wt ch]. destruct ch as [b|]; [|reflexivity].
    unfold norm. cbn. now rewrite app_nil_r.
  Qed.

  Lemma norm_add_chunk s c : norm (add_chunk (norm s) c) = norm (add_chunk s c).
  Proof.
    destruct s as [im ve me la da de nv mg md lt lb co wt ch]. destruct ch as [b|]; [|reflexivity].
    unfold norm, add_chunk. cbn. rewrite !concat_app. cbn. now rewrite !app_nil_r.
  Qed.

  Lemma step_rnorm s e : rnorm (step (norm s) e) = rnorm (step s e).
  Proof.
    destruct e as [t a|c|t]; cbn [Model.step].
    - now rewrite flush_norm.
    - cbn [rnorm]. now rewrite norm_add_chunk.
    - now rewrite flush_norm.
  Qed.

  Lemma finish_norm s : finish (norm s) = finish s.
  Proof. destruct s. reflexivity. Qed.

  Lemma run_norm evs : forall s, rfin (run (norm s) evs) = rfin (run s evs).
  Proof.
    induction evs as [|e r IH]; intros s; cbn [Model.run].
    - cbn [rfin bind]. apply finish_norm.
    - pose proof (step_rnorm s e) as H.
      destruct (step (norm s) e) as [s1|e1], (step s e) as [s2|e2]; cbn [rnorm] in H; try discriminate.
      + cbn [bind]. assert (H' : norm s1 = norm s2) by congruence.
        rewrite <- (IH s1), <- (IH s2). now rewrite H'.
      + cbn [bind rfin]. congruence.
  Qed.

  Lemma run_norm_eq evs s1 s2 : norm s1 = norm s2 -> rfin (run s1 evs) = rfin (run s2 evs).
  Proof. intros H. rewrite <- (run_norm evs s1), <- (run_norm evs s2). now rewrite H. Qed.

  Lemma norm_add_add s a b : norm (add_chunk (add_chunk s a) b) = norm (add_chunk s (a ++ b)).
  Proof.
    destruct s as [im ve me la da de nv mg md lt lb co wt ch]. unfold norm, add_chunk. cbn.
    destruct ch as [bl|]; cbn; rewrite ?concat_app; cbn; now rewrite ?app_nil_r, ?app_assoc.
  Qed.

  Lemma run_merge evs : forall s, rfin (run s (merge evs)) = rfin (run s evs).
  Proof.
    induction evs as [|e r IH]; intros s; [reflexivity|].
    destruct e as [t a|c|t].
    - cbn [merge Model.run]. destruct (step s (Start t a)) as [s1|e1]; cbn [bind]; [apply IH|reflexivity].
    - cbn [merge]. destruct (merge r) as [|[t' a'|c'|t'] r'] eqn:M.
      + cbn [Model.run Model.step bind]. rewrite <- (IH (add_chunk s c)). reflexivity.
      + cbn [Model.run Model.step bind]. rewrite <- (IH (add_chunk s c)). reflexivity.
      + transitivity (rfin (run (add_chunk (add_chunk s c) c') r')).
        * cbn [Model.run Model.step bind]. apply run_norm_eq. symmetry. apply norm_add_add.
        * cbn [Model.run Model.step bind]. rewrite <- (IH (add_chunk s c)). reflexivity.
      + cbn [Model.run Model.step bind]. rewrite <- (IH (add_chunk s c)). reflexivity.
    - cbn [merge Model.run]. destruct (step s (End t)) as [s1|e1]; cbn [bind]; [apply IH|reflexivity].
  Qed.

  (* C17_chunking_invariant *)
  Lemma chunking_invariant evs evs' : merge evs = merge evs' -> parse evs = parse evs'.
  Proof.
    intros H. unfold Model.parse. change (rfin (run st0 evs) = rfin (run st0 evs')).
    rewrite <- (run_merge evs), <- (run_merge evs'). now rewrite H.
  Qed.

  (* every way of cutting character data is covered by `merge evs = merge evs'` *)
  Lemma merge_cons_cong e x y : merge x = merge y -> merge (e :: x) = merge (e :: y).
  Proof. intros H. destruct e; cbn [merge]; now rewrite H. Qed.

  Lemma merge_app_cong pre x y : merge x = merge y -> merge (pre ++ x) = merge (pre ++ y).
  Proof. intros H. induction pre as [|e pre IH]; [assumption|]. cbn [app]. now apply merge_cons_cong. Qed.

  Lemma merge_split a b post : merge (Chars (a ++ b) :: post) = merge (Chars a :: Chars b :: post).
  Proof.
    cbn [merge]. destruct (merge post) as [|[t' a'|c'|t'] r']; try reflexivity. now rewrite app_assoc.
  Qed.

  Lemma split_chunk_invariant pre a b post :
    parse (pre ++ Chars (a ++ b) :: post) = parse (pre ++ Chars a :: Chars b :: post).
  Proof. apply chunking_invariant. apply merge_app_cong. apply merge_split. Qed.
End Parser.

(* ------------------------------------------------------------ container operations *)
Lemma skipn_nth_cons {A} (d : A) k l : (k < length l)%nat -> skipn k l = nth k l d :: skipn (S k) l.
Proof.
  revert l; induction k as [|k IH]; intros [|y l] H; cbn in *; try lia; [reflexivity|]. apply IH. lia.
Qed.

Lemma c_remove_spec l i l' : c_remove l i = Some l' ->
  exists a x b, l = a ++ x :: b /\ l' = a ++ b /\
    Z.of_nat (length a) = (if i <? 0 then i + Z.of_nat (length l) else i).
Proof.
  unfold c_remove. set (n := Z.of_nat (length l)). set (j := if i <? 0 then i + n else i).
  destruct ((j <? 0) || (n <=? j)) eqn:E; [discriminate|]. intros H. inversion H; subst l'. clear H.
  assert (Hj : (Z.to_nat j < length l)%nat) by lia.
  exists (firstn (Z.to_nat j) l), (nth (Z.to_nat j) l (0, 0)), (skipn (S (Z.to_nat j)) l).
  split; [|split; [reflexivity|]].
  - rewrite <- (firstn_skipn (Z.to_nat j) l) at 1. f_equal. now apply skipn_nth_cons.
  - rewrite firstn_length. lia.
Qed.

Lemma c_remove_none l i : c_remove l i = None <->
  ~ (- Z.of_nat (length l) <= i < Z.of_nat (length l)).
Proof.
  unfold c_remove. destruct (Z.ltb_spec i 0) as [Hi|Hi];
    destruct ((_ <? 0) || (_ <=? _)) eqn:E; split; intros G; try discriminate; try reflexivity; lia.
Qed.

Lemma c_remove_by_intent_In l t x : In x (c_remove_by_intent l t) <-> In x l /\ snd x <> t.
Proof.
  unfold c_remove_by_intent. rewrite filter_In. split; intros [H1 H2]; (split; [assumption|]).
  - intros E. rewrite E, Z.eqb_refl in H2. discriminate.
  - destruct (Z.eqb_spec (snd x) t); [contradiction|reflexivity].
Qed.

Lemma c_select_In l t x : In x (c_select l t) <-> In x l /\ snd x = t.
Proof.
  unfold c_select. rewrite filter_In. split; intros [H1 H2]; (split; [assumption|]).
  - now apply Z.eqb_eq. - now apply Z.eqb_eq.
Qed.

(* order-preserving sublist *)
Inductive subseq {A} : list A -> list A -> Prop :=
  | sub_nil : subseq [] []
  | sub_keep x a b : subseq a b -> subseq (x :: a) (x :: b)
  | sub_skip x a b : subseq a b -> subseq a (x :: b).

Lemma filter_subseq {A} (p : A -> bool) l : subseq (filter p l) l.
Proof. induction l as [|x l IH]; cbn; [constructor|]. destruct (p x); now constructor. Qed.

Lemma select_after_remove l t : c_select (c_remove_by_intent l t) t = [].
Proof.
  unfold c_select, c_remove_by_intent. induction l as [|x l IH]; [reflexivity|]. cbn.
  destruct (Z.eqb_spec (snd x) t) as [E|N]; cbn; [assumption|].
  destruct (Z.eqb_spec (snd x) t); [contradiction|assumption].
Qed.

Lemma remove_other_keeps_select l t u : t <> u -> c_select (c_remove_by_intent l t) u = c_select l u.
Proof.
  intros N. unfold c_select, c_remove_by_intent. induction l as [|x l IH]; [reflexivity|]. cbn.
  destruct (Z.eqb_spec (snd x) t) as [E|E]; cbn.
  - destruct (Z.eqb_spec (snd x) u); [congruence|assumption].
  - destruct (Z.eqb_spec (snd x) u); [now rewrite IH|assumption].
Qed.

(* C17_container_ops *)
Lemma container_ops :
  (forall l x, c_add l x = l ++ [x]) /\
  (forall l i l', c_remove l i = Some l' ->
     exists a x b, l = a ++ x :: b /\ l' = a ++ b /\
       Z.of_nat (length a) = (if i <? 0 then i + Z.of_nat (length l) else i)) /\
  (forall l i, c_remove l i = None <-> ~ (- Z.of_nat (length l) <= i < Z.of_nat (length l))) /\
  (forall l t, c_remove_by_intent l t = filter (fun x => negb (snd x =? t)) l) /\
  (forall l t x, In x (c_remove_by_intent l t) <-> In x l /\ snd x <> t) /\
  (forall l t, subseq (c_remove_by_intent l t) l) /\
  (forall l t x, In x (c_select l t) <-> In x l /\ snd x = t) /\
  (forall l t, subseq (c_select l t) l) /\
  (forall l t, c_select (c_remove_by_intent l t) t = []) /\
  (forall l t u, t <> u -> c_select (c_remove_by_intent l t) u = c_select l u).
Proof.
  split; [reflexivity|]. split; [exact c_remove_spec|]. split; [exact c_remove_none|]. split; [reflexivity|].
  split; [exact c_remove_by_intent_In|]. split; [intros; apply filter_subseq|]. split; [exact c_select_In|].
  split; [intros; apply filter_subseq|]. split; [exact select_after_remove|]. exact remove_other_keeps_select.
Qed.

(* ------------------------------------------------------------ text fields through the parser *)
(* ElementTree writes an empty text as <Name />: no character data event *)
Definition chars_ev (t : str) : list event := match t with [] => [] | _ => [Chars t] end.
Definition md_events (n v : str) : list event :=
  [Start TMD ANone; Start TName ANone] ++ chars_ev n ++ [End TName; Start TValue ANone] ++ chars_ev v
  ++ [End TValue; End TMD].
Definition label_events (k : Z) (c : list (option Z)) (t : str) : list event :=
  [Start TLabel (ALabel k c)] ++ chars_ev t ++ [End TLabel].

Section Text.
  Variable b64dec : str -> option (list Z).
  Variable zdecomp : list Z -> option (list Z).
  Variable loadtxt : Z -> str -> option (list nat * list Z).
  Notation run := (run b64dec zdecomp loadtxt).

  (* one <MD> of the global metadata: the pair stored is (strip name, strip value) *)
  Lemma md_roundtrip s g n v :
    s_chars s = None -> s_write_to s = None -> s_meta_global s = Some g -> s_meta_da s = None ->
    run s (md_events n v) = Ok (set_nvpair (set_metas s (Some (dict_set g (strip n) (strip v))) None) None).
  Proof.
    destruct s as [im ve me la da de nv mg md lt lb co wt ch]. cbn [s_chars s_write_to s_meta_global s_meta_da].
    intros -> -> -> ->. unfold md_events.
    destruct n as [|n0 n], v as [|v0 v]; rewrite ?strip_nil; cbn [chars_ev app]; lazy -[strip app concat]; cbn [app concat]; rewrite ?app_nil_r; reflexivity.
  Qed.

  (* one <MD> of a data array's metadata *)
  Lemma md_roundtrip_da s d n v :
    s_chars s = None -> s_write_to s = None -> s_meta_global s = None -> s_meta_da s = Some d ->
    run s (md_events n v) = Ok (set_nvpair (set_metas s None (Some (dict_set d (strip n) (strip v)))) None).
  Proof.
    destruct s as [im ve me la da de nv mg md lt lb co wt ch]. cbn [s_chars s_write_to s_meta_global s_meta_da].
    intros -> -> -> ->. unfold md_events.
    destruct n as [|n0 n], v as [|v0 v]; rewrite ?strip_nil; cbn [chars_ev app]; lazy -[strip app concat]; cbn [app concat]; rewrite ?app_nil_r; reflexivity.
  Qed.

  (* one <Label>: the text stored is strip text (the empty text for an element without character data) *)
  Lemma label_roundtrip s l k c t :
    s_chars s = None -> s_write_to s = None -> s_lata s = Some l ->
    run s (label_events k c t) =
    Ok (set_write_to (set_label (set_lata s (Some (l ++ [mkLabel k c (Some (strip t))]))) None) None).
  Proof.
    destruct s as [im ve me la da de nv mg md lt lb co wt ch]. cbn [s_chars s_lata s_write_to].
    intros -> -> ->. unfold label_events.
    destruct t as [|t0 t]; rewrite ?strip_nil; cbn [chars_ev app]; lazy -[strip app concat]; cbn [app concat];
      rewrite ?app_nil_r; reflexivity.
  Qed.
End Text.

(* C17_text_fields (S-C17b): exact round trip of a text field iff strip is the identity on it *)
Lemma strip_refuted : exists v : str, strip v <> v /\ strip v = [120].
Proof. exists [32; 120; 32]. split; [vm_compute; discriminate|vm_compute; reflexivity]. Qed.

(* ------------------------------------------------------------ the whole document *)
(* writer side: what GiftiImage._to_xml_element serialises, as text *)
Record wda := mkWda {
  w_attrs : da_attrs; w_meta : meta;
  w_ds : str; w_xs : str; w_mtext : str;      (* DataSpace, TransformedSpace, MatrixData texts *)
  w_text : str;                                (* Data text *)
  w_xform : list Z; w_data : list Z }.         (* what the texts decode to (premises below) *)
Record wimage := mkWimg {
  wi_version : str; wi_meta : meta; wi_labels : list (Z * list (option Z) * str); wi_das : list wda }.

Definition meta_events (m : meta) : list event :=
  [Start TMetaData ANone] ++ concat (map (fun p => md_events (fst p) (snd p)) m) ++ [End TMetaData].
Definition labels_events (l : list (Z * list (option Z) * str)) : list event :=
  [Start TLabelTable ANone] ++ concat (map (fun p => label_events (fst (fst p)) (snd (fst p)) (snd p)) l)
  ++ [End TLabelTable].
Definition cs_events (d : wda) : list event :=
  [Start TCSTM ANone; Start TDataSpace ANone; Chars (w_ds d); End TDataSpace;
   Start TTransformedSpace ANone; Chars (w_xs d); End TTransformedSpace;
   Start TMatrixData ANone; Chars (w_mtext d); End TMatrixData; End TCSTM].
Definition da_events (d : wda) : list event :=
  [Start TDataArray (ADataArray (w_attrs d))] ++ meta_events (w_meta d) ++ cs_events d
  ++ [Start TData ANone] ++ chars_ev (w_text d) ++ [End TData; End TDataArray].
Definition image_events (i : wimage) : list event :=
  [Start TGifti (AGifti (Some (wi_version i)))] ++ meta_events (wi_meta i) ++ labels_events (wi_labels i)
  ++ concat (map da_events (wi_das i)) ++ [End TGifti].

(* what the reader makes of it: texts stripped, dictionaries built in order *)
Definition norm_meta (m : meta) (g : meta) : meta :=
  fold_left (fun acc p => dict_set acc (strip (fst p)) (strip (snd p))) m g.
Definition norm_label (p : Z * list (option Z) * str) : label :=
  mkLabel (fst (fst p)) (snd (fst p)) (Some (strip (snd p))).
Definition norm_da (d : wda) : darray :=
  mkDA (w_attrs d) (Some (norm_meta (w_meta d) []))
       (mkCS (Some (strip (w_ds d))) (Some (strip (w_xs d))) (Some (w_xform d))) (Some (w_data d)).
Definition norm_image (i : wimage) : image :=
  mkImg (Some (wi_version i)) (norm_meta (wi_meta i) []) (map norm_label (wi_labels i)) (map norm_da (wi_das i)).
Definition data_arg (t : str) : option str := match t with [] => None | _ => Some t end.

Lemma upd_last_snoc (f : darray -> darray) l d : upd_last f (l ++ [d]) = Some (l ++ [f d]).
Proof.
  induction l as [|x l IH]; [reflexivity|]. cbn [app upd_last]. rewrite IH.
  destruct (l ++ [d]) eqn:E; [destruct l; discriminate|reflexivity].
Qed.

Section Whole.
  Variable b64dec : str -> option (list Z).
  Variable zdecomp : list Z -> option (list Z).
  Variable loadtxt : Z -> str -> option (list nat * list Z).
  Notation run := (run b64dec zdecomp loadtxt).
  Notation parse := (parse b64dec zdecomp loadtxt).

  Lemma run_app a b : forall s, run s (a ++ b) = bind (run s a) (fun s' => run s' b).
  Proof.
    induction a as [|e a IH]; intros s; [reflexivity|]. cbn [app Model.run].
    destruct (step b64dec zdecomp loadtxt s e); cbn [bind]; [apply IH|reflexivity].
  Qed.

  (* a run of <MD> elements, global metadata open *)
  Lemma mds_run_global m : forall im ve me la da de g lt lb co,
    run (mkSt im ve me la da de None (Some g) None lt lb co None None)
        (concat (map (fun p => md_events (fst p) (snd p)) m))
    = Ok (mkSt im ve me la da de None (Some (norm_meta m g)) None lt lb co None None).
  Proof.
    induction m as [|[n v] m IH]; intros; [reflexivity|]. cbn [map concat fst snd norm_meta fold_left].
    rewrite run_app, (md_roundtrip b64dec zdecomp loadtxt _ g n v) by reflexivity. cbn [bind]. apply IH.
  Qed.

  Lemma mds_run_da m : forall im ve me la da de d lt lb co,
    run (mkSt im ve me la da de None None (Some d) lt lb co None None)
        (concat (map (fun p => md_events (fst p) (snd p)) m))
    = Ok (mkSt im ve me la da de None None (Some (norm_meta m d)) lt lb co None None).
  Proof.
    induction m as [|[n v] m IH]; intros; [reflexivity|]. cbn [map concat fst snd norm_meta fold_left].
    rewrite run_app, (md_roundtrip_da b64dec zdecomp loadtxt _ d n v) by reflexivity. cbn [bind]. apply IH.
  Qed.

  Lemma labels_run l : forall im ve me la da de mg md acc co,
    run (mkSt im ve me la da de None mg md (Some acc) None co None None)
        (concat (map (fun p => label_events (fst (fst p)) (snd (fst p)) (snd p)) l))
    = Ok (mkSt im ve me la da de None mg md (Some (acc ++ map norm_label l)) None co None None).
  Proof.
    induction l as [|[[k c] t] l IH]; intros; [cbn; now rewrite app_nil_r|].
    cbn [map concat fst snd]. rewrite run_app, (label_roundtrip b64dec zdecomp loadtxt _ acc k c t) by reflexivity.
    cbn [bind].
    replace (acc ++ norm_label (k, c, t) :: map norm_label l) with ((acc ++ [norm_label (k, c, t)]) ++ map norm_label l)
      by now rewrite <- app_assoc.
    apply IH.
  Qed.

  Ltac crunch Hl Hd :=
    repeat (lazy -[strip app concat upd_last rev Model.read_data_block norm_meta];
            cbn [app concat];
            rewrite ?app_nil_r, ?upd_last_snoc, ?rev_unit, ?Hl, ?Hd).

  (* one <DataArray> element, the image already open *)
  Lemma da_run d ve me la D shp :
    loadtxt 64 (w_mtext d) = Some (shp, w_xform d) ->
    read_data_block b64dec zdecomp loadtxt (w_attrs d) (data_arg (w_text d)) = Ok (w_data d) ->
    run (mkSt true ve me la D 1 None None None None None false None None) (da_events d)
    = Ok (mkSt true ve me la (D ++ [norm_da d]) 1 None None None None None false None None).
  Proof.
    intros Hl Hd. destruct d as [a m ds xs mt tx xf dt]. cbn [w_attrs w_meta w_ds w_xs w_mtext w_text w_xform w_data] in *.
    unfold da_events, meta_events, cs_events, norm_da.
    cbn [w_attrs w_meta w_ds w_xs w_mtext w_text w_xform w_data].
    cbn [app]. rewrite <- app_assoc.
    match goal with |- Model.run _ _ _ ?s (?e1 :: ?e2 :: ?r) = ?rhs =>
      change (Model.run b64dec zdecomp loadtxt s ([e1; e2] ++ r) = rhs) end.
    rewrite run_app.
    assert (E1 : run (mkSt true ve me la D 1 None None None None None false None None)
                     [Start TDataArray (ADataArray a); Start TMetaData ANone]
                 = Ok (mkSt true ve me la (D ++ [da_new a]) 3 None None (Some []) None None false None None))
      by reflexivity.
    rewrite E1. cbn [bind]. rewrite run_app, mds_run_da. cbn [bind].
    destruct tx as [|t0 tx]; cbn [data_arg chars_ev app] in *; unfold str in *; crunch Hl Hd; reflexivity.
  Qed.

  Definition da_ok (d : wda) : Prop :=
    (exists shp, loadtxt 64 (w_mtext d) = Some (shp, w_xform d)) /\
    read_data_block b64dec zdecomp loadtxt (w_attrs d) (data_arg (w_text d)) = Ok (w_data d).

  Lemma das_run das : forall ve me la D, Forall da_ok das ->
    run (mkSt true ve me la D 1 None None None None None false None None) (concat (map da_events das))
    = Ok (mkSt true ve me la (D ++ map norm_da das) 1 None None None None None false None None).
  Proof.
    induction das as [|d das IH]; intros ve me la D F; [cbn; now rewrite app_nil_r|].
    inversion F as [|? ? [[shp Hl] Hd] F']; subst. cbn [map concat].
    rewrite run_app, (da_run d ve me la D shp Hl Hd). cbn [bind]. rewrite (IH ve me la _ F').
    now rewrite <- app_assoc.
  Qed.

  Lemma meta_run_global m ve me la da :
    run (mkSt true ve me la da 1 None None None None None false None None) (meta_events m)
    = Ok (mkSt true ve (norm_meta m []) la da 1 None None None None None false None None).
  Proof.
    unfold meta_events. rewrite run_app.
    assert (E1 : run (mkSt true ve me la da 1 None None None None None false None None) [Start TMetaData ANone]
                 = Ok (mkSt true ve me la da 2 None (Some []) None None None false None None)) by reflexivity.
    rewrite E1. cbn [bind]. rewrite run_app, mds_run_global. reflexivity.
  Qed.

  Lemma labels_run_table l ve me la da :
    run (mkSt true ve me la da 1 None None None None None false None None) (labels_events l)
    = Ok (mkSt true ve me (map norm_label l) da 1 None None None None None false None None).
  Proof.
    unfold labels_events. rewrite run_app.
    assert (E1 : run (mkSt true ve me la da 1 None None None None None false None None) [Start TLabelTable ANone]
                 = Ok (mkSt true ve me la da 2 None None None (Some []) None false None None)) by reflexivity.
    rewrite E1. cbn [bind]. rewrite run_app, labels_run. reflexivity.
  Qed.

  (* C17_whole_image: the document GiftiImage.to_xml describes parses to the normalised image *)
  Lemma whole_image (i : wimage) : Forall da_ok (wi_das i) ->
    parse (image_events i) = Ok (norm_image i).
  Proof.
    intros F. unfold Model.parse, image_events. rewrite run_app.
    assert (E1 : run st0 [Start TGifti (AGifti (Some (wi_version i)))]
                 = Ok (mkSt true (Some (wi_version i)) [] [] [] 1 None None None None None false None None)) by reflexivity.
    rewrite E1. cbn [bind]. rewrite run_app, meta_run_global. cbn [bind].
    rewrite run_app, labels_run_table. cbn [bind]. rewrite run_app, (das_run _ _ _ _ _ F). cbn [bind app].
    reflexivity.
  Qed.

  Lemma whole_image_any_chunking (i : wimage) evs : Forall da_ok (wi_das i) ->
    merge evs = merge (image_events i) -> parse evs = Ok (norm_image i).
  Proof.
    intros F M. rewrite (chunking_invariant b64dec zdecomp loadtxt evs (image_events i) M). now apply whole_image.
  Qed.
End Whole.

Section WholeWritten.
  Variable b64enc : list Z -> str.
  Variable b64dec : str -> option (list Z).
  Variable zcomp : list Z -> list Z.
  Variable zdecomp : list Z -> option (list Z).
  Variable loadtxt : Z -> str -> option (list nat * list Z).
  Hypothesis b64_inv : forall x, b64dec (b64enc x) = Some x.
  Hypothesis zlib_inv : forall x, zdecomp (zcomp x) = Some x.

  (* a data array as _to_xml_element writes it with a Base64 encoding: its Data text is
     data_tag_text of its elements, its attributes say so, and its MatrixData text is what
     np.loadtxt reads back as w_xform *)
  Definition written_da (d : wda) : Prop :=
    exists (be gz cm : bool) (w : nat) (dimsn : list nat),
      a_encoding (w_attrs d) = (if gz then enc_b64gz else enc_b64bin) /\
      a_endian (w_attrs d) = (if be then end_big else end_little) /\
      assoc (a_datatype (w_attrs d)) dtype_table = Some (Z.of_nat w) /\ (0 < w)%nat /\
      a_ind_ord (w_attrs d) = (if cm then ord_f else ord_c) /\
      a_dims (w_attrs d) = map Z.of_nat dimsn /\
      length (w_data d) = nprod dimsn /\
      Forall (fun z => 0 <= z < pow256 w) (w_data d) /\
      w_text d = data_tag_text b64enc zcomp be gz w cm dimsn (w_data d) /\ w_text d <> [] /\
      exists shp, loadtxt 64 (w_mtext d) = Some (shp, w_xform d).

  Lemma written_da_ok d : written_da d -> da_ok b64dec zdecomp loadtxt d.
  Proof.
    intros [be [gz [cm [w [dimsn [H1 [H2 [H3 [H4 [H5 [H6 [H7 [H8 [H9 [H10 H11]]]]]]]]]]]]]]].
    split; [exact H11|].
    assert (E : data_arg (w_text d) = Some (w_text d)) by (destruct (w_text d); [contradiction|reflexivity]).
    rewrite E, H9.
    now apply (block_roundtrip b64enc b64dec zcomp zdecomp loadtxt b64_inv zlib_inv be gz cm (w_attrs d) w dimsn).
  Qed.

  (* C17_whole_image_roundtrip *)
  Lemma whole_image_roundtrip (i : wimage) evs :
    Forall written_da (wi_das i) -> merge evs = merge (image_events i) ->
    parse b64dec zdecomp loadtxt evs = Ok (norm_image i).
  Proof.
    intros F M. apply whole_image_any_chunking; [|assumption].
    rewrite Forall_forall in *. intros d Hd. now apply written_da_ok, F.
  Qed.
End WholeWritten.

(* ------------------------------------------------------------ ASCII integers: '%d' and int() *)
Definition isdigit (c : Z) : Prop := 48 <= c <= 57.
Definition dval (a : Z) (l : str) : Z := fold_left (fun a c => 10 * a + (c - 48)) l a.

Lemma parse_nat_digits l : forall a, Forall isdigit l -> parse_nat l a = Some (dval a l).
Proof.
  induction l as [|c r IH]; intros a F; [reflexivity|]. inversion F as [|? ? Hc Fr]; subst. unfold isdigit in Hc.
  cbn [parse_nat dval fold_left]. destruct (Z.leb_spec 48 c), (Z.leb_spec c 57); try lia. cbn [andb]. now apply IH.
Qed.

Lemma digits_aux_S f n acc :
  digits_aux (S f) n acc = if n / 10 =? 0 then (48 + n mod 10) :: acc else digits_aux f (n / 10) ((48 + n mod 10) :: acc).
Proof. reflexivity. Qed.

Lemma digits_aux_spec : forall f n acc, 0 <= n < 2 ^ Z.of_nat (S f) ->
  exists ds, digits_aux (S f) n acc = ds ++ acc /\ Forall isdigit ds /\ ds <> [] /\ dval 0 ds = n.
Proof.
  induction f as [|f IH]; intros n acc Hn.
  - (* n < 2 *) assert (n = 0 \/ n = 1) by (change (2 ^ Z.of_nat 1) with 2 in Hn; lia).
    exists [48 + n mod 10]. cbn [digits_aux].
    destruct H as [-> | ->]; (split; [reflexivity|]; split; [constructor; [unfold isdigit; cbn; lia|constructor]|];
                              split; [discriminate|reflexivity]).
  - rewrite (digits_aux_S (S f)).
    assert (Hd : 0 <= n mod 10 < 10) by (apply Z.mod_pos_bound; lia).
    destruct (Z.eqb_spec (n / 10) 0) as [E|E].
    + exists [48 + n mod 10]. split; [reflexivity|]. split; [|split; [discriminate|]].
      * constructor; [unfold isdigit; lia|constructor].
      * unfold dval. cbn [fold_left]. pose proof (Z.div_mod n 10 ltac:(lia)). lia.
    + assert (Hq : 0 <= n / 10 < 2 ^ Z.of_nat (S f)).
      { split; [apply Z.div_pos; lia|]. rewrite (Nat2Z.inj_succ (S f)), Z.pow_succ_r in Hn by lia.
        apply Z.div_lt_upper_bound; lia. }
      destruct (IH (n / 10) ((48 + n mod 10) :: acc) Hq) as [ds [E1 [F1 [N1 V1]]]].
      exists (ds ++ [48 + n mod 10]). rewrite E1, <- app_assoc. split; [reflexivity|]. split; [|split].
      * apply Forall_app. split; [assumption|]. constructor; [unfold isdigit; lia|constructor].
      * destruct ds; discriminate.
      * unfold dval in *. rewrite fold_left_app, V1. cbn [fold_left]. pose proof (Z.div_mod n 10 ltac:(lia)). lia.
Qed.

Lemma fmt_nat_spec n : 0 <= n -> exists ds, fmt_nat n = ds /\ Forall isdigit ds /\ ds <> [] /\ dval 0 ds = n.
Proof.
  intros Hn. unfold fmt_nat.
  destruct (digits_aux_spec (Z.to_nat (Z.log2 n)) n []) as [ds [E [F [N V]]]].
  - split; [assumption|]. rewrite Nat2Z.inj_succ, Z2Nat.id by apply Z.log2_nonneg.
    destruct (Z.eq_dec n 0) as [->|Nz]; [cbn; lia|]. apply Z.log2_spec. lia.
  - exists ds. rewrite E, app_nil_r. auto.
Qed.

(* C17: int('%d' % v) = v *)
Lemma parse_fmt_int v : parse_int (fmt_int v) = Some v.
Proof.
  unfold fmt_int. destruct (Z.ltb_spec v 0) as [Hneg|Hpos].
  - destruct (fmt_nat_spec (- v) ltac:(lia)) as [ds [E [F [N V]]]]. rewrite E. cbn [parse_int].
    rewrite Z.eqb_refl. destruct ds as [|d ds]; [contradiction|].
    rewrite (parse_nat_digits _ 0 F), V. cbn. f_equal. lia.
  - destruct (fmt_nat_spec v Hpos) as [ds [E [F [N V]]]]. rewrite E.
    destruct ds as [|d ds]; [contradiction|]. cbn [parse_int].
    pose proof (Forall_inv F) as Hd. unfold isdigit in Hd.
    destruct (Z.eqb_spec d 45); [lia|]. rewrite (parse_nat_digits _ 0 F). now rewrite V.
Qed.

Definition wordchar (c : Z) : Prop := c = 45 \/ isdigit c.
Lemma fmt_int_chars v : Forall wordchar (fmt_int v) /\ fmt_int v <> [].
Proof.
  unfold fmt_int. destruct (Z.ltb_spec v 0) as [Hneg|Hpos].
  - destruct (fmt_nat_spec (- v) ltac:(lia)) as [ds [E [F [N V]]]]. rewrite E. split; [|discriminate].
    constructor; [now left|]. eapply Forall_impl; [|exact F]. intros c Hc. now right.
  - destruct (fmt_nat_spec v Hpos) as [ds [E [F [N V]]]]. rewrite E. split; [|assumption].
    eapply Forall_impl; [|exact F]. intros c Hc. now right.
Qed.

(* ---- split / join *)
Definition issep (seps : list Z) (c : Z) : bool := existsb (Z.eqb c) seps.
Definition goodword (seps : list Z) (w : str) : Prop := w <> [] /\ Forall (fun c => issep seps c = false) w.

Lemma split_aux_word seps w : forall rest cur, Forall (fun c => issep seps c = false) w ->
  split_aux seps (w ++ rest) cur = split_aux seps rest (rev w ++ cur).
Proof.
  induction w as [|c w IH]; intros rest cur F; [reflexivity|]. inversion F as [|? ? Hc Fw]; subst.
  cbn [app split_aux]. unfold issep in Hc. rewrite Hc. rewrite IH by assumption. cbn [rev]. now rewrite <- app_assoc.
Qed.

Lemma split_join seps sep ws : issep seps sep = true -> Forall (goodword seps) ws ->
  split seps (join sep ws) = ws.
Proof.
  intros Hs. unfold split. induction ws as [|x r IH]; intros F; [reflexivity|].
  inversion F as [|? ? [Nx Fx] Fr]; subst.
  assert (Rx : rev x <> []) by (intros E; apply Nx; rewrite <- (rev_involutive x), E; reflexivity).
  destruct r as [|y r].
  - cbn [join]. rewrite <- (app_nil_r x) at 1. rewrite split_aux_word by assumption. cbn [split_aux]. rewrite app_nil_r.
    destruct (rev x) eqn:E; [contradiction|]. rewrite <- E, rev_involutive. reflexivity.
  - change (join sep (x :: y :: r)) with (x ++ sep :: join sep (y :: r)).
    rewrite split_aux_word by assumption. cbn [split_aux]. unfold issep in Hs. rewrite Hs. rewrite app_nil_r.
    destruct (rev x) eqn:E; [contradiction|]. rewrite <- E, rev_involutive. f_equal. now apply IH.
Qed.

(* ---- rows *)
Lemma rows_of_spec {A} (c : nat) : forall r fuel (l : list A), (0 < c)%nat -> length l = (r * c)%nat -> (r <= fuel)%nat ->
  concat (rows_of c fuel l) = l /\ length (rows_of c fuel l) = r /\ Forall (fun row => length row = c) (rows_of c fuel l).
Proof.
  induction r as [|r IH]; intros fuel l Hc L Hf.
  - destruct l; [|discriminate]. destruct fuel; cbn; auto.
  - destruct fuel as [|fuel]; [lia|]. destruct l as [|x l]; [cbn in L; lia|].
    cbn [rows_of]. set (l0 := x :: l) in *.
    assert (L1 : length (firstn c l0) = c) by (rewrite firstn_length; lia).
    assert (L2 : length (skipn c l0) = (r * c)%nat) by (rewrite skipn_length; lia).
    destruct (IH fuel (skipn c l0) Hc L2 ltac:(lia)) as [C1 [C2 C3]].
    cbn [concat length]. rewrite C1, C2, firstn_skipn. repeat split; try reflexivity. now constructor.
Qed.

(* ---- elements *)
Lemma of_to_signed w u : (0 < w)%nat -> 0 <= u < pow256 w -> of_signed w (to_signed w u) = u.
Proof.
  intros Hw Hu. unfold of_signed, to_signed. pose proof (pow256_pos w).
  destruct (Z.ltb_spec u (pow256 w / 2)).
  - now apply Z.mod_small.
  - rewrite <- (Z.mod_add _ 1) by lia. replace (u - pow256 w + 1 * pow256 w) with u by lia. now apply Z.mod_small.
Qed.

Lemma elem_value_roundtrip signed w u : (0 < w)%nat -> 0 <= u < pow256 w ->
  elem_of_value signed w (elem_value signed w u) = Some u.
Proof.
  intros Hw Hu. unfold elem_of_value, elem_value. destruct signed.
  - assert (R : - (pow256 w / 2) <= to_signed w u < pow256 w / 2).
    { unfold to_signed. destruct w as [|w]; [lia|]. rewrite pow256_S in *. pose proof (pow256_pos w).
      replace (256 * pow256 w / 2) with (128 * pow256 w) in * by
        (replace (256 * pow256 w) with (128 * pow256 w * 2) by lia; now rewrite Z.div_mul).
      destruct (Z.ltb_spec u (128 * pow256 w)); lia. }
    destruct (Z.leb_spec (- (pow256 w / 2)) (to_signed w u)), (Z.ltb_spec (to_signed w u) (pow256 w / 2)); try lia.
    cbn. f_equal. now apply of_to_signed.
  - destruct (Z.leb_spec 0 u), (Z.ltb_spec u (pow256 w)); try lia. reflexivity.
Qed.

Lemma all_some_map_id {A B} (f : A -> B) (g : B -> option A) l :
  (forall x, In x l -> g (f x) = Some x) -> all_some (map g (map f l)) = Some l.
Proof.
  induction l as [|x l IH]; intros H; [reflexivity|]. cbn. rewrite (H x) by now left.
  rewrite IH; [reflexivity|]. intros y Hy. apply H. now right.
Qed.

(* ---- np.loadtxt reads back what _arr2txt('%d') wrote *)
Lemma wordchar_nosep c : wordchar c -> issep [32; 9] c = false /\ issep [10] c = false.
Proof.
  unfold wordchar, isdigit, issep. intros H. cbn [existsb].
  destruct (Z.eqb_spec c 32), (Z.eqb_spec c 9), (Z.eqb_spec c 10); try lia; auto.
Qed.

Lemma fmt_goodword v : goodword [32; 9] (fmt_int v) /\ goodword [10] (fmt_int v).
Proof.
  destruct (fmt_int_chars v) as [F N]. split; (split; [assumption|]);
    (eapply Forall_impl; [|exact F]); intros c Hc; now apply wordchar_nosep.
Qed.

Lemma join_forall (P : Z -> Prop) sep ws : P sep -> Forall (Forall P) ws -> Forall P (join sep ws).
Proof.
  intros Hs. induction ws as [|x r IH]; intros F; [constructor|]. inversion F as [|? ? Fx Fr]; subst.
  destruct r as [|y r]; [exact Fx|]. change (join sep (x :: y :: r)) with (x ++ sep :: join sep (y :: r)).
  apply Forall_app. split; [assumption|]. constructor; [assumption|now apply IH].
Qed.

Lemma join_nonempty sep x r : x <> [] -> join sep (x :: r) <> [].
Proof. intros N. destruct r; cbn; [assumption|]. destruct x; [contradiction|discriminate]. Qed.

Lemma concat_singletons {A B} (f : A -> B) l : concat (map (fun u => [f u]) l) = map f l.
Proof. induction l as [|x l IH]; [reflexivity|]. cbn. now rewrite IH. Qed.

Section AsciiInt.
  Variable signed : bool.
  Variable w : nat.
  Hypothesis Hw : (0 < w)%nat.
  Let f := fun u => fmt_int (elem_value signed w u).
  Let g := fun wd => match parse_int wd with Some v => elem_of_value signed w v | None => None end.

  Lemma g_f u : 0 <= u < pow256 w -> g (f u) = Some u.
  Proof. intros H. unfold g, f. rewrite parse_fmt_int. now apply elem_value_roundtrip. Qed.

  Lemma line_split row : split [32; 9] (join 32 (map f row)) = map f row.
  Proof.
    apply split_join; [reflexivity|]. rewrite Forall_forall. intros wd Hwd. apply in_map_iff in Hwd.
    destruct Hwd as [u [<- _]]. apply fmt_goodword.
  Qed.

  Lemma line_good row : row <> [] -> goodword [10] (join 32 (map f row)).
  Proof.
    intros N. destruct row as [|u row]; [contradiction|]. split.
    - cbn [map]. apply join_nonempty. apply fmt_int_chars.
    - apply (join_forall (fun c => issep [10] c = false)); [reflexivity|].
      rewrite Forall_forall. intros wd Hwd. apply in_map_iff in Hwd. destruct Hwd as [u' [<- _]].
      destruct (fmt_goodword (elem_value signed w u')) as [_ [_ G]]. exact G.
  Qed.

  (* rows of words -> elements *)
  Lemma loadtxt_rows (R : list (list Z)) c data :
    R <> [] -> Forall (fun row => length row = c) R -> (0 < c)%nat -> concat R = data ->
    Forall (fun u => 0 <= u < pow256 w) data ->
    loadtxt_int signed w (join 10 (map (fun row => join 32 (map f row)) R))
    = Some (if (length R =? 1)%nat || (c =? 1)%nat then [(length R * c)%nat] else [length R; c], data).
  Proof.
    intros NE FL Hc CR HR. unfold loadtxt_int.
    assert (E1 : split [10] (join 10 (map (fun row => join 32 (map f row)) R)) = map (fun row => join 32 (map f row)) R).
    { apply split_join; [reflexivity|]. rewrite Forall_forall. intros ln Hln. apply in_map_iff in Hln.
      destruct Hln as [row [<- Hrow]]. apply line_good. rewrite Forall_forall in FL. specialize (FL row Hrow).
      destruct row; [cbn in FL; lia|discriminate]. }
    rewrite E1, map_map. rewrite (map_ext _ (map f) line_split).
    destruct R as [|R0 R']; [contradiction|]. cbn [map].
    assert (L0 : length (map f R0) = c) by (rewrite map_length; now inversion FL).
    rewrite L0.
    assert (FB : forallb (fun r => (length r =? c)%nat) (map f R0 :: map (map f) R') = true).
    { change (map f R0 :: map (map f) R') with (map (map f) (R0 :: R')). apply forallb_forall. intros r Hr.
      apply in_map_iff in Hr. destruct Hr as [row [<- Hrow]]. rewrite map_length. rewrite Forall_forall in FL.
      apply Nat.eqb_eq. now apply FL. }
    rewrite FB. cbn [negb].
    change (map f R0 :: map (map f) R') with (map (map f) (R0 :: R')).
    rewrite <- concat_map, CR.
    change (fun wd : str => match parse_int wd with Some v => elem_of_value signed w v | None => None end) with g.
    rewrite (all_some_map_id f g data).
    - now rewrite map_length.
    - intros u Hu. apply g_f. rewrite Forall_forall in HR. now apply HR.
  Qed.

  (* 1-D: one element per line *)
  Lemma loadtxt_arr2txt_1d data : data <> [] -> Forall (fun u => 0 <= u < pow256 w) data ->
    loadtxt_int signed w (join 10 (map f data)) = Some ([length data], data).
  Proof.
    intros NE HR.
    pose proof (loadtxt_rows (map (fun u => [u]) data) 1 data) as H.
    rewrite map_map in H. cbn [map join] in H. rewrite map_length in H.
    replace (length data * 1)%nat with (length data) in H by lia. rewrite orb_true_r in H.
    apply H; try assumption; try lia.
    - destruct data; [contradiction|discriminate].
    - rewrite Forall_forall. intros row Hrow. apply in_map_iff in Hrow. destruct Hrow as [u [<- _]]. reflexivity.
    - rewrite (concat_singletons (fun u : Z => u)). apply map_id.
  Qed.
End AsciiInt.

Lemma data_arg_text t : match data_arg t with Some x => x | None => [] end = t.
Proof. destruct t; reflexivity. Qed.

(* C17_ascii_int_roundtrip: what _arr2txt writes for an integer array, read_data_block reads back *)
Lemma ascii_int_roundtrip b64dec zdecomp loadtxt (signed cm : bool) (a : da_attrs) (w : nat) (dimsn : list nat)
      (dataC : list Z) (text : str) :
  a_encoding a = enc_ascii ->
  (a_endian a = end_big \/ a_endian a = end_little) ->
  assoc (a_datatype a) dtype_table = Some (Z.of_nat w) -> (0 < w)%nat ->
  assoc_b (a_datatype a) int_kind_table = Some signed ->
  a_ind_ord a = (if cm then ord_f else ord_c) ->
  a_dims a = map Z.of_nat dimsn ->
  ((exists n, dimsn = [n] /\ (1 <= n)%nat) \/ (exists r c, dimsn = [r; c] /\ (2 <= r)%nat /\ (2 <= c)%nat)) ->
  length dataC = nprod dimsn ->
  Forall (fun z => 0 <= z < pow256 w) dataC ->
  arr2txt_int signed w dimsn dataC = Some text ->
  read_data_block b64dec zdecomp loadtxt a (data_arg text) = Ok dataC.
Proof.
  intros He Hend Hw Hw0 Hk Ho Hd Hshape HL HR Ht.
  destruct codes_wf as [C1 [C2 [C3 [C4 [C5 [C6 C7]]]]]].
  unfold read_data_block. rewrite He, Hw, Ho, Hd, Hk, data_arg_text.
  rewrite no_negative_dims, to_nat_of_nat_map, Nat2Z.id, Z.eqb_refl. cbn [orb negb].
  assert (E1 : exists be, (if a_endian a =? end_big then Some true else if a_endian a =? end_little then Some false else None) = Some be).
  { destruct Hend as [-> | ->]; [exists true; now rewrite Z.eqb_refl|exists false; now rewrite C6, Z.eqb_refl]. }
  destruct E1 as [be ->].
  assert (E2 : (if (if cm then ord_f else ord_c) =? ord_c then Some false
                else if (if cm then ord_f else ord_c) =? ord_f then Some true else None) = Some cm).
  { destruct cm; [now rewrite C7, Z.eqb_refl|now rewrite Z.eqb_refl]. }
  rewrite E2.
  destruct Hshape as [[n [-> Hn]]|[r [c [-> [Hr Hc]]]]].
  - (* 1-D *)
    cbn [arr2txt_int] in Ht. inversion Ht; subst text. clear Ht.
    assert (Ln : length dataC = n) by (rewrite HL; unfold nprod; cbn; lia).
    rewrite (loadtxt_arr2txt_1d signed w Hw0 dataC); [|destruct dataC; [cbn in Ln; lia|discriminate]|assumption].
    rewrite Ln. replace (nprod [n]) with n by (unfold nprod; cbn; lia). rewrite Nat.eqb_refl. cbn [andb negb].
    f_equal. apply reorder_roundtrip. unfold nprod. cbn. lia.
  - (* 2-D, no unit axis *)
    cbn [arr2txt_int] in Ht. inversion Ht; subst text. clear Ht.
    assert (Lrc : length dataC = (r * c)%nat) by (rewrite HL; unfold nprod; cbn; lia).
    destruct (rows_of_spec c r (length dataC) dataC ltac:(lia) Lrc ltac:(nia)) as [R1 [R2 R3]].
    rewrite (loadtxt_rows signed w Hw0 (rows_of c (length dataC) dataC) c dataC); try assumption; try lia.
    + rewrite R2.
      destruct (Nat.eqb_spec r 1); [lia|]. destruct (Nat.eqb_spec c 1); [lia|]. cbn [orb].
      rewrite Lrc. replace (nprod [r; c]) with (r * c)%nat by (unfold nprod; cbn; lia).
      rewrite Nat.eqb_refl. cbn [andb negb]. f_equal. apply reorder_roundtrip. unfold nprod. cbn. lia.
    + intros E. rewrite E in R2. cbn in R2. lia.
Qed.

Section WholeWrittenAscii.
  Variable b64enc : list Z -> str.
  Variable b64dec : str -> option (list Z).
  Variable zcomp : list Z -> list Z.
  Variable zdecomp : list Z -> option (list Z).
  Variable loadtxt : Z -> str -> option (list nat * list Z).
  Hypothesis b64_inv : forall x, b64dec (b64enc x) = Some x.
  Hypothesis zlib_inv : forall x, zdecomp (zcomp x) = Some x.

  (* an integer data array as _to_xml_element writes it with the ASCII encoding (1-D, or 2-D without a
     unit axis); np.loadtxt of the MatrixData text (float64) stays a premise *)
  Definition written_ascii_int (d : wda) : Prop :=
    exists (signed cm : bool) (w : nat) (dimsn : list nat),
      a_encoding (w_attrs d) = enc_ascii /\
      (a_endian (w_attrs d) = end_big \/ a_endian (w_attrs d) = end_little) /\
      assoc (a_datatype (w_attrs d)) dtype_table = Some (Z.of_nat w) /\ (0 < w)%nat /\
      assoc_b (a_datatype (w_attrs d)) int_kind_table = Some signed /\
      a_ind_ord (w_attrs d) = (if cm then ord_f else ord_c) /\
      a_dims (w_attrs d) = map Z.of_nat dimsn /\
      ((exists n, dimsn = [n] /\ (1 <= n)%nat) \/ (exists r c, dimsn = [r; c] /\ (2 <= r)%nat /\ (2 <= c)%nat)) /\
      length (w_data d) = nprod dimsn /\
      Forall (fun z => 0 <= z < pow256 w) (w_data d) /\
      arr2txt_int signed w dimsn (w_data d) = Some (w_text d) /\
      exists shp, loadtxt 64 (w_mtext d) = Some (shp, w_xform d).

  Lemma written_ascii_int_ok d : written_ascii_int d -> da_ok b64dec zdecomp loadtxt d.
  Proof.
    intros [signed [cm [w [dimsn [H1 [H2 [H3 [H4 [H5 [H6 [H7 [H8 [H9 [H10 [H11 H12]]]]]]]]]]]]]]].
    split; [exact H12|]. now apply (ascii_int_roundtrip b64dec zdecomp loadtxt signed cm (w_attrs d) w dimsn).
  Qed.

  (* C17_whole_image_roundtrip_all: Base64 arrays of any type and ASCII integer arrays, no decoding premise *)
  Lemma whole_image_roundtrip_all (i : wimage) evs :
    Forall (fun d => written_da b64enc zcomp loadtxt d \/ written_ascii_int d) (wi_das i) ->
    merge evs = merge (image_events i) ->
    parse b64dec zdecomp loadtxt evs = Ok (norm_image i).
  Proof.
    intros F M. apply whole_image_any_chunking; [|assumption].
    rewrite Forall_forall in *. intros d Hd. destruct (F d Hd) as [W|W].
    - now apply (written_da_ok b64enc b64dec zcomp zdecomp loadtxt b64_inv zlib_inv).
    - now apply written_ascii_int_ok.
  Qed.
End WholeWrittenAscii.
