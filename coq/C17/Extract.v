(* C17/Extract.v — extraction of the executable model (ExtrOcamlBasic only; Z stays inductive) *)
Require Extraction. Require ExtrOcamlBasic.
From NV Require Import Base.Bytes C17.Tables C17.Model.
Extraction Language OCaml.
Extraction "c17_model.ml" strip tobytes frombuffer reorder_to reorder_from read_data_block parse merge
  arr2txt_int loadtxt_int fmt_int parse_int c_add c_remove c_remove_by_intent c_select c_agg.
