(* C17/Props.v — property theorems only.  Each is closed by `exact <lemma>` and followed by
   Print Assumptions.  Property C17: GIFTI images round-trip through XML for every encoding.
   base64 / zlib / np.loadtxt / expat are oracles: base64 and zlib enter as the hypotheses
   decode (encode x) = Some x of C17_block_roundtrip; expat enters as the event list (the
   same Start/End events and an arbitrary chunking of the same character data). *)
From Coq Require Import ZArith List Bool Lia.
From NV Require Import Base.Bytes C17.Tables C17.Model C17.Lemmas.
Import ListNotations.
Open Scope Z_scope.

(* Base64Binary and GZipBase64Binary, row and column major, both byte orders, any number of
   dimensions, every element width of the datatype table: what _data_tag_element writes is
   read back by read_data_block as the same elements in the same (C) order *)
Theorem C17_block_roundtrip :
  forall (b64enc : list Z -> str) (b64dec : str -> option (list Z))
         (zcomp : list Z -> list Z) (zdecomp : list Z -> option (list Z))
         (loadtxt : Z -> str -> option (list nat * list Z)),
  (forall x, b64dec (b64enc x) = Some x) -> (forall x, zdecomp (zcomp x) = Some x) ->
  forall (be gz cm : bool) (a : da_attrs) (w : nat) (dimsn : list nat) (dataC : list Z),
    a_encoding a = (if gz then enc_b64gz else enc_b64bin) ->
    a_endian a = (if be then end_big else end_little) ->
    assoc (a_datatype a) dtype_table = Some (Z.of_nat w) -> (0 < w)%nat ->
    a_ind_ord a = (if cm then ord_f else ord_c) ->
    a_dims a = map Z.of_nat dimsn ->
    length dataC = nprod dimsn ->
    Forall (fun z => 0 <= z < pow256 w) dataC ->
    read_data_block b64dec zdecomp loadtxt a (Some (data_tag_text b64enc zcomp be gz w cm dimsn dataC)) = Ok dataC.
Proof. exact block_roundtrip. Qed.
Print Assumptions C17_block_roundtrip.

(* the index-order part on its own: reshape(dims, order) inverts tobytes(order), and conversely *)
Theorem C17_order_roundtrip : forall cm dims d, length d = nprod dims ->
  reorder_from cm dims (reorder_to cm dims d) = d /\ reorder_to cm dims (reorder_from cm dims d) = d.
Proof. exact order_roundtrip. Qed.
Print Assumptions C17_order_roundtrip.

(* independent of the parser's buffer size: two event lists that differ only in how the
   character data between tags is cut into chunks (equal after merging adjacent Chars
   events) are parsed to the same result - the same image or the same error; whatever the
   oracles are.  C17_split_chunk: cutting any one chunk anywhere is such a re-chunking. *)
Theorem C17_chunking_invariant : forall b64dec zdecomp loadtxt evs evs',
  merge evs = merge evs' -> parse b64dec zdecomp loadtxt evs = parse b64dec zdecomp loadtxt evs'.
Proof. exact chunking_invariant. Qed.
Print Assumptions C17_chunking_invariant.

Theorem C17_split_chunk : forall b64dec zdecomp loadtxt pre a b post,
  parse b64dec zdecomp loadtxt (pre ++ Chars (a ++ b) :: post)
  = parse b64dec zdecomp loadtxt (pre ++ Chars a :: Chars b :: post).
Proof. exact split_chunk_invariant. Qed.
Print Assumptions C17_split_chunk.

(* container operations act on exactly the arrays they name (an array = (identity, intent)):
   add appends; remove-by-position removes the one element at the Python position i
   (negative from the end) and refuses exactly the out-of-range positions; remove-by-intent
   is `filter` (after fix f8bf2610): keeps, in order, exactly the arrays of other intents;
   select-by-intent returns, in order, exactly the arrays of that intent *)
Theorem C17_container_ops :
  (forall l x, c_add l x = l ++ [x]) /\
  (forall l i l', c_remove l i = Some l' ->
     exists a x b, l = a ++ x :: b /\ l' = a ++ b /\
       Z.of_nat (length a) = (if i <? 0 then i + Z.of_nat (length l) else i)) /\
  (forall l i, c_remove l i = None <-> ~ (- Z.of_nat (length l) <= i < Z.of_nat (length l))) /\
  (forall l t, c_remove_by_intent l t = filter (fun x => negb (snd x =? t)) l) /\
  (forall l t x, In x (c_remove_by_intent l t) <-> In x l /\ snd x <> t) /\
  (forall l t, subseq (c_remove_by_intent l t) l) /\
  (forall l t x, In x (c_select l t) <-> In x l /\ snd x = t) /\
  (forall l t, subseq (c_select l t) l) /\
  (forall l t, c_select (c_remove_by_intent l t) t = []) /\
  (forall l t u, t <> u -> c_select (c_remove_by_intent l t) u = c_select l u).
Proof. exact container_ops. Qed.
Print Assumptions C17_container_ops.

(* text fields.  The parser stores strip(text): for the events of one <MD> (global or per
   array) the pair stored is (strip name, strip value), for one <Label> the text stored is
   strip text (the empty text for <Label .../>, after fix 616e06f9); and strip s = s iff s has no leading
   or trailing whitespace.  So the FULL statement "name/value/label text round-trips
   exactly" holds iff the text is not whitespace-delimited; C17_text_exact_refuted is the
   witness ' x ' -> 'x' (finding S-C17b). *)
Theorem C17_text_fields :
  (forall b64dec zdecomp loadtxt s g n v,
     s_chars s = None -> s_write_to s = None -> s_meta_global s = Some g -> s_meta_da s = None ->
     run b64dec zdecomp loadtxt s (md_events n v)
     = Ok (set_nvpair (set_metas s (Some (dict_set g (strip n) (strip v))) None) None)) /\
  (forall b64dec zdecomp loadtxt s d n v,
     s_chars s = None -> s_write_to s = None -> s_meta_global s = None -> s_meta_da s = Some d ->
     run b64dec zdecomp loadtxt s (md_events n v)
     = Ok (set_nvpair (set_metas s None (Some (dict_set d (strip n) (strip v)))) None)) /\
  (forall b64dec zdecomp loadtxt s l k c t,
     s_chars s = None -> s_write_to s = None -> s_lata s = Some l ->
     run b64dec zdecomp loadtxt s (label_events k c t)
     = Ok (set_write_to (set_label (set_lata s (Some (l ++ [mkLabel k c (Some (strip t))]))) None) None)) /\
  (forall s, strip s = s <-> (s = [] \/ (is_space (hd 0 s) = false /\ is_space (last s 0) = false))).
Proof.
  split; [exact md_roundtrip|]. split; [exact md_roundtrip_da|]. split; [exact label_roundtrip|]. exact strip_id_iff.
Qed.
Print Assumptions C17_text_fields.

Theorem C17_text_exact_refuted : exists v : str, strip v <> v /\ strip v = [120].
Proof. exact strip_refuted. Qed.
Print Assumptions C17_text_exact_refuted.

(* THE WHOLE IMAGE AS ONE THEOREM.  `image_events i` is the event sequence of the document
   GiftiImage._to_xml_element describes for the written image i (version, global metadata,
   label table, and per data array: attributes, metadata, coordinate system texts, Data text),
   one character-data event per non-empty text.  Oracle premises: base64 and zlib invert
   (as in C17_block_roundtrip), np.loadtxt reads each MatrixData text back as the array's
   transform, and - ElementTree + expat - the events delivered for the document are
   `image_events i` up to the chunking of character data (merge evs = merge (image_events i)).
   Conclusion: the parser returns exactly `norm_image i`: same version, metadata pairs with
   name/value stripped (dictionary built in order), labels with key, colours and stripped
   text, and the data arrays in order with their attributes, metadata, stripped space names,
   transform and THE SAME ELEMENTS - for B64BIN/B64GZ, both orders, both byte orders, any rank. *)
Theorem C17_whole_image_roundtrip :
  forall (b64enc : list Z -> str) (b64dec : str -> option (list Z))
         (zcomp : list Z -> list Z) (zdecomp : list Z -> option (list Z))
         (loadtxt : Z -> str -> option (list nat * list Z)),
  (forall x, b64dec (b64enc x) = Some x) -> (forall x, zdecomp (zcomp x) = Some x) ->
  forall (i : wimage) (evs : list event),
    Forall (written_da b64enc zcomp loadtxt) (wi_das i) ->
    merge evs = merge (image_events i) ->
    parse b64dec zdecomp loadtxt evs = Ok (norm_image i).
Proof. exact whole_image_roundtrip. Qed.
Print Assumptions C17_whole_image_roundtrip.

(* ASCII INTEGERS IN THE MODEL.  '%d' formatting and int() are functions on digit lists (fmt_int,
   parse_int), _arr2txt and np.loadtxt for integer datatypes are arr2txt_int and loadtxt_int (lines,
   words, squeezed shape), and read_data_block uses loadtxt_int for the integer datatypes of the
   generated table - the loadtxt oracle is only consulted for floats.  C17_parse_fmt_int: int('%d' % v) = v
   for every integer v; C17_ascii_int_roundtrip: for uint8/int32/... arrays, 1-D or 2-D without a unit
   axis, either index order, read_data_block returns the elements _arr2txt wrote. *)
Theorem C17_parse_fmt_int : forall v, parse_int (fmt_int v) = Some v.
Proof. exact parse_fmt_int. Qed.
Print Assumptions C17_parse_fmt_int.

Theorem C17_ascii_int_roundtrip :
  forall b64dec zdecomp loadtxt (signed cm : bool) (a : da_attrs) (w : nat) (dimsn : list nat) (dataC : list Z) (text : str),
  a_encoding a = enc_ascii ->
  (a_endian a = end_big \/ a_endian a = end_little) ->
  assoc (a_datatype a) dtype_table = Some (Z.of_nat w) -> (0 < w)%nat ->
  assoc_b (a_datatype a) int_kind_table = Some signed ->
  a_ind_ord a = (if cm then ord_f else ord_c) ->
  a_dims a = map Z.of_nat dimsn ->
  ((exists n, dimsn = [n] /\ (1 <= n)%nat) \/ (exists r c, dimsn = [r; c] /\ (2 <= r)%nat /\ (2 <= c)%nat)) ->
  length dataC = nprod dimsn ->
  Forall (fun z => 0 <= z < pow256 w) dataC ->
  arr2txt_int signed w dimsn dataC = Some text ->
  read_data_block b64dec zdecomp loadtxt a (data_arg text) = Ok dataC.
Proof. exact ascii_int_roundtrip. Qed.
Print Assumptions C17_ascii_int_roundtrip.

(* the whole image with Base64 arrays of any type AND ASCII integer arrays, no decoding premise *)
Theorem C17_whole_image_roundtrip_all :
  forall (b64enc : list Z -> str) (b64dec : str -> option (list Z))
         (zcomp : list Z -> list Z) (zdecomp : list Z -> option (list Z))
         (loadtxt : Z -> str -> option (list nat * list Z)),
  (forall x, b64dec (b64enc x) = Some x) -> (forall x, zdecomp (zcomp x) = Some x) ->
  forall (i : wimage) (evs : list event),
    Forall (fun d => written_da b64enc zcomp loadtxt d \/ written_ascii_int loadtxt d) (wi_das i) ->
    merge evs = merge (image_events i) ->
    parse b64dec zdecomp loadtxt evs = Ok (norm_image i).
Proof. exact whole_image_roundtrip_all. Qed.
Print Assumptions C17_whole_image_roundtrip_all.

Example C17_ascii_int_nonvacuous :
  arr2txt_int true 4 [2%nat; 3%nat] [0; 1; 4294967295; 3; 4; 2147483648]
  = Some [48;32;49;32;45;49;10;51;32;52;32;45;50;49;52;55;52;56;51;54;52;56] /\
  loadtxt_int true 4 [48;32;49;32;45;49;10;51;32;52;32;45;50;49;52;55;52;56;51;54;52;56]
  = Some ([2%nat; 3%nat], [0; 1; 4294967295; 3; 4; 2147483648]) /\
  loadtxt_int false 1 [55;10;50;53;53] = Some ([2%nat], [7; 255]) /\ loadtxt_int false 1 [50;53;54] = None.
Proof. repeat split; vm_compute; reflexivity. Qed.

(* the same for any data-array encoding (ASCII included) when the decoding of each Data text is
   given as a premise instead of derived: da_ok = loadtxt reads the transform, read_data_block
   reads the elements *)
Theorem C17_whole_image : forall b64dec zdecomp loadtxt (i : wimage) evs,
  Forall (da_ok b64dec zdecomp loadtxt) (wi_das i) -> merge evs = merge (image_events i) ->
  parse b64dec zdecomp loadtxt evs = Ok (norm_image i).
Proof. exact whole_image_any_chunking. Qed.
Print Assumptions C17_whole_image.

Example C17_whole_image_nonvacuous :
  let a := mkAttrs 0 8 ord_f [2; 3] enc_b64gz end_big [] 0 in
  let id := fun x : list Z => x in
  let d := mkWda a [([110], [32; 118])] [85] [85] [49] (99 :: tobytes true 4 true [2%nat; 3%nat] [0; 1; 2; 3; 4; 5])
                 [7] [0; 1; 2; 3; 4; 5] in
  let i := mkWimg [49] [([107], [32; 120; 32])] [(3, [None; None; None; None], [108; 32])] [d] in
  written_da id (fun x => 99 :: x) (fun _ _ => Some ([1%nat], [7])) d /\
  parse (fun x => Some x) (fun x => Some (tl x)) (fun _ _ => Some ([1%nat], [7])) (image_events i)
  = Ok (mkImg (Some [49]) [([107], [120])] [mkLabel 3 [None; None; None; None] (Some [108])]
              [mkDA a (Some [([110], [118])]) (mkCS (Some [85]) (Some [85]) (Some [7])) (Some [0; 1; 2; 3; 4; 5])]).
Proof.
  cbv zeta. split; [|vm_compute; reflexivity].
  exists true, true, true, 4%nat, [2%nat; 3%nat].
  repeat (split; [try reflexivity; try lia|]).
  - repeat constructor; vm_compute; intuition discriminate.
  - discriminate.
  - eexists. reflexivity.
Qed.

(* non-vacuity: a 2x3 int32 array, column major, big endian, through B64GZ with concrete
   (toy) oracles; and a two-chunk / one-chunk parse of a metadata value with blanks *)
Example C17_nonvacuous :
  let a := mkAttrs 0 8 ord_f [2; 3] enc_b64gz end_big [] 0 in
  let id := fun x : list Z => x in
  read_data_block (fun x => Some x) (fun x => Some (tl x)) (fun _ _ => None) a
     (Some (data_tag_text id (fun x => 99 :: x) true true 4 true [2%nat; 3%nat] [0; 1; 2; 3; 4; 4294967295]))
  = Ok [0; 1; 2; 3; 4; 4294967295]
  /\ tobytes true 4 true [2%nat; 3%nat] [0; 1; 2; 3; 4; 4294967295]
     = [0;0;0;0; 0;0;0;3; 0;0;0;1; 0;0;0;4; 0;0;0;2; 255;255;255;255]
  /\ parse (fun _ => None) (fun _ => None) (fun _ _ => None)
       ([Start TGifti (AGifti None); Start TMetaData ANone] ++ md_events [107] [32; 120] ++ [End TMetaData; End TGifti])
     = Ok (mkImg None [([107], [120])] [] [])
  /\ merge ([Start TGifti (AGifti None); Start TMetaData ANone; Start TMD ANone; Start TName ANone; Chars [107];
             End TName; Start TValue ANone; Chars [32]; Chars [120]; End TValue; End TMD; End TMetaData; End TGifti])
     = [Start TGifti (AGifti None); Start TMetaData ANone] ++ md_events [107] [32; 120] ++ [End TMetaData; End TGifti].
Proof. cbv zeta. repeat split; vm_compute; reflexivity. Qed.
