(* drvlib.ml — shared helpers for the per-property model drivers.  This text is
   concatenated after `open <Extracted_model>`; it relies only on the extracted
   constructors XI/XO/XH, Z0/Zpos/Zneg, N0/Npos (when N is extracted), O/S and on Zarith
   for decimal conversion.  Trusted (part of the correspondence harness). *)
let rec pos_of_big (b : BigZ.t) : positive =
  if BigZ.equal b BigZ.one then XH
  else if BigZ.testbit b 0 then XI (pos_of_big (BigZ.shift_right b 1))
  else XO (pos_of_big (BigZ.shift_right b 1))
let rec big_of_pos (p : positive) : BigZ.t = match p with
  | XH -> BigZ.one
  | XO q -> BigZ.shift_left (big_of_pos q) 1
  | XI q -> BigZ.succ (BigZ.shift_left (big_of_pos q) 1)
let z_of_big (b : BigZ.t) : z =
  if BigZ.sign b = 0 then Z0 else if BigZ.sign b > 0 then Zpos (pos_of_big b) else Zneg (pos_of_big (BigZ.neg b))
let big_of_z (x : z) : BigZ.t = match x with
  | Z0 -> BigZ.zero | Zpos p -> big_of_pos p | Zneg p -> BigZ.neg (big_of_pos p)
let z_of_string (s : string) : z = z_of_big (BigZ.of_string s)
let string_of_z (x : z) : string = BigZ.to_string (big_of_z x)
let z_of_int (i : int) : z = z_of_big (BigZ.of_int i)
let int_of_z (x : z) : int = BigZ.to_int (big_of_z x)
let rec nat_of_int (i : int) : nat = if i <= 0 then O else S (nat_of_int (i - 1))
let rec int_of_nat (n : nat) : int = match n with O -> 0 | S m -> 1 + int_of_nat m
let bool_of_string (s : string) : bool = (s = "1" || s = "true" || s = "T")
let string_of_bool (b : bool) : string = if b then "1" else "0"
(* byte strings: "x" followed by hex digits ("x" alone = empty) *)
let bytes_of_hex (s : string) : z list =
  let s = if String.length s > 0 && s.[0] = 'x' then String.sub s 1 (String.length s - 1) else s in
  let n = String.length s / 2 in
  List.init n (fun i -> z_of_int (int_of_string ("0x" ^ String.sub s (2 * i) 2)))
let hex_of_bytes (l : z list) : string =
  let b = Buffer.create 64 in
  Buffer.add_char b 'x';
  List.iter (fun x -> Buffer.add_string b (Printf.sprintf "%02x" (int_of_z x land 0xff))) l;
  Buffer.contents b
(* "[a,b,c]" lists of integers, "-" for None is handled by callers *)
let zlist_of_string (s : string) : z list =
  let s = String.trim s in
  let s = if String.length s >= 2 && s.[0] = '[' then String.sub s 1 (String.length s - 2) else s in
  if String.trim s = "" then [] else List.map (fun t -> z_of_string (String.trim t)) (String.split_on_char ',' s)
let string_of_zlist (l : z list) : string = "[" ^ String.concat "," (List.map string_of_z l) ^ "]"
let words (line : string) : string list =
  List.filter (fun w -> w <> "") (String.split_on_char ' ' (String.trim line))
let rec take_n n l = if n <= 0 then [] else match l with [] -> [] | x :: r -> x :: take_n (n - 1) r
let rec drop_n n l = if n <= 0 then l else match l with [] -> [] | _ :: r -> drop_n (n - 1) r
(* main loop: one case per line "<id> <op> args..." -> "<id> <result>" *)
let run_lines (handle : string -> string list -> string) : unit =
  (try
    while true do
      let line = input_line stdin in
      match words line with
      | [] -> ()
      | id :: op :: args ->
        let r = (try handle op args with e -> "err driver:" ^ Printexc.to_string e) in
        print_string id; print_char ' '; print_string r; print_newline ()
      | [id] -> print_string id; print_string " err driver:noop"; print_newline ()
    done
  with End_of_file -> ());
  Stdlib.flush Stdlib.stdout
