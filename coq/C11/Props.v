(* C11/Props.v — property theorems only.  Each is closed by `exact <lemma>` and followed by
   Print Assumptions.  Property C11: NIfTI extensions are preserved and never collide with
   the voxel data. *)
From Coq Require Import ZArith List Bool Lia.
From NV Require Import Base.Bytes C11.Model C11.Lemmas.
Import ListNotations.
Open Scope Z_scope.

(* size on disk: multiple of 16, room for the 8-byte esize/ecode words, minimal *)
Theorem C11_size_mult16 : forall c, 0 <= c ->
  size_on_disk c mod 16 = 0 /\ c + 8 <= size_on_disk c < c + 24.
Proof. exact size_mult16. Qed.
Print Assumptions C11_size_mult16.

(* any list of extensions, either byte order, read back by the single-file loop (size =
   room up to vox_offset, with less than one 16-byte unit of slack): order, codes and
   contents (up to trailing NULs) preserved, and reading stops exactly at the end *)
Theorem C11_exts_roundtrip_single : forall be l slack rest,
  Forall wf_ext l -> 0 <= slack < 16 ->
  read_exts_top be (sum_sizes l + slack) (write_exts be l ++ rest) = Ok (map strip_ext l, rest).
Proof. exact exts_roundtrip_single. Qed.
Print Assumptions C11_exts_roundtrip_single.

(* pair images: the header file is read to its end *)
Theorem C11_exts_roundtrip_pair : forall be l, Forall wf_ext l ->
  read_exts_top be (-1) (write_exts be l) = Ok (map strip_ext l, []).
Proof. exact exts_roundtrip_pair. Qed.
Print Assumptions C11_exts_roundtrip_pair.

(* automatic offset = header + extender + all extensions, and a multiple of 16 for the two
   NIfTI header sizes (348+4 = 352 and 540+4 = 544 are multiples of 16) *)
Theorem C11_offset : forall hsize be l,
  exists b, hdr_write true hsize be 0 l = WOk (hsize + 4 + sum_sizes l) b
  /\ ((hsize + 4) mod 16 = 0 -> (hsize + 4 + sum_sizes l) mod 16 = 0).
Proof. exact written_offset. Qed.
Print Assumptions C11_offset.

Theorem C11_small_offset_rejected : forall single hsize be vox l,
  single = true -> vox <> 0 -> vox < hsize + 4 + sum_sizes l ->
  hdr_write single hsize be vox l = WErr.
Proof. exact small_offset_rejected. Qed.
Print Assumptions C11_small_offset_rejected.

(* no overlap + data unaffected by extensions, FULL STATEMENT: for every list of extensions,
   either byte order, the automatic offset or ANY user offset that leaves room (vox >= header +
   extender + all extensions): the file is written, the stored offset is the user's (or the
   minimum), and reading it back gives the extensions (NUL-stripped) and exactly the data.
   (Before fix 929c1372 this failed for >= 16 bytes of slack with an extension present:
   finding S-C11a, now repaired; its regression probe runs on every check.) *)
Theorem C11_no_overlap : forall hsize be vox l data,
  Forall wf_ext l -> 0 <= hsize ->
  (vox = 0 \/ hsize + 4 + sum_sizes l <= vox) ->
  exists vox' tail,
    single_tail hsize be vox l data = Some (vox', tail)
    /\ hsize + 4 + sum_sizes l <= vox'
    /\ (vox = 0 -> vox' = hsize + 4 + sum_sizes l)
    /\ (vox <> 0 -> vox' = vox)
    /\ single_read hsize be vox' tail = Ok (map strip_ext l, data).
Proof. exact single_file_roundtrip. Qed.
Print Assumptions C11_no_overlap.

(* the reader stops at the zero fill *)
Theorem C11_zero_fill_ends_extensions : forall be l fuel slack k rest acc,
  Forall wf_ext l -> (length l + 1 < fuel)%nat -> 16 <= slack -> 8 <= k ->
  read_exts fuel be (sum_sizes l + slack) (write_exts be l ++ zeros k ++ rest) acc
  = Ok (rev acc ++ map strip_ext l, drop 8 (zeros k ++ rest)).
Proof. exact read_exts_fill. Qed.
Print Assumptions C11_zero_fill_ends_extensions.

(* non-vacuity: a concrete non-trivial list meets the hypotheses *)
Example C11_nonvacuous :
  Forall wf_ext [mkExt 6 [104;105;0]; mkExt 4 []; mkExt 40 (repeat 7 17)]
  /\ read_exts_top true (sum_sizes [mkExt 6 [104;105;0]; mkExt 4 []; mkExt 40 (repeat 7 17)] + 8)
       (write_exts true [mkExt 6 [104;105;0]; mkExt 4 []; mkExt 40 (repeat 7 17)] ++ [9;9])
     = Ok ([mkExt 6 [104;105]; mkExt 4 []; mkExt 40 (repeat 7 17)], [9;9]).
Proof.
  split; [|vm_compute; reflexivity].
  repeat constructor; unfold byte_ok; cbn; try lia; try (vm_compute; reflexivity); vm_compute; intuition discriminate.
Qed.
