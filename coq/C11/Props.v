(* C11/Props.v — property theorems only.  Each is closed by `exact <lemma>` and followed by
   Print Assumptions.  Property C11: NIfTI extensions are preserved and never collide with
   the voxel data. *)
From Coq Require Import ZArith List Bool Lia.
From NV Require Import Base.Bytes C11.Model C11.Lemmas.
Import ListNotations.
Open Scope Z_scope.

(* size on disk: multiple of 16, room for the 8-byte esize/ecode words, minimal *)
Theorem C11_size_mult16 : forall c, 0 <= c ->
  size_on_disk c mod 16 = 0 /\ c + 8 <= size_on_disk c < c + 24.
Proof. exact size_mult16. Qed.
Print Assumptions C11_size_mult16.

(* any list of extensions, either byte order, read back by the single-file loop (size =
   room up to vox_offset, with less than one 16-byte unit of slack): order, codes and
   contents (up to trailing NULs) preserved, and reading stops exactly at the end *)
Theorem C11_exts_roundtrip_single : forall be l slack rest,
  Forall wf_ext l -> 0 <= slack < 16 ->
  read_exts_top be (sum_sizes l + slack) (write_exts be l ++ rest) = Ok (map strip_ext l, rest).
Proof. exact exts_roundtrip_single. Qed.
Print Assumptions C11_exts_roundtrip_single.

(* pair images: the header file is read to its end *)
Theorem C11_exts_roundtrip_pair : forall be l, Forall wf_ext l ->
  read_exts_top be (-1) (write_exts be l) = Ok (map strip_ext l, []).
Proof. exact exts_roundtrip_pair. Qed.
Print Assumptions C11_exts_roundtrip_pair.

(* automatic offset = header + extender + all extensions, and a multiple of 16 for the two
   NIfTI header sizes (348+4 = 352 and 540+4 = 544 are multiples of 16) *)
Theorem C11_offset : forall hsize be l,
  exists b, hdr_write true hsize be 0 l = WOk (hsize + 4 + sum_sizes l) b
  /\ ((hsize + 4) mod 16 = 0 -> (hsize + 4 + sum_sizes l) mod 16 = 0).
Proof. exact written_offset. Qed.
Print Assumptions C11_offset.

Theorem C11_small_offset_rejected : forall single hsize be vox l,
  single = true -> vox <> 0 -> vox < hsize + 4 + sum_sizes l ->
  hdr_write single hsize be vox l = WErr.
Proof. exact small_offset_rejected. Qed.
Print Assumptions C11_small_offset_rejected.

(* no overlap + data unaffected by extensions.  FULL STATEMENT (for every user offset
   vox >= minimum) is false of the faithful model when there is at least one extension and
   16 or more bytes of slack: the reader takes the zero fill for another extension header
   (finding S-C11a, see C11_any_offset_refuted).  Proved here: automatic offset, or user
   offset with < 16 bytes of slack, or no extensions with any offset. *)
Theorem C11_no_overlap_partial : forall hsize be vox l data,
  Forall wf_ext l -> 0 <= hsize ->
  (vox = 0 \/ hsize + 4 + sum_sizes l <= vox < hsize + 4 + sum_sizes l + 16
   \/ l = [] /\ hsize + 4 <= vox) ->
  exists vox' tail,
    single_tail hsize be vox l data = Some (vox', tail)
    /\ hsize + 4 + sum_sizes l <= vox'
    /\ (vox = 0 -> vox' = hsize + 4 + sum_sizes l)
    /\ single_read hsize be vox' tail = Ok (map strip_ext l, data).
Proof. exact single_file_roundtrip. Qed.
Print Assumptions C11_no_overlap_partial.

Theorem C11_any_offset_refuted :
  exists hsize be vox l data vox' tail,
    Forall wf_ext l /\ hsize + 4 + sum_sizes l <= vox
    /\ single_tail hsize be vox l data = Some (vox', tail)
    /\ single_read hsize be vox' tail = Err ErrExtContent.
Proof.
  exists 348, false, 384, [mkExt 6 [104]], [1;2].
  eexists; eexists. split; [|split; [|split; [vm_compute; reflexivity|vm_compute; reflexivity]]].
  - repeat constructor; unfold byte_ok; cbn; try lia; vm_compute; reflexivity.
  - vm_compute. discriminate.
Qed.
Print Assumptions C11_any_offset_refuted.

(* non-vacuity: a concrete non-trivial list meets the hypotheses *)
Example C11_nonvacuous :
  Forall wf_ext [mkExt 6 [104;105;0]; mkExt 4 []; mkExt 40 (repeat 7 17)]
  /\ read_exts_top true (sum_sizes [mkExt 6 [104;105;0]; mkExt 4 []; mkExt 40 (repeat 7 17)] + 8)
       (write_exts true [mkExt 6 [104;105;0]; mkExt 4 []; mkExt 40 (repeat 7 17)] ++ [9;9])
     = Ok ([mkExt 6 [104;105]; mkExt 4 []; mkExt 40 (repeat 7 17)], [9;9]).
Proof.
  split; [|vm_compute; reflexivity].
  repeat constructor; unfold byte_ok; cbn; try lia; try (vm_compute; reflexivity); vm_compute; intuition discriminate.
Qed.
