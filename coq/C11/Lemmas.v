(* C11/Lemmas.v — proofs about C11/Model.v *)
From Coq Require Import ZArith List Bool Lia ZifyBool.
From NV Require Import Base.Bytes C11.Model.
Import ListNotations.
Open Scope Z_scope.

Definition wf_ext (e : ext) : Prop :=
  bytes_ok (econtent e) /\ - 2 ^ 31 <= ecode e < 2 ^ 31 /\ ext_size e < 2 ^ 31.

Lemma zlen_nonneg {A} (l : list A) : 0 <= zlen l.
Proof. unfold zlen; lia. Qed.

Lemma zlen_app {A} (a b : list A) : zlen (a ++ b) = zlen a + zlen b.
Proof. unfold zlen. rewrite app_length. lia. Qed.

Lemma size_bounds c : 0 <= c ->
  size_on_disk c mod 16 = 0 /\ c + 8 <= size_on_disk c < c + 24.
Proof.
  intros H. unfold size_on_disk. split; [apply Z_mod_mult|].
  Z.to_euclidean_division_equations; lia.
Qed.

Lemma ext_size_bounds e :
  ext_size e mod 16 = 0 /\ zlen (econtent e) + 8 <= ext_size e < zlen (econtent e) + 24.
Proof. apply size_bounds, zlen_nonneg. Qed.

Lemma ext_size_ge16 e : 16 <= ext_size e.
Proof.
  pose proof (ext_size_bounds e) as [Hm Hb]. pose proof (zlen_nonneg (econtent e)).
  Z.to_euclidean_division_equations; lia.
Qed.

Lemma sum_sizes_nonneg l : 0 <= sum_sizes l.
Proof. induction l as [|e l IH]; simpl; [lia|]. pose proof (ext_size_ge16 e). lia. Qed.

Lemma sum_sizes_mod16 l : sum_sizes l mod 16 = 0.
Proof.
  induction l as [|e l IH]; simpl; [reflexivity|].
  pose proof (ext_size_bounds e) as [Hm _]. Z.to_euclidean_division_equations; lia.
Qed.

Lemma pow256_4_half : pow256 4 / 2 = 2 ^ 31.
Proof. reflexivity. Qed.

Lemma zlen_enc_s be w z : zlen (enc_s be w z) = Z.of_nat w.
Proof. unfold zlen, enc_s. now rewrite enc_length. Qed.

Lemma fread_app_exact n (a r : list Z) : zlen a = n -> fread n (a ++ r) = (a, r).
Proof.
  intros H. unfold fread. pose proof (zlen_nonneg a).
  destruct (Z.ltb_spec n 0); [lia|]. subst n. now rewrite take_app_exact, drop_app_exact.
Qed.

Lemma take_app_len {A} n (a r : list A) : zlen a = n -> take n (a ++ r) = a.
Proof. intros <-. apply take_app_exact. Qed.
Lemma drop_app_len {A} n (a r : list A) : zlen a = n -> drop n (a ++ r) = r.
Proof. intros <-. apply drop_app_exact. Qed.

Lemma read_one fuel be size e rest acc :
  wf_ext e -> (16 <= size \/ size < 0) ->
  read_exts (S fuel) be size (write_ext be e ++ rest) acc =
  read_exts fuel be (size - ext_size e) rest (strip_ext e :: acc).
Proof.
  intros (Hb & Hc & Hs) Hsz.
  pose proof (ext_size_bounds e) as [_ Hbd]. pose proof (ext_size_ge16 e) as H16.
  pose proof (zlen_nonneg (econtent e)) as Hcl.
  cbn [read_exts].
  replace ((16 <=? size) || (size <? 0)) with true by lia.
  unfold write_ext. cbv zeta.
  set (A := enc_s be 4 (ext_size e)). set (B := enc_s be 4 (ecode e)).
  set (P := zeros (ext_size e - 8 - zlen (econtent e))).
  replace ((A ++ B ++ econtent e ++ P) ++ rest) with ((A ++ B) ++ ((econtent e ++ P) ++ rest))
    by (rewrite <- !app_assoc; reflexivity).
  assert (HA : zlen A = 4) by (unfold A; apply zlen_enc_s).
  assert (HB : zlen B = 4) by (unfold B; apply zlen_enc_s).
  rewrite (fread_app_exact 8) by (rewrite zlen_app; lia).
  rewrite zlen_app, HA, HB. cbn [Z.add Pos.add Z.eqb Pos.eqb andb negb].
  rewrite (take_app_len 4 A B HA), (drop_app_len 4 A B HA).
  assert (EA : dec_s be A = ext_size e) by (unfold A; apply dec_s_enc_s; rewrite ?pow256_4_half; lia).
  assert (EB : dec_s be B = ecode e) by (unfold B; apply dec_s_enc_s; rewrite ?pow256_4_half; lia).
  rewrite !EA, !EB.
  replace ((ext_size e =? 0) && (ecode e =? 0)) with false by lia.
  assert (HP : zlen P = ext_size e - 8 - zlen (econtent e)) by (unfold P; apply zeros_length; lia).
  rewrite (fread_app_exact (ext_size e - 8)) by (rewrite zlen_app; lia).
  rewrite zlen_app, HP.
  replace (zlen (econtent e) + (ext_size e - 8 - zlen (econtent e)) =? ext_size e - 8) with true by lia.
  cbn [negb]. unfold P, zeros. rewrite rstrip0_app_zeros. reflexivity.
Qed.

Lemma read_exts_positive be : forall l fuel size rest acc,
  Forall wf_ext l -> (length l < fuel)%nat ->
  sum_sizes l <= size < sum_sizes l + 16 ->
  read_exts fuel be size (write_exts be l ++ rest) acc = Ok (rev acc ++ map strip_ext l, rest).
Proof.
  induction l as [|e l IH]; intros fuel size rest acc Hwf Hf Hs.
  - simpl in *. destruct fuel as [|fuel]; [lia|]. cbn [read_exts].
    replace ((16 <=? size) || (size <? 0)) with false by lia. now rewrite app_nil_r.
  - inversion Hwf as [|? ? He Hl]; subst. destruct fuel as [|fuel]; [simpl in Hf; lia|].
    cbn [write_exts flat_map]. fold (write_exts be l). rewrite <- app_assoc.
    pose proof (ext_size_ge16 e). pose proof (sum_sizes_nonneg l). cbn [sum_sizes fold_right] in Hs.
    fold (sum_sizes l) in Hs.
    rewrite read_one by (auto; lia).
    rewrite IH; [|assumption|simpl in Hf; lia|lia].
    cbn [rev map]. now rewrite <- app_assoc.
Qed.

Lemma read_exts_to_end be : forall l fuel size acc,
  Forall wf_ext l -> (length l < fuel)%nat -> size < 0 ->
  read_exts fuel be size (write_exts be l) acc = Ok (rev acc ++ map strip_ext l, []).
Proof.
  induction l as [|e l IH]; intros fuel size acc Hwf Hf Hs.
  - destruct fuel as [|fuel]; [simpl in Hf; lia|]. cbn [read_exts write_exts flat_map].
    replace ((16 <=? size) || (size <? 0)) with true by lia.
    cbn. replace (size <? 0) with true by lia. now rewrite app_nil_r.
  - inversion Hwf as [|? ? He Hl]; subst. destruct fuel as [|fuel]; [simpl in Hf; lia|].
    cbn [write_exts flat_map]. fold (write_exts be l).
    pose proof (ext_size_ge16 e).
    rewrite read_one by (auto; lia).
    rewrite IH; [|assumption|simpl in Hf; lia|lia].
    cbn [rev map]. now rewrite <- app_assoc.
Qed.

Lemma write_exts_length be l : Forall wf_ext l -> zlen (write_exts be l) = sum_sizes l.
Proof.
  induction l as [|e l IH]; intros H; [reflexivity|]. inversion H as [|? ? He Hl]; subst.
  cbn [write_exts flat_map sum_sizes fold_right]. fold (write_exts be l). fold (sum_sizes l).
  rewrite zlen_app, IH by assumption. f_equal.
  unfold write_ext. cbv zeta. pose proof (ext_size_bounds e) as [_ Hb].
  rewrite !zlen_app, !zlen_enc_s, zeros_length by lia. lia.
Qed.

Lemma length_lt_write_exts be l rest : Forall wf_ext l ->
  (length l < S (length (write_exts be l ++ rest)))%nat.
Proof.
  intros H. pose proof (write_exts_length be l H) as E.
  assert (Z.of_nat (length l) <= sum_sizes l).
  { clear. induction l as [|e l IH]; simpl; [lia|]. pose proof (ext_size_ge16 e).
    fold (sum_sizes l). lia. }
  rewrite app_length. unfold zlen in E. lia.
Qed.

Lemma take_zeros_app n k (r : list Z) : 0 <= n <= k -> take n (zeros k ++ r) = zeros n.
Proof.
  intros H. unfold take, zeros. rewrite firstn_app, repeat_length.
  replace (Z.to_nat n - Z.to_nat k)%nat with 0%nat by lia. cbn [firstn]. rewrite app_nil_r.
  replace (Z.to_nat k) with (Z.to_nat n + (Z.to_nat k - Z.to_nat n))%nat by lia.
  rewrite repeat_app, firstn_app, repeat_length, Nat.sub_diag. cbn [firstn]. rewrite app_nil_r.
  rewrite firstn_all2 by (rewrite repeat_length; lia). reflexivity.
Qed.

Lemma zlen_zeros n : 0 <= n -> zlen (zeros n) = n.
Proof. apply zeros_length. Qed.

(* the reader meeting the zero fill: stops *)
Lemma read_zero_fill fuel be size k rest acc : 16 <= size -> 8 <= k ->
  read_exts (S fuel) be size (zeros k ++ rest) acc = Ok (rev acc, drop 8 (zeros k ++ rest)).
Proof.
  intros Hs Hk. cbn [read_exts]. replace ((16 <=? size) || (size <? 0)) with true by lia.
  unfold fread. cbn [Z.ltb Z.compare].
  rewrite take_zeros_app by lia.
  change (zeros 8) with [0;0;0;0;0;0;0;0]. cbn [zlen length Z.of_nat Pos.of_succ_nat Pos.succ Z.eqb Pos.eqb andb negb].
  destruct be; vm_compute (dec_s _ (take 4 _)); vm_compute (dec_s _ (drop 4 _)); reflexivity.
Qed.

Lemma read_exts_fill be : forall l fuel slack k rest acc,
  Forall wf_ext l -> (length l + 1 < fuel)%nat -> 16 <= slack -> 8 <= k ->
  read_exts fuel be (sum_sizes l + slack) (write_exts be l ++ zeros k ++ rest) acc
  = Ok (rev acc ++ map strip_ext l, drop 8 (zeros k ++ rest)).
Proof.
  induction l as [|e l IH]; intros fuel slack k rest acc Hwf Hf Hs Hk.
  - cbn [write_exts flat_map app sum_sizes fold_right map]. destruct fuel as [|fuel]; [simpl in Hf; lia|].
    rewrite Z.add_0_l, app_nil_r. now apply read_zero_fill.
  - inversion Hwf as [|? ? He Hl]; subst. destruct fuel as [|fuel]; [simpl in Hf; lia|].
    cbn [write_exts flat_map]. fold (write_exts be l). rewrite <- app_assoc.
    pose proof (ext_size_ge16 e). pose proof (sum_sizes_nonneg l). cbn [sum_sizes fold_right].
    fold (sum_sizes l).
    rewrite read_one by (auto; lia).
    replace (ext_size e + sum_sizes l + slack - ext_size e) with (sum_sizes l + slack) by lia.
    rewrite IH; [|assumption|simpl in Hf; lia|lia|lia].
    cbn [rev map]. now rewrite <- app_assoc.
Qed.

(* ---- the statements used by Props.v ---- *)

Lemma size_mult16 c : 0 <= c ->
  size_on_disk c mod 16 = 0 /\ c + 8 <= size_on_disk c < c + 24.
Proof. apply size_bounds. Qed.

Lemma exts_roundtrip_single be l slack rest : Forall wf_ext l -> 0 <= slack < 16 ->
  read_exts_top be (sum_sizes l + slack) (write_exts be l ++ rest) = Ok (map strip_ext l, rest).
Proof.
  intros H Hs. unfold read_exts_top.
  rewrite read_exts_positive; [reflexivity|assumption|now apply length_lt_write_exts|lia].
Qed.

Lemma exts_roundtrip_pair be l : Forall wf_ext l ->
  read_exts_top be (-1) (write_exts be l) = Ok (map strip_ext l, []).
Proof.
  intros H. unfold read_exts_top.
  rewrite read_exts_to_end; [reflexivity|assumption| |lia].
  rewrite <- (app_nil_r (write_exts be l)). now apply length_lt_write_exts.
Qed.

Lemma written_offset hsize be l :
  exists b, hdr_write true hsize be 0 l = WOk (hsize + 4 + sum_sizes l) b
  /\ ((hsize + 4) mod 16 = 0 -> (hsize + 4 + sum_sizes l) mod 16 = 0).
Proof.
  unfold hdr_write, single_vox_offset. cbn [andb negb Z.eqb].
  pose proof (sum_sizes_mod16 l) as Hs.
  destruct l as [|e l]; eexists; (split; [reflexivity|]); intros Hm;
    Z.to_euclidean_division_equations; lia.
Qed.

Lemma small_offset_rejected single hsize be vox l :
  single = true -> vox <> 0 -> vox < hsize + 4 + sum_sizes l ->
  hdr_write single hsize be vox l = WErr.
Proof.
  intros -> Hv Hlt. unfold hdr_write, single_vox_offset.
  replace (vox =? 0) with false by lia. replace (vox <? hsize + 4 + sum_sizes l) with true by lia.
  reflexivity.
Qed.

(* the file written by a single-file image reads back: extensions preserved (up to NUL
   stripping) and the data region is exactly the data, whatever the extensions, provided the
   offset is the automatic one or a user offset with less than 16 bytes of slack *)
Lemma single_file_roundtrip hsize be vox l data :
  Forall wf_ext l -> 0 <= hsize ->
  (vox = 0 \/ hsize + 4 + sum_sizes l <= vox) ->
  exists vox' tail,
    single_tail hsize be vox l data = Some (vox', tail)
    /\ hsize + 4 + sum_sizes l <= vox'
    /\ (vox = 0 -> vox' = hsize + 4 + sum_sizes l)
    /\ (vox <> 0 -> vox' = vox)
    /\ single_read hsize be vox' tail = Ok (map strip_ext l, data).
Proof.
  intros Hwf Hh Hv. pose proof (sum_sizes_nonneg l) as Hnn.
  unfold single_tail, hdr_write, single_vox_offset. cbn [andb].
  set (minv := hsize + 4 + sum_sizes l).
  assert (Hguard : negb (vox =? 0) && (vox <? minv) = false) by (destruct Hv as [->|H]; [reflexivity|lia]).
  rewrite Hguard.
  set (vox' := if vox =? 0 then minv else vox).
  assert (Hvox' : minv <= vox') by (unfold vox'; destruct (Z.eqb_spec vox 0); lia).
  assert (Hv0 : vox = 0 -> vox' = minv) by (intros ->; reflexivity).
  assert (Hv1 : vox <> 0 -> vox' = vox) by (intros H; unfold vox'; destruct (Z.eqb_spec vox 0); [contradiction|reflexivity]).
  destruct l as [|e l'].
  - (* no extensions: extender 0, zero fill, data *)
    exists vox', ([0;0;0;0] ++ zeros (vox' - hsize - zlen [0;0;0;0]) ++ data).
    split; [reflexivity|]. split; [exact Hvox'|]. split; [exact Hv0|]. split; [exact Hv1|].
    unfold single_read, hdr_read.
    rewrite (fread_app_exact 4 [0;0;0;0]) by reflexivity.
    cbn [zlen length nth Z.of_nat Pos.of_succ_nat Pos.succ Z.ltb Z.compare Pos.compare Pos.compare_cont Z.eqb orb].
    f_equal. f_equal.
    unfold minv in *. cbn [sum_sizes fold_right] in Hvox'. change (zlen [0;0;0;0]) with 4.
    assert (E : vox' - hsize = zlen ([0;0;0;0] ++ zeros (vox' - hsize - 4))).
    { rewrite zlen_app, zeros_length by lia. change (zlen [0;0;0;0]) with 4. lia. }
    rewrite app_assoc. apply drop_app_len. symmetry; exact E.
  - set (l := e :: l') in *.
    exists vox', (([1;0;0;0] ++ write_exts be l) ++ zeros (vox' - hsize - zlen ([1;0;0;0] ++ write_exts be l)) ++ data).
    split; [reflexivity|]. split; [exact Hvox'|]. split; [exact Hv0|]. split; [exact Hv1|].
    unfold single_read, hdr_read.
    rewrite <- !app_assoc. rewrite (fread_app_exact 4 [1;0;0;0]) by reflexivity.
    cbn [zlen length nth Z.of_nat Pos.of_succ_nat Pos.succ Z.ltb Z.compare Pos.compare Pos.compare_cont Z.eqb orb].
    pose proof (write_exts_length be l Hwf) as Hlen.
    set (Z0 := zeros _).
    assert (HZ : zlen Z0 = vox' - minv).
    { unfold Z0. rewrite zeros_length; rewrite zlen_app, Hlen; change (zlen [1;0;0;0]) with 4; unfold minv; lia. }
    assert (Hexts : exists r, read_exts_top be (vox' - (hsize + 4)) (write_exts be l ++ Z0 ++ data) = Ok (map strip_ext l, r)).
    { replace (vox' - (hsize + 4)) with (sum_sizes l + (vox' - minv)) by (unfold minv; lia).
      destruct (Z_lt_ge_dec (vox' - minv) 16) as [Hsmall|Hbig].
      - eexists. apply exts_roundtrip_single; [assumption|lia].
      - eexists. unfold read_exts_top.
        assert (Hk : Z0 = zeros (vox' - minv)).
        { unfold Z0. f_equal. rewrite zlen_app, Hlen. change (zlen [1;0;0;0]) with 4. unfold minv. lia. }
        rewrite Hk. apply (read_exts_fill be l _ (vox' - minv) (vox' - minv) data []); [assumption| |lia|lia].
        pose proof (length_lt_write_exts be l [] Hwf) as HL. rewrite app_nil_r in HL.
        rewrite !app_length. unfold zeros. rewrite repeat_length. lia. }
    destruct Hexts as [r Hr]. rewrite Hr.
    f_equal. f_equal.
    assert (E : vox' - hsize = zlen ([1;0;0;0] ++ write_exts be l ++ Z0)).
    { rewrite !zlen_app, Hlen, HZ. change (zlen [1;0;0;0]) with 4. unfold minv. lia. }
    replace ([1;0;0;0] ++ write_exts be l ++ Z0 ++ data) with (([1;0;0;0] ++ write_exts be l ++ Z0) ++ data)
      by (rewrite <- !app_assoc; reflexivity).
    apply drop_app_len. symmetry; exact E.
Qed.

(* NIfTI-1 stores vox_offset in a float32 field: exactly representable (24-bit significand)
   for every multiple of 16 below 2^28 *)
Definition representable24 (v : Z) : Prop := exists m e, 0 <= e /\ v = m * 2 ^ e /\ Z.abs m < 2 ^ 24.

Lemma offset_float32_exact v : 0 <= v < 2 ^ 28 -> v mod 16 = 0 -> representable24 v.
Proof.
  intros Hv Hm. exists (v / 16), 4. split; [lia|]. split.
  - change (2 ^ 4) with 16. Z.to_euclidean_division_equations; lia.
  - change (2 ^ 24) with 16777216 in *. change (2 ^ 28) with 268435456 in *.
    Z.to_euclidean_division_equations; lia.
Qed.

(* and the first multiple of 16 that needs 25 bits is not: 2^28 + 16 *)
Lemma offset_float32_limit : ~ representable24 (2 ^ 28 + 16).
Proof.
  intros (m & e & He & Hv & Hm).
  change (2 ^ 28 + 16) with 268435472 in Hv. change (2 ^ 24) with 16777216 in Hm.
  (* 268435472 = 2^4 * 16777217 with 16777217 odd: any m * 2^e decomposition has e <= 4, so |m| >= 16777217 *)
  assert (He4 : e <= 4).
  { destruct (Z_le_gt_dec e 4) as [|Hgt]; [assumption|exfalso].
    assert (Hdiv : (2 ^ 5 | 268435472)).
    { rewrite Hv. replace e with (5 + (e - 5)) by lia. rewrite Z.pow_add_r by lia.
      exists (m * 2 ^ (e - 5)). ring. }
    destruct Hdiv as [q Hq]. change (2 ^ 5) with 32 in Hq. lia. }
  assert (Hcases : e = 0 \/ e = 1 \/ e = 2 \/ e = 3 \/ e = 4) by lia.
  destruct Hcases as [E|[E|[E|[E|E]]]]; subst e; cbn in Hv; lia.
Qed.
