(* C11 driver body (after `open C11_model` and drvlib.ml).
   size <clen> | write <be> <n> (<code> <hex>)* | read <be> <size> <hex>
   single <hsize> <be> <vox> <datahex> <n> (<code> <hex>)* | sread <hsize> <be> <vox> <tailhex> *)
let rec exts_of_args n args = if n = 0 then ([], args) else match args with
  | c :: h :: r -> let (l, r') = exts_of_args (n - 1) r in
                   ({ ecode = z_of_string c; econtent = bytes_of_hex h } :: l, r')
  | _ -> failwith "bad ext args"
let string_of_exts l =
  string_of_int (List.length l) ^
  String.concat "" (List.map (fun e -> " " ^ string_of_z e.ecode ^ " " ^ hex_of_bytes e.econtent) l)
let string_of_rerr = function ErrExtHeader -> "ext_header" | ErrExtContent -> "ext_content" | ErrFuel -> "fuel"
let handle op args = match op, args with
  | "size", [c] -> "ok " ^ string_of_z (size_on_disk (z_of_string c))
  | "write", be :: n :: r ->
    let (l, _) = exts_of_args (int_of_string n) r in
    "ok " ^ hex_of_bytes (write_exts (bool_of_string be) l)
  | "read", [be; size; h] ->
    (match read_exts_top (bool_of_string be) (z_of_string size) (bytes_of_hex h) with
     | Ok (l, rest) -> "ok " ^ string_of_exts l ^ " rest=" ^ hex_of_bytes rest
     | Err e -> "err " ^ string_of_rerr e)
  | "single", hs :: be :: vox :: d :: n :: r ->
    let (l, _) = exts_of_args (int_of_string n) r in
    (match single_tail (z_of_string hs) (bool_of_string be) (z_of_string vox) l (bytes_of_hex d) with
     | Some (v, t) -> "ok " ^ string_of_z v ^ " " ^ hex_of_bytes t
     | None -> "err offset_too_small")
  | "sread", [hs; be; vox; t] ->
    (match single_read (z_of_string hs) (bool_of_string be) (z_of_string vox) (bytes_of_hex t) with
     | Ok (l, d) -> "ok " ^ string_of_exts l ^ " data=" ^ hex_of_bytes d
     | Err e -> "err " ^ string_of_rerr e)
  | _ -> "err driver:badop"
let () = run_lines handle
