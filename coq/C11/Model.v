(* C11/Model.v — NIfTI header extensions: size arithmetic, writer, reader loop, the
   header-level write_to / from_fileobj glue around them and the layout of a single file.
   Counterparts in /repo/nibabel/nifti1.py:
     NiftiExtension.get_sizeondisk / write_to     -> size_on_disk / write_ext
     Nifti1Extensions.write_to / from_fileobj     -> write_exts / read_exts (as of fix 929c1372)
     Nifti1Header.write_to / from_fileobj         -> hdr_write / hdr_read
   Bytes are Z in [0,256); be = true means the header (hence the extension
   words) is big-endian on disk.  Definitions only. *)
From Coq Require Import ZArith List Bool.
From NV Require Import Base.Bytes.
Import ListNotations.
Open Scope Z_scope.

Record ext := mkExt { ecode : Z; econtent : list Z }.

Definition size_on_disk (clen : Z) : Z := (clen + 23) / 16 * 16.
Definition ext_size (e : ext) : Z := size_on_disk (zlen (econtent e)).
Definition sum_sizes (l : list ext) : Z := fold_right (fun e a => ext_size e + a) 0 l.

Definition write_ext (be : bool) (e : ext) : list Z :=
  let rawsize := ext_size e in
  enc_s be 4 rawsize ++ enc_s be 4 (ecode e) ++ econtent e
  ++ zeros (rawsize - 8 - zlen (econtent e)).

Definition write_exts (be : bool) (l : list ext) : list Z := flat_map (write_ext be) l.

Inductive rerr := ErrExtHeader | ErrExtContent | ErrFuel.
Inductive res (A : Type) := Ok (a : A) | Err (e : rerr).
Arguments Ok {A}. Arguments Err {A}.

(* Python file.read(n): n < 0 reads everything *)
Definition fread (n : Z) (f : list Z) : list Z * list Z :=
  if n <? 0 then (f, []) else (take n f, drop n f).

(* the `while size >= 16 or size < 0` loop; returns the extensions and the unread rest *)
Fixpoint read_exts (fuel : nat) (be : bool) (size : Z) (f : list Z) (acc : list ext)
  : res (list ext * list Z) :=
  match fuel with
  | O => Err ErrFuel
  | S fuel' =>
    if (16 <=? size) || (size <? 0) then
      let '(d, f1) := fread 8 f in
      if (zlen d =? 0) && (size <? 0) then Ok (rev acc, f1)
      else if negb (zlen d =? 8) then Err ErrExtHeader
      else
        let esize := dec_s be (take 4 d) in
        let code := dec_s be (drop 4 d) in
        (* fix 929c1372: a zero esize/ecode pair is the zero fill before vox_offset *)
        if (esize =? 0) && (code =? 0) then Ok (rev acc, f1) else
        let '(v, f2) := fread (esize - 8) f1 in
        if negb (zlen v =? esize - 8) then Err ErrExtContent
        else read_exts fuel' be (size - esize) f2 (mkExt code (rstrip0 v) :: acc)
    else Ok (rev acc, f)
  end.

Definition read_exts_top (be : bool) (size : Z) (f : list Z) :=
  read_exts (S (length f)) be size f [].

(* ---- header level.  hsize = 348 (NIfTI-1) or 540 (NIfTI-2); the header block itself is
   opaque here (C10's subject) except for its vox_offset field, passed separately. *)
Definition single_vox_offset (hsize : Z) : Z := hsize + 4.

Inductive werr := ErrOffsetTooSmall.
Inductive wres := WOk (vox : Z) (bytes : list Z) | WErr.

(* Nifti1Header.write_to: returns the vox_offset stored in the header and the bytes that
   follow the header block (extender + extensions) *)
Definition hdr_write (single : bool) (hsize : Z) (be : bool) (vox : Z) (l : list ext) : wres :=
  let minv := single_vox_offset hsize + sum_sizes l in
  if single && negb (vox =? 0) && (vox <? minv) then WErr
  else
    let vox' := if single && (vox =? 0) then minv else vox in
    match l with
    | [] => WOk vox' (if single then [0;0;0;0] else [])
    | _ => WOk vox' ([1;0;0;0] ++ write_exts be l)
    end.

(* Nifti1Header.from_fileobj after the header block: f = bytes following the block *)
Definition hdr_read (single : bool) (hsize : Z) (be : bool) (vox : Z) (f : list Z)
  : res (list ext * list Z) :=
  let '(st, f1) := fread 4 f in
  if (zlen st <? 4) || (nth 0 st 0 =? 0) then Ok ([], f1)
  else
    let extsize := if single then vox - (hsize + 4) else -1 in
    read_exts_top be extsize f1.

(* single-file layout after the header block: extender, extensions, zero fill up to
   vox_offset (seek_tell(..., write0=True)), data *)
Definition single_tail (hsize : Z) (be : bool) (vox : Z) (l : list ext) (data : list Z)
  : option (Z * list Z) :=
  match hdr_write true hsize be vox l with
  | WErr => None
  | WOk vox' b => Some (vox', b ++ zeros (vox' - hsize - zlen b) ++ data)
  end.

(* reading it back: extensions, then data from vox_offset *)
Definition single_read (hsize : Z) (be : bool) (vox : Z) (tail : list Z)
  : res (list ext * list Z) :=
  match hdr_read true hsize be vox tail with
  | Err e => Err e
  | Ok (l, _) => Ok (l, drop (vox - hsize) tail)
  end.

Definition strip_ext (e : ext) : ext := mkExt (ecode e) (rstrip0 (econtent e)).
