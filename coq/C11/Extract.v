(* C11/Extract.v — extraction of the executable model (ExtrOcamlBasic only; Z stays inductive) *)
Require Extraction. Require ExtrOcamlBasic.
From NV Require Import Base.Bytes C11.Model.
Extraction Language OCaml.
Extraction "c11_model.ml" size_on_disk write_exts read_exts_top hdr_write hdr_read single_tail single_read strip_ext.
