(* C02/Lemmas.v — proofs about the integer layer (C02/Model.v).  No axioms. *)
From Coq Require Import ZArith List Bool Lia ZifyBool.
From NV Require Import C02.Model.
Import ListNotations.
Open Scope Z_scope.

(* z is an integer with at most p significant bits *)
Definition rep (p z : Z) : Prop := exists m e, 0 <= e /\ Z.abs m < 2 ^ p /\ z = m * 2 ^ e.
Definition is_floor (p v r : Z) : Prop := rep p r /\ r <= v /\ forall z, rep p z -> z <= v -> z <= r.
Definition is_ceil (p v r : Z) : Prop := rep p r /\ v <= r /\ forall z, rep p z -> v <= z -> r <= z.

Definition gridfloor (p v : Z) : Z := v / 2 ^ drop p v * 2 ^ drop p v.
Definition gridceil (p v : Z) : Z := - gridfloor p (- v).
Definition near (p v x : Z) : Prop := x = gridfloor p v \/ x = gridceil p v.

(* ------------------------------------------------------------------ powers, logs *)
Lemma pow2_pos e : 0 <= e -> 0 < 2 ^ e.
Proof. intros. apply Z.pow_pos_nonneg; lia. Qed.

Lemma pow2_le a b : 0 <= a <= b -> 2 ^ a <= 2 ^ b.
Proof. intros. apply Z.pow_le_mono_r; lia. Qed.

Lemma pow2_lt a b : 0 <= a < b -> 2 ^ a < 2 ^ b.
Proof. intros. apply Z.pow_lt_mono_r; lia. Qed.

Lemma pow2_split a b : 0 <= a -> 0 <= b -> 2 ^ (a + b) = 2 ^ a * 2 ^ b.
Proof. intros. apply Z.pow_add_r; lia. Qed.

Lemma pow2_divide a b : 0 <= a <= b -> (2 ^ a | 2 ^ b).
Proof.
  intros H. exists (2 ^ (b - a)). rewrite <- pow2_split by lia. f_equal. lia.
Qed.

Lemma log2_bounds v : v <> 0 -> 2 ^ Z.log2 (Z.abs v) <= Z.abs v < 2 ^ (Z.log2 (Z.abs v) + 1).
Proof.
  intros H. pose proof (Z.log2_spec (Z.abs v)) as L.
  replace (Z.succ (Z.log2 (Z.abs v))) with (Z.log2 (Z.abs v) + 1) in L by lia.
  apply L. lia.
Qed.

Lemma log2_ge k a : 0 <= k -> 2 ^ k <= a -> k <= Z.log2 a.
Proof.
  intros Hk H. rewrite <- (Z.log2_pow2 k) by lia. apply Z.log2_le_mono. exact H.
Qed.

Lemma log2_lt p m : 0 < p -> m <> 0 -> Z.abs m < 2 ^ p -> Z.log2 (Z.abs m) < p.
Proof. intros Hp Hm H. apply Z.log2_lt_pow2; lia. Qed.

Lemma drop_nonneg p v : 0 <= drop p v.
Proof. unfold drop. lia. Qed.

Lemma drop_opp p v : drop p (- v) = drop p v.
Proof. unfold drop. now rewrite Z.abs_opp. Qed.

Lemma drop_0 p : 1 <= p -> drop p 0 = 0.
Proof. intros. unfold drop. change (Z.log2 (Z.abs 0)) with 0. lia. Qed.

(* ------------------------------------------------------------------ representability *)
Lemma rep_opp p z : rep p z -> rep p (- z).
Proof.
  intros (m & e & He & Hm & ->). exists (- m), e. rewrite Z.abs_opp. repeat split; auto. lia.
Qed.

Lemma rep_small p z : Z.abs z < 2 ^ p -> rep p z.
Proof. intros H. exists z, 0. repeat split; auto; lia. Qed.

Lemma rep_0 p : 0 <= p -> rep p 0.
Proof. intros. apply rep_small. simpl. now apply pow2_pos. Qed.

Lemma rep_mono p q z : 0 <= p <= q -> rep p z -> rep q z.
Proof.
  intros Hpq (m & e & He & Hm & ->). exists m, e. repeat split; auto.
  pose proof (pow2_le p q Hpq). lia.
Qed.

(* every multiple m * 2^e with |m| <= 2^p (the carry case included) is representable *)
Lemma rep_grid p m e : 1 <= p -> 0 <= e -> Z.abs m <= 2 ^ p -> rep p (m * 2 ^ e).
Proof.
  intros Hp He Hm.
  destruct (Z.eq_dec (Z.abs m) (2 ^ p)) as [E|NE].
  - assert (P : 2 ^ p = 2 ^ (p - 1) * 2) by (rewrite <- (Z.pow_1_r 2) at 3; rewrite <- Z.pow_add_r by lia; f_equal; lia).
    assert (Q : 2 ^ (e + 1) = 2 ^ e * 2) by (rewrite Z.pow_add_r by lia; now rewrite Z.pow_1_r).
    pose proof (pow2_pos (p - 1) ltac:(lia)) as Pp.
    exists (if 0 <? m then 2 ^ (p - 1) else - 2 ^ (p - 1)), (e + 1). split; [lia|]. split.
    + destruct (0 <? m); lia.
    + rewrite Q. destruct (0 <? m) eqn:S; nia.
  - exists m, e. repeat split; auto. lia.
Qed.

(* a representable non-zero integer is a multiple of its own gap *)
Lemma rep_divide p z : 1 <= p -> rep p z -> z <> 0 -> (2 ^ drop p z | z).
Proof.
  intros Hp (m & e & He & Hm & ->) Hz.
  assert (Hm0 : m <> 0) by (intros ->; apply Hz; reflexivity).
  assert (L : Z.log2 (Z.abs (m * 2 ^ e)) = e + Z.log2 (Z.abs m)).
  { rewrite Z.abs_mul. rewrite (Z.abs_eq (2 ^ e)) by (pose proof (pow2_pos e He); lia).
    apply Z.log2_mul_pow2; lia. }
  pose proof (log2_lt p m ltac:(lia) Hm0 Hm) as Lm.
  unfold drop. rewrite L.
  apply Z.divide_trans with (2 ^ e).
  - apply pow2_divide. lia.
  - exists m. reflexivity.
Qed.

Lemma divide_sandwich g q z : 0 < g -> (g | z) -> q * g < z < (q + 1) * g -> False.
Proof.
  intros Hg (c & ->) [H1 H2].
  apply Z.mul_lt_mono_pos_r in H1; [|exact Hg]. apply Z.mul_lt_mono_pos_r in H2; [|exact Hg]. lia.
Qed.

(* ------------------------------------------------------------------ the grid floor *)
Lemma gridfloor_is_floor p v : 1 <= p -> is_floor p v (gridfloor p v).
Proof.
  intros Hp. unfold gridfloor.
  set (e := drop p v). set (g := 2 ^ e).
  assert (He : 0 <= e) by apply drop_nonneg.
  assert (Hg : 0 < g) by (apply pow2_pos; exact He).
  pose proof (Z.div_mod v g ltac:(lia)) as DM. pose proof (Z.mod_pos_bound v g Hg) as MB.
  assert (Fle : v / g * g <= v) by lia.
  assert (Flt : v < (v / g + 1) * g) by lia.
  destruct (Z.eq_dec e 0) as [E0|E0].
  - (* nothing dropped: v itself fits *)
    assert (G1 : g = 1) by (unfold g; rewrite E0; reflexivity).
    rewrite G1 in *. rewrite Z.div_1_r, Z.mul_1_r.
    split; [|split; [lia|intros; lia]].
    destruct (Z.eq_dec v 0) as [->|Hv]; [apply rep_0; lia|].
    apply rep_small. pose proof (log2_bounds v Hv) as [_ B].
    unfold e, drop in E0.
    assert (Z.log2 (Z.abs v) + 1 <= p) by lia.
    pose proof (pow2_le (Z.log2 (Z.abs v) + 1) p).
    pose proof (Z.log2_nonneg (Z.abs v)). lia.
  - assert (Hv : v <> 0).
    { intros ->. unfold e in E0. rewrite drop_0 in E0 by lia. lia. }
    set (k := Z.log2 (Z.abs v)).
    assert (Ek : e = k + 1 - p) by (unfold e, drop; fold k; unfold e, drop in E0, He; fold k in E0; lia).
    pose proof (log2_bounds v Hv) as [Blo Bhi]. fold k in Blo, Bhi.
    assert (P1 : 2 ^ (k + 1) = 2 ^ p * g).
    { unfold g. rewrite <- pow2_split by lia. f_equal. lia. }
    assert (P0 : 2 ^ k = 2 ^ (p - 1) * g).
    { unfold g. rewrite <- pow2_split by lia. f_equal. lia. }
    pose proof (pow2_pos p ltac:(lia)) as Pp. pose proof (pow2_pos (p - 1) ltac:(lia)) as Pp1.
    split; [|split; [exact Fle|]].
    + apply rep_grid; [lia|lia|].
      assert (- 2 ^ p <= v / g) by (apply Z.div_le_lower_bound; lia).
      assert (v / g < 2 ^ p) by (apply Z.div_lt_upper_bound; lia).
      lia.
    + intros z Hz Hzv.
      destruct (Z_le_gt_dec z (v / g * g)) as [|Hgt]; [assumption|exfalso].
      assert (Hz0 : z <> 0 /\ k <= Z.log2 (Z.abs z)).
      { destruct (Z_lt_le_dec 0 v) as [Vp|Vn].
        - assert (2 ^ (p - 1) <= v / g) by (apply Z.div_le_lower_bound; lia).
          assert (2 ^ k <= z) by nia.
          split; [lia|]. apply log2_ge; [unfold k; apply Z.log2_nonneg|lia].
        - split; [lia|]. apply log2_ge; [unfold k; apply Z.log2_nonneg|lia]. }
      destruct Hz0 as [Hz0 Hlog].
      pose proof (rep_divide p z Hp Hz Hz0) as D.
      assert (Dg : (g | z)).
      { apply Z.divide_trans with (2 ^ drop p z); [|exact D].
        apply pow2_divide. unfold drop. lia. }
      apply (divide_sandwich g (v / g) z Hg Dg). lia.
Qed.

Lemma is_floor_ceil_opp p v r : is_floor p (- v) r -> is_ceil p v (- r).
Proof.
  intros (Hr & Hle & Hmax). split; [now apply rep_opp|]. split; [lia|].
  intros z Hz Hvz. specialize (Hmax (- z) (rep_opp _ _ Hz)). lia.
Qed.

Lemma is_ceil_floor_opp p v r : is_ceil p (- v) r -> is_floor p v (- r).
Proof.
  intros (Hr & Hle & Hmin). split; [now apply rep_opp|]. split; [lia|].
  intros z Hz Hvz. specialize (Hmin (- z) (rep_opp _ _ Hz)). lia.
Qed.

Lemma gridceil_is_ceil p v : 1 <= p -> is_ceil p v (gridceil p v).
Proof. intros Hp. unfold gridceil. apply is_floor_ceil_opp. now apply gridfloor_is_floor. Qed.

Lemma is_floor_unique p v a b : is_floor p v a -> is_floor p v b -> a = b.
Proof. intros (Ra & La & Ma) (Rb & Lb & Mb). pose proof (Ma b Rb Lb). pose proof (Mb a Ra La). lia. Qed.

Lemma is_ceil_unique p v a b : is_ceil p v a -> is_ceil p v b -> a = b.
Proof. intros (Ra & La & Ma) (Rb & Lb & Mb). pose proof (Ma b Rb Lb). pose proof (Mb a Ra La). lia. Qed.

Lemma gridfloor_le p v : 1 <= p -> gridfloor p v <= v.
Proof. intros Hp. apply (gridfloor_is_floor p v Hp). Qed.
Lemma gridceil_ge p v : 1 <= p -> v <= gridceil p v.
Proof. intros Hp. apply (gridceil_is_ceil p v Hp). Qed.

(* the ceiling is the next grid point unless v is on the grid *)
Lemma gridceil_step p v : let g := 2 ^ drop p v in
  v mod g <> 0 -> gridceil p v = (v / g + 1) * g.
Proof.
  intros g Hr. unfold gridceil, gridfloor. rewrite drop_opp. fold g.
  assert (Hg : 0 < g) by (apply pow2_pos, drop_nonneg).
  rewrite Z.div_opp_l_nz by lia. lia.
Qed.

Lemma gridceil_on_grid p v : let g := 2 ^ drop p v in
  v mod g = 0 -> gridceil p v = v.
Proof.
  intros g Hr. unfold gridceil, gridfloor. rewrite drop_opp. fold g.
  assert (Hg : 0 < g) by (apply pow2_pos, drop_nonneg).
  rewrite Z.div_opp_l_z by lia.
  pose proof (Z.div_mod v g ltac:(lia)). lia.
Qed.

(* ------------------------------------------------------------------ rounding to nearest *)
Lemma rne_near p v : near p v (rne p v).
Proof.
  unfold near, rne.
  set (g := 2 ^ drop p v).
  assert (Hg : 0 < g) by (apply pow2_pos, drop_nonneg).
  pose proof (Z.mod_pos_bound v g Hg) as MB.
  assert (Fl : gridfloor p v = v / g * g) by reflexivity.
  destruct (2 * (v mod g) <? g) eqn:C1; [left; now rewrite Fl|].
  assert (Hr : v mod g <> 0) by lia.
  pose proof (gridceil_step p v Hr) as Cs. fold g in Cs.
  destruct (g <? 2 * (v mod g)) eqn:C2; [right; now rewrite Cs|].
  destruct (Z.even (v / g)); [left; now rewrite Fl|right; now rewrite Cs].
Qed.

Lemma rne_rep_id p z : 1 <= p -> rep p z -> rne p z = z.
Proof.
  intros Hp Hz. unfold rne.
  set (g := 2 ^ drop p z).
  assert (Hg : 0 < g) by (apply pow2_pos, drop_nonneg).
  assert (Hr : z mod g = 0).
  { destruct (Z.eq_dec z 0) as [->|Hz0]; [apply Z.mod_0_l; lia|].
    apply Z.mod_divide; [lia|]. now apply rep_divide. }
  rewrite Hr. replace (2 * 0 <? g) with true by lia.
  pose proof (Z.div_mod z g ltac:(lia)). lia.
Qed.

(* an intermediate rounding at a higher precision stays between the two neighbours *)
Lemma rne_between p q v : 1 <= p <= q ->
  gridfloor p v <= rne q v <= gridceil p v.
Proof.
  intros Hpq.
  destruct (gridfloor_is_floor p v ltac:(lia)) as (RF & LF & MF).
  destruct (gridceil_is_ceil p v ltac:(lia)) as (RC & LC & MC).
  destruct (gridfloor_is_floor q v ltac:(lia)) as (RFq & LFq & MFq).
  destruct (gridceil_is_ceil q v ltac:(lia)) as (RCq & LCq & MCq).
  pose proof (rep_mono p q _ ltac:(lia) RF) as RF'.
  pose proof (rep_mono p q _ ltac:(lia) RC) as RC'.
  pose proof (MFq _ RF' LF). pose proof (MCq _ RC' LC).
  destruct (rne_near q v) as [-> | ->]; lia.
Qed.

(* double rounding (first to q >= p bits, then to p bits) still lands on a neighbour *)
Lemma rne_double_near p q v : 1 <= p <= q -> near p v (rne p (rne q v)).
Proof.
  intros Hpq. pose proof (rne_between p q v Hpq) as [B1 B2].
  set (d := rne q v) in *.
  destruct (gridfloor_is_floor p v ltac:(lia)) as (RF & LF & MF).
  destruct (gridceil_is_ceil p v ltac:(lia)) as (RC & LC & MC).
  destruct (gridfloor_is_floor p d ltac:(lia)) as (RFd & LFd & MFd).
  destruct (gridceil_is_ceil p d ltac:(lia)) as (RCd & LCd & MCd).
  pose proof (MFd _ RF B1) as H1. pose proof (MCd _ RC B2) as H2.
  unfold near.
  destruct (rne_near p d) as [-> | ->].
  - destruct (Z_le_gt_dec (gridfloor p d) v) as [L|G].
    + left. pose proof (MF _ RFd L). lia.
    + right. pose proof (MC _ RFd ltac:(lia)). lia.
  - destruct (Z_le_gt_dec v (gridceil p d)) as [L|G].
    + right. pose proof (MC _ RCd L). lia.
    + left. pose proof (MF _ RCd ltac:(lia)). lia.
Qed.

(* ------------------------------------------------------------------ overflow *)
Definition wf_fmt (f : fmt) : Prop :=
  1 <= prec f /\ prec f <= emax f /\
  (via f = 0 \/ (prec f <= via f /\ emax f <= via_emax f)).

Lemma fmax_rep f : wf_fmt f -> rep (prec f) (fmax f) /\ 0 <= fmax f < 2 ^ emax f.
Proof.
  intros (Hp & He & _). unfold fmax.
  assert (P : 2 ^ emax f = 2 ^ prec f * 2 ^ (emax f - prec f)).
  { rewrite <- pow2_split by lia. f_equal. lia. }
  pose proof (pow2_pos (prec f) ltac:(lia)). pose proof (pow2_pos (emax f - prec f) ltac:(lia)).
  split.
  - replace (2 ^ emax f - 2 ^ (emax f - prec f)) with ((2 ^ prec f - 1) * 2 ^ (emax f - prec f)) by lia.
    apply rep_grid; lia.
  - nia.
Qed.

Lemma ovf_cases em z :
  match ovf em z with
  | Fin x => x = z /\ Z.abs z < 2 ^ em
  | PInf => 2 ^ em <= z
  | NInf => z <= - 2 ^ em
  end.
Proof.
  unfold ovf. destruct (2 ^ em <=? Z.abs z) eqn:E.
  - destruct (0 <? z) eqn:S; lia.
  - lia.
Qed.

(* a value between the neighbours of v that reaches 2^emax puts v beyond the largest finite *)
Lemma beyond_pos f v x : wf_fmt f ->
  gridfloor (prec f) v <= x <= gridceil (prec f) v -> 2 ^ emax f <= x -> fmax f < v.
Proof.
  intros W [B1 B2] H. destruct (fmax_rep f W) as (R & _ & Lt).
  destruct W as (Hp & _).
  destruct (gridceil_is_ceil (prec f) v Hp) as (_ & _ & MC).
  destruct (Z_lt_le_dec (fmax f) v) as [|Le]; [assumption|exfalso].
  pose proof (MC _ R Le). lia.
Qed.

Lemma beyond_neg f v x : wf_fmt f ->
  gridfloor (prec f) v <= x <= gridceil (prec f) v -> x <= - 2 ^ emax f -> v < - fmax f.
Proof.
  intros W [B1 B2] H. destruct (fmax_rep f W) as (R & _ & Lt).
  destruct W as (Hp & _).
  destruct (gridfloor_is_floor (prec f) v Hp) as (_ & _ & MF).
  destruct (Z_lt_le_dec v (- fmax f)) as [|Le]; [assumption|exfalso].
  pose proof (MF _ (rep_opp _ _ R) Le). lia.
Qed.

Lemma near_between p v x : 1 <= p -> near p v x -> gridfloor p v <= x <= gridceil p v.
Proof.
  intros Hp [-> | ->]; pose proof (gridfloor_le p v Hp); pose proof (gridceil_ge p v Hp); lia.
Qed.

(* ------------------------------------------------------------------ floor_exact *)
(* what the result of floor_exact means *)
Definition floor_post (f : fmt) (v : Z) (r : cres xz) : Prop :=
  match r with
  | COk (Fin x) => is_floor (prec f) v x /\ Z.abs x < 2 ^ emax f
  | COk PInf => fmax f < v
  | COk NInf => v < - fmax f
  | CErr EValue => 0 < strlim f /\ 10 ^ strlim f <= Z.abs v
  | CErr EAssert => False
  end.

Definition ceil_post (f : fmt) (v : Z) (r : cres xz) : Prop :=
  match r with
  | COk (Fin x) => is_ceil (prec f) v x /\ Z.abs x < 2 ^ emax f
  | COk PInf => fmax f < v
  | COk NInf => v < - fmax f
  | CErr EValue => 0 < strlim f /\ 10 ^ strlim f <= Z.abs v
  | CErr EAssert => False
  end.

(* the tail of floor_exact once the conversion produced a neighbour x of v *)
Lemma floor_tail f v x : wf_fmt f -> near (prec f) v x ->
  floor_post f v (floor_exact_tail f v (ovf (emax f) x)).
Proof.
  intros W N. pose proof W as (Hp & Hpe & _).
  pose proof (near_between _ _ _ Hp N) as B.
  pose proof (ovf_cases (emax f) x) as O. unfold floor_exact_tail.
  destruct (ovf (emax f) x) as [fv| |].
  - destruct O as [-> Hfin].
    destruct (gridfloor_is_floor (prec f) v Hp) as (RF & LF & MF).
    destruct (gridceil_is_ceil (prec f) v Hp) as (RC & LC & MC).
    destruct (0 <=? v - x) eqn:D.
    + (* the converted value is not above v: it is the floor *)
      cbn. split; [|exact Hfin].
      destruct N as [-> | ->]; [now apply gridfloor_is_floor|].
      assert (E : gridceil (prec f) v = v) by lia. rewrite E in *.
      split; [exact RC|]. split; [lia|]. intros; lia.
    + (* conversion rounded up: x is the ceiling, strictly above v *)
      assert (Hx : x = gridceil (prec f) v) by (destruct N as [-> | ->]; [lia|reflexivity]).
      set (g := 2 ^ drop (prec f) v).
      assert (Hg : 0 < g) by (apply pow2_pos, drop_nonneg).
      assert (Hr : v mod g <> 0).
      { intros Hr. pose proof (gridceil_on_grid (prec f) v Hr). lia. }
      pose proof (gridceil_step (prec f) v Hr) as Cs. fold g in Cs.
      assert (Hd : 0 < drop (prec f) v).
      { pose proof (drop_nonneg (prec f) v).
        destruct (Z.eq_dec (drop (prec f) v) 0) as [E|]; [|lia].
        exfalso. apply Hr. unfold g. rewrite E. apply Z.mod_1_r. }
      assert (Eg : 2 ^ (floor_log2 v - (prec f - 1)) = g).
      { unfold g, floor_log2. f_equal. unfold drop in *. lia. }
      cbv zeta. rewrite Eg.
      assert (G2 : 2 <= g).
      { unfold g. change 2 with (2 ^ 1) at 1. apply pow2_le. lia. }
      replace (g <=? 1) with false by lia.
      unfold fsub.
      assert (EF : x - g = gridfloor (prec f) v) by (rewrite Hx, Cs; unfold gridfloor; fold g; lia).
      rewrite EF. rewrite (rne_rep_id _ _ Hp RF).
      pose proof (ovf_cases (emax f) (gridfloor (prec f) v)) as O2.
      destruct (ovf (emax f) (gridfloor (prec f) v)) as [y| |]; cbn.
      * destruct O2 as [-> Hb]. split; [now apply gridfloor_is_floor|exact Hb].
      * exfalso. lia.
      * apply (beyond_neg f v (gridfloor (prec f) v) W); [lia|exact O2].
  - cbn. apply (beyond_pos f v x W B O).
  - cbn. apply (beyond_neg f v x W B O).
Qed.

Lemma floor_exact_post f v : wf_fmt f -> floor_post f v (floor_exact f v).
Proof.
  intros W. pose proof W as (Hp & Hpe & Hvia).
  unfold floor_exact, conv.
  destruct (if 0 <? strlim f then
              if 3 * strlim f <=? Z.log2 (Z.abs v) then 10 ^ strlim f <=? Z.abs v else false
            else false) eqn:S.
  - cbn. destruct (0 <? strlim f) eqn:S1; [|discriminate].
    destruct (3 * strlim f <=? Z.log2 (Z.abs v)); [|discriminate]. lia.
  - destruct (via f =? 0) eqn:V.
    + apply floor_tail; [exact W|apply rne_near].
    + destruct Hvia as [Hv0|[Hv1 Hv2]]; [lia|].
      pose proof (rne_between (prec f) (via f) v ltac:(lia)) as B.
      pose proof (ovf_cases (via_emax f) (rne (via f) v)) as O.
      destruct (ovf (via_emax f) (rne (via f) v)) as [d| |].
      * destruct O as [-> _]. apply floor_tail; [exact W|]. apply rne_double_near. lia.
      * pose proof (pow2_le (emax f) (via_emax f) ltac:(lia)).
        assert (Hb : fmax f < v) by (apply (beyond_pos f v _ W B); lia).
        destruct (fmax_rep f W) as (_ & Hf0 & _).
        replace (0 <? v) with true by lia. exact Hb.
      * pose proof (pow2_le (emax f) (via_emax f) ltac:(lia)).
        assert (Hb : v < - fmax f) by (apply (beyond_neg f v _ W B); lia).
        destruct (fmax_rep f W) as (_ & Hf0 & _).
        replace (0 <? v) with false by lia. exact Hb.
Qed.

Lemma ceil_exact_post f v : wf_fmt f -> ceil_post f v (ceil_exact f v).
Proof.
  intros W. unfold ceil_exact. pose proof (floor_exact_post f (- v) W) as H.
  destruct (floor_exact f (- v)) as [[x| |]|[|]]; cbn in *.
  - destruct H as [H1 H2]. split; [now apply is_floor_ceil_opp|now rewrite Z.abs_opp].
  - lia.
  - lia.
  - now rewrite Z.abs_opp in H.
  - exact H.
Qed.

(* the statement used by Props.v *)
Lemma floor_ceil_exact_spec f v : wf_fmt f ->
  floor_post f v (floor_exact f v) /\ ceil_post f v (ceil_exact f v).
Proof. intros W. split; [now apply floor_exact_post|now apply ceil_exact_post]. Qed.

(* ------------------------------------------------------------------ shared_range *)
Lemma rne_rep p v : 1 <= p -> rep p (rne p v).
Proof.
  intros Hp. destruct (rne_near p v) as [-> | ->].
  - apply (gridfloor_is_floor p v Hp).
  - apply (gridceil_is_ceil p v Hp).
Qed.

Lemma imin_le_0 t : 1 <= iwidth t -> imin t <= 0.
Proof. intros. unfold imin. destruct (isigned t); [|lia]. pose proof (pow2_pos (iwidth t - 1) ltac:(lia)). lia. Qed.

Lemma imax_ge_0 t : 1 <= iwidth t -> 0 <= imax t.
Proof.
  intros. unfold imax. pose proof (pow2_pos (iwidth t - 1) ltac:(lia)). pose proof (pow2_pos (iwidth t) ltac:(lia)).
  destruct (isigned t); lia.
Qed.

Lemma iabs_bound t : 1 <= iwidth t -> Z.abs (imin t) <= 2 ^ iwidth t /\ Z.abs (imax t) <= 2 ^ iwidth t.
Proof.
  intros H. pose proof (pow2_pos (iwidth t - 1) ltac:(lia)). pose proof (pow2_lt (iwidth t - 1) (iwidth t) ltac:(lia)).
  unfold imin, imax. destruct (isigned t); lia.
Qed.

(* the bounds are finite, representable, ordered around 0 and inside the integer type *)
Definition sr_post (f : fmt) (t : ity) (r : cres (xz * xz)) : Prop :=
  exists mn mx, r = COk (Fin mn, Fin mx)
    /\ imin t <= mn <= 0 /\ 0 <= mx <= imax t
    /\ rep (prec f) mn /\ rep (prec f) mx
    /\ Z.abs mn < 2 ^ emax f /\ Z.abs mx < 2 ^ emax f.

Lemma shared_range_safe_gen tr f t : wf_fmt f -> 1 <= iwidth t ->
  (strlim f = 0 \/ 2 ^ iwidth t < 10 ^ strlim f) ->
  sr_post f t (shared_range tr f t).
Proof.
  intros W Hw Hs. pose proof W as (Hp & Hpe & _).
  pose proof (imin_le_0 t Hw) as I0. pose proof (imax_ge_0 t Hw) as I1.
  destruct (iabs_bound t Hw) as [A0 A1].
  destruct (fmax_rep f W) as (RM & M0 & M1).
  pose proof (rep_0 (prec f) ltac:(lia)) as R0.
  unfold shared_range, sr_post.
  pose proof (ceil_exact_post f (imin t) W) as HC.
  pose proof (floor_exact_post f (imax t) W) as HF.
  destruct (ceil_exact f (imin t)) as [mn|[|]]; cbn in HC; [|exfalso; lia|contradiction].
  destruct (floor_exact f (imax t)) as [mx|[|]]; cbn in HF; [|exfalso; lia|contradiction].
  assert (Hmn : exists a, (match mn with NInf => Fin (- fmax f) | _ => mn end) = Fin a
                          /\ imin t <= a <= 0 /\ rep (prec f) a /\ Z.abs a < 2 ^ emax f).
  { destruct mn as [a| |].
    - destruct HC as [(Ra & La & Ma) Hb]. pose proof (Ma 0 R0 I0). exists a. repeat split; auto; lia.
    - exfalso. lia.
    - exists (- fmax f). repeat split; try lia. now apply rep_opp. }
  assert (Hmx : exists b, (match mx with
                           | PInf => Fin (fmax f)
                           | Fin m => if tr && negb (isigned t) && (iwidth t =? 64)
                                      then Fin (Z.min m (2 ^ 63)) else mx
                           | _ => mx end) = Fin b
                          /\ 0 <= b <= imax t /\ rep (prec f) b /\ Z.abs b < 2 ^ emax f).
  { destruct mx as [b| |].
    - destruct HF as [(Rb & Lb & Mb) Hb]. pose proof (Mb 0 R0 I1) as B0.
      destruct (tr && negb (isigned t) && (iwidth t =? 64)).
      + exists (Z.min b (2 ^ 63)). split; [reflexivity|].
        assert (R63 : rep (prec f) (2 ^ 63)).
        { replace (2 ^ 63) with (1 * 2 ^ 63) by lia. pose proof (pow2_pos (prec f) ltac:(lia)).
          apply rep_grid; lia. }
        destruct (Z.min_spec b (2 ^ 63)) as [[_ ->]|[Hl ->]]; repeat split; auto; lia.
      + exists b. repeat split; auto; lia.
    - exists (fmax f). repeat split; try lia. exact RM.
    - exfalso. lia. }
  destruct Hmn as (a & -> & Ha1 & Ha2 & Ha3). destruct Hmx as (b & -> & Hb1 & Hb2 & Hb3).
  exists a, b. repeat split; auto; lia.
Qed.

(* ------------------------------------------------------------------ int_abs, wrap *)
Lemma wrap_id t z : 1 <= iwidth t -> imin t <= z <= imax t -> wrap t z = z.
Proof.
  intros Hw H. unfold wrap, imin, imax in *.
  pose proof (pow2_pos (iwidth t - 1) ltac:(lia)) as P1.
  assert (P : 2 ^ iwidth t = 2 * 2 ^ (iwidth t - 1)).
  { replace (iwidth t) with (1 + (iwidth t - 1)) at 1 by lia. rewrite pow2_split by lia. reflexivity. }
  destruct (isigned t); cbn [andb].
  - destruct (Z_lt_le_dec z 0).
    + assert (E : z mod 2 ^ iwidth t = z + 2 ^ iwidth t).
      { symmetry. apply Z.mod_unique with (-1); lia. }
      rewrite E. replace (2 ^ (iwidth t - 1) <=? z + 2 ^ iwidth t) with true by lia. lia.
    + rewrite Z.mod_small by lia. replace (2 ^ (iwidth t - 1) <=? z) with false by lia. reflexivity.
  - rewrite Z.mod_small by lia. reflexivity.
Qed.

Lemma int_abs_spec t v : 1 <= iwidth t -> imin t <= v <= imax t ->
  int_abs t v = Z.abs v.
Proof.
  intros Hw H. unfold int_abs.
  pose proof (pow2_pos (iwidth t - 1) ltac:(lia)) as P1.
  assert (P : 2 ^ iwidth t = 2 * 2 ^ (iwidth t - 1)).
  { replace (iwidth t) with (1 + (iwidth t - 1)) at 1 by lia. rewrite pow2_split by lia. reflexivity. }
  destruct (isigned t) eqn:S; cbn [negb].
  - unfold imin, imax in H. rewrite S in H.
    set (u := mkIty false (iwidth t)).
    assert (Wu : forall z, 0 <= z < 2 ^ iwidth t -> wrap u z = z).
    { intros z Hz. unfold wrap, u. cbn. apply Z.mod_small. exact Hz. }
    destruct (v <? 0) eqn:Neg.
    + destruct (Z.eq_dec v (- 2 ^ (iwidth t - 1))) as [->|Hne].
      * (* the most negative value: v * -1 wraps back to itself, the unsigned store gives 2^(w-1) *)
        assert (E : wrap t (- 2 ^ (iwidth t - 1) * -1) = - 2 ^ (iwidth t - 1)).
        { unfold wrap. rewrite S. cbn [andb].
          replace (- 2 ^ (iwidth t - 1) * -1) with (2 ^ (iwidth t - 1)) by lia.
          rewrite Z.mod_small by lia. replace (2 ^ (iwidth t - 1) <=? 2 ^ (iwidth t - 1)) with true by lia. lia. }
        rewrite E. unfold wrap, u. cbn.
        assert (E2 : - 2 ^ (iwidth t - 1) mod 2 ^ iwidth t = 2 ^ (iwidth t - 1)).
        { symmetry. apply Z.mod_unique with (-1); lia. }
        rewrite E2. lia.
      * rewrite (wrap_id t) by (unfold imin, imax; rewrite ?S; lia).
        rewrite Wu by lia. lia.
    + rewrite Wu by lia. lia.
  - unfold imin in H. rewrite S in H. lia.
Qed.

(* ------------------------------------------------------------------ (u)int -> (u)int decisions *)
Lemma can_cast_sub a b : 1 <= iwidth a -> 1 <= iwidth b -> can_cast_ii a b = true ->
  imin b <= imin a /\ imax a <= imax b.
Proof.
  intros Ha Hb. unfold can_cast_ii, imin, imax.
  pose proof (pow2_pos (iwidth a - 1) ltac:(lia)). pose proof (pow2_pos (iwidth b - 1) ltac:(lia)).
  destruct (isigned a), (isigned b); intros HC; try discriminate.
  - pose proof (pow2_le (iwidth a - 1) (iwidth b - 1) ltac:(lia)). lia.
  - pose proof (pow2_le (iwidth a) (iwidth b - 1) ltac:(lia)). lia.
  - pose proof (pow2_le (iwidth a) (iwidth b) ltac:(lia)). lia.
Qed.

Definition iu_post (k : wkind) (tin tout : ity) (mn mx : Z) (sc : fmt) (d : iudec) : Prop :=
  match d with
  | IUNone => forall x, mn <= x <= mx -> imin tout <= x <= imax tout
  | IUInter i => rep (prec sc) i /\ forall x, mn <= x <= mx -> imin tout <= x - i <= imax tout
  | IUFlip => forall x, mn <= x <= mx -> imin tout <= - x <= imax tout
  | IURange => k <> WPlain
  | IUWriterError => k = WPlain /\ ~ (forall x, mn <= x <= mx -> imin tout <= x <= imax tout)
  | IUAssert => True
  | IUOther _ => True          (* an exception: nothing is written *)
  end.

Lemma iu2iu_slope_post tr sc tin tout mn mx : wf_fmt sc -> strlim sc = 0 ->
  1 <= iwidth tin -> 1 <= iwidth tout -> imin tin <= mn -> mn <= mx -> mx <= imax tin ->
  iu_post WSlope tin tout mn mx sc (iu2iu_slope tr sc tin tout mn mx).
Proof.
  intros W S Hi Ho Hr1 Hr2 Hr3. unfold iu2iu_slope.
  destruct (isigned tout) eqn:Sg; cbn [negb]; [cbn; discriminate|].
  destruct (shared_range_safe_gen tr sc tout W Ho (or_introl S)) as (a & b & -> & Ha & Hb & _).
  destruct ((mx <=? 0) && (int_abs tin mn <=? b)) eqn:C; [|cbn; discriminate].
  cbn. intros x Hx. rewrite (int_abs_spec tin mn Hi ltac:(lia)) in C.
  unfold imin in *. rewrite Sg in *. lia.
Qed.

Lemma iu_decide_post k tr sc tin tout mn mx : wf_fmt sc -> strlim sc = 0 ->
  1 <= iwidth tin -> 1 <= iwidth tout -> imin tin <= mn -> mn <= mx -> mx <= imax tin ->
  iu_post k tin tout mn mx sc (iu_decide k tr sc tin tout mn mx).
Proof.
  intros W S Hi Ho Hr1 Hr2 Hr3. unfold iu_decide, scaling_needed_ii.
  destruct (can_cast_ii tin tout) eqn:CC.
  { cbn. destruct (can_cast_sub tin tout Hi Ho CC). intros; lia. }
  destruct ((mn =? 0) && (mx =? 0)) eqn:Z0.
  { cbn. pose proof (imin_le_0 tout Ho). pose proof (imax_ge_0 tout Ho). intros; lia. }
  destruct ((imin tout <=? mn) && (mx <=? imax tout)) eqn:In.
  { cbn. intros; lia. }
  cbn [negb].
  assert (Hneed : ~ (forall x, mn <= x <= mx -> imin tout <= x <= imax tout)).
  { intros H. pose proof (H mn ltac:(lia)). pose proof (H mx ltac:(lia)). lia. }
  destruct k.
  - cbn. auto.
  - now apply iu2iu_slope_post.
  - unfold iu2iu_inter.
    destruct (shared_range_safe_gen tr sc tout W Ho (or_introl S)) as (a & b & -> & Ha & Hb & _).
    pose proof (iu2iu_slope_post tr sc tin tout mn mx W S Hi Ho Hr1 Hr2 Hr3) as Fb.
    assert (Fb' : iu_post WSlopeInter tin tout mn mx sc (iu2iu_slope tr sc tin tout mn mx)).
    { destruct (iu2iu_slope tr sc tin tout mn mx); cbn in *; auto;
        try (intros E; discriminate E); destruct Fb as [E _]; discriminate E. }
    destruct (mx - mn <=? b - a); [|exact Fb'].
    set (target := if a =? 0 then mn - a else mn + half_ceil (mx - mn)).
    pose proof (floor_exact_post sc target W) as FP.
    destruct (floor_exact sc target) as [[i| |]|[|]]; cbn in FP.
    + destruct FP as [(Ri & _ & _) _].
      destruct (negb (a <=? mn - i)) eqn:As; [cbn; exact I|].
      destruct (mx - i <=? b) eqn:Up; [|exact Fb'].
      cbn. split; [exact Ri|]. intros x Hx. lia.
    + exact I.
    + exact I.
    + exact I.
    + exact I.
Qed.

(* ------------------------------------------------------------------ this platform's tables *)
From NV Require Import C02.Tables.

Definition wf_fmtb (f : fmt) : bool :=
  (1 <=? prec f) && (prec f <=? emax f)
  && ((via f =? 0) || ((prec f <=? via f) && (emax f <=? via_emax f))).

Lemma wf_fmtb_ok f : wf_fmtb f = true -> wf_fmt f.
Proof. unfold wf_fmtb, wf_fmt. intros H. lia. Qed.

Lemma all_fmts_wfb : forallb wf_fmtb all_fmts = true.
Proof. vm_compute. reflexivity. Qed.

Lemma all_fmts_wf f : In f all_fmts -> wf_fmt f.
Proof.
  intros H. apply wf_fmtb_ok. pose proof all_fmts_wfb as A.
  rewrite forallb_forall in A. now apply A.
Qed.

Definition repb (p z : Z) : bool := rne p z =? z.
Lemma repb_ok p z : 1 <= p -> repb p z = true -> rep p z.
Proof. unfold repb. intros Hp H. apply Z.eqb_eq in H. rewrite <- H. now apply rne_rep. Qed.

Definition sr_okb (f : fmt) (t : ity) : bool :=
  match shared_range trunc_uint64 f t with
  | COk (Fin mn, Fin mx) =>
      (imin t <=? mn) && (mn <=? 0) && (0 <=? mx) && (mx <=? imax t)
      && repb (prec f) mn && repb (prec f) mx
      && (Z.abs mn <? 2 ^ emax f) && (Z.abs mx <? 2 ^ emax f)
  | _ => false
  end.

(* the complete finite domain: every float format x every integer type of this platform *)
Lemma shared_range_table : forallb (fun f => forallb (sr_okb f) all_itys) all_fmts = true.
Proof. vm_compute. reflexivity. Qed.

Lemma shared_range_safe_table f t : In f all_fmts -> In t all_itys ->
  sr_post f t (shared_range trunc_uint64 f t).
Proof.
  intros Hf Ht. pose proof shared_range_table as T.
  rewrite forallb_forall in T. specialize (T f Hf). rewrite forallb_forall in T. specialize (T t Ht).
  destruct (all_fmts_wf f Hf) as (Hp & _).
  unfold sr_okb in T. unfold sr_post.
  destruct (shared_range trunc_uint64 f t) as [[[mn| |] [mx| |]]|]; try discriminate.
  exists mn, mx. split; [reflexivity|].
  repeat rewrite andb_true_iff in T. destruct T as [[[[[[[T1 T2] T3] T4] T5] T6] T7] T8].
  apply repb_ok in T5; [|exact Hp]. apply repb_ok in T6; [|exact Hp].
  repeat split; auto; lia.
Qed.

Lemma all_itys_width t : In t all_itys -> 1 <= iwidth t <= 64.
Proof. intros H. cbn in H. intuition (subst; cbn; lia). Qed.

(* ------------------------------------------------------------------ refusal (integer input) *)
Lemma set_slope_inter_table c s1 i0 :
  set_slope_inter c s1 i0 = Stored ->
  (has_slope c = false -> s1 = true /\ i0 = true) /\ (has_inter c = false -> i0 = true).
Proof.
  unfold set_slope_inter. destruct (has_slope c), (has_inter c), s1, i0; cbn; intros H;
    try discriminate; split; intros; try discriminate; auto.
Qed.

Lemma make_writer_kind_table hs hi :
  make_writer_kind hs hi =
  match hs, hi with
  | true, true => Some WSlopeInter | true, false => Some WSlope
  | false, false => Some WPlain | false, true => None
  end.
Proof. destruct hs, hi; reflexivity. Qed.
