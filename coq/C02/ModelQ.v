(* C02/ModelQ.v — IDEAL LAYER: the per-element pipeline of array_to_file / _write_data and
   apply_read_scaling over exact rationals ("ideal arithmetic": no float rounding of slope,
   intercept or of the arithmetic).  Values before rint are extended rationals `xq`; after
   rint they are extended integers `xi` (rint of +-inf is +-inf, of NaN is NaN).
   Counterparts: volumeutils.py array_to_file lines 665-706 (specials, post_mn/post_mx,
   the ordering repair of fix 104ec932), _write_data lines 768-787, apply_read_scaling.
   Definitions only. *)
From Coq Require Import ZArith QArith Qround List Bool.
From NV Require Import C02.Model.
Open Scope Z_scope.

Inductive xq := XQ (q : Q) | XQPInf | XQNInf | XQNaN.
Inductive xi := XI (z : Z) | XIPInf | XINInf | XINaN.

(* np.rint on a rational: round half to even *)
Definition rint_q (q : Q) : Z :=
  let f := Qfloor q in
  let d := (q - inject_Z f)%Q in
  match Qcompare d (1 # 2) with
  | Lt => f
  | Gt => f + 1
  | Eq => if Z.even f then f else f + 1
  end.

Definition xrint (x : xq) : xi :=
  match x with XQ q => XI (rint_q q) | XQPInf => XIPInf | XQNInf => XINInf | XQNaN => XINaN end.

(* (x - inter) / slope for slope <> 0 *)
Definition xscale (s i : Q) (x : xq) : xq :=
  match x with
  | XQ q => XQ ((q - i) / s)
  | XQPInf => if Qlt_le_dec 0 s then XQPInf else XQNInf
  | XQNInf => if Qlt_le_dec 0 s then XQNInf else XQPInf
  | XQNaN => XQNaN
  end.

Definition xi_nan (a : xi) : bool := match a with XINaN => true | _ => false end.

(* a <= b (false when unordered) *)
Definition xi_le (a b : xi) : bool :=
  match a, b with
  | XINaN, _ | _, XINaN => false
  | XINInf, _ => true
  | _, XIPInf => true
  | XI x, XI y => x <=? y
  | _, _ => false
  end.
Definition xi_lt (a b : xi) : bool := xi_le a b && negb (xi_le b a).

(* np.maximum / np.minimum: NaN propagates *)
Definition xi_maximum (a b : xi) : xi :=
  if xi_nan a then a else if xi_nan b then b else if xi_le b a then a else b.
Definition xi_minimum (a b : xi) : xi :=
  if xi_nan a then a else if xi_nan b then b else if xi_le a b then a else b.
Definition xi_clip (x lo hi : xi) : xi := xi_minimum (xi_maximum x lo) hi.

(* array_to_file lines 672-706: post_mn, post_mx from the scaled thresholds, swapped when the
   slope is negative, intersected with the shared range, and (fix 104ec932) collapsed onto
   the nearest safe value when the scaled range lies wholly outside the safe range *)
Definition post_bounds (p_mn p_mx : xi) (both_mn both_mx : Z) : xi * xi :=
  let '(p_mn, p_mx) := if xi_lt p_mx p_mn then (p_mx, p_mn) else (p_mn, p_mx) in
  let q_mn := xi_maximum p_mn (XI both_mn) in
  let q_mx := xi_minimum p_mx (XI both_mx) in
  if xi_lt q_mx q_mn then
    (if xi_lt q_mx (XI both_mn) then (XI both_mn, XI both_mn) else (XI both_mx, XI both_mx))
  else (q_mn, q_mx).

(* one element through _write_data: scale, rint, clip, nan fill; the result is what is handed
   to astype(out_dtype) *)
Definition elem_q (s i : Q) (q_mn q_mx : xi) (nan_fill : option Z) (x : xq) : xi :=
  let c := xi_clip (xrint (xscale s i x)) q_mn q_mx in
  match c, nan_fill with
  | XINaN, Some n => XI n
  | _, _ => c
  end.

(* the final cast, with explicit wrap *)
Definition cast_xi (t : ity) (v : xi) : Z * bool :=
  match v with
  | XI z => if in_ity t z then (z, false) else (wrap t z, true)
  | _ => (imin t, true)
  end.

(* apply_read_scaling *)
Definition read_q (s i : Q) (z : Z) : Q := (inject_Z z * s + i)%Q.

(* array_to_file for float data and an integer output type over exact rationals, for slope s and
   intercept i applied in a working format f: scaled thresholds, nan fill, clip bounds, every
   element.  None = nan_fill lies outside the safe range (ValueError or the est_err repair:
   float-specific, outside the ideal model) or shared_range failed. *)
Definition array_to_file_q (f : fmt) (tr : bool) (t : ity) (s i : Q) (mn mx : xq) (nan2zero : bool)
           (xs : list xq) : option (list (Z * bool)) :=
  match shared_range tr f t with
  | COk (Fin bmn, Fin bmx) =>
      let p_mn := xrint (xscale s i mn) in
      let p_mx := xrint (xscale s i mx) in
      let nan_fill := rint_q ((0 - i) / s) in
      if nan2zero && negb ((bmn <=? nan_fill) && (nan_fill <=? bmx)) then None
      else
        let '(q_mn, q_mx) := post_bounds p_mn p_mx bmn bmx in
        Some (map (fun x => cast_xi t (elem_q s i q_mn q_mx (if nan2zero then Some nan_fill else None) x)) xs)
  | _ => None
  end.
