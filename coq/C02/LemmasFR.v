(* C02/LemmasFR.v — read side of the exact float layer: the binary64 reload raw*slope + inter of
   ModelF.read_elem IS round(round(raw*slope) + inter) (RN64 = round to nearest even onto
   binary64), for |raw| < 2^53 and slope, inter of float32 magnitude (< 2^128): nothing
   overflows.  Flocq Bmult_correct / Bplus_correct / binary_normalize_correct. *)
From Coq Require Import ZArith Reals List Bool Lia Lra Floats.SpecFloat.
From Flocq Require Import Core.Zaux Core.Raux Core.Defs Core.Float_prop Core.Generic_fmt Core.FLT Core.Ulp
  Core.Round_NE IEEE754.BinarySingleNaN.
From NV Require Import C02.Model C02.Tables C02.ModelF C02.Lemmas C02.LemmasFW C02.LemmasFN.
Import ListNotations.
Open Scope R_scope.

Notation fexp64 := (FLT_exp (-1074) 53).

Ltac to_rn64 :=
  repeat match goal with
         | |- context [round radix2 ?f (round_mode mode_NE) ?x] =>
             change (round radix2 f (round_mode mode_NE) x) with (RN64 x)
         end.

#[local] Instance valid_fexp64 : Valid_exp fexp64.
Proof. apply FLT_exp_valid. reflexivity. Qed.

Lemma RN64_abs_le x e : (-1074 <= e)%Z -> Rabs x <= bpow radix2 e -> Rabs (RN64 x) <= bpow radix2 e.
Proof.
  intros He H. unfold RN64. apply abs_round_le_generic; [exact _|exact _| |exact H].
  apply generic_format_FLT_bpow; [reflexivity|exact He].
Qed.

Lemma RN64_generic x : generic_format radix2 fexp64 x -> RN64 x = x.
Proof. intros H. unfold RN64. apply round_generic; [exact _|exact H]. Qed.

Lemma RN64_idem x : RN64 (RN64 x) = RN64 x.
Proof. apply RN64_generic. unfold RN64. apply generic_format_round; exact _. Qed.

Lemma lt_1024 e x : (e < 1024)%Z -> Rabs x <= bpow radix2 e -> Rabs x < bpow radix2 1024.
Proof. intros He H. eapply Rle_lt_trans; [exact H|]. apply bpow_lt. exact He. Qed.

(* a small integer converts exactly *)
Lemma f_of_Z_exact z : (Z.abs z < 2 ^ 53)%Z ->
  is_finite (sf2b K64 (f_of_Z K64 z)) = true /\ B2R (sf2b K64 (f_of_Z K64 z)) = IZR z.
Proof.
  intros Hz. unfold f_of_Z. rewrite sf2b_B2SF.
  assert (G : generic_format radix2 fexp64 (IZR z)).
  { apply generic_format_FLT. apply (FLT_spec radix2 _ _ (IZR z) (Float radix2 z 0)).
    - unfold F2R. cbn. ring.
    - exact Hz.
    - cbn. lia. }
  generalize (binary_normalize_correct (kprec K64) (kemax K64) (kprec_gt_0 K64) (kprec_lt_emax K64) mode_NE z 0 false). cbv zeta.
  replace (F2R (Float radix2 z 0)) with (IZR z) by (unfold F2R; cbn; ring).
  to_rn64. rewrite (RN64_generic _ G).
  rewrite Rlt_bool_true.
  - intros (R & F & _). split; [exact F|exact R].
  - apply (lt_1024 53); [lia|]. rewrite <- abs_IZR. change (bpow radix2 53) with (IZR (2 ^ 53)).
    apply IZR_le. lia.
Qed.

Section Reload.
Variables (slope inter : sf) (z : Z) (t : ity).
Hypothesis Hz : (Z.abs z < 2 ^ 53)%Z.
Hypothesis Fs : fin K64 slope.
Hypothesis Fi : fin K64 inter.
Let s := B2R (sf2b K64 slope).
Let i := B2R (sf2b K64 inter).
Hypothesis Bs : Rabs s <= bpow radix2 128.
Hypothesis Bi : Rabs i <= bpow radix2 128.

Lemma zs_bound : Rabs (IZR z * s) <= bpow radix2 181.
Proof.
  rewrite Rabs_mult. change 181%Z with (53 + 128)%Z. rewrite bpow_plus.
  apply Rmult_le_compat; try apply Rabs_pos; [|exact Bs].
  rewrite <- abs_IZR. change (bpow radix2 53) with (IZR (2 ^ 53)). apply IZR_le. lia.
Qed.

(* C02_reload_is_rounding *)
Lemma reload_rounding :
  let r := snd (read_elem t K64 slope inter z) in
  is_finite (sf2b K64 r) = true /\ B2R (sf2b K64 r) = RN64 (RN64 (IZR z * s) + i).
Proof.
  pose proof zs_bound as ZB. pose proof Bs as Bs0. pose proof Bi as Bi0. unfold s, i in *.
  unfold read_elem. cbn [promote_if snd].
  destruct (f_of_Z_exact z Hz) as [Fa Ra].
  destruct (fconv_exact K64 K64 slope ltac:(lia) Fs) as [Fs' Rs'].
  destruct (fconv_exact K64 K64 inter ltac:(lia) Fi) as [Fi' Ri'].
  (* the product *)
  set (a := f_of_Z K64 z) in *.
  assert (P : exists p, (if feq K64 slope (fone K64) then a else fmul K64 a (fconv K64 slope)) = p
                        /\ is_finite (sf2b K64 p) = true /\ B2R (sf2b K64 p) = RN64 (IZR z * B2R (sf2b K64 slope))).
  { destruct (feq K64 slope (fone K64)) eqn:E1.
    - exists a. split; [reflexivity|]. split; [exact Fa|].
      destruct (f_of_Z_exact 1 ltac:(cbn; lia)) as [F1 R1].
      pose proof (feq_true_R K64 slope (fone K64) Fs F1 E1) as E. unfold fone in E. rewrite R1 in E.
      rewrite E, Rmult_1_r, Ra. symmetry. apply RN64_generic.
      rewrite <- Ra. apply generic_format_B2R.
    - eexists. split; [reflexivity|]. unfold fmul, op2. rewrite sf2b_B2SF.
      generalize (Bmult_correct (kprec K64) (kemax K64) (kprec_gt_0 K64) (kprec_lt_emax K64) mode_NE (sf2b K64 a) (sf2b K64 (fconv K64 slope))).
      rewrite Ra, Rs'. to_rn64.
      rewrite Rlt_bool_true.
      + intros (R & F & _). split; [now rewrite F, Fa, Fs'|exact R].
      + apply (lt_1024 181); [lia|]. apply RN64_abs_le; [lia|exact ZB]. }
  destruct P as (p & -> & Fp & Rp).
  destruct (feq K64 inter fzero) eqn:E2.
  - split; [exact Fp|]. rewrite Rp.
    assert (F0 : fin K64 fzero) by (unfold fin, fzero; now rewrite sf2b_zero).
    pose proof (feq_true_R K64 inter fzero Fi F0 E2) as E. unfold fzero in E. rewrite sf2b_zero in E.
    rewrite E. cbn [B2R]. rewrite Rplus_0_r. symmetry. apply RN64_idem.
  - unfold fadd, op2. rewrite sf2b_B2SF.
    generalize (Bplus_correct (kprec K64) (kemax K64) (kprec_gt_0 K64) (kprec_lt_emax K64) mode_NE (sf2b K64 p) (sf2b K64 (fconv K64 inter)) Fp Fi').
    rewrite Rp, Ri'. to_rn64.
    rewrite Rlt_bool_true.
    + intros (R & F & _). split; [exact F|exact R].
    + apply (lt_1024 182); [lia|]. apply RN64_abs_le; [lia|].
      eapply Rle_trans; [apply Rabs_triang|].
      change 182%Z with (181 + 1)%Z. rewrite bpow_plus. change (bpow radix2 1) with 2.
      assert (Rabs (RN64 (IZR z * B2R (sf2b K64 slope))) <= bpow radix2 181) by (apply RN64_abs_le; [lia|exact ZB]).
      assert (bpow radix2 128 <= bpow radix2 181) by (apply bpow_le; lia).
      lra.
Qed.

End Reload.

(* the same for float32 slope and intercept as the header stores them *)
Lemma reload_rounding_f32 slope32 inter32 z t : (Z.abs z < 2 ^ 53)%Z ->
  is_finite (sf2b K32 slope32) = true -> is_finite (sf2b K32 inter32) = true ->
  let r := snd (read_elem t K64 (fconv K64 slope32) (fconv K64 inter32) z) in
  is_finite (sf2b K64 r) = true
  /\ B2R (sf2b K64 r) = RN64 (RN64 (IZR z * B2R (sf2b K32 slope32)) + B2R (sf2b K32 inter32)).
Proof.
  intros Hz Fs Fi.
  destruct (fconv_exact K32 K64 slope32 ltac:(cbn; lia) Fs) as [Fs' Rs'].
  destruct (fconv_exact K32 K64 inter32 ltac:(cbn; lia) Fi) as [Fi' Ri'].
  assert (Bs : Rabs (B2R (sf2b K64 (fconv K64 slope32))) <= bpow radix2 128).
  { rewrite Rs'. apply Rlt_le. apply (abs_B2R_lt_emax (kprec K32) (kemax K32)). }
  assert (Bi : Rabs (B2R (sf2b K64 (fconv K64 inter32))) <= bpow radix2 128).
  { rewrite Ri'. apply Rlt_le. apply (abs_B2R_lt_emax (kprec K32) (kemax K32)). }
  pose proof (reload_rounding (fconv K64 slope32) (fconv K64 inter32) z t Hz Fs' Fi' Bs Bi) as H.
  cbv zeta in H. rewrite Rs', Ri' in H. exact H.
Qed.

(* ---------------------------------------------------------------- a first float-vs-ideal bound
   (rounding-operator level, slope-only branch, element inside the clip range): write
   y = RN(x/s), k = rint(y), reload r = RN(k*s).  Then
   |r - x| <= |s|/2 + |s| * ulp(x/s)/2 + ulp(k*s)/2:
   the ideal half step plus the two rounding errors. *)
Lemma float_gap_real (x s : R) : s <> 0 ->
  let y := RN64 (x / s) in
  let k := ZnearestE y in
  let r := RN64 (IZR k * s) in
  Rabs (r - x) <= Rabs s * / 2 + Rabs s * (/ 2 * ulp radix2 fexp64 (x / s))
                  + / 2 * ulp radix2 fexp64 (IZR k * s).
Proof.
  intros Hs y k r.
  assert (E : forall u, Rabs (RN64 u - u) <= / 2 * ulp radix2 fexp64 u).
  { intros u. unfold RN64. exact (error_le_half_ulp radix2 fexp64 (fun z => negb (Z.even z)) u). }
  pose proof (E (x / s)) as E1. fold y in E1.
  pose proof (E (IZR k * s)) as E2. fold r in E2.
  pose proof (Znearest_half (fun z => negb (Z.even z)) y) as E3. fold (ZnearestE y) in E3. fold k in E3.
  replace (r - x) with ((r - IZR k * s) + s * ((IZR k - y) + (y - x / s))) by (field; exact Hs).
  eapply Rle_trans; [apply Rabs_triang|]. rewrite Rabs_mult.
  assert (A : Rabs ((IZR k - y) + (y - x / s)) <= / 2 + / 2 * ulp radix2 fexp64 (x / s)).
  { eapply Rle_trans; [apply Rabs_triang|]. rewrite (Rabs_minus_sym (IZR k) y). lra. }
  pose proof (Rabs_pos s) as Ps.
  assert (M : Rabs s * Rabs ((IZR k - y) + (y - x / s)) <= Rabs s * (/ 2 + / 2 * ulp radix2 fexp64 (x / s))).
  { apply Rmult_le_compat_l; assumption. }
  lra.
Qed.
