(* C02/ModelF.v — EXACT FLOAT LAYER of the rescaled-integer-storage model: IEEE-754 arithmetic
   through Flocq (IEEE754.BinarySingleNaN: Bplus, Bminus, Bmult, Bdiv, Bnearbyint, Bcompare,
   binary_normalize with mode_NE), bit for bit.
   Formats: float16 = binary_float 11 16, float32 = 24 128, float64 = 53 1024 and the x87
   80-bit longdouble = 64 16384 (Lemmas.v checks that Tables.v, read from the running NumPy,
   says the same).  A float VALUE is a `spec_float` (sign, mantissa, exponent | zero | inf |
   nan) plus, where the code's dtype matters, a format tag `fid`; every arithmetic step
   converts to Flocq's `binary_float prec emax`, applies Flocq's operation and converts back.
   Counterparts in /repo/nibabel:
     volumeutils.py  finite_range, working_type, best_write_scale_ftype/_ftype4scaled_finite,
                     array_to_file, _write_data, apply_read_scaling, int_scinter_ftype
     arraywriters.py ArrayWriter/SlopeArrayWriter/SlopeInterArrayWriter: scaling_needed,
                     calc_scale, _do_scaling, _range_scale (both), _writing_range, to_fileobj,
                     the float32 casts of the slope/inter setters, get_slope_inter
     analyze.py / spm99analyze.py / nifti1.py  set_slope_inter of the header classes
     freesurfer/mghformat.py  MGHImage._write_data (array_to_file without a writer)
   Definitions only (plus the four one-line instances Flocq's operations need). *)
From Coq Require Import ZArith List Bool.
From Coq Require Import Floats.SpecFloat.
From Flocq Require Import IEEE754.BinarySingleNaN.
From NV Require Import C02.Model C02.Tables.
Import ListNotations.
Open Scope Z_scope.

(* ---------------------------------------------------------------- formats *)
Inductive fid := K16 | K32 | K64 | K80.
Definition kprec (k : fid) : Z := match k with K16 => 11 | K32 => 24 | K64 => 53 | K80 => 64 end.
Definition kemax (k : fid) : Z := match k with K16 => 16 | K32 => 128 | K64 => 1024 | K80 => 16384 end.
Definition kfmt (k : fid) : fmt :=
  match k with K16 => fmt_float16 | K32 => fmt_float32 | K64 => fmt_float64 | K80 => fmt_longdouble end.
Definition krank (k : fid) : Z := match k with K16 => 0 | K32 => 1 | K64 => 2 | K80 => 3 end.
Definition kmax (a b : fid) : fid := if krank a <=? krank b then b else a.

Lemma kprec_gt_0 k : FLX.Prec_gt_0 (kprec k).
Proof. destruct k; reflexivity. Qed.
Lemma kprec_lt_emax k : Prec_lt_emax (kprec k) (kemax k).
Proof. destruct k; reflexivity. Qed.
#[export] Existing Instance kprec_gt_0.
#[export] Existing Instance kprec_lt_emax.

Definition sf := spec_float.
Definition bf (k : fid) := binary_float (kprec k) (kemax k).

(* spec_float -> Flocq float of format k (NaN if the datum is not a valid float of k) *)
Definition sf2b (k : fid) (x : sf) : bf k :=
  match Bool.bool_dec (SpecFloat.valid_binary (kprec k) (kemax k) x) true with
  | left H => SF2B x H
  | right _ => B754_nan
  end.

Definition op2 (k : fid) (f : bf k -> bf k -> bf k) (x y : sf) : sf := B2SF (f (sf2b k x) (sf2b k y)).
Definition fadd k := op2 k (Bplus mode_NE).
Definition fsub_ k := op2 k (Bminus mode_NE).
Definition fmul k := op2 k (Bmult mode_NE).
Definition fdiv k := op2 k (Bdiv mode_NE).
Definition fneg (x : sf) : sf := SpecFloat.SFopp x.
Definition fabs (x : sf) : sf := SpecFloat.SFabs x.
Definition frint k (x : sf) : sf := B2SF (Bnearbyint mode_NE (sf2b k x)).
Definition fcmp k (x y : sf) : option comparison := Bcompare (sf2b k x) (sf2b k y).

Definition is_nan_sf (x : sf) : bool := match x with S754_nan => true | _ => false end.
Definition is_inf_sf (x : sf) : bool := match x with S754_infinity _ => true | _ => false end.
Definition is_fin_sf (x : sf) : bool :=
  match x with S754_zero _ | S754_finite _ _ _ => true | _ => false end.

(* the comparisons of C / NumPy: false when unordered *)
Definition feq k x y := match fcmp k x y with Some Eq => true | _ => false end.
Definition flt k x y := match fcmp k x y with Some Lt => true | _ => false end.
Definition fle k x y := match fcmp k x y with Some Lt | Some Eq => true | _ => false end.
Definition fgt k x y := flt k y x.
Definition fge k x y := fle k y x.

(* conversions *)
Definition f_of_Z (k : fid) (z : Z) : sf :=
  B2SF (binary_normalize (kprec k) (kemax k) _ _ mode_NE z 0 false).
(* astype between float formats (the value is a valid float of some format; rounding to k) *)
Definition fconv (k : fid) (x : sf) : sf :=
  match x with
  | S754_finite s m e =>
      B2SF (binary_normalize (kprec k) (kemax k) _ _ mode_NE (cond_Zopp s (Zpos m)) e s)
  | _ => x
  end.
Definition fzero : sf := S754_zero false.
Definition fone (k : fid) : sf := f_of_Z k 1.

(* C cast float -> integer of a finite float: truncation toward zero (Flocq Btrunc); None for
   NaN / infinities (and for a datum that is not a valid float of format k) *)
Definition f_trunc (k : fid) (x : sf) : option Z :=
  let b := sf2b k x in
  if is_finite b then Some (Btrunc b) else None.

(* np.maximum / np.minimum (and np.max / np.min of a two-element list): NaN propagates *)
Definition fmaximum k (a b : sf) : sf :=
  if is_nan_sf a then a else if is_nan_sf b then b else if fge k a b then a else b.
Definition fminimum k (a b : sf) : sf :=
  if is_nan_sf a then a else if is_nan_sf b then b else if fle k a b then a else b.
(* np.clip(x, lo, hi) = minimum(maximum(x, lo), hi) *)
Definition fclip k (x lo hi : sf) : sf := fminimum k (fmaximum k x lo) hi.

(* ---------------------------------------------------------------- input data *)
Inductive indata :=
| InF (k : fid) (xs : list sf)        (* float16/32/64 array, elements valid in format k *)
| InI (t : ity) (xs : list Z).        (* integer array *)

(* a number as Python sees it after finite_range / min(mn, 0): a float scalar of the input
   dtype, or a Python/NumPy int *)
Inductive num := NF (k : fid) (x : sf) | NI (z : Z).

Definition num_to (k : fid) (n : num) : sf :=
  match n with NF _ x => fconv k x | NI z => f_of_Z k z end.
(* comparisons of such numbers are exact in every case that occurs (float vs float of one
   dtype, int vs int, float vs the int 0): do them in the widest format *)
Definition num_cmp (a b : num) : option comparison := fcmp K80 (num_to K80 a) (num_to K80 b).
Definition num_eq a b := match num_cmp a b with Some Eq => true | _ => false end.
Definition num_lt a b := match num_cmp a b with Some Lt => true | _ => false end.
Definition num_le a b := match num_cmp a b with Some Lt | Some Eq => true | _ => false end.

(* volumeutils.finite_range(arr, check_nan=True) on a float array: (mn, mx, has_nan);
   (inf, -inf) when there is no finite value *)
Fixpoint frange (k : fid) (xs : list sf) (mn mx : sf) (has_nan : bool) : sf * sf * bool :=
  match xs with
  | [] => (mn, mx, has_nan)
  | x :: r =>
      if is_nan_sf x then frange k r mn mx true
      else if is_inf_sf x then frange k r mn mx has_nan
      else frange k r (if flt k x mn then x else mn) (if flt k mx x then x else mx) has_nan
  end.
Definition finite_range_f (k : fid) (xs : list sf) : sf * sf * bool :=
  frange k xs (S754_infinity false) (S754_infinity true) false.

Fixpoint zmin_list (xs : list Z) (d : Z) : Z :=
  match xs with [] => d | x :: r => zmin_list r (Z.min d x) end.
Fixpoint zmax_list (xs : list Z) (d : Z) : Z :=
  match xs with [] => d | x :: r => zmax_list r (Z.max d x) end.

(* ---------------------------------------------------------------- results / errors *)
Inductive werr :=
| EWriterError          (* arraywriters.WriterError: scaling needed but cannot scale / uint with both signs *)
| EScalingError         (* ScalingError: slope / inter not both finite *)
| ENanFillAssert        (* assert in SlopeInterArrayWriter._range_scale *)
| EIuAssert             (* assert in SlopeInterArrayWriter._iu2iu *)
| EValueNotFinite       (* array_to_file: divslope and intercept must be finite *)
| EValueSlopeZero       (* array_to_file: divslope cannot be zero *)
| EValueNanFill         (* array_to_file: nan_fill outside safe int range *)
| EHeaderType           (* header cannot store the slope / intercept *)
| EHeaderData           (* header refuses slope 0 / inf, intercept inf *)
| EKind                 (* make_array_writer: intercept without slope *)
| EInternal (e : cerr). (* an integer-layer error (not reachable for 8..64-bit types) *)

Inductive res (A : Type) := Ok (a : A) | Err (e : werr).
Arguments Ok {A}. Arguments Err {A}.
Definition bind {A B} (r : res A) (f : A -> res B) : res B :=
  match r with Ok a => f a | Err e => Err e end.
Notation "'do' x <- r ; f" := (bind r (fun x => f)) (at level 200, x name, r at level 100, f at level 200).
Notation "'do' ' p <- r ; f" := (bind r (fun p => f)) (at level 200, p strict pattern, r at level 100, f at level 200).

Definition sr_k (k : fid) (t : ity) : res (Z * Z) :=
  match shared_range trunc_uint64 (kfmt k) t with
  | COk (Fin a, Fin b) => Ok (a, b)
  | COk _ => Err (EInternal EValue)
  | CErr e => Err (EInternal e)
  end.

(* slope, inter as held by the writer: float32 values (scaler_dtype) *)
Record scaling := mkScaling { s_slope : sf; s_inter : sf; s_testcast_bad : bool }.
Definition scaling_default : scaling := mkScaling (fone K32) fzero false.

(* ---------------------------------------------------------------- _range_scale *)
(* SlopeInterArrayWriter._range_scale(in_min, in_max); nan_chk = self._nan2zero and self.has_nan *)
Definition range_scale_si (tout : ity) (in_min in_max : num) (nan_chk : bool) : res scaling :=
  if num_eq in_max in_min then
    Ok (mkScaling (fone K32) (num_to K32 in_min) false)
  else
    let bf_ := K80 in                                  (* big_float = best_float() *)
    let imn := num_to bf_ in_min in
    let imx := num_to bf_ in_max in
    let in_range := fsub_ bf_ imx imn in               (* np.diff / big_float(in_max - in_min): exact for ints *)
    let in_range := match in_min, in_max with
                    | NI a, NI b => f_of_Z bf_ (b - a)
                    | _, _ => in_range end in
    do '(omn, omx) <- sr_k K32 tout;
    let out_min := f_of_Z bf_ omn in
    let out_max := f_of_Z bf_ omx in
    let out_range := fsub_ bf_ out_max out_min in
    let slope := fdiv bf_ in_range out_range in
    let '(inter, slope) :=
      if feq bf_ out_min fzero && flt bf_ (fabs imx) (fabs imn)
      then (fadd bf_ imx (fmul bf_ out_min slope), fneg slope)
      else (fsub_ bf_ imn (fmul bf_ out_min slope), slope) in
    let inter32 := fconv K32 inter in
    let slope32 := fconv K32 slope in
    if negb (is_fin_sf slope32 && is_fin_sf inter32) then Err EScalingError
    else if negb ((feq bf_ imn fzero || feq bf_ imx fzero) && nan_chk) then
      Ok (mkScaling slope32 inter32 false)
    else
      let nan_fill_f := fdiv K32 (fneg inter32) slope32 in
      let nan_fill_i := frint K32 nan_fill_f in
      let fits x := match f_trunc K32 x with Some z => in_ity tout z | None => false end in
      if fits nan_fill_i then Ok (mkScaling slope32 inter32 false)
      else
        (* the test cast np.array(nan_fill_i, dtype=out_dtype) was out of range: recorded *)
        let c := fclip bf_ (fconv bf_ nan_fill_f) out_min out_max in
        let inter32' := fconv K32 (fmul bf_ (fneg c) (fconv bf_ slope32)) in
        let nan_fill_i' := frint K32 (fdiv K32 (fneg inter32') slope32) in
        if fits nan_fill_i' then Ok (mkScaling slope32 inter32' true)
        else Err ENanFillAssert
  .

(* SlopeArrayWriter._range_scale(in_min, in_max) *)
Definition range_scale_s (tout : ity) (in_min in_max : num) : res scaling :=
  let bf_ := K80 in
  let out_min := f_of_Z bf_ (imin tout) in
  let out_max := f_of_Z bf_ (imax tout) in
  let zero := NI 0 in
  if negb (isigned tout) then
    if num_lt in_min zero && num_lt zero in_max then Err EWriterError
    else
      let s := if num_le in_max zero then fdiv bf_ (num_to bf_ in_min) out_max
               else fdiv bf_ (num_to bf_ in_max) out_max in
      Ok (mkScaling (fconv K32 s) fzero false)
  else
    let mx_slope := fdiv bf_ (num_to bf_ in_max) out_max in
    let mn_slope := fdiv bf_ (num_to bf_ in_min) out_min in
    Ok (mkScaling (fconv K32 (fmaximum bf_ mx_slope mn_slope)) fzero false).

(* ---------------------------------------------------------------- calc_scale *)
(* the writer's view of the data: finite range as numbers, has_nan, any finite value *)
Record dview := mkDview { d_mn : num; d_mx : num; d_has_nan : bool; d_isfloat : bool; d_nofinite : bool;
                          d_has_inf : bool   (* np.any(np.isinf(data)) *) }.

Definition view (d : indata) : dview :=
  match d with
  | InF k xs => let '(mn, mx, hn) := finite_range_f k xs in
                mkDview (NF k mn) (NF k mx) hn true (is_inf_sf mn) (existsb is_inf_sf xs)
  | InI t xs => match xs with
                | [] => mkDview (NI 0) (NI 0) false false true false
                | x :: r => mkDview (NI (zmin_list r x)) (NI (zmax_list r x)) false false false false
                end
  end.

(* calc_scale of the writer class k for data d and integer output type tout.
   Ok None = the plain ArrayWriter accepted the data (no slope/inter attributes). *)
Definition calc_scale (k : wkind) (d : indata) (tout : ity) : res scaling :=
  let v := view d in
  let zero := NI 0 in
  match d with
  | InF _ _ =>
      (* ArrayWriter.scaling_needed: float -> int needs scaling unless all finite data are 0; then
         (fix b5843164) the plain writer still refuses when there are infinities, which only the
         scaling writers threshold away (their scaling_needed answers False for (0, 0)) *)
      let all_zero := num_eq (d_mn v) zero && num_eq (d_mx v) zero in
      match k with
      | WPlain => if all_zero && negb (d_has_inf v) then Ok scaling_default else Err EWriterError
      | _ =>
          if all_zero || d_nofinite v then Ok scaling_default
          else
            (* _do_scaling: nan2zero (default True) and has_nan -> include 0 in the range *)
            let mn := if d_has_nan v then (if num_lt zero (d_mn v) then zero else d_mn v) else d_mn v in
            let mx := if d_has_nan v then (if num_lt (d_mx v) zero then zero else d_mx v) else d_mx v in
            match k with
            | WSlope => range_scale_s tout mn mx
            | _ => range_scale_si tout mn mx (d_has_nan v)
            end
      end
  | InI tin xs =>
      match d_mn v, d_mx v with
      | NI mn, NI mx =>
          match iu_decide k trunc_uint64 fmt_float32 tin tout mn mx with
          | IUNone => Ok scaling_default
          | IUInter i => Ok (mkScaling (fone K32) (f_of_Z K32 i) false)
          | IUFlip => Ok (mkScaling (f_of_Z K32 (-1)) fzero false)
          | IURange => match k with
                       | WSlope => range_scale_s tout (NI mn) (NI mx)
                       | _ => range_scale_si tout (NI mn) (NI mx) false
                       end
          | IUWriterError => Err EWriterError
          | IUAssert => Err EIuAssert
          | IUOther e => Err (EInternal e)
          end
      | _, _ => Err (EInternal EValue)
      end
  end.

(* ---------------------------------------------------------------- array_to_file *)
(* dtype of the data as array_to_file works on it: float16 is cast to float32 first *)
Definition cast_in_kind (k : fid) : fid := match k with K16 => K32 | _ => k end.

(* working_type(cast_in_dtype, slope, inter) for float32 (or default) slope/inter *)
Definition working_type (d : indata) : fid :=
  match d with
  | InF k _ => cast_in_kind k
  | InI t _ => if iwidth t <=? 16 then K32 else K64
  end.

(* (x - inter) / slope in format w, skipping the identity operations as the code does *)
Definition scale_w (w : fid) (slope inter : sf) (x : sf) : sf :=
  let x1 := if feq w inter fzero then x else fsub_ w x inter in
  if feq w slope (fone w) then x1 else fdiv w x1 slope.

Definition kinds_from (w : fid) : list fid :=
  filter (fun k => krank w <=? krank k) [K16; K32; K64; K80].

(* best_write_scale_ftype(extremes, slope, inter, default=w) *)
Definition best_write_scale_ftype (w : fid) (slope inter : sf) (e_mn e_mx : num) : fid :=
  let finite n := is_fin_sf (num_to K80 n) in
  if negb (finite e_mn && finite e_mx) then w
  else
    let ok k := is_fin_sf (scale_w k (fconv k slope) (fconv k inter) (num_to k e_mn))
                && is_fin_sf (scale_w k (fconv k slope) (fconv k inter) (num_to k e_mx)) in
    match filter ok (kinds_from w) with
    | k :: _ => k
    | [] => K80                       (* OK_FLOATS[-1] *)
    end.

Record wout := mkWout {
  o_raw : list Z;                (* the integers stored *)
  o_badcast : bool               (* some value handed to the final cast was NaN, infinite or outside the type *)
}.

(* final astype(out_dtype) of a float of format k; (value, bad) *)
Definition cast_to_int (k : fid) (t : ity) (x : sf) : Z * bool :=
  match f_trunc k x with
  | Some z => if in_ity t z then (z, false) else (wrap t z, true)
  | None => (imin t, true)        (* x86 "integer indefinite"; flagged, never compared *)
  end.

(* one element through _write_data in the working format w: scale, rint, clip, nan fill; the
   result is the float handed to astype(out_dtype) *)
Definition elem_f (w : fid) (sl it q_mn q_mx : sf) (nan_fill : option sf) (x : sf) : sf :=
  let c := fclip w (frint w (scale_w w sl it x)) q_mn q_mx in
  match nan_fill with
  | Some n => if is_nan_sf c then n else c
  | None => c
  end.

(* array_to_file lines 672-706: swap for a negative slope, intersect with the shared range,
   and (fix 104ec932) collapse onto the nearest safe value when the scaled range lies wholly
   outside the safe range *)
Definition post_bounds_f (w : fid) (p_mn p_mx both_mn both_mx : sf) : sf * sf :=
  let '(p_mn, p_mx) := if fgt w p_mn p_mx then (p_mx, p_mn) else (p_mn, p_mx) in
  let q_mn := fmaximum w p_mn both_mn in
  let q_mx := fminimum w p_mx both_mx in
  if flt w q_mx q_mn
  then (if flt w q_mx both_mn then (both_mn, both_mn) else (both_mx, both_mx))
  else (q_mn, q_mx).

(* array_to_file(data, fileobj, out_dtype, intercept=inter, divslope=slope, mn, mx, nan2zero)
   for integer out_dtype; pre = (mn, mx) pre-scale thresholds when given *)
Definition array_to_file (d : indata) (tout : ity) (slope inter : sf) (sk ik : fid)
           (pre : option (num * num)) (nan2zero : bool) : res wout :=
  let n := match d with InF _ xs => length xs | InI _ xs => length xs end in
  let zeros := Ok (mkWout (repeat 0 n) false) in
  if negb (is_fin_sf inter && is_fin_sf slope) then Err EValueNotFinite
  else if feq sk slope fzero then Err EValueSlopeZero
  else
    let pre_zero := match pre with
                    | Some (mn, mx) => (num_eq mn (NI 0) && num_eq mx (NI 0)) || num_lt mx mn
                    | None => false end in
    if pre_zero then zeros
    else
      let null_scaling := feq ik inter fzero && feq sk slope (fone sk) in
      match d with
      | InI tin xs =>
          if null_scaling then
            (* can_cast: plain cast; otherwise clip to the output range (large int -> small int) *)
            if can_cast_ii tin tout then Ok (mkWout xs false)
            else Ok (mkWout (map (fun x => Z.max (imin tout) (Z.min (imax tout) x)) xs) false)
          else
            let w0 := working_type d in
            let e_mn := NI (imin tin) in let e_mx := NI (imax tin) in
            let w := best_write_scale_ftype w0 slope inter e_mn e_mx in
            let sl := fconv w slope in let it := fconv w inter in
            let post x := frint w (scale_w w sl it x) in
            let p_mn := post (num_to w e_mn) in let p_mx := post (num_to w e_mx) in
            do '(bmn, bmx) <- sr_k w tout;
            let both_mn := f_of_Z w bmn in let both_mx := f_of_Z w bmx in
            let '(q_mn, q_mx) := post_bounds_f w p_mn p_mx both_mn both_mx in
            let el x := cast_to_int w tout (elem_f w sl it q_mn q_mx None (f_of_Z w x)) in
            let rs := map el xs in
            Ok (mkWout (map fst rs) (existsb snd rs))
      | InF k xs =>
          let ck := cast_in_kind k in
          let w0 := working_type d in
          let e_mn := match pre with Some (mn, _) => mn | None => NF ck (S754_infinity true) end in
          let e_mx := match pre with Some (_, mx) => mx | None => NF ck (S754_infinity false) end in
          let w := best_write_scale_ftype w0 slope inter e_mn e_mx in
          let sl := fconv w slope in let it := fconv w inter in
          let post x := frint w (scale_w w sl it x) in
          let p_mn := post (num_to w e_mn) in let p_mx := post (num_to w e_mx) in
          let nan_fill := post fzero in
          do '(bmn, bmx) <- sr_k w tout;
          let both_mn := f_of_Z w bmn in let both_mx := f_of_Z w bmx in
          do nan_fill <-
            (if nan2zero && negb (fle w both_mn nan_fill && fle w nan_fill both_mx) then
               let eps := fconv w (S754_finite false 1 (1 - kprec w)) in
               let two := f_of_Z w 2 in
               let est_err := frint w (fmul w (fmul w two eps) (fabs (fdiv w it sl))) in
               if (flt w nan_fill both_mn && flt w (fabs (fsub_ w nan_fill both_mn)) est_err)
                  || (fgt w nan_fill both_mx && flt w (fabs (fsub_ w nan_fill both_mx)) est_err)
               then Ok (fclip w nan_fill both_mn both_mx)
               else Err EValueNanFill
             else Ok nan_fill);
          let '(q_mn, q_mx) := post_bounds_f w p_mn p_mx both_mn both_mx in
          let el x :=
            cast_to_int w tout (elem_f w sl it q_mn q_mx (if nan2zero then Some nan_fill else None) (fconv w x)) in
          let rs := map el xs in
          Ok (mkWout (map fst rs) (existsb snd rs))
      end.

(* ---------------------------------------------------------------- writer.to_fileobj *)
(* _writing_range: finite range as pre-scale thresholds for float -> int *)
Definition writing_range (d : indata) : option (num * num) :=
  match d with
  | InF _ _ => let v := view d in
               if d_nofinite v then Some (NI 0, NI 0) else Some (d_mn v, d_mx v)
  | InI _ _ => None
  end.

Definition needs_nan2zero (d : indata) : bool :=
  match d with InF _ _ => d_has_nan (view d) | InI _ _ => false end.

(* make_array_writer(data, out, has_slope, has_inter) then to_fileobj; returns the scaling
   reported by get_slope_inter and what was written *)
Definition writer_write (k : wkind) (d : indata) (tout : ity) : res (scaling * wout) :=
  do sc <- calc_scale k d tout;
  match k with
  | WPlain =>
      (* ArrayWriter.to_fileobj: no slope/inter, mn = mx = None *)
      do o <- array_to_file d tout (fone K64) fzero K64 K64 None (needs_nan2zero d);
      Ok (sc, o)
  | WSlope =>
      do o <- array_to_file d tout (s_slope sc) fzero K32 K64 (writing_range d) (needs_nan2zero d);
      Ok (sc, o)
  | WSlopeInter =>
      do o <- array_to_file d tout (s_slope sc) (s_inter sc) K32 K32 (writing_range d) (needs_nan2zero d);
      Ok (sc, o)
  end.

(* header.set_slope_inter(slope, inter) with the values of get_slope_inter(writer), of a class with capabilities c *)
Definition header_store (c : caps) (sc : scaling) : res unit :=
  let s1 := feq K32 (s_slope sc) (fone K32) in
  let i0 := feq K32 (s_inter sc) fzero in
  match set_slope_inter c s1 i0 with
  | HeaderTypeError => Err EHeaderType
  | Stored =>
      if has_slope c && (feq K32 (s_slope sc) fzero || is_inf_sf (s_slope sc)) then Err EHeaderData
      else if has_inter c && is_inf_sf (s_inter sc) then Err EHeaderData
      else Ok tt
  end.

(* the whole save of an image class with capabilities c (analyze.to_file_map / MGH) *)
Definition image_write (c : caps) (d : indata) (tout : ity) : res (scaling * wout) :=
  if direct c then
    do o <- array_to_file d tout (fone K64) fzero K64 K64 None true;
    Ok (scaling_default, o)
  else
    match make_writer_kind (has_slope c) (has_inter c) with
    | None => Err EKind
    | Some k =>
        do sc <- calc_scale k d tout;
        do _ <- header_store c sc;
        do '(sc', o) <- writer_write k d tout;
        Ok (sc', o)
    end.

(* ---------------------------------------------------------------- apply_read_scaling *)
Inductive backval := BI (z : Z) | BF (x : sf).       (* an int (no scaling) or a float *)

(* dtype of int_array * float_array / int_array + float_array *)
Definition promote_if (t : ity) (k : fid) : fid :=
  match k with
  | K16 => if iwidth t <=? 8 then K16 else if iwidth t <=? 16 then K32 else K64
  | K32 => if iwidth t <=? 16 then K32 else K64
  | _ => k
  end.

(* raw * slope + inter as apply_read_scaling computes it once slope/inter have dtype k *)
Definition read_elem (t : ity) (k : fid) (slope inter : sf) (z : Z) : fid * sf :=
  let r := promote_if t k in
  let a := f_of_Z r z in
  let a := if feq k slope (fone k) then a else fmul r a (fconv r slope) in
  (r, if feq k inter fzero then a else fadd r a (fconv r inter)).

(* ArrayProxy._get_scaled + apply_read_scaling.  k0 = dtype of the slope handed over by the
   header (float64 for a Python float, float32 for SPM); int_scinter_ftype looks for the
   first float type from k0 on for which imin/imax scale to finite values *)
Definition apply_read_scaling (t : ity) (k0 : fid) (slope32 inter32 : sf) (raw : list Z) : fid * list backval :=
  let slope := fconv k0 slope32 in
  let inter := fconv K64 inter32 in        (* the intercept is a Python float in both cases *)
  if feq k0 slope (fone k0) && feq K64 inter fzero then (K64, map BI raw)
  else
    let ok k := is_fin_sf (snd (read_elem t k (fconv k slope) (fconv k inter) (imin t)))
                && is_fin_sf (snd (read_elem t k (fconv k slope) (fconv k inter) (imax t))) in
    let k := match filter ok (kinds_from k0) with k :: _ => k | [] => K80 end in
    let sl := fconv k slope in let it := fconv k inter in
    (promote_if t k, map (fun z => BF (snd (read_elem t k sl it z))) raw).

(* ---------------------------------------------------------------- decidable equalities
   (used by the in-Coq cross-check of the extracted model) *)
Definition sf_eqb (a b : sf) : bool :=
  match a, b with
  | S754_zero s, S754_zero s' | S754_infinity s, S754_infinity s' => Bool.eqb s s'
  | S754_nan, S754_nan => true
  | S754_finite s m e, S754_finite s' m' e' => Bool.eqb s s' && Pos.eqb m m' && Z.eqb e e'
  | _, _ => false
  end.
Fixpoint zlist_eqb (a b : list Z) : bool :=
  match a, b with
  | [], [] => true
  | x :: r, y :: r' => Z.eqb x y && zlist_eqb r r'
  | _, _ => false
  end.
Definition write_eqb (r : res (scaling * wout)) (slope inter : sf) (raw : list Z) : bool :=
  match r with
  | Ok (sc, o) => sf_eqb (s_slope sc) slope && sf_eqb (s_inter sc) inter && zlist_eqb (o_raw o) raw
  | Err _ => false
  end.
Definition write_is_err (r : res (scaling * wout)) : bool := match r with Err _ => true | Ok _ => false end.
