(* C02/LemmasFB.v — the whole-array lift on the NIfTI path (SlopeInterArrayWriter through
   writer_write WSlopeInter): composition of C02_array_lift with C02_float_gap_intercept. *)
From Coq Require Import ZArith Reals List Bool Lia Lra Floats.SpecFloat.
From Flocq Require Import Core.Zaux Core.Raux Core.Defs Core.Float_prop Core.Generic_fmt Core.FLT
  Core.Ulp Core.Round_NE IEEE754.BinarySingleNaN.
From NV Require Import C02.Model C02.Tables C02.ModelF C02.Lemmas C02.LemmasF C02.LemmasFW C02.LemmasFN
  C02.LemmasFR C02.LemmasFG C02.LemmasFA C02.LemmasFI.
Import ListNotations.
Open Scope R_scope.

Lemma num_to_valid w n : valid_binary (kprec w) (kemax w) (num_to w n) = true.
Proof. destruct n as [k x|z]; cbn [num_to]; [apply fconv_valid|unfold f_of_Z; apply valid_binary_B2SF]. Qed.

Definition okv (r : res scaling) : Prop :=
  match r with
  | Ok sc => valid_binary (kprec K32) (kemax K32) (s_slope sc) = true
             /\ valid_binary (kprec K32) (kemax K32) (s_inter sc) = true
  | Err _ => True
  end.

Lemma range_scale_si_okv tout a b c : okv (range_scale_si tout a b c).
Proof.
  unfold range_scale_si. cbv zeta.
  destruct (num_eq b a).
  { cbn. split; [vm_compute; reflexivity|apply num_to_valid]. }
  destruct (sr_k K32 tout) as [[omn omx]|]; cbn [bind]; [|exact I].
  match goal with |- context [if ?c then (_, _) else (_, _)] => destruct c end;
    repeat (match goal with |- okv (if ?c then _ else _) => destruct c end);
    cbn; try exact I; split; apply fconv_valid.
Qed.

Lemma range_scale_si_valid tout a b c sc : range_scale_si tout a b c = Ok sc ->
  valid_binary (kprec K32) (kemax K32) (s_slope sc) = true
  /\ valid_binary (kprec K32) (kemax K32) (s_inter sc) = true.
Proof. intros H. pose proof (range_scale_si_okv tout a b c) as O. rewrite H in O. exact O. Qed.

Lemma slope_inter_valid k xs tout sc : calc_scale WSlopeInter (InF k xs) tout = Ok sc ->
  valid_binary (kprec K32) (kemax K32) (s_slope sc) = true
  /\ valid_binary (kprec K32) (kemax K32) (s_inter sc) = true.
Proof.
  unfold calc_scale. cbv zeta.
  destruct (_ || _).
  - intros H; inversion H. split; vm_compute; reflexivity.
  - apply range_scale_si_valid.
Qed.

Lemma fin_of_checks x : valid_binary (kprec K32) (kemax K32) x = true -> is_fin_sf x = true ->
  is_finite (sf2b K32 x) = true.
Proof.
  intros V F. rewrite (sf2b_of_valid K32 x V). destruct x; try discriminate; reflexivity.
Qed.

(* C02_array_gap_slope_inter *)
Lemma nifti_array_gap xs tout sc o t' mn mx hn :
  In tout all_itys ->
  finite_range_f K64 xs = (mn, mx, hn) -> fin K64 mn -> fin K64 mx ->
  writer_write WSlopeInter (InF K64 xs) tout = Ok (sc, o) ->
  let s := B2R (sf2b K32 (s_slope sc)) in
  let i := B2R (sf2b K32 (s_inter sc)) in
  guard s i mn -> guard s i mx ->
  o_raw o = repeat 0%Z (length xs)
  \/ exists q_mn q_mx nf,
       o_raw o = map (fun x => fst (cast_to_int K64 tout
                      (elem_f K64 (fconv K64 (s_slope sc)) (fconv K64 (s_inter sc)) q_mn q_mx nf (fconv K64 x)))) xs
       /\ forall x, fin K64 x -> guard s i x ->
            let y := frint K64 (scale_w K64 (fconv K64 (s_slope sc)) (fconv K64 (s_inter sc)) (fconv K64 x)) in
            fle K64 q_mn y = true -> fle K64 y q_mx = true ->
            let k := ZnearestE (RN64 (RN64 (val x - i) / s)) in
            let r := snd (read_elem t' K64 (fconv K64 (s_slope sc)) (fconv K64 (s_inter sc)) k) in
            cast_to_int K64 tout (elem_f K64 (fconv K64 (s_slope sc)) (fconv K64 (s_inter sc)) q_mn q_mx nf (fconv K64 x)) = (k, false)
            /\ Rabs (val r - val x) <= Rabs s * / 2 + (Rabs (val x) + Rabs i + Rabs s) * bpow radix2 (-49).
Proof.
  intros Ht FR Fmn Fmx H s i Gmn Gmx.
  unfold writer_write in H. apply bind_ok in H as (sc0 & Hc & H).
  apply bind_ok in H as (o0 & Ha & H). inversion H; subst sc0 o0. clear H.
  destruct (slope_inter_valid _ _ _ _ Hc) as [Vs Vi]. clear Hc.
  assert (WR : writing_range (InF K64 xs) = Some (NF K64 mn, NF K64 mx)).
  { unfold writing_range, view. rewrite FR. cbn.
    replace (is_inf_sf mn) with false; [reflexivity|].
    destruct mn as [a|a| |a m e]; try reflexivity. unfold fin in Fmn. rewrite sf2b_inf in Fmn. discriminate. }
  rewrite WR in Ha.
  assert (Chk : is_finite_strict (sf2b K32 (s_slope sc)) = true /\ is_finite (sf2b K32 (s_inter sc)) = true).
  { unfold array_to_file in Ha. cbv zeta in Ha.
    destruct (is_fin_sf (s_inter sc)) eqn:F0; [|discriminate].
    destruct (is_fin_sf (s_slope sc)) eqn:F1; [|discriminate].
    cbn [andb negb] in Ha.
    destruct (feq K32 (s_slope sc) fzero) eqn:Z1; [discriminate|].
    split; [exact (strict_of_checks _ Vs F1 Z1)|exact (fin_of_checks _ Vi F0)]. }
  destruct Chk as [Fs Fi].
  destruct (atf_K64 (s_slope sc) (s_inter sc) Fs Fi xs tout mn mx K32 K32 (needs_nan2zero (InF K64 xs)) o t'
              Ht Fmn Fmx Gmn Gmx Ha) as [Z0|(q_mn & q_mx & nf & E & P)].
  { left. exact Z0. }
  right. exists q_mn, q_mx, nf. split; [exact E|].
  intros x Fx Gx y Hy1 Hy2 k r.
  destruct (P x Fx Gx Hy1 Hy2) as (C & _ & _). split; [exact C|].
  destruct Gx as [G1 G2].
  destruct (fconv_exact K64 K64 x (Z.le_refl _) Fx) as [Fx' Vx'].
  assert (G1' : Rabs (val (fconv K64 x) - i) <= bpow radix2 1023) by (rewrite Vx'; exact G1).
  assert (G2' : Rabs (RN64 (val (fconv K64 x) - i) / s) <= bpow radix2 52) by (rewrite Vx'; exact G2).
  destruct (intercept_gap_explicit (s_slope sc) (s_inter sc) q_mn q_mx nf (fconv K64 x) t' Fx' Fs Fi G1' G2' Hy1 Hy2)
    as (_ & _ & B).
  rewrite Vx' in B. exact B.
Qed.

(* ---------------------------------------------------------------- the guard from the data range *)
(* the guard |x/s| <= 2^52 from the data range, real-number core.  M = max |finite element| > 0,
   S = the slope computed in longdouble, of which only S >= M * 2^-n is used (n = 15 for int16:
   both mx/32767 and mn/(-32768), rounded, are >= M * 2^-15; n = 8 for uint8), s = RN32(S) the
   stored slope.  If M >= 2^(n - 148) (so that a power of two below M * 2^-n is a float32) then
   every |x| <= M has |x/s| <= 2^(n+1) -- for normal AND subnormal stored slopes. *)
Lemma guard_from_range_real (M S x : R) (n : Z) : (0 <= n)%Z ->
  bpow radix2 (n - 148) <= M -> Rabs x <= M -> M * bpow radix2 (- n) <= S ->
  let s := RN32 S in
  s <> 0 /\ Rabs (x / s) <= bpow radix2 (n + 1).
Proof.
  intros Hn HM Hx HS s.
  assert (V32 : Valid_exp fexp32) by (apply FLT_exp_valid; reflexivity).
  assert (PM : 0 < M) by (eapply Rlt_le_trans; [apply bpow_gt_0|exact HM]).
  destruct (mag radix2 M) as [em Hem].
  specialize (Hem ltac:(lra)). rewrite (Rabs_pos_eq M) in Hem by lra. destruct Hem as [Lo Hi].
  (* P = 2^(em - 1 - n) <= M 2^-n <= S is a float32 *)
  set (P := bpow radix2 (em - 1 - n)).
  assert (PP : 0 < P) by apply bpow_gt_0.
  assert (PS : P <= S).
  { eapply Rle_trans; [|exact HS]. unfold P. replace (em - 1 - n)%Z with ((em - 1) + - n)%Z by lia.
    rewrite bpow_plus. apply Rmult_le_compat_r; [apply bpow_ge_0|exact Lo]. }
  assert (Eem : (n - 148 < em)%Z).
  { apply (lt_bpow radix2). eapply Rle_lt_trans; [exact HM|exact Hi]. }
  assert (GP : generic_format radix2 fexp32 P).
  { unfold P. apply generic_format_FLT_bpow; [reflexivity|lia]. }
  assert (Ps : P <= s).
  { unfold s, RN32. apply round_ge_generic; [exact V32|exact _|exact GP|exact PS]. }
  split; [lra|].
  unfold Rdiv. rewrite Rabs_mult, Rabs_inv. rewrite (Rabs_pos_eq s) by lra.
  apply Rle_trans with (M * / P).
  - apply Rmult_le_compat; try apply Rabs_pos.
    + apply Rlt_le, Rinv_0_lt_compat. lra.
    + exact Hx.
    + apply Rinv_le_contravar; lra.
  - unfold P. rewrite <- bpow_opp.
    apply Rle_trans with (bpow radix2 em * bpow radix2 (- (em - 1 - n))).
    + apply Rmult_le_compat_r; [apply bpow_ge_0|lra].
    + rewrite <- bpow_plus. apply bpow_le. lia.
Qed.

(* the float32 setter without a separate overflow hypothesis: if the stored value is finite it is
   RN32 of the longdouble value *)
Lemma setter_value S : is_finite (sf2b K80 S) = true -> is_fin_sf (fconv K32 S) = true ->
  B2R (sf2b K32 (fconv K32 S)) = RN32 (B2R (sf2b K80 S)).
Proof.
  intros FS Ff. destruct S as [sg|sg| |sg m e].
  - cbn [fconv]. rewrite !sf2b_zero. cbn [B2R]. unfold RN32. symmetry. apply round_0. exact _.
  - rewrite sf2b_inf in FS. discriminate.
  - rewrite sf2b_nan in FS. discriminate.
  - assert (Hv : exists H, sf2b K80 (S754_finite sg m e) = B754_finite sg m e H).
    { unfold sf2b in *.
      destruct (Bool.bool_dec (valid_binary (kprec K80) (kemax K80) (S754_finite sg m e)) true) as [H|n];
        [exists H; reflexivity|discriminate]. }
    destruct Hv as (H & Ek). rewrite Ek. cbn [B2R]. cbn [fconv] in *. rewrite sf2b_B2SF.
    generalize (binary_normalize_correct (kprec K32) (kemax K32) (kprec_gt_0 K32) (kprec_lt_emax K32)
                  mode_NE (cond_Zopp sg (Z.pos m)) e sg).
    cbv zeta. destruct (Rlt_bool _ _).
    + intros (R & _). exact R.
    + intros Ov. exfalso. rewrite Ov in Ff. unfold binary_overflow in Ff. cbn in Ff. discriminate.
Qed.

(* C02_guard_from_range_partial: the guard of the whole-array theorems from the data range, for
   the stored slope of the slope-only writer.  S = the longdouble slope of _range_scale (a finite
   longdouble), stored as fconv K32 S (finite); M = max |finite element| with 2^(n-148) <= M;
   n = 15 for int16, 8 for uint8.  Premise not discharged: M * 2^-n <= S (both candidates
   mx/32767 and mn/(-32768), correctly rounded in longdouble, satisfy it by monotonicity of
   rounding -- the longdouble division of the model is not yet identified with that rounding). *)
Lemma guard_from_range M S x n : (0 <= n)%Z -> (n <= 51)%Z ->
  is_finite (sf2b K80 S) = true -> is_fin_sf (fconv K32 S) = true ->
  bpow radix2 (n - 148) <= M -> Rabs x <= M -> M * bpow radix2 (- n) <= B2R (sf2b K80 S) ->
  let s := B2R (sf2b K32 (fconv K32 S)) in
  s <> 0 /\ Rabs (x / s) <= bpow radix2 52.
Proof.
  intros Hn Hn2 FS Ff HM Hx HS s. unfold s. rewrite (setter_value S FS Ff).
  destruct (guard_from_range_real M (B2R (sf2b K80 S)) x n Hn HM Hx HS) as [A B].
  split; [exact A|]. eapply Rle_trans; [exact B|]. apply bpow_le. lia.
Qed.
