(* C02/Model.v — INTEGER LAYER (pure Z) of the rescaled-integer-storage model.
   Counterparts in /repo/nibabel:
     casting.py   floor_log2, floor_exact, ceil_exact, shared_range, int_abs
                  (and NumPy's int -> float conversion `flt_type(val)` that floor_exact calls)
     arraywriters.py  ArrayWriter.scaling_needed, SlopeArrayWriter.scaling_needed/_do_scaling/_iu2iu,
                  SlopeInterArrayWriter._iu2iu  -- the (u)int -> (u)int decisions
   A float that holds an integer value is represented by that integer (`Fin z`) or by an
   infinity; the float format is described by `fmt` (precision, exponent bound and the two
   conversion quirks of the running NumPy, read into Tables.v by harness/c02.py:gen_tables).
   Definitions only. *)
From Coq Require Import ZArith List Bool.
Import ListNotations.
Open Scope Z_scope.

(* ---------------------------------------------------------------- float formats *)
(* prec  : significand precision in bits including the implicit bit (nmant + 1)
   emax  : finite values have magnitude < 2^emax
   via / via_emax : np.float32(int) converts through a C double (double rounding); via = 0 means
           the conversion is a single correct rounding
   strlim: np.longdouble(int) converts through the decimal string; CPython refuses integers
           with more than `strlim` digits (ValueError); 0 = no such limit *)
Record fmt := mkFmt { prec : Z; emax : Z; via : Z; via_emax : Z; strlim : Z }.

Inductive xz := Fin (z : Z) | PInf | NInf.

Inductive cerr := EValue | EAssert.
Inductive cres (A : Type) := COk (a : A) | CErr (e : cerr).
Arguments COk {A}. Arguments CErr {A}.

(* casting.floor_log2 for a non-zero integer (the Python loop halves abs(x)) *)
Definition floor_log2 (x : Z) : Z := Z.log2 (Z.abs x).

(* number of low-order bits that do not fit into p significant bits *)
Definition drop (p v : Z) : Z := Z.max 0 (Z.log2 (Z.abs v) + 1 - p).

(* round an integer to p significant bits, to nearest, ties to even (floor division makes the
   definition sign-symmetric: q*g is the grid point below v, (q+1)*g the one above) *)
Definition rne (p v : Z) : Z :=
  let g := 2 ^ drop p v in
  let q := v / g in
  let r := v mod g in
  if 2 * r <? g then q * g
  else if g <? 2 * r then (q + 1) * g
  else if Z.even q then q * g else (q + 1) * g.

(* largest finite value of the format (an integer for every format with emax >= prec) *)
Definition fmax (f : fmt) : Z := 2 ^ emax f - 2 ^ (emax f - prec f).

Definition ovf (em z : Z) : xz :=
  if 2 ^ em <=? Z.abs z then (if 0 <? z then PInf else NInf) else Fin z.

(* flt_type(val) for a Python int.  None = OverflowError ("int too large to convert to
   float": the intermediate C double overflowed). *)
Inductive conv_res := CvOk (x : xz) | CvOverflowError | CvValueError.

Definition conv (f : fmt) (v : Z) : conv_res :=
  (* more than strlim decimal digits; 10^s <= |v| implies 3*s <= log2 |v|, tested first (with
     `if`, which is lazy also under vm_compute) so that the power is only computed for huge v *)
  if (if 0 <? strlim f then
        if 3 * strlim f <=? Z.log2 (Z.abs v) then 10 ^ strlim f <=? Z.abs v else false
      else false)
  then CvValueError
  else if via f =? 0 then CvOk (ovf (emax f) (rne (prec f) v))
  else match ovf (via_emax f) (rne (via f) v) with
       | Fin d => CvOk (ovf (emax f) (rne (prec f) d))
       | _ => CvOverflowError
       end.

(* float subtraction of two integer-valued floats: the exact difference, rounded *)
Definition fsub (f : fmt) (a b : Z) : xz := ovf (emax f) (rne (prec f) (a - b)).

(* casting.floor_exact, after `fval = flt_type(val)` succeeded with value x *)
Definition floor_exact_tail (f : fmt) (v : Z) (x : xz) : cres xz :=
  match x with
  | Fin fv =>
      if 0 <=? v - fv then COk (Fin fv)                            (* diff >= 0 *)
      else
        let gap := 2 ^ (floor_log2 v - (prec f - 1)) in           (* nmant = prec - 1 *)
        if gap <=? 1 then CErr EAssert                             (* assert biggest_gap > 1 *)
        else COk (fsub f fv gap)
  | i => COk i                                                     (* not finite: return fval *)
  end.

(* casting.floor_exact *)
Definition floor_exact (f : fmt) (v : Z) : cres xz :=
  match conv f v with
  | CvValueError => CErr EValue
  | CvOverflowError => COk (if 0 <? v then PInf else NInf)         (* sign * np.inf *)
  | CvOk x => floor_exact_tail f v x
  end.

Definition xneg (x : xz) : xz :=
  match x with Fin z => Fin (- z) | PInf => NInf | NInf => PInf end.

(* casting.ceil_exact: -floor_exact(-val) *)
Definition ceil_exact (f : fmt) (v : Z) : cres xz :=
  match floor_exact f (- v) with COk x => COk (xneg x) | CErr e => CErr e end.

(* ---------------------------------------------------------------- integer types *)
Record ity := mkIty { isigned : bool; iwidth : Z }.       (* width in bits *)
Definition imin (t : ity) : Z := if isigned t then - 2 ^ (iwidth t - 1) else 0.
Definition imax (t : ity) : Z := if isigned t then 2 ^ (iwidth t - 1) - 1 else 2 ^ iwidth t - 1.
Definition in_ity (t : ity) (z : Z) : bool := (imin t <=? z) && (z <=? imax t).

(* two's complement wrap of an arbitrary integer into the type (C cast / modular store) *)
Definition wrap (t : ity) (z : Z) : Z :=
  let m := z mod 2 ^ iwidth t in
  if isigned t && (2 ^ (iwidth t - 1) <=? m) then m - 2 ^ iwidth t else m.

(* casting.shared_range(flt_type, int_type); trunc = TRUNC_UINT64 of this platform *)
Definition shared_range (trunc : bool) (f : fmt) (t : ity) : cres (xz * xz) :=
  match ceil_exact f (imin t), floor_exact f (imax t) with
  | COk mn, COk mx =>
      let mn' := match mn with NInf => Fin (- fmax f) | _ => mn end in
      let mx' := match mx with
                 | PInf => Fin (fmax f)
                 | Fin m => if trunc && negb (isigned t) && (iwidth t =? 64)
                            then Fin (Z.min m (2 ^ 63)) else mx
                 | _ => mx
                 end in
      COk (mn', mx')
  | CErr e, _ => CErr e
  | _, CErr e => CErr e
  end.

(* casting.int_abs on one element of a signed type: out = arr.astype(unsigned);
   choose(arr < 0, (arr, arr * -1), out=out) -- arr * -1 wraps in the signed type, the
   store into `out` wraps in the unsigned type of the same width *)
Definition int_abs (t : ity) (v : Z) : Z :=
  if negb (isigned t) then v
  else let u := mkIty false (iwidth t) in
       if v <? 0 then wrap u (wrap t (v * -1)) else wrap u v.

(* ---------------------------------------------------------------- (u)int -> (u)int *)
(* np.can_cast(in, out) ('safe') between integer types *)
Definition can_cast_ii (a b : ity) : bool :=
  match isigned a, isigned b with
  | false, false | true, true => iwidth a <=? iwidth b
  | false, true => iwidth a <? iwidth b
  | true, false => false
  end.

(* which writer class make_array_writer picks *)
Inductive wkind := WPlain | WSlope | WSlopeInter.
Definition make_writer_kind (has_slope has_inter : bool) : option wkind :=
  if has_inter && negb has_slope then None            (* ValueError *)
  else if has_inter then Some WSlopeInter
  else if has_slope then Some WSlope else Some WPlain.

(* outcome of calc_scale for integer input and integer output *)
Inductive iudec :=
| IUNone                       (* slope 1, inter 0: written by a plain cast *)
| IUInter (inter : Z)          (* slope 1, this (float32-exact) intercept *)
| IUFlip                       (* slope -1 *)
| IURange                      (* go on to _range_scale(mn, mx) (float layer) *)
| IUWriterError                (* 'Scaling needed but cannot scale' *)
| IUAssert                     (* the assert in SlopeInterArrayWriter._iu2iu fails *)
| IUOther (e : cerr).

(* ArrayWriter.scaling_needed restricted to integer input/output, non-empty data with
   minimum mn and maximum mx *)
Definition scaling_needed_ii (tin tout : ity) (mn mx : Z) : bool :=
  if can_cast_ii tin tout then false
  else if (mn =? 0) && (mx =? 0) then false
  else negb ((imin tout <=? mn) && (mx <=? imax tout)).

(* SlopeArrayWriter._iu2iu (sc = scaler dtype format, float32) *)
Definition iu2iu_slope (trunc : bool) (sc : fmt) (tin tout : ity) (mn mx : Z) : iudec :=
  if negb (isigned tout) then
    match shared_range trunc sc tout with
    | COk (_, Fin o_max) =>
        if (mx <=? 0) && (int_abs tin mn <=? o_max) then IUFlip else IURange
    | COk _ => IUOther EValue
    | CErr e => IUOther e
    end
  else IURange.

(* int(np.ceil(mn2mx / 2.0)): Python int / float converts the int to a C double first *)
Definition half_ceil (d : Z) : Z := (rne 53 d + 1) / 2.

(* SlopeInterArrayWriter._iu2iu *)
Definition iu2iu_inter (trunc : bool) (sc : fmt) (tin tout : ity) (mn mx : Z) : iudec :=
  match shared_range trunc sc tout with
  | COk (Fin o_min, Fin o_max) =>
      let type_range := o_max - o_min in
      let mn2mx := mx - mn in
      let fallback := iu2iu_slope trunc sc tin tout mn mx in
      if mn2mx <=? type_range then
        let target := if o_min =? 0 then mn - o_min else mn + half_ceil mn2mx in
        match floor_exact sc target with
        | COk (Fin inter) =>
            if negb (o_min <=? mn - inter) then IUAssert
            else if mx - inter <=? o_max then IUInter inter
            else fallback
        | COk _ => IUOther EValue          (* int(inf): OverflowError *)
        | CErr e => IUOther e
        end
      else fallback
  | COk _ => IUOther EValue
  | CErr e => IUOther e
  end.

(* calc_scale (reset; scaling_needed; _do_scaling) of the three writer classes for integer
   input and output *)
Definition iu_decide (k : wkind) (trunc : bool) (sc : fmt) (tin tout : ity) (mn mx : Z) : iudec :=
  if negb (scaling_needed_ii tin tout mn mx) then IUNone
  else match k with
       | WPlain => IUWriterError
       | WSlope => iu2iu_slope trunc sc tin tout mn mx
       | WSlopeInter => iu2iu_inter trunc sc tin tout mn mx
       end.

(* header capabilities (has_data_slope, has_data_intercept); `direct` = the image class
   calls array_to_file itself without an array writer (MGH) *)
Record caps := mkCaps { has_slope : bool; has_inter : bool; direct : bool;
                        slope_f32 : bool   (* get_slope_inter returns the slope as a NumPy float32
                                              (SPM) rather than a Python float (NIfTI) *) }.

(* ---- C02_refusal: what a format may store.  `need_slope`/`need_inter` say whether the
   scaling chosen by the writer differs from (1, 0); the header's set_slope_inter raises
   HeaderTypeError when it has no field for it (analyze.py:772, spm99analyze.py:65). *)
Inductive store := Stored | HeaderTypeError.
Definition set_slope_inter (c : caps) (slope_is_1 inter_is_0 : bool) : store :=
  if has_slope c then
    if has_inter c then Stored
    else if inter_is_0 then Stored else HeaderTypeError
  else if slope_is_1 && inter_is_0 then Stored else HeaderTypeError.
