(* C02/LemmasFG.v — C02_float_gap, step by step, for the binary64 working format:
   (a) the write side of the exact float layer (scale_w, frint, clip inside the range, cast) is
       a composition of rounding operators: stored k = rint(RN(RN(x - i)/s));
   (b) slope-only branch end to end: |reload - x| <= |s|/2 + allowance, for every element
       inside the clip range;
   with Flocq's Bminus_correct, Bdiv_correct, Bnearbyint_correct, Btrunc_correct. *)
From Coq Require Import ZArith Reals List Bool Lia Lra Floats.SpecFloat.
From Flocq Require Import Core.Zaux Core.Raux Core.Defs Core.Float_prop Core.Generic_fmt Core.FLT Core.FIX
  Core.Ulp Core.Round_NE IEEE754.BinarySingleNaN.
From NV Require Import C02.Model C02.Tables C02.ModelF C02.Lemmas C02.LemmasFW C02.LemmasFN C02.LemmasFR.
Import ListNotations.
Open Scope R_scope.

Notation I64 := (kprec_gt_0 K64).
Notation J64 := (kprec_lt_emax K64).
Notation val x := (B2R (sf2b K64 x)).

Lemma val_generic x : generic_format radix2 fexp64 (val x).
Proof. apply (generic_format_B2R (kprec K64) (kemax K64)). Qed.

Lemma fsub_RN a b : fin K64 a -> fin K64 b -> Rabs (val a - val b) <= bpow radix2 1023 ->
  fin K64 (fsub_ K64 a b) /\ val (fsub_ K64 a b) = RN64 (val a - val b).
Proof.
  intros Fa Fb G. unfold fsub_, op2, fin. rewrite sf2b_B2SF.
  generalize (Bminus_correct (kprec K64) (kemax K64) I64 J64 mode_NE _ _ Fa Fb). to_rn64.
  rewrite Rlt_bool_true.
  - intros (R & F & _). split; [exact F|exact R].
  - apply (lt_1024 1023); [lia|]. apply RN64_abs_le; [lia|exact G].
Qed.

Lemma fdiv_RN a b : fin K64 a -> fin_nz K64 b -> Rabs (val a / val b) <= bpow radix2 1023 ->
  fin K64 (fdiv K64 a b) /\ val (fdiv K64 a b) = RN64 (val a / val b).
Proof.
  intros Fa [Fb Zb] G. unfold fdiv, op2, fin. rewrite sf2b_B2SF.
  generalize (Bdiv_correct (kprec K64) (kemax K64) I64 J64 mode_NE (sf2b K64 a) (sf2b K64 b) Zb). to_rn64.
  rewrite Rlt_bool_true.
  - intros (R & F & _). split; [now rewrite F|exact R].
  - apply (lt_1024 1023); [lia|]. apply RN64_abs_le; [lia|exact G].
Qed.

(* np.rint: the nearest integer (ties to even), finite, and its C truncation is that integer *)
Lemma frint_RN a : fin K64 a ->
  fin K64 (frint K64 a) /\ val (frint K64 a) = IZR (ZnearestE (val a))
  /\ f_trunc K64 (frint K64 a) = Some (ZnearestE (val a)).
Proof.
  intros Fa. unfold frint, fin, f_trunc. rewrite sf2b_B2SF.
  destruct (Bnearbyint_correct (kprec K64) (kemax K64) J64 mode_NE (sf2b K64 a)) as (R & F & _).
  rewrite round_FIX_IZR in R. change (round_mode mode_NE) with ZnearestE in R.
  rewrite F, Fa. split; [reflexivity|]. split; [exact R|]. f_equal.
  apply eq_IZR. rewrite (Btrunc_correct (kprec K64) (kemax K64) J64), round_FIX_IZR, R.
  now rewrite Ztrunc_IZR.
Qed.

Lemma fone_val : fin K64 (fone K64) /\ val (fone K64) = 1.
Proof. unfold fone. destruct (f_of_Z_exact 1 ltac:(cbn; lia)) as [F R]. split; [exact F|exact R]. Qed.

Lemma fzero_val : fin K64 fzero /\ val fzero = 0.
Proof. unfold fin, fzero. rewrite sf2b_zero. split; reflexivity. Qed.

(* (a1) scale_w in binary64 is RN(RN(x - i) / s) *)
Lemma scale_RN sl it x : fin K64 x -> fin_nz K64 sl -> fin K64 it ->
  Rabs (val x - val it) <= bpow radix2 1023 ->
  Rabs (RN64 (val x - val it) / val sl) <= bpow radix2 1023 ->
  fin K64 (scale_w K64 sl it x)
  /\ val (scale_w K64 sl it x) = RN64 (RN64 (val x - val it) / val sl).
Proof.
  intros Fx Fsl Fi G1 G2. unfold scale_w.
  destruct fzero_val as [F0 V0]. destruct fone_val as [F1 V1].
  assert (S1 : exists u, (if feq K64 it fzero then x else fsub_ K64 x it) = u
                         /\ fin K64 u /\ val u = RN64 (val x - val it)).
  { destruct (feq K64 it fzero) eqn:E.
    - exists x. split; [reflexivity|]. split; [exact Fx|].
      rewrite (feq_true_R K64 it fzero Fi F0 E), V0, Rminus_0_r. symmetry. apply RN64_generic, val_generic.
    - eexists. split; [reflexivity|]. now apply fsub_RN. }
  destruct S1 as (u & -> & Fu & Vu).
  destruct (feq K64 sl (fone K64)) eqn:E.
  - split; [exact Fu|]. destruct Fsl as [Fsl _].
    rewrite (feq_true_R K64 sl (fone K64) Fsl F1 E), V1, Vu.
    unfold Rdiv. rewrite Rinv_1, Rmult_1_r. symmetry. apply RN64_idem.
  - rewrite <- Vu in G2 |- *. now apply fdiv_RN.
Qed.

Lemma fle_not_nan a b : fle K64 a b = true -> is_nan_sf a = false /\ is_nan_sf b = false.
Proof.
  unfold fle, fcmp. intros H. split.
  - destruct a; try reflexivity. rewrite sf2b_nan in H. discriminate.
  - destruct b; try reflexivity. rewrite sf2b_nan in H. destruct (sf2b K64 a); discriminate.
Qed.

(* inside the clip range np.clip is the identity *)
Lemma clip_id y lo hi : fle K64 lo y = true -> fle K64 y hi = true -> fclip K64 y lo hi = y.
Proof.
  intros H1 H2. destruct (fle_not_nan _ _ H1) as [Nl Ny]. destruct (fle_not_nan _ _ H2) as [_ Nh].
  unfold fclip, fmaximum, fminimum, fge. now rewrite Ny, Nl, H1, Ny, Nh, H2.
Qed.

(* (a) the write side: stored integer = rint(RN(RN(x - i)/s)) for an element inside the clip range *)
Lemma write_is_rounding sl it lo hi nf x :
  fin K64 x -> fin_nz K64 sl -> fin K64 it ->
  Rabs (val x - val it) <= bpow radix2 1023 ->
  Rabs (RN64 (val x - val it) / val sl) <= bpow radix2 1023 ->
  let y := frint K64 (scale_w K64 sl it x) in
  fle K64 lo y = true -> fle K64 y hi = true ->
  let k := ZnearestE (RN64 (RN64 (val x - val it) / val sl)) in
  elem_f K64 sl it lo hi nf x = y /\ f_trunc K64 y = Some k /\ val y = IZR k.
Proof.
  intros Fx Fsl Fi G1 G2 y H1 H2 k.
  destruct (scale_RN sl it x Fx Fsl Fi G1 G2) as [Fv Vv].
  destruct (frint_RN _ Fv) as (Fy & Vy & Ty). fold y in Fy, Vy, Ty. rewrite Vv in Vy, Ty.
  split; [|split; [exact Ty|exact Vy]].
  unfold elem_f. fold y. rewrite (clip_id y lo hi H1 H2).
  destruct (fle_not_nan _ _ H1) as [_ Ny]. destruct nf; [now rewrite Ny|reflexivity].
Qed.

(* ---------------------------------------------------------------- write then read *)
Lemma rint_small u : Rabs u <= bpow radix2 52 -> (Z.abs (ZnearestE (RN64 u)) < 2 ^ 53)%Z.
Proof.
  intros H. pose proof (RN64_abs_le u 52 ltac:(lia) H) as B.
  pose proof (Znearest_half (fun z => negb (Z.even z)) (RN64 u)) as Hh.
  set (k := ZnearestE (RN64 u)) in *.
  apply lt_IZR. rewrite abs_IZR. change (IZR (2 ^ 53)) with (bpow radix2 53).
  change (bpow radix2 53) with (2 * bpow radix2 52). 
  assert (1 <= bpow radix2 52) by (change 1 with (bpow radix2 0); apply bpow_le; lia).
  assert (Rabs (IZR k) <= Rabs (RN64 u) + / 2).
  { replace (IZR k) with (RN64 u - (RN64 u - IZR k)) by ring.
    eapply Rle_trans; [apply Rabs_triang|]. rewrite Rabs_Ropp. lra. }
  lra.
Qed.

(* (a) complete: for a binary64 element x, float32 slope s <> 0 and intercept i as stored in the
   header, no overflow (|x - i| <= 2^1023, |RN(x - i)/s| <= 2^52) and the rounded scaled value
   inside the clip range: the stored integer is k = rint(RN(RN(x - i)/s)) and the binary64 reload
   is RN(RN(k*s) + i) -- write and read are compositions of rounding operators *)
Lemma write_read_rounding slope32 inter32 lo hi nf x t :
  fin K64 x -> is_finite_strict (sf2b K32 slope32) = true -> is_finite (sf2b K32 inter32) = true ->
  let s := B2R (sf2b K32 slope32) in
  let i := B2R (sf2b K32 inter32) in
  let sl := fconv K64 slope32 in
  let it := fconv K64 inter32 in
  Rabs (val x - i) <= bpow radix2 1023 ->
  Rabs (RN64 (val x - i) / s) <= bpow radix2 52 ->
  let y := frint K64 (scale_w K64 sl it x) in
  fle K64 lo y = true -> fle K64 y hi = true ->
  let k := ZnearestE (RN64 (RN64 (val x - i) / s)) in
  let r := snd (read_elem t K64 sl it k) in
  f_trunc K64 (elem_f K64 sl it lo hi nf x) = Some k
  /\ fin K64 r /\ val r = RN64 (RN64 (IZR k * s) + i).
Proof.
  intros Fx Fs Fi s i sl it G1 G2 y H1 H2 k r.
  destruct (strict_fin_nz _ _ Fs) as [Fs1 Fs2].
  destruct (fconv_exact K32 K64 slope32 ltac:(cbn; lia) Fs1) as [Fsl Vsl].
  destruct (fconv_exact K32 K64 inter32 ltac:(cbn; lia) Fi) as [Fit Vit].
  fold sl in Fsl, Vsl. fold it in Fit, Vit. fold s in Vsl. fold i in Vit.
  assert (Hsl : fin_nz K64 sl) by (split; [exact Fsl|rewrite Vsl; exact Fs2]).
  assert (G1' : Rabs (val x - val it) <= bpow radix2 1023) by (rewrite Vit; exact G1).
  assert (G2' : Rabs (RN64 (val x - val it) / val sl) <= bpow radix2 1023).
  { rewrite Vit, Vsl. eapply Rle_trans; [exact G2|]. apply bpow_le. lia. }
  destruct (write_is_rounding sl it lo hi nf x Fx Hsl Fit G1' G2' H1 H2) as (E & T & _).
  rewrite Vit, Vsl in T. fold k in T.
  split; [rewrite E; exact T|].
  pose proof (rint_small _ G2) as Hk. fold k in Hk.
  exact (reload_rounding_f32 slope32 inter32 k t Hk Fs1 Fi).
Qed.

(* ---------------------------------------------------------------- (b) slope-only, end to end *)
#[local] Instance prec53 : FLX.Prec_gt_0 53.
Proof. reflexivity. Qed.

Lemma ulp64_le u : ulp radix2 fexp64 u <= Rabs u * bpow radix2 (-52) + bpow radix2 (-1074).
Proof.
  pose proof (bpow_gt_0 radix2 (-1074)) as P. pose proof (bpow_gt_0 radix2 (-52)) as P2.
  pose proof (Rabs_pos u) as Pu.
  destruct (Rlt_or_le (Rabs u) (bpow radix2 (-1022))) as [S|L].
  - rewrite (ulp_FLT_small radix2 (-1074) 53 u).
    + assert (0 <= Rabs u * bpow radix2 (-52)) by (apply Rmult_le_pos; lra). lra.
    + eapply Rlt_trans; [exact S|]. apply bpow_lt. lia.
  - pose proof (ulp_FLT_le radix2 (-1074) 53 u L) as H. change (1 - 53)%Z with (-52)%Z in H. lra.
Qed.

(* pure real statement: write y = RN(x/s), k = rint(y), reload r = RN(k*s) *)
Lemma gap_bound_real x s : s <> 0 -> Rabs (x / s) <= bpow radix2 52 -> bpow radix2 (-149) <= Rabs s ->
  let k := ZnearestE (RN64 (x / s)) in
  let r := RN64 (IZR k * s) in
  Rabs (r - x) <= Rabs s * / 2 + Rabs x * bpow radix2 (-52) + Rabs s * bpow radix2 (-52).
Proof.
  intros Hs Hq Hmin k r.
  pose proof (float_gap_real x s Hs) as G. cbv zeta in G. fold k in G. fold r in G.
  pose proof (ulp64_le (x / s)) as U1. pose proof (ulp64_le (IZR k * s)) as U2.
  set (E := bpow radix2 (-1074)) in *. set (h := bpow radix2 (-53)).
  assert (Hh : bpow radix2 (-52) = 2 * h).
  { unfold h. change (-52)%Z with (1 + -53)%Z. rewrite bpow_plus. reflexivity. }
  rewrite Hh in *.
  assert (Ph : 0 < h) by apply bpow_gt_0. assert (PE : 0 < E) by apply bpow_gt_0.
  assert (h1 : h <= / 4).
  { unfold h. change (/ 4) with (bpow radix2 (-2)). apply bpow_le. lia. }
  assert (E1 : E <= h * / 4).
  { unfold E, h. change (/ 4) with (bpow radix2 (-2)). rewrite <- bpow_plus. apply bpow_le. lia. }
  assert (E2 : E <= Rabs s * (h * / 4)).
  { unfold E. replace (bpow radix2 (-1074)) with (bpow radix2 (-149) * bpow radix2 (-925))
      by (rewrite <- bpow_plus; reflexivity).
    apply Rmult_le_compat; try (apply Rlt_le, bpow_gt_0); [exact Hmin|].
    unfold h. change (/ 4) with (bpow radix2 (-2)). rewrite <- bpow_plus. apply bpow_le. lia. }
  assert (Ps : 0 < Rabs s) by (apply Rabs_pos_lt; exact Hs).
  assert (Qh : Rabs (x / s) * h <= / 2).
  { replace (/ 2) with (bpow radix2 52 * h).
    - apply Rmult_le_compat_r; lra.
    - unfold h. rewrite <- bpow_plus. reflexivity. }
  assert (Xs : Rabs s * Rabs (x / s) = Rabs x).
  { rewrite <- Rabs_mult. f_equal. field. exact Hs. }
  (* |k*s| <= |x| + |s| * (1 + E/2) *)
  assert (K : Rabs (IZR k * s) <= Rabs x + Rabs s * (1 + E / 2)).
  { pose proof (Znearest_half (fun z => negb (Z.even z)) (RN64 (x / s))) as Z1. fold (ZnearestE (RN64 (x / s))) in Z1. fold k in Z1.
    assert (Z2 : Rabs (RN64 (x / s) - x / s) <= / 2 * ulp radix2 fexp64 (x / s)).
    { unfold RN64. exact (error_le_half_ulp radix2 fexp64 (fun z => negb (Z.even z)) (x / s)). }
    assert (D : Rabs (IZR k - x / s) <= 1 + E / 2).
    { replace (IZR k - x / s) with (- (RN64 (x / s) - IZR k) + (RN64 (x / s) - x / s)) by ring.
      eapply Rle_trans; [apply Rabs_triang|]. rewrite Rabs_Ropp. lra. }
    replace (IZR k * s) with (x + s * (IZR k - x / s)) by (field; exact Hs).
    eapply Rle_trans; [apply Rabs_triang|]. rewrite Rabs_mult.
    assert (Rabs s * Rabs (IZR k - x / s) <= Rabs s * (1 + E / 2)) by (apply Rmult_le_compat_l; lra).
    lra. }
  assert (T1 : Rabs s * (/ 2 * ulp radix2 fexp64 (x / s)) <= Rabs x * h + Rabs s * (E / 2)).
  { assert (Rabs s * (/ 2 * ulp radix2 fexp64 (x / s)) <= Rabs s * (/ 2 * (Rabs (x / s) * (2 * h) + E)))
      by (apply Rmult_le_compat_l; lra).
    replace (Rabs s * (/ 2 * (Rabs (x / s) * (2 * h) + E))) with (Rabs s * Rabs (x / s) * h + Rabs s * (E / 2)) in H by field.
    rewrite Xs in H. exact H. }
  assert (T2 : / 2 * ulp radix2 fexp64 (IZR k * s) <= (Rabs x + Rabs s * (1 + E / 2)) * h + E / 2).
  { assert (Rabs (IZR k * s) * h <= (Rabs x + Rabs s * (1 + E / 2)) * h) by (apply Rmult_le_compat_r; lra).
    lra. }
  assert (M1 : Rabs s * (E / 2) <= Rabs s * (h * / 8)) by (apply Rmult_le_compat_l; lra).
  assert (M2 : Rabs s * (E / 2) * h <= Rabs s * (h * / 8)).
  { assert (E / 2 * h <= h * / 8) by nra. replace (Rabs s * (E / 2) * h) with (Rabs s * (E / 2 * h)) by ring.
    apply Rmult_le_compat_l; lra. }
  assert (Px : 0 <= Rabs x) by apply Rabs_pos.
  nra.
Qed.

(* (b) C02_float_gap_slope_only: binary64 working format, slope-only branch (intercept 0: SPM, or
   NIfTI data whose range needs no offset), float32 slope s <> 0 as stored, element x with
   |x/s| <= 2^52 whose rounded scaled value lies inside the clip range.  The stored integer is
   k = rint(RN(x/s)) and the binary64 reload r satisfies
        |r - x| <= |s|/2 + |x| * 2^-52 + |s| * 2^-52. *)
Lemma slope_only_gap slope32 lo hi nf x t :
  fin K64 x -> is_finite_strict (sf2b K32 slope32) = true ->
  let s := B2R (sf2b K32 slope32) in
  let sl := fconv K64 slope32 in
  Rabs (val x / s) <= bpow radix2 52 ->
  let y := frint K64 (scale_w K64 sl fzero x) in
  fle K64 lo y = true -> fle K64 y hi = true ->
  let k := ZnearestE (RN64 (val x / s)) in
  let r := snd (read_elem t K64 sl fzero k) in
  f_trunc K64 (elem_f K64 sl fzero lo hi nf x) = Some k
  /\ fin K64 r
  /\ Rabs (val r - val x) <= Rabs s * / 2 + Rabs (val x) * bpow radix2 (-52) + Rabs s * bpow radix2 (-52).
Proof.
  intros Fx Fs s sl Hq y H1 H2 k r.
  destruct (strict_fin_nz _ _ Fs) as [Fs1 Fs2]. fold s in Fs2.
  assert (Fz : is_finite (sf2b K32 (S754_zero false)) = true) by (rewrite sf2b_zero; reflexivity).
  assert (Vz : B2R (sf2b K32 (S754_zero false)) = 0) by (rewrite sf2b_zero; reflexivity).
  assert (Bs : Rabs s < bpow radix2 128) by apply (abs_B2R_lt_emax (kprec K32) (kemax K32)).
  assert (Ms : bpow radix2 (-149) <= Rabs s) by (apply (abs_B2R_ge_emin (kprec K32) (kemax K32)); exact Fs).
  assert (Ps : 0 < Rabs s) by (apply Rabs_pos_lt; exact Fs2).
  assert (Xb : Rabs (val x) <= bpow radix2 1023).
  { replace (val x) with (val x / s * s) by (field; exact Fs2). rewrite Rabs_mult.
    apply Rle_trans with (bpow radix2 52 * bpow radix2 128).
    - apply Rmult_le_compat; try apply Rabs_pos; lra.
    - rewrite <- bpow_plus. apply bpow_le. lia. }
  assert (Gx : RN64 (val x - 0) = val x) by (rewrite Rminus_0_r; apply RN64_generic, val_generic).
  pose proof (write_read_rounding slope32 (S754_zero false) lo hi nf x t Fx Fs Fz) as W.
  cbv zeta in W. rewrite Vz in W. rewrite Gx in W.
  change (fconv K64 (S754_zero false)) with fzero in W. fold s in W. fold sl in W.
  specialize (W ltac:(rewrite Rminus_0_r; exact Xb) Hq H1 H2). fold k in W. fold r in W.
  destruct W as (T & Fr & Vr). split; [exact T|]. split; [exact Fr|].
  rewrite Vr, Rplus_0_r, RN64_idem. exact (gap_bound_real (val x) s Fs2 Hq Ms).
Qed.

(* ---------------------------------------------------------------- (c) intercept branch *)
Lemma RN64_err u : Rabs (RN64 u - u) <= / 2 * ulp radix2 fexp64 u.
Proof. unfold RN64. exact (error_le_half_ulp radix2 fexp64 (fun z => negb (Z.even z)) u). Qed.

(* pure real statement: u = RN(x - i), y = RN(u/s), k = rint(y), p = RN(k*s), r = RN(p + i) *)
Lemma gap_inter_real x s i : s <> 0 ->
  let u := RN64 (x - i) in
  let k := ZnearestE (RN64 (u / s)) in
  let p := RN64 (IZR k * s) in
  let r := RN64 (p + i) in
  Rabs (r - x) <= Rabs s * / 2
                  + / 2 * ulp radix2 fexp64 (x - i) + Rabs s * (/ 2 * ulp radix2 fexp64 (u / s))
                  + / 2 * ulp radix2 fexp64 (IZR k * s) + / 2 * ulp radix2 fexp64 (p + i).
Proof.
  intros Hs u k p r.
  pose proof (RN64_err (x - i)) as E1. fold u in E1.
  pose proof (RN64_err (u / s)) as E2.
  pose proof (Znearest_half (fun z => negb (Z.even z)) (RN64 (u / s))) as E3.
  fold (ZnearestE (RN64 (u / s))) in E3. fold k in E3.
  pose proof (RN64_err (IZR k * s)) as E4. fold p in E4.
  pose proof (RN64_err (p + i)) as E5. fold r in E5.
  replace (r - x) with ((r - (p + i)) + (p - IZR k * s)
                        + s * ((IZR k - RN64 (u / s)) + (RN64 (u / s) - u / s)) + (u - (x - i)))
    by (field; exact Hs).
  assert (A : Rabs ((IZR k - RN64 (u / s)) + (RN64 (u / s) - u / s)) <= / 2 + / 2 * ulp radix2 fexp64 (u / s)).
  { eapply Rle_trans; [apply Rabs_triang|]. rewrite (Rabs_minus_sym (IZR k)). lra. }
  pose proof (Rabs_pos s) as Ps.
  assert (M : Rabs (s * ((IZR k - RN64 (u / s)) + (RN64 (u / s) - u / s)))
              <= Rabs s * (/ 2 + / 2 * ulp radix2 fexp64 (u / s))).
  { rewrite Rabs_mult. apply Rmult_le_compat_l; assumption. }
  eapply Rle_trans; [apply Rabs_triang|]. eapply Rle_trans; [apply Rplus_le_compat_r, Rabs_triang|].
  eapply Rle_trans; [apply Rplus_le_compat_r, Rplus_le_compat_r, Rabs_triang|]. lra.
Qed.

(* (c) C02_float_gap_intercept (ulp form): binary64 working format, float32 slope and intercept
   as stored, no overflow, element inside the clip range *)
Lemma intercept_gap slope32 inter32 lo hi nf x t :
  fin K64 x -> is_finite_strict (sf2b K32 slope32) = true -> is_finite (sf2b K32 inter32) = true ->
  let s := B2R (sf2b K32 slope32) in
  let i := B2R (sf2b K32 inter32) in
  let sl := fconv K64 slope32 in
  let it := fconv K64 inter32 in
  Rabs (val x - i) <= bpow radix2 1023 ->
  Rabs (RN64 (val x - i) / s) <= bpow radix2 52 ->
  let y := frint K64 (scale_w K64 sl it x) in
  fle K64 lo y = true -> fle K64 y hi = true ->
  let u := RN64 (val x - i) in
  let k := ZnearestE (RN64 (u / s)) in
  let p := RN64 (IZR k * s) in
  let r := snd (read_elem t K64 sl it k) in
  f_trunc K64 (elem_f K64 sl it lo hi nf x) = Some k /\ fin K64 r
  /\ Rabs (val r - val x) <= Rabs s * / 2
        + / 2 * ulp radix2 fexp64 (val x - i) + Rabs s * (/ 2 * ulp radix2 fexp64 (u / s))
        + / 2 * ulp radix2 fexp64 (IZR k * s) + / 2 * ulp radix2 fexp64 (p + i).
Proof.
  intros Fx Fs Fi s i sl it G1 G2 y H1 H2 u k p r.
  destruct (strict_fin_nz _ _ Fs) as [_ Fs2]. fold s in Fs2.
  destruct (write_read_rounding slope32 inter32 lo hi nf x t Fx Fs Fi G1 G2 H1 H2) as (T & Fr & Vr).
  split; [exact T|]. split; [exact Fr|].
  fold s i sl it in Vr. fold u in Vr. fold k in Vr. fold r in Vr. rewrite Vr.
  exact (gap_inter_real (val x) s i Fs2).
Qed.

(* ---------------------------------------------------------------- (d) clipped elements *)
(* strictly above the upper clip bound the stored integer is the bound's; the reload is the clip
   limit in data units, zhi*s + i, up to the read rounding (C02_read_error_real); so the error
   of a clipped element is its distance to the clip limit plus that rounding *)
Lemma clipped_above slope32 inter32 lo hi yv zhi t :
  fle K64 lo hi = true -> flt K64 hi yv = true -> is_nan_sf yv = false ->
  f_trunc K64 hi = Some zhi -> (Z.abs zhi < 2 ^ 53)%Z ->
  is_finite (sf2b K32 slope32) = true -> is_finite (sf2b K32 inter32) = true ->
  let s := B2R (sf2b K32 slope32) in
  let i := B2R (sf2b K32 inter32) in
  fclip K64 yv lo hi = hi
  /\ let r := snd (read_elem t K64 (fconv K64 slope32) (fconv K64 inter32) zhi) in
     val r = RN64 (RN64 (IZR zhi * s) + i)
     /\ Rabs (val r - (IZR zhi * s + i))
        <= / 2 * ulp radix2 fexp64 (IZR zhi * s) + / 2 * ulp radix2 fexp64 (RN64 (IZR zhi * s) + i).
Proof.
  intros Hlh Hy Ny Th Hz Fs Fi s i.
  destruct (fle_not_nan _ _ Hlh) as [Nl Nh].
  assert (L : fle K64 lo yv = true).
  { apply (fle_trans K64 lo hi yv Hlh). unfold fle. unfold flt in Hy.
    destruct (fcmp K64 hi yv) as [[| |]|]; try discriminate; reflexivity. }
  assert (U : fle K64 yv hi = false).
  { unfold fle, fcmp. unfold flt, fcmp in Hy.
    rewrite (Bcompare_swap _ _ (sf2b K64 hi) (sf2b K64 yv)).
    destruct (Bcompare (sf2b K64 hi) (sf2b K64 yv)) as [[| |]|]; try discriminate; reflexivity. }
  split.
  - unfold fclip, fmaximum, fminimum, fge. now rewrite Ny, Nl, L, Ny, Nh, U.
  - intros r. destruct (reload_rounding_f32 slope32 inter32 zhi t Hz Fs Fi) as [_ V].
    fold s i in V. fold r in V. split; [exact V|]. rewrite V. apply read_error_real.
Qed.

Lemma clipped_below slope32 inter32 lo hi yv zlo t :
  fle K64 lo hi = true -> flt K64 yv lo = true -> is_nan_sf yv = false ->
  f_trunc K64 lo = Some zlo -> (Z.abs zlo < 2 ^ 53)%Z ->
  is_finite (sf2b K32 slope32) = true -> is_finite (sf2b K32 inter32) = true ->
  let s := B2R (sf2b K32 slope32) in
  let i := B2R (sf2b K32 inter32) in
  fclip K64 yv lo hi = lo
  /\ let r := snd (read_elem t K64 (fconv K64 slope32) (fconv K64 inter32) zlo) in
     val r = RN64 (RN64 (IZR zlo * s) + i)
     /\ Rabs (val r - (IZR zlo * s + i))
        <= / 2 * ulp radix2 fexp64 (IZR zlo * s) + / 2 * ulp radix2 fexp64 (RN64 (IZR zlo * s) + i).
Proof.
  intros Hlh Hy Ny Tl Hz Fs Fi s i.
  destruct (fle_not_nan _ _ Hlh) as [Nl Nh].
  assert (U : fle K64 lo yv = false).
  { unfold fle, fcmp. unfold flt, fcmp in Hy.
    rewrite (Bcompare_swap _ _ (sf2b K64 yv) (sf2b K64 lo)).
    destruct (Bcompare (sf2b K64 yv) (sf2b K64 lo)) as [[| |]|]; try discriminate; reflexivity. }
  split.
  - unfold fclip, fmaximum, fminimum, fge. now rewrite Ny, Nl, U, Nl, Nh, Hlh.
  - intros r. destruct (reload_rounding_f32 slope32 inter32 zlo t Hz Fs Fi) as [_ V].
    fold s i in V. fold r in V. split; [exact V|]. rewrite V. apply read_error_real.
Qed.

(* ---------------------------------------------------------------- the float32 setter *)
Require Import Flocq.Prop.Relative.
Notation fexp32 := (FLT_exp (-149) 24).
#[local] Instance prec24 : FLX.Prec_gt_0 24.
Proof. reflexivity. Qed.
Definition RN32 (x : R) : R := round radix2 fexp32 ZnearestE x.

(* the slope (or intercept) computed by _range_scale in longdouble, S, is stored as float32(S):
   in the normal range of float32 the stored value is RN32(S), finite, with relative error at
   most 2^-24; below 2^-126 (subnormal) only the absolute error 2^-150 is guaranteed: the
   source of finding S-C02c *)
Lemma setter_rounding S : is_finite (sf2b K80 S) = true ->
  let v := B2R (sf2b K80 S) in
  Rabs (RN32 v) < bpow radix2 128 ->
  is_finite (sf2b K32 (fconv K32 S)) = true
  /\ B2R (sf2b K32 (fconv K32 S)) = RN32 v
  /\ (bpow radix2 (-126) <= Rabs v -> Rabs (RN32 v - v) <= bpow radix2 (-24) * Rabs v)
  /\ (Rabs v < bpow radix2 (-126) -> Rabs (RN32 v - v) <= bpow radix2 (-150)).
Proof.
  intros FS v G.
  assert (V32 : Valid_exp fexp32) by (apply FLT_exp_valid; reflexivity).
  assert (R3 : bpow radix2 (-126) <= Rabs v -> Rabs (RN32 v - v) <= bpow radix2 (-24) * Rabs v).
  { intros Hn. unfold RN32.
    pose proof (relative_error_N_FLT radix2 (-149) 24 ltac:(reflexivity) (fun z => negb (Z.even z)) v Hn) as H.
    replace (/ 2 * bpow radix2 (- (24) + 1)) with (bpow radix2 (-24)) in H; [exact H|].
    change (- (24) + 1)%Z with (1 + -24)%Z. rewrite bpow_plus. change (bpow radix2 1) with 2. field. }
  assert (R4 : Rabs v < bpow radix2 (-126) -> Rabs (RN32 v - v) <= bpow radix2 (-150)).
  { intros Sm. unfold RN32.
    pose proof (error_le_half_ulp radix2 fexp32 (fun z => negb (Z.even z)) v) as H.
    rewrite (ulp_FLT_small radix2 (-149) 24 v) in H by (eapply Rlt_le_trans; [exact Sm|apply bpow_le; lia]).
    replace (bpow radix2 (-150)) with (/ 2 * bpow radix2 (-149)); [exact H|].
    change (-149)%Z with (1 + -150)%Z. rewrite bpow_plus. change (bpow radix2 1) with 2. field. }
  (* the conversion itself *)
  assert (C : is_finite (sf2b K32 (fconv K32 S)) = true /\ B2R (sf2b K32 (fconv K32 S)) = RN32 v).
  { destruct S as [sg|sg| |sg m e].
    - cbn [fconv]. unfold v. rewrite !sf2b_zero. cbn [B2R is_finite]. split; [reflexivity|].
      unfold RN32. symmetry. apply round_0. exact _.
    - rewrite sf2b_inf in FS. discriminate.
    - rewrite sf2b_nan in FS. discriminate.
    - assert (Hv : exists H, sf2b K80 (S754_finite sg m e) = B754_finite sg m e H).
      { unfold sf2b in *.
        destruct (Bool.bool_dec (valid_binary (kprec K80) (kemax K80) (S754_finite sg m e)) true) as [H|n];
          [exists H; reflexivity|discriminate]. }
      destruct Hv as (H & Ek). unfold v in *. rewrite Ek in *. cbn [B2R] in *. cbn [fconv]. rewrite sf2b_B2SF.
      generalize (binary_normalize_correct (kprec K32) (kemax K32) (kprec_gt_0 K32) (kprec_lt_emax K32)
                    mode_NE (cond_Zopp sg (Z.pos m)) e sg).
      cbv zeta.
      change (round radix2 (SpecFloat.fexp (kprec K32) (kemax K32)) (round_mode mode_NE)
                (F2R (Float radix2 (cond_Zopp sg (Z.pos m)) e)))
        with (RN32 (F2R (Float radix2 (cond_Zopp sg (Z.pos m)) e))).
      rewrite Rlt_bool_true by exact G.
      intros (R & F & _). split; [exact F|exact R]. }
  destruct C as [C1 C2]. repeat split; assumption.
Qed.
