(* C02/Props.v — property theorems only.  Property C02: rescaled integer storage — bounded
   error, no wrap-around, or a loud refusal.  Each theorem is closed by `exact <lemma>` and
   followed by Print Assumptions. *)
From Coq Require Import ZArith QArith Qabs Reals List Bool Lia Floats.SpecFloat.
From Flocq Require Import Core.Zaux Core.Raux Core.Defs Core.Generic_fmt Core.Round_NE Core.Ulp Core.FLT IEEE754.BinarySingleNaN.
From NV Require Import C02.Model C02.Tables C02.Lemmas C02.ModelQ C02.LemmasQ C02.ModelF C02.LemmasF C02.LemmasFW C02.LemmasFN C02.LemmasFR C02.LemmasFG C02.LemmasFA C02.LemmasFI C02.LemmasFB.
Import ListNotations.
Open Scope Z_scope.

(* ---------------------------------------------------------------- integer layer *)

(* floor_exact / ceil_exact, for EVERY integer v and EVERY float format (precision p >= 1,
   exponent bound emax >= p, conversion int -> float either correctly rounded or double
   rounded through a wider format): a finite result is representable with p significant
   bits, is <= v (>= v for ceil) and no representable integer lies strictly between it and
   v; +inf is returned only for v above the largest finite float, -inf only below its
   negative; the only error is CPython's integer-string limit (longdouble); the assert
   `biggest_gap > 1` never fails. *)
Theorem C02_floor_exact_spec : forall f v, wf_fmt f ->
  floor_post f v (floor_exact f v) /\ ceil_post f v (ceil_exact f v).
Proof. exact floor_ceil_exact_spec. Qed.
Print Assumptions C02_floor_exact_spec.

(* ... and the formats of this platform (float16/32/64/longdouble as read from NumPy) are
   such formats *)
Theorem C02_platform_formats_wf : forall f, In f all_fmts -> wf_fmt f.
Proof. exact all_fmts_wf. Qed.
Print Assumptions C02_platform_formats_wf.

(* shared_range: finite, representable bounds around 0 inside the integer type -- for every
   well-formed format and every integer width (derived from C02_floor_exact_spec) ... *)
Theorem C02_shared_range_safe : forall tr f t, wf_fmt f -> 1 <= iwidth t ->
  (strlim f = 0 \/ 2 ^ iwidth t < 10 ^ strlim f) ->
  sr_post f t (shared_range tr f t).
Proof. exact shared_range_safe_gen. Qed.
Print Assumptions C02_shared_range_safe.

(* ... and by complete enumeration (vm_compute) of the 4 float formats x 8 integer types of
   this platform, with this platform's TRUNC_UINT64 *)
Theorem C02_shared_range_safe_table : forall f t, In f all_fmts -> In t all_itys ->
  sr_post f t (shared_range trunc_uint64 f t).
Proof. exact shared_range_safe_table. Qed.
Print Assumptions C02_shared_range_safe_table.

Theorem C02_int_abs_spec : forall t v, 1 <= iwidth t -> imin t <= v <= imax t ->
  int_abs t v = Z.abs v.
Proof. exact int_abs_spec. Qed.
Print Assumptions C02_int_abs_spec.

(* (u)int -> (u)int: whatever calc_scale decides without going to range scaling keeps every
   data value inside the on-disk integer type (so the final cast preserves the value); the
   plain writer refuses exactly when some value does not fit *)
Theorem C02_iu_decide_sound : forall k tr sc tin tout mn mx, wf_fmt sc -> strlim sc = 0 ->
  1 <= iwidth tin -> 1 <= iwidth tout -> imin tin <= mn -> mn <= mx -> mx <= imax tin ->
  iu_post k tin tout mn mx sc (iu_decide k tr sc tin tout mn mx).
Proof. exact iu_decide_post. Qed.
Print Assumptions C02_iu_decide_sound.

(* ---------------------------------------------------------------- refusal *)
(* decision table of the header setters: a class without a slope field stores only
   (slope, inter) = (1, 0); a class without an intercept field stores only inter = 0 *)
Theorem C02_refusal_header : forall c s1 i0, set_slope_inter c s1 i0 = Stored ->
  (has_slope c = false -> s1 = true /\ i0 = true) /\ (has_inter c = false -> i0 = true).
Proof. exact set_slope_inter_table. Qed.
Print Assumptions C02_refusal_header.

(* the image save (analyze.py to_file_map: make_array_writer, header.set_slope_inter, write) in
   the exact float model: whenever a class that is not `direct` succeeds, a class without a
   slope field stored (1, 0) and a class without an intercept field stored intercept 0 -- every
   other case ended in an Err (WriterError / HeaderTypeError / HeaderDataError / ValueError) *)
Theorem C02_refusal : forall c d tout sc o, direct c = false -> image_write c d tout = Ok (sc, o) ->
  (has_slope c = false -> sc = scaling_default) /\ (has_inter c = false -> s_inter sc = fzero).
Proof. exact refusal_image. Qed.
Print Assumptions C02_refusal.

(* FULL STATEMENT (every class that cannot store the required scaling refuses) is false of
   the faithful model for the `direct` class (MGH calls array_to_file without a writer):
   finding S-C02b. *)
Theorem C02_refusal_direct_refuted :
  exists o, image_write caps_mgh (InF K32 [S754_finite false 16000000 (-4)]) ity_int16 = Ok (scaling_default, o)
            /\ o_raw o = [32767].
Proof. exact mgh_clips_witness. Qed.
Print Assumptions C02_refusal_direct_refuted.

(* the plain writer (classes without scaling fields: Analyze) and float data: FULL STATEMENT, holds
   since fix b5843164 (former finding S-C02d, refuted before the repair): it writes float data to
   an integer type only when every finite value is zero and there is no infinity (NaN -> 0);
   everything else is a WriterError.  In particular [0, +inf] as uint8 is refused. *)
Theorem C02_plain_float_refusal : forall k xs tout sc o,
  writer_write WPlain (InF k xs) tout = Ok (sc, o) ->
  sc = scaling_default /\ existsb is_inf_sf xs = false
  /\ (let v := view (InF k xs) in num_eq (d_mn v) (NI 0) && num_eq (d_mx v) (NI 0)) = true.
Proof. exact plain_float_accepts. Qed.
Print Assumptions C02_plain_float_refusal.

Theorem C02_plain_inf_refused :
  image_write caps_analyze (InF K32 [S754_zero false; S754_infinity false]) ity_uint8 = Err EWriterError.
Proof. exact plain_inf_refused. Qed.
Print Assumptions C02_plain_inf_refused.

(* the Flocq format constants of the float layer are the formats the running NumPy reports *)
Theorem C02_tables_match : tables_matchb = true.
Proof. exact tables_match. Qed.
Print Assumptions C02_tables_match.

(* ---------------------------------------------------------------- ideal layer (rationals) *)

(* no wrap-around, over the ideal/Z clip model: for ANY element x (finite, +-inf, NaN), any
   scaled thresholds p_mn, p_mx (not NaN, in either order, possibly infinite) and any safe
   range [bmn, bmx] inside the integer type (C02_shared_range_safe), the value handed to the
   final cast is an integer k with bmn <= k <= bmx, so the cast preserves it (no wrap).  With
   fix 104ec932 in place this needs NO hypothesis relating p_mn/p_mx to the safe range. *)
Theorem C02_no_wrap : forall t s i p_mn p_mx bmn bmx nf x,
  1 <= iwidth t -> xi_nan p_mn = false -> xi_nan p_mx = false ->
  imin t <= bmn -> bmn <= bmx -> bmx <= imax t ->
  match nf with Some n => bmn <= n <= bmx | None => x <> XQNaN end ->
  let '(q_mn, q_mx) := post_bounds p_mn p_mx bmn bmx in
  exists k, elem_q s i q_mn q_mx nf x = XI k
            /\ bmn <= k <= bmx
            /\ cast_xi t (XI k) = (k, false) /\ wrap t k = k.
Proof. exact no_wrap_q. Qed.
Print Assumptions C02_no_wrap.

(* ideal quantisation error: slope s <> 0, intercept i, x with rint((x - i)/s) inside the clip
   range: the stored integer k reloads as k*s + i within |s|/2 of x *)
Theorem C02_ideal_error_bound : forall s i a b nf q, ~ (s == 0)%Q ->
  a <= rint_q ((q - i) / s) <= b ->
  exists k, elem_q s i (XI a) (XI b) nf (XQ q) = XI k
            /\ (Qabs (read_q s i k - q) <= Qabs s * (1 # 2))%Q.
Proof. exact ideal_error_bound. Qed.
Print Assumptions C02_ideal_error_bound.

(* NaN -> nan_fill (reloading within half a step of 0 when nan_fill = rint((0 - i)/s));
   +-inf -> the clip bounds; a clip bound rint((m - i)/s) reloads within half a step of m *)
Theorem C02_nan_inf : forall s i a b n, ~ (s == 0)%Q -> a <= b ->
  elem_q s i (XI a) (XI b) (Some n) XQNaN = XI n
  /\ (n = rint_q ((0 - i) / s) -> (Qabs (read_q s i n - 0) <= Qabs s * (1 # 2))%Q)
  /\ (forall nf, elem_q s i (XI a) (XI b) nf XQPInf = XI (if Qlt_le_dec 0 s then b else a))
  /\ (forall nf, elem_q s i (XI a) (XI b) nf XQNInf = XI (if Qlt_le_dec 0 s then a else b))
  /\ (forall m k, k = rint_q ((m - i) / s) -> (Qabs (read_q s i k - m) <= Qabs s * (1 # 2))%Q).
Proof. exact nan_inf_q. Qed.
Print Assumptions C02_nan_inf.

(* ---------------------------------------------------------------- exact float layer: no wrap *)

(* C02_no_wrap_float: the exact-float counterpart of C02_no_wrap, for every working format w.
   For ANY element x, slope and intercept (whatever (x - inter)/slope rounds to: finite, +-inf,
   or NaN when nan2zero supplies a fill value), clip bounds lo <= hi that are finite floats
   with integer values zlo, zhi inside a safe range [A, Z] of the integer type: the float
   handed to the final cast is finite, its C truncation z lies in [A, Z] (in [zlo, zhi] unless
   it is the nan fill), the cast is value-preserving and wrap is the identity.  Premise for
   nan2zero = False: the scaled value is not NaN (array_to_file turns nan2zero off only for
   integer input or NaN-free float input). *)
Theorem C02_no_wrap_float : forall w t sl it lo hi nf x zlo zhi A Z,
  1 <= iwidth t ->
  f_trunc w lo = Some zlo -> f_trunc w hi = Some zhi -> fle w lo hi = true ->
  imin t <= A -> A <= zlo -> zhi <= Z -> Z <= imax t ->
  match nf with
  | Some n => exists zn, f_trunc w n = Some zn /\ A <= zn <= Z
  | None => is_nan_sf (frint w (scale_w w sl it x)) = false
  end ->
  exists z, f_trunc w (elem_f w sl it lo hi nf x) = Some z
            /\ A <= z <= Z
            /\ (is_nan_sf (frint w (scale_w w sl it x)) = false -> zlo <= z <= zhi)
            /\ cast_to_int w t (elem_f w sl it lo hi nf x) = (z, false)
            /\ wrap t z = z.
Proof. exact no_wrap_float. Qed.
Print Assumptions C02_no_wrap_float.

(* ... and with the bounds array_to_file actually computes on this platform: for the three
   working formats x eight integer types (complete enumeration by vm_compute: shared_range
   succeeds, its bounds convert exactly to the working format, in order, inside the type),
   ANY scaled thresholds p_mn, p_mx that are valid non-NaN floats (in either order, +-inf
   included), through post_bounds_f (swap, intersection, ordering repair of fix 104ec932):
   the value handed to the cast is an integer z inside the safe range, no wrap.  Premises kept
   explicit (simple IEEE facts, not proved here): p_mn/p_mx are not NaN, and the nan fill lies
   in the safe range (array_to_file checks or clips it). *)
Theorem C02_no_wrap_float_platform : forall w t sl it p_mn p_mx nf x,
  In w [K32; K64; K80] -> In t all_itys ->
  bnan w p_mn = false -> bnan w p_mx = false ->
  exists bmn bmx, sr_k w t = Ok (bmn, bmx) /\ imin t <= bmn /\ bmx <= imax t /\
    let both_mn := f_of_Z w bmn in let both_mx := f_of_Z w bmx in
    (match nf with
     | Some n => inrange w both_mn both_mx n
     | None => is_nan_sf (frint w (scale_w w sl it x)) = false
     end ->
     let '(q_mn, q_mx) := post_bounds_f w p_mn p_mx both_mn both_mx in
     exists z, cast_to_int w t (elem_f w sl it q_mn q_mx nf x) = (z, false)
               /\ bmn <= z <= bmx /\ wrap t z = z).
Proof. exact no_wrap_platform. Qed.
Print Assumptions C02_no_wrap_float_platform.

(* C02_no_wrap_float_inputs: the premises reduced to facts about the INPUTS only.  For the three
   working formats x eight integer types, a slope that is a finite non-zero float and an
   intercept that is a finite float of any format not wider than the working format (the
   float32 header values; conversion to the working format is exact, lemma fconv_exact), ANY
   non-NaN thresholds e_mn, e_mx (finite range of the data or -inf/+inf), and an element that is
   either anything (nan2zero, nan fill inside the safe range) or not NaN (nan2zero off): the
   scaled thresholds and the scaled element are never NaN (Bminus/Bdiv/Bnearbyint never produce
   NaN from non-NaN operands with a finite non-zero divisor) and the value handed to the final
   cast is an integer inside the safe range: no wrap. *)
Theorem C02_no_wrap_float_inputs : forall w t ks ki slope inter e_mn e_mx nf x,
  In w [K32; K64; K80] -> In t all_itys -> krank ks <= krank w -> krank ki <= krank w ->
  is_finite_strict (sf2b ks slope) = true -> is_finite (sf2b ki inter) = true ->
  bnan w e_mn = false -> bnan w e_mx = false ->
  let sl := fconv w slope in
  let it := fconv w inter in
  let p_mn := frint w (scale_w w sl it e_mn) in
  let p_mx := frint w (scale_w w sl it e_mx) in
  exists bmn bmx, sr_k w t = Ok (bmn, bmx) /\ imin t <= bmn /\ bmx <= imax t /\
    let both_mn := f_of_Z w bmn in let both_mx := f_of_Z w bmx in
    (match nf with
     | Some n => inrange w both_mn both_mx n
     | None => bnan w x = false
     end ->
     let '(q_mn, q_mx) := post_bounds_f w p_mn p_mx both_mn both_mx in
     exists z, cast_to_int w t (elem_f w sl it q_mn q_mx nf x) = (z, false)
               /\ bmn <= z <= bmx /\ wrap t z = z).
Proof. exact no_wrap_inputs. Qed.
Print Assumptions C02_no_wrap_float_inputs.

(* non-vacuity: float32 working format, int16 on disk, slope 0.5, intercept 3.0, thresholds
   -inf/+inf; the hypotheses hold and NaN (with nan fill -6), +inf and 1e6 are written as
   integers of the type *)
Example C02_no_wrap_float_nonvacuous :
  let slope := S754_finite false 8388608 (-24) in
  let inter := S754_finite false 12582912 (-22) in
  let sl := fconv K32 slope in let it := fconv K32 inter in
  let nfill := frint K32 (scale_w K32 sl it fzero) in
  let p_mn := frint K32 (scale_w K32 sl it (S754_infinity true)) in
  let p_mx := frint K32 (scale_w K32 sl it (S754_infinity false)) in
  let '(q_mn, q_mx) := post_bounds_f K32 p_mn p_mx (f_of_Z K32 (-32768)) (f_of_Z K32 32767) in
  is_finite_strict (sf2b K32 slope) = true /\ is_finite (sf2b K32 inter) = true
  /\ bnan K32 (S754_infinity true) = false /\ bnan K32 (S754_infinity false) = false
  /\ sr_k K32 ity_int16 = Ok (-32768, 32767)
  /\ fle K32 (f_of_Z K32 (-32768)) nfill = true /\ fle K32 nfill (f_of_Z K32 32767) = true
  /\ cast_to_int K32 ity_int16 (elem_f K32 sl it q_mn q_mx (Some nfill) S754_nan) = (-6, false)
  /\ cast_to_int K32 ity_int16 (elem_f K32 sl it q_mn q_mx (Some nfill) (S754_infinity false)) = (32767, false)
  /\ cast_to_int K32 ity_int16 (elem_f K32 sl it q_mn q_mx (Some nfill) (S754_finite false 16000000 (-4))) = (32767, false)
  /\ cast_to_int K32 ity_int16 (elem_f K32 sl it q_mn q_mx (Some nfill) (S754_finite false 10485760 (-20))) = (14, false).
Proof. exact no_wrap_float_nonvacuous. Qed.

(* C02_reload_is_rounding: the binary64 reload of the exact float layer (ModelF.read_elem, the
   NIfTI route of apply_read_scaling) for a stored integer |raw| < 2^53 and ANY finite float32
   slope and intercept IS round(round(raw*slope) + inter), finite: nothing overflows
   (|raw*slope| < 2^181).  Bmult_correct / Bplus_correct / binary_normalize_correct. *)
Theorem C02_reload_is_rounding : forall slope32 inter32 z t, Z.abs z < 2 ^ 53 ->
  is_finite (sf2b K32 slope32) = true -> is_finite (sf2b K32 inter32) = true ->
  let r := snd (read_elem t K64 (fconv K64 slope32) (fconv K64 inter32) z) in
  is_finite (sf2b K64 r) = true
  /\ B2R (sf2b K64 r) = RN64 (RN64 (IZR z * B2R (sf2b K32 slope32)) + B2R (sf2b K32 inter32)).
Proof. exact reload_rounding_f32. Qed.
Print Assumptions C02_reload_is_rounding.

(* C02_float_gap_real_partial: a first float-vs-ideal bound, at the level of the rounding
   operator, slope-only branch (intercept 0), element inside the clip range: the stored integer
   is k = rint(RN(x/s)), the reload RN(k*s) (which the float layer computes exactly so, by
   C02_reload_is_rounding with inter = 0), and
   |reload - x| <= |s|/2 + |s| * ulp(x/s)/2 + ulp(k*s)/2
   = the ideal half step of C02_ideal_error_bound plus the two binary64 rounding errors. *)
Theorem C02_float_gap_real_partial : forall x s : R, s <> 0%R ->
  let y := RN64 (x / s) in
  let k := ZnearestE y in
  let r := RN64 (IZR k * s) in
  (Rabs (r - x) <= Rabs s * / 2 + Rabs s * (/ 2 * ulp radix2 (FLT_exp (-1074) 53) (x / s))
                   + / 2 * ulp radix2 (FLT_exp (-1074) 53) (IZR k * s))%R.
Proof. exact float_gap_real. Qed.
Print Assumptions C02_float_gap_real_partial.

(* one quantitative piece of the float gap, read side, over the rounding operator RN64 (round to
   nearest even onto binary64, which Flocq's Bmult_correct/Bplus_correct identify with the
   float operations when nothing overflows): RN(RN(raw*slope) + inter) is within half an ulp
   of the product plus half an ulp of the sum of the exact raw*slope + inter *)
Theorem C02_read_error_real : forall p i : R,
  (Rabs (RN64 (RN64 p + i) - (p + i))
   <= / 2 * ulp radix2 (FLT_exp (-1074) 53) p + / 2 * ulp radix2 (FLT_exp (-1074) 53) (RN64 p + i))%R.
Proof. exact read_error_real. Qed.
Print Assumptions C02_read_error_real.

(* ---------------------------------------------------------------- C02_float_gap, step by step
   (binary64 working format = float64 data, or 32/64-bit integer data; val x = B2R (sf2b K64 x)) *)

(* (a) write and read are compositions of rounding operators: float32 slope s <> 0 and intercept i
   as stored, no overflow (|x - i| <= 2^1023, |RN(x - i)/s| <= 2^52), rounded scaled value inside
   the clip range [lo, hi]: the integer handed to the cast is k = rint(RN(RN(x - i)/s)) and the
   binary64 reload of k is RN(RN(k*s) + i) *)
Theorem C02_write_read_rounding : forall slope32 inter32 lo hi nf x t,
  fin K64 x -> is_finite_strict (sf2b K32 slope32) = true -> is_finite (sf2b K32 inter32) = true ->
  let s := B2R (sf2b K32 slope32) in
  let i := B2R (sf2b K32 inter32) in
  let sl := fconv K64 slope32 in
  let it := fconv K64 inter32 in
  (Rabs (B2R (sf2b K64 x) - i) <= bpow radix2 1023)%R ->
  (Rabs (RN64 (B2R (sf2b K64 x) - i) / s) <= bpow radix2 52)%R ->
  let y := frint K64 (scale_w K64 sl it x) in
  fle K64 lo y = true -> fle K64 y hi = true ->
  let k := ZnearestE (RN64 (RN64 (B2R (sf2b K64 x) - i) / s)) in
  let r := snd (read_elem t K64 sl it k) in
  f_trunc K64 (elem_f K64 sl it lo hi nf x) = Some k
  /\ fin K64 r /\ B2R (sf2b K64 r) = RN64 (RN64 (IZR k * s) + i).
Proof. exact write_read_rounding. Qed.
Print Assumptions C02_write_read_rounding.

(* (b) slope-only branch end to end (intercept 0), element inside the clip range, |x/s| <= 2^52:
        |reload - x| <= |s|/2 + |x| * 2^-52 + |s| * 2^-52
   with s the float32 slope actually stored.  The harness evaluates exactly this inequality on
   every element in this regime (float64 data, stored intercept 0, binary64 reload, unclipped). *)
Theorem C02_float_gap_slope_only : forall slope32 lo hi nf x t,
  fin K64 x -> is_finite_strict (sf2b K32 slope32) = true ->
  let s := B2R (sf2b K32 slope32) in
  let sl := fconv K64 slope32 in
  (Rabs (B2R (sf2b K64 x) / s) <= bpow radix2 52)%R ->
  let y := frint K64 (scale_w K64 sl fzero x) in
  fle K64 lo y = true -> fle K64 y hi = true ->
  let k := ZnearestE (RN64 (B2R (sf2b K64 x) / s)) in
  let r := snd (read_elem t K64 sl fzero k) in
  f_trunc K64 (elem_f K64 sl fzero lo hi nf x) = Some k
  /\ fin K64 r
  /\ (Rabs (B2R (sf2b K64 r) - B2R (sf2b K64 x))
      <= Rabs s * / 2 + Rabs (B2R (sf2b K64 x)) * bpow radix2 (-52) + Rabs s * bpow radix2 (-52))%R.
Proof. exact slope_only_gap. Qed.
Print Assumptions C02_float_gap_slope_only.

(* (c) intercept branch, ulp form (partial: the ulp terms are not yet turned into an explicit
   allowance): u = RN(x - i), k = rint(RN(u/s)), p = RN(k*s), reload r = RN(p + i) and
   |r - x| <= |s|/2 + ulp(x - i)/2 + |s|*ulp(u/s)/2 + ulp(k*s)/2 + ulp(p + i)/2 *)
Theorem C02_float_gap_intercept_partial : forall slope32 inter32 lo hi nf x t,
  fin K64 x -> is_finite_strict (sf2b K32 slope32) = true -> is_finite (sf2b K32 inter32) = true ->
  let s := B2R (sf2b K32 slope32) in
  let i := B2R (sf2b K32 inter32) in
  let sl := fconv K64 slope32 in
  let it := fconv K64 inter32 in
  (Rabs (B2R (sf2b K64 x) - i) <= bpow radix2 1023)%R ->
  (Rabs (RN64 (B2R (sf2b K64 x) - i) / s) <= bpow radix2 52)%R ->
  let y := frint K64 (scale_w K64 sl it x) in
  fle K64 lo y = true -> fle K64 y hi = true ->
  let u := RN64 (B2R (sf2b K64 x) - i) in
  let k := ZnearestE (RN64 (u / s)) in
  let p := RN64 (IZR k * s) in
  let r := snd (read_elem t K64 sl it k) in
  f_trunc K64 (elem_f K64 sl it lo hi nf x) = Some k /\ fin K64 r
  /\ (Rabs (B2R (sf2b K64 r) - B2R (sf2b K64 x)) <= Rabs s * / 2
        + / 2 * ulp radix2 (FLT_exp (-1074) 53) (B2R (sf2b K64 x) - i)
        + Rabs s * (/ 2 * ulp radix2 (FLT_exp (-1074) 53) (u / s))
        + / 2 * ulp radix2 (FLT_exp (-1074) 53) (IZR k * s)
        + / 2 * ulp radix2 (FLT_exp (-1074) 53) (p + i))%R.
Proof. exact intercept_gap. Qed.
Print Assumptions C02_float_gap_intercept_partial.

(* (c') C02_float_gap_intercept: the intercept branch with an explicit allowance, relative to
   |x| + |i| + |s| (cancellation in x - i forbids a bound relative to |x - i|):
        |reload - x| <= |s|/2 + (|x| + |i| + |s|) * 2^-49
   binary64 working format, float32 slope s <> 0 and intercept i as stored, no overflow, element
   inside the clip range.  The harness evaluates exactly this inequality in this regime. *)
Theorem C02_float_gap_intercept : forall slope32 inter32 lo hi nf x t,
  fin K64 x -> is_finite_strict (sf2b K32 slope32) = true -> is_finite (sf2b K32 inter32) = true ->
  let s := B2R (sf2b K32 slope32) in
  let i := B2R (sf2b K32 inter32) in
  let sl := fconv K64 slope32 in
  let it := fconv K64 inter32 in
  (Rabs (B2R (sf2b K64 x) - i) <= bpow radix2 1023)%R ->
  (Rabs (RN64 (B2R (sf2b K64 x) - i) / s) <= bpow radix2 52)%R ->
  let y := frint K64 (scale_w K64 sl it x) in
  fle K64 lo y = true -> fle K64 y hi = true ->
  let k := ZnearestE (RN64 (RN64 (B2R (sf2b K64 x) - i) / s)) in
  let r := snd (read_elem t K64 sl it k) in
  f_trunc K64 (elem_f K64 sl it lo hi nf x) = Some k /\ fin K64 r
  /\ (Rabs (B2R (sf2b K64 r) - B2R (sf2b K64 x))
      <= Rabs s * / 2 + (Rabs (B2R (sf2b K64 x)) + Rabs i + Rabs s) * bpow radix2 (-49))%R.
Proof. exact intercept_gap_explicit. Qed.
Print Assumptions C02_float_gap_intercept.

(* (d) clipped elements: a rounded scaled value strictly above (below) the clip bound is stored as
   the bound's integer zhi (zlo) and reloads as the clip limit in data units, zhi*s + i, up to
   the read rounding: the error of a clipped element is its distance to the clip limit plus
   half an ulp of the product and of the sum *)
Theorem C02_clipped_above : forall slope32 inter32 lo hi yv zhi t,
  fle K64 lo hi = true -> flt K64 hi yv = true -> is_nan_sf yv = false ->
  f_trunc K64 hi = Some zhi -> Z.abs zhi < 2 ^ 53 ->
  is_finite (sf2b K32 slope32) = true -> is_finite (sf2b K32 inter32) = true ->
  let s := B2R (sf2b K32 slope32) in
  let i := B2R (sf2b K32 inter32) in
  fclip K64 yv lo hi = hi
  /\ let r := snd (read_elem t K64 (fconv K64 slope32) (fconv K64 inter32) zhi) in
     B2R (sf2b K64 r) = RN64 (RN64 (IZR zhi * s) + i)
     /\ (Rabs (B2R (sf2b K64 r) - (IZR zhi * s + i))
         <= / 2 * ulp radix2 (FLT_exp (-1074) 53) (IZR zhi * s)
            + / 2 * ulp radix2 (FLT_exp (-1074) 53) (RN64 (IZR zhi * s) + i))%R.
Proof. exact clipped_above. Qed.
Print Assumptions C02_clipped_above.

Theorem C02_clipped_below : forall slope32 inter32 lo hi yv zlo t,
  fle K64 lo hi = true -> flt K64 yv lo = true -> is_nan_sf yv = false ->
  f_trunc K64 lo = Some zlo -> Z.abs zlo < 2 ^ 53 ->
  is_finite (sf2b K32 slope32) = true -> is_finite (sf2b K32 inter32) = true ->
  let s := B2R (sf2b K32 slope32) in
  let i := B2R (sf2b K32 inter32) in
  fclip K64 yv lo hi = lo
  /\ let r := snd (read_elem t K64 (fconv K64 slope32) (fconv K64 inter32) zlo) in
     B2R (sf2b K64 r) = RN64 (RN64 (IZR zlo * s) + i)
     /\ (Rabs (B2R (sf2b K64 r) - (IZR zlo * s + i))
         <= / 2 * ulp radix2 (FLT_exp (-1074) 53) (IZR zlo * s)
            + / 2 * ulp radix2 (FLT_exp (-1074) 53) (RN64 (IZR zlo * s) + i))%R.
Proof. exact clipped_below. Qed.
Print Assumptions C02_clipped_below.

(* the float32 setters of slope and intercept: the longdouble value S computed by _range_scale is
   stored as RN32(S) (when that is finite), with relative error <= 2^-24 in float32's normal
   range and only an absolute error <= 2^-150 below 2^-126 (subnormal: finding S-C02c) *)
Theorem C02_setter_rounding : forall S, is_finite (sf2b K80 S) = true ->
  let v := B2R (sf2b K80 S) in
  (Rabs (RN32 v) < bpow radix2 128)%R ->
  is_finite (sf2b K32 (fconv K32 S)) = true
  /\ B2R (sf2b K32 (fconv K32 S)) = RN32 v
  /\ ((bpow radix2 (-126) <= Rabs v)%R -> (Rabs (RN32 v - v) <= bpow radix2 (-24) * Rabs v)%R)
  /\ ((Rabs v < bpow radix2 (-126))%R -> (Rabs (RN32 v - v) <= bpow radix2 (-150))%R).
Proof. exact setter_rounding. Qed.
Print Assumptions C02_setter_rounding.

(* ---------------------------------------------------------------- the lift to whole arrays *)

(* C02_array_lift: array_to_file on a float64 array with float32 slope s <> 0 and intercept i,
   finite thresholds mn, mx whose scaled values do not overflow (guard): the model's choice
   function best_write_scale_ftype keeps binary64; either only zeros are written (thresholds
   (0,0)) or the clip bounds are q_mn, q_mx of post_bounds_f and every stored integer is the
   cast of elem_f in binary64; every guarded element inside [q_mn, q_mx] is stored as
   k = rint(RN(RN(x - i)/s)) with a value-preserving cast and reloads as RN(RN(k*s) + i) *)
Theorem C02_array_lift : forall slope inter,
  is_finite_strict (sf2b K32 slope) = true -> is_finite (sf2b K32 inter) = true ->
  let s := B2R (sf2b K32 slope) in
  let i := B2R (sf2b K32 inter) in
  let sl := fconv K64 slope in
  let it := fconv K64 inter in
  forall xs tout mn mx sk ik n2z o t',
  In tout all_itys -> fin K64 mn -> fin K64 mx -> guard s i mn -> guard s i mx ->
  array_to_file (InF K64 xs) tout slope inter sk ik (Some (NF K64 mn, NF K64 mx)) n2z = Ok o ->
  o_raw o = repeat 0 (length xs)
  \/ exists q_mn q_mx nf,
       o_raw o = map (fun x => fst (cast_to_int K64 tout (elem_f K64 sl it q_mn q_mx nf (fconv K64 x)))) xs
       /\ forall x, fin K64 x -> guard s i x ->
            let y := frint K64 (scale_w K64 sl it (fconv K64 x)) in
            fle K64 q_mn y = true -> fle K64 y q_mx = true ->
            let k := ZnearestE (RN64 (RN64 (B2R (sf2b K64 x) - i) / s)) in
            let r := snd (read_elem t' K64 sl it k) in
            cast_to_int K64 tout (elem_f K64 sl it q_mn q_mx nf (fconv K64 x)) = (k, false)
            /\ fin K64 r /\ B2R (sf2b K64 r) = RN64 (RN64 (IZR k * s) + i).
Proof. exact atf_K64. Qed.
Print Assumptions C02_array_lift.

(* C02_array_gap_slope_only: the SPM path (SlopeArrayWriter through writer_write) on a whole
   float64 array, hypotheses on the INPUT ARRAY: its finite range (mn, mx) is finite, and
   |x/s| <= 2^52 for mn, mx and the element considered, s being the slope the code stores
   (C02_setter_rounding bounds s against the ideal slope max/omax for normal slopes, which gives
   |x/s| <= omax * (1 + 2^-23) -- that last derivation is not yet formal).  Either only zeros are
   written or every element inside the clip range is stored as k = rint(RN(x/s)) with a
   value-preserving cast and reloads within |s|/2 + |x|*2^-52 + |s|*2^-52 of x. *)
Theorem C02_array_gap_slope_only : forall xs tout sc o t' mn mx hn,
  In tout all_itys ->
  finite_range_f K64 xs = (mn, mx, hn) -> fin K64 mn -> fin K64 mx ->
  writer_write WSlope (InF K64 xs) tout = Ok (sc, o) ->
  let s := B2R (sf2b K32 (s_slope sc)) in
  (Rabs (B2R (sf2b K64 mn) / s) <= bpow radix2 52)%R -> (Rabs (B2R (sf2b K64 mx) / s) <= bpow radix2 52)%R ->
  o_raw o = repeat 0 (length xs)
  \/ exists q_mn q_mx nf,
       o_raw o = map (fun x => fst (cast_to_int K64 tout
                      (elem_f K64 (fconv K64 (s_slope sc)) fzero q_mn q_mx nf (fconv K64 x)))) xs
       /\ forall x, fin K64 x -> (Rabs (B2R (sf2b K64 x) / s) <= bpow radix2 52)%R ->
            let y := frint K64 (scale_w K64 (fconv K64 (s_slope sc)) fzero (fconv K64 x)) in
            fle K64 q_mn y = true -> fle K64 y q_mx = true ->
            let k := ZnearestE (RN64 (B2R (sf2b K64 x) / s)) in
            let r := snd (read_elem t' K64 (fconv K64 (s_slope sc)) fzero k) in
            cast_to_int K64 tout (elem_f K64 (fconv K64 (s_slope sc)) fzero q_mn q_mx nf (fconv K64 x)) = (k, false)
            /\ (Rabs (B2R (sf2b K64 r) - B2R (sf2b K64 x))
                <= Rabs s * / 2 + Rabs (B2R (sf2b K64 x)) * bpow radix2 (-52) + Rabs s * bpow radix2 (-52))%R.
Proof. exact spm_array_gap. Qed.
Print Assumptions C02_array_gap_slope_only.

(* C02_array_gap_slope_inter: the NIfTI path (SlopeInterArrayWriter through writer_write) on a
   whole float64 array, mirroring C02_array_gap_slope_only.  Hypotheses: the array's finite range
   (mn, mx) is finite and the no-overflow guards |x - i| <= 2^1023, |RN(x - i)/s| <= 2^52 hold for
   mn, mx and the element considered, (s, i) being the slope and intercept the code stores.
   Either only zeros are written or every element inside the clip range is stored as
   k = rint(RN(RN(x - i)/s)) with a value-preserving cast and reloads within
   |s|/2 + (|x| + |i| + |s|) * 2^-49 of x. *)
Theorem C02_array_gap_slope_inter : forall xs tout sc o t' mn mx hn,
  In tout all_itys ->
  finite_range_f K64 xs = (mn, mx, hn) -> fin K64 mn -> fin K64 mx ->
  writer_write WSlopeInter (InF K64 xs) tout = Ok (sc, o) ->
  let s := B2R (sf2b K32 (s_slope sc)) in
  let i := B2R (sf2b K32 (s_inter sc)) in
  guard s i mn -> guard s i mx ->
  o_raw o = repeat 0 (length xs)
  \/ exists q_mn q_mx nf,
       o_raw o = map (fun x => fst (cast_to_int K64 tout
                      (elem_f K64 (fconv K64 (s_slope sc)) (fconv K64 (s_inter sc)) q_mn q_mx nf (fconv K64 x)))) xs
       /\ forall x, fin K64 x -> guard s i x ->
            let y := frint K64 (scale_w K64 (fconv K64 (s_slope sc)) (fconv K64 (s_inter sc)) (fconv K64 x)) in
            fle K64 q_mn y = true -> fle K64 y q_mx = true ->
            let k := ZnearestE (RN64 (RN64 (B2R (sf2b K64 x) - i) / s)) in
            let r := snd (read_elem t' K64 (fconv K64 (s_slope sc)) (fconv K64 (s_inter sc)) k) in
            cast_to_int K64 tout (elem_f K64 (fconv K64 (s_slope sc)) (fconv K64 (s_inter sc)) q_mn q_mx nf (fconv K64 x)) = (k, false)
            /\ (Rabs (B2R (sf2b K64 r) - B2R (sf2b K64 x))
                <= Rabs s * / 2 + (Rabs (B2R (sf2b K64 x)) + Rabs i + Rabs s) * bpow radix2 (-49))%R.
Proof. exact nifti_array_gap. Qed.
Print Assumptions C02_array_gap_slope_inter.

(* C02_guard_from_range_partial: the guard |x/s| <= 2^52 of C02_array_gap_slope_only derived from
   the data range.  S = the longdouble slope of _range_scale (finite), stored as float32(S)
   (finite); M = max |finite element|, 2^(n-148) <= M; n = 15 for int16, 8 for uint8.  If
   M * 2^-n <= S then the stored slope is non-zero and every |x| <= M has |x/s| <= 2^52 -- for normal
   and subnormal stored slopes alike (the guard is about overflow, not precision).  PARTIAL: the
   premise M * 2^-n <= S is not discharged: both candidates of SlopeArrayWriter._range_scale,
   mx/32767 and mn/(-32768) correctly rounded in longdouble, satisfy it by monotonicity of
   rounding, but the model's longdouble division/max is not yet identified with that rounding;
   the slope+intercept writer (guard on x - i) is not covered. *)
Theorem C02_guard_from_range_partial : forall M S x n, 0 <= n -> n <= 51 ->
  is_finite (sf2b K80 S) = true -> is_fin_sf (fconv K32 S) = true ->
  (bpow radix2 (n - 148) <= M)%R -> (Rabs x <= M)%R -> (M * bpow radix2 (- n) <= B2R (sf2b K80 S))%R ->
  let s := B2R (sf2b K32 (fconv K32 S)) in
  s <> 0%R /\ (Rabs (x / s) <= bpow radix2 52)%R.
Proof. exact guard_from_range. Qed.
Print Assumptions C02_guard_from_range_partial.

(* S-C02c, exactly.  The relative-error argument for the stored slope/intercept
   (C02_setter_rounding: |RN32(S) - S| <= 2^-24 |S|) holds for ideal magnitudes >= 2^-126, the
   smallest normal float32, and for no smaller bound: below it only the absolute error 2^-150 is
   guaranteed.  REFUTED below 2^-126 by this witness (vm_compute on the exact float model):
   float32 data [13110, -31433, 54936] * 2^-149 as int16 get the stored slope 2^-149 (the ideal
   slope is about 1.32 * 2^-149) and intercept 11752 * 2^-149; the second element is clipped to
   -32768 and reloads 10417 steps away from its value. *)
Theorem C02_subnormal_slope_refuted :
  writer_write WSlopeInter
    (InF K32 [S754_finite false 13110 (-149); S754_finite true 31433 (-149); S754_finite false 54936 (-149)])
    ity_int16
  = Ok (mkScaling (S754_finite false 1 (-149)) (S754_finite false 11752 (-149)) false,
        mkWout [1358; -32768; 32767] false)
  /\ Z.abs ((-32768) * 1 + 11752 - (-31433)) = 10417.
Proof. exact subnormal_slope_witness. Qed.
Print Assumptions C02_subnormal_slope_refuted.

(* C02_float_gap (GENERAL STATEMENT, NOT PROVED; listed in evidence `unproved_statements`): for the
   exact float pipeline (ModelF.writer_write then apply_read_scaling), every finite element
   reloads within |slope|/2 + (|inter| + max|x|) * 2^-22 + |slope| * 2^-20 of its value unless the
   stored slope is subnormal (finding S-C02c shows the statement is false there).
   Proved pieces: C02_no_wrap_float(_platform/_inputs); C02_reload_is_rounding;
   C02_write_read_rounding (a), C02_float_gap_slope_only (b, explicit bound, evaluated verbatim by
   the harness), C02_float_gap_intercept_partial (c, ulp form) and C02_float_gap_intercept (c, explicit bound,
   evaluated verbatim by the harness), C02_clipped_above/_below (d),
   C02_setter_rounding; C02_read_error_real, C02_float_gap_real_partial (rounding-operator level).
   Still missing, exactly:
   (1) the float32 and longdouble WORKING formats (float32 / float16 / 8- and 16-bit integer data;
       overflow fallback): (a)-(d) and the array lift are proved for the binary64 working format
       only; the float32 reload of SPM99 is not analysed;
   (2) done: C02_float_gap_intercept per element and C02_array_gap_slope_inter for whole float64
       arrays on the NIfTI path;
   (3) whole-array lift done for float64 arrays on both paths (C02_array_lift,
       C02_array_gap_slope_only, C02_array_gap_slope_inter); not done: arrays containing NaN/inf
       together with the lift, 32/64-bit integer arrays (|x| >= 2^53 round on the way in), and the
       derivation of the guards from the data: C02_guard_from_range_partial reduces the slope-only
       guard to M * 2^-n <= S for the longdouble slope S (identification of the model's longdouble
       division/max with correct rounding missing); nothing yet for the guard on x - i of the
       slope+intercept writer;
   (4) which elements are inside the clip range: from C02_setter_rounding the overshoot of the
       extreme elements beyond the integer range is at most about 2^-23 * 2^nbits steps for a
       normal slope (not derived formally), unbounded for a subnormal one
       (C02_subnormal_slope_refuted);
   (5) the comparison of the proved allowances with the harness allowance
       (|inter| + max|x|) * 2^-22 + |slope| * 2^-20 outside regime (b).
   The gap is measured instead: the float layer is compared bit for bit with the implementation
   and the bound is evaluated on every case by the harness. *)
