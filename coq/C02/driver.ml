(* C02 driver body (after `open C02_model` and drvlib.ml).  Formats, integer types and header
   classes are addressed by their index in Tables.v (all_fmts / all_itys / all_caps).
   fl2 <v> | conv <f> <v> | fe <f> <v> | ce <f> <v> | sr <f> <t> | ia <t> <v> | wrap <t> <v>
   cc <tin> <tout> | iu <kind 0|1|2> <tin> <tout> <mn> <mx> *)
(* integers of 4000 bits and more are printed in hexadecimal (CPython limits decimal conversion) *)
let string_of_z x =
  let b = big_of_z x in
  if BigZ.numbits b < 4000 then BigZ.to_string b
  else (if BigZ.sign b < 0 then "-0x" else "0x") ^ BigZ.format "%x" (BigZ.abs b)
let fmt_i s = List.nth all_fmts (int_of_string s)
let ity_i s = List.nth all_itys (int_of_string s)
let caps_i s = List.nth all_caps (int_of_string s)
let string_of_xz = function Fin z -> "fin " ^ string_of_z z | PInf -> "pinf" | NInf -> "ninf"
let string_of_cerr = function EValue -> "value" | EAssert -> "assert"
let string_of_cres f = function COk a -> "ok " ^ f a | CErr e -> "err " ^ string_of_cerr e
let kind_i s = match s with "0" -> WPlain | "1" -> WSlope | _ -> WSlopeInter
let string_of_iudec = function
  | IUNone -> "ok none" | IUInter i -> "ok inter " ^ string_of_z i | IUFlip -> "ok flip"
  | IURange -> "ok range" | IUWriterError -> "err writer" | IUAssert -> "err assert"
  | IUOther e -> "err " ^ string_of_cerr e
let handle_int op args = match op, args with
  | "fl2", [v] -> "ok " ^ string_of_z (floor_log2 (z_of_string v))
  | "conv", [f; v] -> (match conv (fmt_i f) (z_of_string v) with
      | CvOk x -> "ok " ^ string_of_xz x | CvOverflowError -> "err overflow" | CvValueError -> "err value")
  | "fe", [f; v] -> string_of_cres string_of_xz (floor_exact (fmt_i f) (z_of_string v))
  | "ce", [f; v] -> string_of_cres string_of_xz (ceil_exact (fmt_i f) (z_of_string v))
  | "sr", [f; t] -> string_of_cres (fun (a, b) -> string_of_xz a ^ " " ^ string_of_xz b)
                      (shared_range trunc_uint64 (fmt_i f) (ity_i t))
  | "ia", [t; v] -> "ok " ^ string_of_z (int_abs (ity_i t) (z_of_string v))
  | "wrap", [t; v] -> "ok " ^ string_of_z (wrap (ity_i t) (z_of_string v))
  | "cc", [a; b] -> "ok " ^ string_of_bool (can_cast_ii (ity_i a) (ity_i b))
  | "iu", [k; a; b; mn; mx] ->
    string_of_iudec (iu_decide (kind_i k) trunc_uint64 (List.nth all_fmts 1) (ity_i a) (ity_i b)
                       (z_of_string mn) (z_of_string mx))
  | _ -> "err driver:badop"
(* ---- float layer.  A float is  z0 z1 (+-0) | i0 i1 (+-inf) | n (NaN) | f<s>:<m>:<e>  (canonical
   mantissa/exponent of its format).  Input data:  f<k> <n> <float>*  |  i<t> <n> <int>*
   w <kind> <tout> <data>      -> make_array_writer + to_fileobj + proxy-style reload
   img <caps> <tout> <data>    -> the image class save (header refusal included) + reload
   fr <k> <n> <float>*         -> finite_range(arr, check_nan=True) *)
let sf_of_string s : spec_float =
  match s with
  | "z0" -> S754_zero false | "z1" -> S754_zero true
  | "i0" -> S754_infinity false | "i1" -> S754_infinity true
  | "n" -> S754_nan
  | _ ->
    (match String.split_on_char ':' (String.sub s 1 (String.length s - 1)) with
     | [sg; m; e] -> (match z_of_string m with
         | Zpos p -> S754_finite (sg = "1", p, z_of_string e)
         | _ -> failwith "bad mantissa")
     | _ -> failwith "bad float")
let string_of_sf (x : spec_float) : string =
  match x with
  | S754_zero s -> if s then "z1" else "z0"
  | S754_infinity s -> if s then "i1" else "i0"
  | S754_nan -> "n"
  | S754_finite (s, m, e) -> "f" ^ (if s then "1" else "0") ^ ":" ^ string_of_z (Zpos m) ^ ":" ^ string_of_z e
let fid_i s = match s with "0" -> K16 | "1" -> K32 | "2" -> K64 | _ -> K80
let string_of_fid = function K16 -> "0" | K32 -> "1" | K64 -> "2" | K80 -> "3"
let parse_data args : indata =
  match args with
  | tag :: n :: rest ->
    let n = int_of_string n in
    let vals = take_n n rest in
    if tag.[0] = 'f' then InF (fid_i (String.sub tag 1 (String.length tag - 1)), List.map sf_of_string vals)
    else InI (ity_i (String.sub tag 1 (String.length tag - 1)), List.map z_of_string vals)
  | _ -> failwith "bad data"
let string_of_werr = function
  | EWriterError -> "writer" | EScalingError -> "scaling" | ENanFillAssert -> "assert_nanfill"
  | EIuAssert -> "assert_iu" | EValueNotFinite -> "value_notfinite" | EValueSlopeZero -> "value_slopezero"
  | EValueNanFill -> "value_nanfill" | EHeaderType -> "header_type" | EHeaderData -> "header_data"
  | EKind -> "kind" | EInternal e -> "internal_" ^ string_of_cerr e
let string_of_back = function BI z -> string_of_z z | BF x -> string_of_sf x
let show_write k0 tout r =
  match r with
  | Err e -> "err " ^ string_of_werr e
  | Ok (sc, o) ->
    let (k, back) = apply_read_scaling tout k0 sc.s_slope sc.s_inter o.o_raw in
    "ok " ^ string_of_sf sc.s_slope ^ " " ^ string_of_sf sc.s_inter
    ^ " tc=" ^ string_of_bool sc.s_testcast_bad ^ " bad=" ^ string_of_bool o.o_badcast
    ^ " raw=" ^ string_of_zlist o.o_raw
    ^ " back=" ^ string_of_fid k ^ ":" ^ String.concat "," (List.map string_of_back back)
let handle_float op args = match op, args with
  | "w", k :: t :: data -> let tout = ity_i t in show_write K64 tout (writer_write (kind_i k) (parse_data data) tout)
  | "img", c :: t :: data -> let tout = ity_i t in show_write (if (caps_i c).slope_f32 then K32 else K64) tout (image_write (caps_i c) (parse_data data) tout)
  | "fr", k :: n :: xs ->
    let ((mn, mx), hn) = finite_range_f (fid_i k) (List.map sf_of_string (take_n (int_of_string n) xs)) in
    "ok " ^ string_of_sf mn ^ " " ^ string_of_sf mx ^ " " ^ string_of_bool hn
  | "fconv", [k; x] -> "ok " ^ string_of_sf (fconv (fid_i k) (sf_of_string x))
  | "fofz", [k; z] -> "ok " ^ string_of_sf (f_of_Z (fid_i k) (z_of_string z))
  | "frint", [k; x] -> "ok " ^ string_of_sf (frint (fid_i k) (sf_of_string x))
  | "fdiv", [k; x; y] -> "ok " ^ string_of_sf (fdiv (fid_i k) (sf_of_string x) (sf_of_string y))
  | "fsub", [k; x; y] -> "ok " ^ string_of_sf (fsub_ (fid_i k) (sf_of_string x) (sf_of_string y))
  | "fadd", [k; x; y] -> "ok " ^ string_of_sf (fadd (fid_i k) (sf_of_string x) (sf_of_string y))
  | "fmul", [k; x; y] -> "ok " ^ string_of_sf (fmul (fid_i k) (sf_of_string x) (sf_of_string y))
  | _ -> handle_int op args
(* ---- ideal layer.  A rational is <num>/<den>; an extended rational  q<num>/<den> | pinf | ninf | nan
   aq <fmt> <tout> <s> <i> <mn> <mx> <nan2zero> <n> <x>*   -> array_to_file_q
   rq <q>                                                  -> rint_q *)
let q_of_string s : q =
  match String.split_on_char '/' s with
  | [n; d] -> (match z_of_string d with Zpos p -> { qnum = z_of_string n; qden = p } | _ -> failwith "bad den")
  | [n] -> { qnum = z_of_string n; qden = XH }
  | _ -> failwith "bad rational"
let xq_of_string s : xq =
  match s with
  | "pinf" -> XQPInf | "ninf" -> XQNInf | "nan" -> XQNaN
  | _ -> XQ (q_of_string (String.sub s 1 (String.length s - 1)))
let handle_q op args = match op, args with
  | "rq", [x] -> "ok " ^ string_of_z (rint_q (q_of_string x))
  | "aq", f :: t :: s :: i :: mn :: mx :: n2z :: n :: xs ->
    let xs = take_n (int_of_string n) xs in
    (match array_to_file_q (fmt_i f) trunc_uint64 (ity_i t) (q_of_string s) (q_of_string i)
             (xq_of_string mn) (xq_of_string mx) (bool_of_string n2z) (List.map xq_of_string xs) with
     | None -> "err nanfill"
     | Some l -> "ok bad=" ^ string_of_bool (List.exists snd l) ^ " raw=" ^ string_of_zlist (List.map fst l))
  | _ -> handle_float op args
let handle = handle_q
let () = run_lines handle
