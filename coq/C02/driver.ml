(* C02 driver body (after `open C02_model` and drvlib.ml).  Formats, integer types and header
   classes are addressed by their index in Tables.v (all_fmts / all_itys / all_caps).
   fl2 <v> | conv <f> <v> | fe <f> <v> | ce <f> <v> | sr <f> <t> | ia <t> <v> | wrap <t> <v>
   cc <tin> <tout> | iu <kind 0|1|2> <tin> <tout> <mn> <mx> *)
(* integers of 4000 bits and more are printed in hexadecimal (CPython limits decimal conversion) *)
let string_of_z x =
  let b = big_of_z x in
  if BigZ.numbits b < 4000 then BigZ.to_string b
  else (if BigZ.sign b < 0 then "-0x" else "0x") ^ BigZ.format "%x" (BigZ.abs b)
let fmt_i s = List.nth all_fmts (int_of_string s)
let ity_i s = List.nth all_itys (int_of_string s)
let caps_i s = List.nth all_caps (int_of_string s)
let string_of_xz = function Fin z -> "fin " ^ string_of_z z | PInf -> "pinf" | NInf -> "ninf"
let string_of_cerr = function EValue -> "value" | EAssert -> "assert"
let string_of_cres f = function COk a -> "ok " ^ f a | CErr e -> "err " ^ string_of_cerr e
let kind_i s = match s with "0" -> WPlain | "1" -> WSlope | _ -> WSlopeInter
let string_of_iudec = function
  | IUNone -> "ok none" | IUInter i -> "ok inter " ^ string_of_z i | IUFlip -> "ok flip"
  | IURange -> "ok range" | IUWriterError -> "err writer" | IUAssert -> "err assert"
  | IUOther e -> "err " ^ string_of_cerr e
let handle_int op args = match op, args with
  | "fl2", [v] -> "ok " ^ string_of_z (floor_log2 (z_of_string v))
  | "conv", [f; v] -> (match conv (fmt_i f) (z_of_string v) with
      | CvOk x -> "ok " ^ string_of_xz x | CvOverflowError -> "err overflow" | CvValueError -> "err value")
  | "fe", [f; v] -> string_of_cres string_of_xz (floor_exact (fmt_i f) (z_of_string v))
  | "ce", [f; v] -> string_of_cres string_of_xz (ceil_exact (fmt_i f) (z_of_string v))
  | "sr", [f; t] -> string_of_cres (fun (a, b) -> string_of_xz a ^ " " ^ string_of_xz b)
                      (shared_range trunc_uint64 (fmt_i f) (ity_i t))
  | "ia", [t; v] -> "ok " ^ string_of_z (int_abs (ity_i t) (z_of_string v))
  | "wrap", [t; v] -> "ok " ^ string_of_z (wrap (ity_i t) (z_of_string v))
  | "cc", [a; b] -> "ok " ^ string_of_bool (can_cast_ii (ity_i a) (ity_i b))
  | "iu", [k; a; b; mn; mx] ->
    string_of_iudec (iu_decide (kind_i k) trunc_uint64 (List.nth all_fmts 1) (ity_i a) (ity_i b)
                       (z_of_string mn) (z_of_string mx))
  | _ -> "err driver:badop"
let handle = handle_int
let () = run_lines handle
