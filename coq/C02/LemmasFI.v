(* C02/LemmasFI.v — C02_float_gap item (2): the intercept branch with an explicit allowance,
   relative to |x| + |i| + |s| (the cancellation in x - i forbids a bound relative to |x - i|). *)
From Coq Require Import ZArith Reals List Bool Lia Lra Floats.SpecFloat.
From Flocq Require Import Core.Zaux Core.Raux Core.Defs Core.Float_prop Core.Generic_fmt Core.FLT Core.FIX
  Core.Ulp Core.Round_NE IEEE754.BinarySingleNaN.
From NV Require Import C02.Model C02.Tables C02.ModelF C02.Lemmas C02.LemmasFW C02.LemmasFN C02.LemmasFR
  C02.LemmasFG.
Import ListNotations.
Open Scope R_scope.

(* pure real statement: u = RN(x - i), k = rint(RN(u/s)), p = RN(k*s), r = RN(p + i) *)
Lemma gap_inter_bound_real x s i : s <> 0 ->
  let u := RN64 (x - i) in
  Rabs (u / s) <= bpow radix2 52 -> bpow radix2 (-149) <= Rabs s ->
  let k := ZnearestE (RN64 (u / s)) in
  let p := RN64 (IZR k * s) in
  let r := RN64 (p + i) in
  Rabs (r - x) <= Rabs s * / 2 + (Rabs x + Rabs i + Rabs s) * bpow radix2 (-49).
Proof.
  intros Hs u Hq Hmin k p r.
  pose proof (gap_inter_real x s i Hs) as G. cbv zeta in G. fold u in G. fold k in G. fold p in G. fold r in G.
  pose proof (ulp64_le (x - i)) as U1. pose proof (ulp64_le (u / s)) as U2.
  pose proof (ulp64_le (IZR k * s)) as U3. pose proof (ulp64_le (p + i)) as U4.
  set (E := bpow radix2 (-1074)) in *. set (h := bpow radix2 (-53)).
  assert (Hh : bpow radix2 (-52) = 2 * h).
  { unfold h. change (-52)%Z with (1 + -53)%Z. rewrite bpow_plus. reflexivity. }
  assert (H49 : bpow radix2 (-49) = 16 * h).
  { unfold h. change (-49)%Z with (4 + -53)%Z. rewrite bpow_plus. reflexivity. }
  rewrite Hh in *. rewrite H49.
  assert (Ph : 0 < h) by apply bpow_gt_0. assert (PE : 0 < E) by apply bpow_gt_0.
  assert (h1 : h <= / 16).
  { unfold h. change (/ 16) with (bpow radix2 (-4)). apply bpow_le. lia. }
  assert (E1 : E <= h * / 4).
  { unfold E, h. change (/ 4) with (bpow radix2 (-2)). rewrite <- bpow_plus. apply bpow_le. lia. }
  assert (E2 : E <= Rabs s * (h * / 4)).
  { unfold E. replace (bpow radix2 (-1074)) with (bpow radix2 (-149) * bpow radix2 (-925))
      by (rewrite <- bpow_plus; reflexivity).
    apply Rmult_le_compat; try (apply Rlt_le, bpow_gt_0); [exact Hmin|].
    unfold h. change (/ 4) with (bpow radix2 (-2)). rewrite <- bpow_plus. apply bpow_le. lia. }
  assert (Ps : 0 < Rabs s) by (apply Rabs_pos_lt; exact Hs).
  pose proof (Rabs_pos x) as Px. pose proof (Rabs_pos i) as Pi.
  set (D := Rabs x + Rabs i + Rabs s).
  assert (PD : Rabs s <= D) by (unfold D; lra).
  (* magnitudes *)
  assert (A1 : Rabs (x - i) <= D).
  { unfold D. replace (x - i) with (x + - i) by ring. eapply Rle_trans; [apply Rabs_triang|]. rewrite Rabs_Ropp. lra. }
  assert (A2 : Rabs u <= 2 * D).
  { pose proof (RN64_err (x - i)) as e. fold u in e.
    replace u with ((u - (x - i)) + (x - i)) by ring. eapply Rle_trans; [apply Rabs_triang|].
    assert (Rabs (x - i) * h <= D * h) by (apply Rmult_le_compat_r; lra). nra. }
  assert (Qh : Rabs (u / s) * h <= / 2).
  { replace (/ 2) with (bpow radix2 52 * h).
    - apply Rmult_le_compat_r; lra.
    - unfold h. rewrite <- bpow_plus. reflexivity. }
  assert (A3 : Rabs (IZR k * s) <= 4 * D).
  { pose proof (Znearest_half (fun z => negb (Z.even z)) (RN64 (u / s))) as Z1.
    fold (ZnearestE (RN64 (u / s))) in Z1. fold k in Z1.
    pose proof (RN64_err (u / s)) as Z2.
    assert (Dk : Rabs (IZR k - u / s) <= 1 + E / 2).
    { replace (IZR k - u / s) with (- (RN64 (u / s) - IZR k) + (RN64 (u / s) - u / s)) by ring.
      eapply Rle_trans; [apply Rabs_triang|]. rewrite Rabs_Ropp. lra. }
    replace (IZR k * s) with (u + s * (IZR k - u / s)) by (field; exact Hs).
    eapply Rle_trans; [apply Rabs_triang|]. rewrite Rabs_mult.
    assert (Rabs s * Rabs (IZR k - u / s) <= Rabs s * (1 + E / 2)) by (apply Rmult_le_compat_l; lra).
    assert (Rabs s * (E / 2) <= Rabs s) by nra.
    lra. }
  assert (A4 : Rabs (p + i) <= 7 * D).
  { pose proof (RN64_err (IZR k * s)) as e. fold p in e.
    assert (Rabs p <= 6 * D).
    { replace p with ((p - IZR k * s) + IZR k * s) by ring. eapply Rle_trans; [apply Rabs_triang|].
      assert (Rabs (IZR k * s) * h <= 4 * D * h) by (apply Rmult_le_compat_r; lra). nra. }
    eapply Rle_trans; [apply Rabs_triang|]. unfold D in *. lra. }
  (* the four half-ulps *)
  assert (T1 : / 2 * ulp radix2 fexp64 (x - i) <= D * h + E / 2).
  { assert (Rabs (x - i) * h <= D * h) by (apply Rmult_le_compat_r; lra). lra. }
  assert (T2 : Rabs s * (/ 2 * ulp radix2 fexp64 (u / s)) <= 2 * D * h + Rabs s * (E / 2)).
  { assert (Xs : Rabs s * Rabs (u / s) = Rabs u).
    { rewrite <- Rabs_mult. f_equal. field. exact Hs. }
    assert (Rabs s * (/ 2 * ulp radix2 fexp64 (u / s)) <= Rabs s * (/ 2 * (Rabs (u / s) * (2 * h) + E)))
      by (apply Rmult_le_compat_l; lra).
    replace (Rabs s * (/ 2 * (Rabs (u / s) * (2 * h) + E))) with (Rabs s * Rabs (u / s) * h + Rabs s * (E / 2)) in H by field.
    rewrite Xs in H. assert (Rabs u * h <= 2 * D * h) by (apply Rmult_le_compat_r; lra). lra. }
  assert (T3 : / 2 * ulp radix2 fexp64 (IZR k * s) <= 4 * D * h + E / 2).
  { assert (Rabs (IZR k * s) * h <= 4 * D * h) by (apply Rmult_le_compat_r; lra). lra. }
  assert (T4 : / 2 * ulp radix2 fexp64 (p + i) <= 7 * D * h + E / 2).
  { assert (Rabs (p + i) * h <= 7 * D * h) by (apply Rmult_le_compat_r; lra). lra. }
  assert (M1 : Rabs s * (E / 2) <= D * h * / 8).
  { assert (Rabs s * (E / 2) <= D * (E / 2)) by (apply Rmult_le_compat_r; lra).
    assert (D * (E / 2) <= D * (h * / 8)) by (apply Rmult_le_compat_l; lra). lra. }
  assert (M2 : E <= D * h * / 4) by nra.
  nra.
Qed.

(* C02_float_gap_intercept: binary64 working format, float32 slope s <> 0 and intercept i as
   stored, no overflow (|x - i| <= 2^1023, |RN(x - i)/s| <= 2^52), element inside the clip range:
        |reload - x| <= |s|/2 + (|x| + |i| + |s|) * 2^-49 *)
Lemma intercept_gap_explicit slope32 inter32 lo hi nf x t :
  fin K64 x -> is_finite_strict (sf2b K32 slope32) = true -> is_finite (sf2b K32 inter32) = true ->
  let s := B2R (sf2b K32 slope32) in
  let i := B2R (sf2b K32 inter32) in
  let sl := fconv K64 slope32 in
  let it := fconv K64 inter32 in
  Rabs (val x - i) <= bpow radix2 1023 ->
  Rabs (RN64 (val x - i) / s) <= bpow radix2 52 ->
  let y := frint K64 (scale_w K64 sl it x) in
  fle K64 lo y = true -> fle K64 y hi = true ->
  let k := ZnearestE (RN64 (RN64 (val x - i) / s)) in
  let r := snd (read_elem t K64 sl it k) in
  f_trunc K64 (elem_f K64 sl it lo hi nf x) = Some k /\ fin K64 r
  /\ Rabs (val r - val x) <= Rabs s * / 2 + (Rabs (val x) + Rabs i + Rabs s) * bpow radix2 (-49).
Proof.
  intros Fx Fs Fi s i sl it G1 G2 y H1 H2 k r.
  destruct (strict_fin_nz _ _ Fs) as [_ Fs2]. fold s in Fs2.
  assert (Ms : bpow radix2 (-149) <= Rabs s) by (apply (abs_B2R_ge_emin (kprec K32) (kemax K32)); exact Fs).
  destruct (write_read_rounding slope32 inter32 lo hi nf x t Fx Fs Fi G1 G2 H1 H2) as (T & Fr & Vr).
  split; [exact T|]. split; [exact Fr|].
  unfold r, k, sl, it, s, i. rewrite Vr.
  exact (gap_inter_bound_real (val x) (B2R (sf2b K32 slope32)) (B2R (sf2b K32 inter32)) Fs2 G2 Ms).
Qed.
