(* C02/LemmasF.v — facts about the exact float layer (C02/ModelF.v): agreement of the Flocq
   format constants with the generated tables, the refusal decision table of the image
   save, and witnesses of the known findings evaluated on the model. *)
From Coq Require Import ZArith List Bool Lia ZifyBool Floats.SpecFloat.
From Flocq Require Import IEEE754.BinarySingleNaN.
From NV Require Import C02.Model C02.Tables C02.ModelF.
Import ListNotations.
Open Scope Z_scope.

(* the platform facts written by gen_tables() are the ones the float layer is built for *)
Definition tables_matchb : bool :=
  forallb (fun k => (prec (kfmt k) =? kprec k) && (emax (kfmt k) =? kemax k)) [K16; K32; K64; K80]
  && (prec best_float =? kprec K80) && (emax best_float =? kemax K80)
  && (match map prec ok_floats with [11; 24; 53; 64] => true | _ => false end).

Lemma tables_match : tables_matchb = true.
Proof. vm_compute. reflexivity. Qed.

(* ---------------------------------------------------------------- refusal *)
Lemma iu_slope_not_inter tr sc tin tout mn mx i : iu2iu_slope tr sc tin tout mn mx <> IUInter i.
Proof.
  unfold iu2iu_slope. destruct (negb (isigned tout)); [|discriminate].
  destruct (shared_range tr sc tout) as [[a [b| |]]|]; try discriminate.
  destruct ((mx <=? 0) && (int_abs tin mn <=? b)); discriminate.
Qed.

Lemma calc_scale_plain d tout sc : calc_scale WPlain d tout = Ok sc -> sc = scaling_default.
Proof.
  unfold calc_scale. destruct d as [k xs|t xs].
  - destruct (num_eq _ _ && num_eq _ _ && negb _); intros H; inversion H; reflexivity.
  - destruct (d_mn (view (InI t xs))); try discriminate.
    destruct (d_mx (view (InI t xs))); try discriminate.
    unfold iu_decide. destruct (negb (scaling_needed_ii t tout z z0)); intros H; inversion H; reflexivity.
Qed.

Lemma range_scale_s_inter tout a b sc : range_scale_s tout a b = Ok sc -> s_inter sc = fzero.
Proof.
  unfold range_scale_s. destruct (negb (isigned tout)).
  - destruct (num_lt a (NI 0) && num_lt (NI 0) b); intros H; inversion H; reflexivity.
  - intros H; inversion H; reflexivity.
Qed.

Lemma calc_scale_slope d tout sc : calc_scale WSlope d tout = Ok sc -> s_inter sc = fzero.
Proof.
  unfold calc_scale. destruct d as [k xs|t xs].
  - destruct (_ || _).
    + intros H; inversion H; reflexivity.
    + apply range_scale_s_inter.
  - destruct (d_mn (view (InI t xs))); try discriminate.
    destruct (d_mx (view (InI t xs))); try discriminate.
    unfold iu_decide. destruct (negb (scaling_needed_ii t tout z z0)).
    + intros H; inversion H; reflexivity.
    + pose proof (iu_slope_not_inter trunc_uint64 fmt_float32 t tout z z0) as NI.
      destruct (iu2iu_slope trunc_uint64 fmt_float32 t tout z z0) as [|ii| | | | |e] eqn:E; try discriminate.
      * intros H; inversion H; reflexivity.
      * exfalso. now apply (NI ii).
      * intros H; inversion H; reflexivity.
      * apply range_scale_s_inter.
Qed.

Lemma bind_ok {A B} (r : res A) (f : A -> res B) b : bind r f = Ok b -> exists a, r = Ok a /\ f a = Ok b.
Proof. destruct r; cbn; intros H; [eauto|discriminate]. Qed.

(* a successful save of a class without a slope field stored (slope, inter) = (1, 0); of a
   class without an intercept field, inter = 0 (every other outcome is an Err) *)
Lemma refusal_image c d tout sc o : direct c = false -> image_write c d tout = Ok (sc, o) ->
  (has_slope c = false -> sc = scaling_default) /\ (has_inter c = false -> s_inter sc = fzero).
Proof.
  intros Hd. unfold image_write. rewrite Hd.
  destruct (make_writer_kind (has_slope c) (has_inter c)) as [k|] eqn:K; [|discriminate].
  intros H. apply bind_ok in H as (sc0 & Hc & H). apply bind_ok in H as (u & Hs & H).
  apply bind_ok in H as ([sc' o'] & Hw & H). inversion H; subst sc' o'. clear H.
  unfold writer_write in Hw. rewrite Hc in Hw. cbn [bind] in Hw.
  assert (E : sc = sc0).
  { destruct k; apply bind_ok in Hw as (o2 & _ & Hw); inversion Hw; reflexivity. }
  subst sc0. unfold make_writer_kind in K.
  split; intros Hcap; rewrite Hcap in K.
  - destruct (has_inter c); inversion K; subst k. now apply calc_scale_plain in Hc.
  - destruct (has_slope c); inversion K; subst k.
    + now apply calc_scale_slope in Hc.
    + apply calc_scale_plain in Hc. subst sc. reflexivity.
Qed.

(* ---------------------------------------------------------------- witnesses of the findings *)
(* S-C02b: MGH (direct array_to_file, no scaling field, no refusal): float32 1e6 as int16 is
   silently clipped to 32767 *)
Lemma mgh_clips_witness :
  exists o, image_write caps_mgh (InF K32 [S754_finite false 16000000 (-4)]) ity_int16 = Ok (scaling_default, o)
            /\ o_raw o = [32767].
Proof. eexists. split; vm_compute; reflexivity. Qed.

(* former finding S-C02d (repaired by fix b5843164): the plain ArrayWriter accepts float data for
   an integer type only when all finite values are zero AND there is no infinity; [0, +inf] as
   uint8 through Analyze is now refused *)
Lemma plain_float_accepts k xs tout sc o :
  writer_write WPlain (InF k xs) tout = Ok (sc, o) ->
  sc = scaling_default /\ existsb is_inf_sf xs = false
  /\ (let v := view (InF k xs) in num_eq (d_mn v) (NI 0) && num_eq (d_mx v) (NI 0)) = true.
Proof.
  unfold writer_write. intros H. apply bind_ok in H as (sc0 & Hc & H).
  apply bind_ok in H as (o0 & _ & H). inversion H; subst sc0 o0. clear H.
  pose proof (calc_scale_plain _ _ _ Hc) as E. split; [exact E|].
  unfold calc_scale in Hc. cbv zeta in Hc.
  destruct (num_eq (d_mn (view (InF k xs))) (NI 0) && num_eq (d_mx (view (InF k xs))) (NI 0)) eqn:Z0;
    cbn [andb] in Hc; [|discriminate].
  destruct (negb (d_has_inf (view (InF k xs)))) eqn:I; [|discriminate].
  split; [|reflexivity].
  unfold view in I. destruct (finite_range_f k xs) as [[mn mx] hn]. cbn in I.
  now destruct (existsb is_inf_sf xs).
Qed.

Lemma plain_inf_refused :
  image_write caps_analyze (InF K32 [S754_zero false; S754_infinity false]) ity_uint8 = Err EWriterError.
Proof. vm_compute. reflexivity. Qed.
