(* C02/LemmasQ.v — proofs about the ideal layer (C02/ModelQ.v).  No axioms. *)
From Coq Require Import ZArith QArith Qround Qabs List Bool Lia Lqa ZifyBool.
From NV Require Import C02.Model C02.ModelQ C02.Lemmas.
Open Scope Z_scope.

(* ------------------------------------------------------------------ the clip bounds *)
Lemma post_bounds_ok p_mn p_mx bmn bmx :
  xi_nan p_mn = false -> xi_nan p_mx = false -> bmn <= bmx ->
  exists a b, post_bounds p_mn p_mx bmn bmx = (XI a, XI b) /\ bmn <= a /\ a <= b /\ b <= bmx.
Proof.
  intros N1 N2 Hb. unfold post_bounds.
  destruct p_mn as [x| | |], p_mx as [y| | |]; try discriminate;
    unfold xi_lt, xi_maximum, xi_minimum; cbn [xi_le xi_nan andb negb];
    repeat (match goal with
            | |- context [if ?c then _ else _] =>
                lazymatch c with
                | context [if _ then _ else _] => fail
                | _ => destruct c eqn:?
                end
            end; cbn [xi_le xi_nan andb negb fst snd] in *);
    try (eexists; eexists; split; [reflexivity|lia]); try (exfalso; lia).
Qed.

Lemma xrint_scale_nan s i x : xi_nan (xrint (xscale s i x)) = true -> x = XQNaN.
Proof.
  destruct x; cbn; try discriminate; auto; destruct (Qlt_le_dec 0 s); cbn; discriminate.
Qed.

Lemma clip_in_bounds y a b : xi_nan y = false -> a <= b ->
  exists k, xi_clip y (XI a) (XI b) = XI k /\ a <= k <= b.
Proof.
  intros N Hab. unfold xi_clip, xi_maximum, xi_minimum.
  destruct y as [z| | |]; try discriminate; cbn.
  - destruct (a <=? z) eqn:E1; cbn.
    + destruct (z <=? b) eqn:E2; eexists; split; try reflexivity; lia.
    + replace (a <=? b) with true by lia. eexists; split; try reflexivity; lia.
  - eexists; split; try reflexivity; lia.
  - replace (a <=? b) with true by lia. eexists; split; try reflexivity; lia.
Qed.

Lemma clip_nan a b : xi_clip XINaN (XI a) (XI b) = XINaN.
Proof. reflexivity. Qed.

(* every element: the value handed to the cast is an integer inside [a, b] *)
Lemma elem_in_bounds s i a b nf x : a <= b ->
  match nf with Some n => a <= n <= b | None => x <> XQNaN end ->
  exists k, elem_q s i (XI a) (XI b) nf x = XI k /\ a <= k <= b.
Proof.
  intros Hab Hnf. unfold elem_q.
  destruct (xi_nan (xrint (xscale s i x))) eqn:N.
  - pose proof (xrint_scale_nan s i x N) as ->. cbn [xscale xrint]. rewrite clip_nan.
    destruct nf as [n|]; [exists n; split; [reflexivity|exact Hnf]|congruence].
  - destruct (clip_in_bounds _ a b N Hab) as (k & -> & Hk). exists k. split; [|exact Hk].
    destruct nf; reflexivity.
Qed.

(* C02_no_wrap over the ideal/Z clip model *)
Lemma no_wrap_q t s i p_mn p_mx bmn bmx nf x :
  1 <= iwidth t -> xi_nan p_mn = false -> xi_nan p_mx = false ->
  imin t <= bmn -> bmn <= bmx -> bmx <= imax t ->
  match nf with Some n => bmn <= n <= bmx | None => x <> XQNaN end ->
  let '(q_mn, q_mx) := post_bounds p_mn p_mx bmn bmx in
  exists k, elem_q s i q_mn q_mx nf x = XI k
            /\ bmn <= k <= bmx
            /\ cast_xi t (XI k) = (k, false) /\ wrap t k = k.
Proof.
  intros Hw N1 N2 H1 H2 H3 Hnf.
  destruct (post_bounds_ok p_mn p_mx bmn bmx N1 N2 H2) as (a & b & -> & Ha & Hab & Hb).
  assert (Hnf' : match nf with Some n => a <= n <= b \/ True | None => x <> XQNaN end).
  { destruct nf; auto. }
  (* nan_fill lies in [bmn, bmx]; the clip of the other elements in [a, b] *)
  unfold elem_q.
  destruct (xi_nan (xrint (xscale s i x))) eqn:N.
  - pose proof (xrint_scale_nan s i x N) as ->. cbn [xscale xrint]. rewrite clip_nan.
    destruct nf as [n|]; [|congruence].
    exists n. split; [reflexivity|]. split; [exact Hnf|]. split.
    + cbn. unfold in_ity. replace ((imin t <=? n) && (n <=? imax t)) with true by lia. reflexivity.
    + apply wrap_id; lia.
  - destruct (clip_in_bounds _ a b N Hab) as (k & E & Hk). exists k.
    split; [rewrite E; destruct nf; reflexivity|]. split; [lia|]. split.
    + cbn. unfold in_ity. replace ((imin t <=? k) && (k <=? imax t)) with true by lia. reflexivity.
    + apply wrap_id; lia.
Qed.

(* ------------------------------------------------------------------ quantisation error *)
Open Scope Q_scope.

Lemma rint_q_err q : Qabs (inject_Z (rint_q q) - q) <= 1 # 2.
Proof.
  unfold rint_q.
  pose proof (Qfloor_le q) as L. pose proof (Qlt_floor q) as U.
  set (f := Qfloor q) in *.
  assert (E1 : inject_Z (f + 1) == inject_Z f + 1) by (rewrite inject_Z_plus; reflexivity).
  rewrite E1 in U.
  destruct (Qcompare (q - inject_Z f) (1 # 2)) eqn:C.
  - apply Qeq_alt in C.
    destruct (Z.even f).
    + apply Qabs_Qle_condition. split; lra.
    + rewrite E1. apply Qabs_Qle_condition. split; lra.
  - apply Qlt_alt in C. apply Qabs_Qle_condition. split; lra.
  - apply Qgt_alt in C. rewrite E1. apply Qabs_Qle_condition. split; lra.
Qed.

(* reload error of any value that was stored as rint((q - i) / s): at most half a step *)
Lemma ideal_error s i q : ~ s == 0 ->
  Qabs (read_q s i (rint_q ((q - i) / s)) - q) <= Qabs s * (1 # 2).
Proof.
  intros Hs. unfold read_q.
  set (y := (q - i) / s). set (k := rint_q y).
  assert (E : inject_Z k * s + i - q == s * (inject_Z k - y)).
  { unfold y. field. exact Hs. }
  rewrite E. rewrite Qabs_Qmult.
  rewrite (Qmult_comm (Qabs s) (Qabs (inject_Z k - y))), (Qmult_comm (Qabs s) (1 # 2)).
  apply Qmult_le_compat_r; [apply rint_q_err|apply Qabs_nonneg].
Qed.

Open Scope Z_scope.

(* inside the clip range the stored integer is rint((x - i) / s) *)
Lemma elem_in_range s i a b nf q :
  a <= rint_q ((q - i) / s) <= b ->
  elem_q s i (XI a) (XI b) nf (XQ q) = XI (rint_q ((q - i) / s)).
Proof.
  intros H. unfold elem_q, xi_clip, xi_maximum, xi_minimum. cbn.
  replace (a <=? rint_q ((q - i) / s)) with true by lia. cbn.
  replace (rint_q ((q - i) / s) <=? b) with true by lia. destruct nf; reflexivity.
Qed.

(* C02_ideal_error_bound *)
Lemma ideal_error_bound s i a b nf q : ~ (s == 0)%Q ->
  a <= rint_q ((q - i) / s) <= b ->
  exists k, elem_q s i (XI a) (XI b) nf (XQ q) = XI k
            /\ (Qabs (read_q s i k - q) <= Qabs s * (1 # 2))%Q.
Proof.
  intros Hs H. exists (rint_q ((q - i) / s)). split; [now apply elem_in_range|now apply ideal_error].
Qed.

(* outside the clip range the stored integer is the clip bound *)
Lemma elem_clipped s i a b nf q : a <= b ->
  (rint_q ((q - i) / s) < a -> elem_q s i (XI a) (XI b) nf (XQ q) = XI a)
  /\ (b < rint_q ((q - i) / s) -> elem_q s i (XI a) (XI b) nf (XQ q) = XI b).
Proof.
  intros Hab. unfold elem_q, xi_clip, xi_maximum, xi_minimum. cbn. split; intros H.
  - replace (a <=? rint_q ((q - i) / s)) with false by lia. cbn.
    replace (a <=? b) with true by lia. destruct nf; reflexivity.
  - replace (a <=? rint_q ((q - i) / s)) with true by lia. cbn.
    replace (rint_q ((q - i) / s) <=? b) with false by lia. destruct nf; reflexivity.
Qed.

(* C02_nan_inf: NaN is stored as nan_fill; with nan_fill = rint((0 - i)/s) it reloads within half
   a step of 0.  +inf / -inf are stored as the clip bounds (which end depends on the sign of the
   slope); a clip bound that is rint((m - i)/s) for a finite input m reloads within half a
   step of m. *)
Lemma nan_inf_q s i a b n : ~ (s == 0)%Q -> a <= b ->
  elem_q s i (XI a) (XI b) (Some n) XQNaN = XI n
  /\ (n = rint_q ((0 - i) / s) -> (Qabs (read_q s i n - 0) <= Qabs s * (1 # 2))%Q)
  /\ (forall nf, elem_q s i (XI a) (XI b) nf XQPInf = XI (if Qlt_le_dec 0 s then b else a))
  /\ (forall nf, elem_q s i (XI a) (XI b) nf XQNInf = XI (if Qlt_le_dec 0 s then a else b))
  /\ (forall m k, k = rint_q ((m - i) / s) -> (Qabs (read_q s i k - m) <= Qabs s * (1 # 2))%Q).
Proof.
  intros Hs Hab. split; [reflexivity|]. split.
  { intros ->. now apply ideal_error. }
  split; [|split].
  - intros nf. unfold elem_q, xi_clip, xi_maximum, xi_minimum. cbn.
    destruct (Qlt_le_dec 0 s); cbn.
    + destruct nf; reflexivity.
    + replace (a <=? b) with true by lia. destruct nf; reflexivity.
  - intros nf. unfold elem_q, xi_clip, xi_maximum, xi_minimum. cbn.
    destruct (Qlt_le_dec 0 s); cbn.
    + replace (a <=? b) with true by lia. destruct nf; reflexivity.
    + destruct nf; reflexivity.
  - intros m k ->. now apply ideal_error.
Qed.
