(* C02/LemmasFW.v — no wrap-around in the EXACT FLOAT layer: whatever the scaled and rounded
   value of an element is, the float handed to the final float -> int cast by
   ModelF.elem_f (np.clip(np.rint(.), post_mn, post_mx) + nan fill) is a finite float between
   the clip bounds, and its C truncation is an integer between the integers of the bounds.
   Uses Flocq's Bcompare_correct, Btrunc_correct (real-number semantics of comparison and
   truncation) -- hence the Coq stdlib Reals axioms. *)
From Coq Require Import ZArith Reals List Bool Lia Lra Floats.SpecFloat.
From Flocq Require Import Core.Raux Core.Defs Core.Generic_fmt Core.FIX IEEE754.BinarySingleNaN.
From NV Require Import C02.Model C02.Tables C02.ModelF C02.Lemmas.
Import ListNotations.
Open Scope Z_scope.

Section Format.
Variable w : fid.
Notation B := (bf w).

Definition ble (a b : B) : bool :=
  match Bcompare a b with Some Lt | Some Eq => true | _ => false end.

Lemma fle_ble x y : fle w x y = ble (sf2b w x) (sf2b w y).
Proof. reflexivity. Qed.

Lemma ble_R (a b : B) : is_finite a = true -> is_finite b = true -> ble a b = true ->
  (B2R a <= B2R b)%R.
Proof.
  intros Fa Fb. unfold ble. rewrite (Bcompare_correct _ _ a b Fa Fb).
  destruct (Rcompare (B2R a) (B2R b)) eqn:C; try discriminate; intros _.
  - apply Rcompare_Eq_inv in C. lra.
  - apply Rcompare_Lt_inv in C. lra.
Qed.

Lemma ble_refl (a : B) : is_finite a = true -> ble a a = true.
Proof.
  intros Fa. unfold ble. rewrite (Bcompare_correct _ _ a a Fa Fa).
  rewrite Rcompare_Eq by reflexivity. reflexivity.
Qed.

(* a float between two finite floats is finite *)
Lemma ble_mid_finite (lo y hi : B) : is_finite lo = true -> is_finite hi = true ->
  ble lo y = true -> ble y hi = true -> is_finite y = true.
Proof.
  unfold ble, Bcompare.
  destruct y as [sy|sy| |sy my ey Hy]; try reflexivity;
    destruct lo as [sl|sl| |sl ml el Hl]; try discriminate;
    destruct hi as [sh|sh| |sh mh eh Hh]; try discriminate;
    destruct sy; cbn; intros _ _; try discriminate; intros H1 H2; try discriminate.
Qed.

Lemma btrunc_le (a b : B) : (B2R a <= B2R b)%R -> Btrunc a <= Btrunc b.
Proof.
  intros H. apply le_IZR.
  rewrite (Btrunc_correct _ _ (kprec_lt_emax w) a), (Btrunc_correct _ _ (kprec_lt_emax w) b), !round_FIX_IZR.
  apply IZR_le, Ztrunc_le, H.
Qed.

(* the heart: a value between the bounds (IEEE order) is finite and truncates between them *)
Lemma between_trunc (lo y hi : B) : is_finite lo = true -> is_finite hi = true ->
  ble lo y = true -> ble y hi = true ->
  is_finite y = true /\ Btrunc lo <= Btrunc y <= Btrunc hi.
Proof.
  intros Fl Fh H1 H2. pose proof (ble_mid_finite lo y hi Fl Fh H1 H2) as Fy.
  split; [exact Fy|]. split; apply btrunc_le; apply ble_R; assumption.
Qed.

Lemma R_ble (a b : B) : is_finite a = true -> is_finite b = true ->
  (B2R a <= B2R b)%R -> ble a b = true.
Proof.
  intros Fa Fb H. unfold ble. rewrite (Bcompare_correct _ _ a b Fa Fb).
  destruct (Rcompare_spec (B2R a) (B2R b)); try reflexivity. lra.
Qed.

Lemma ble_trans (a b c : B) : ble a b = true -> ble b c = true -> ble a c = true.
Proof.
  destruct (is_finite a) eqn:Fa, (is_finite b) eqn:Fb, (is_finite c) eqn:Fc;
    try (intros H1 H2; apply R_ble; auto; apply ble_R in H1; auto; apply ble_R in H2; auto; lra);
    unfold ble, Bcompare;
    destruct a as [sa|sa| |sa ma ea Ha]; try discriminate;
    destruct b as [sb|sb| |sb mb eb Hb]; try discriminate;
    destruct c as [sc|sc| |sc mc ec Hc]; try discriminate;
    cbn; try discriminate;
    try destruct sa; try destruct sb; try destruct sc; cbn; auto; try discriminate.
Qed.

(* not (b < a) gives a <= b unless one of them is NaN *)
Lemma ble_total (a b : B) : is_nan a = false -> is_nan b = false ->
  Bcompare b a <> Some Lt -> ble a b = true.
Proof.
  intros Na Nb. rewrite (Bcompare_swap _ _ a b). unfold ble.
  assert (S : exists c, Bcompare a b = Some c).
  { unfold Bcompare. destruct a as [sa|sa| |sa ma ea Ha]; try discriminate;
      destruct b as [sb|sb| |sb mb eb Hb]; try discriminate; cbn; eauto. }
  destruct S as (c & ->). destruct c; cbn; intros H; try reflexivity. congruence.
Qed.

(* ---- spec_float level *)
Lemma f_trunc_some x z : f_trunc w x = Some z ->
  is_finite (sf2b w x) = true /\ Btrunc (sf2b w x) = z.
Proof.
  unfold f_trunc. destruct (is_finite (sf2b w x)); [|discriminate].
  intros H; inversion H; auto.
Qed.

Lemma sf2b_nan : sf2b w S754_nan = B754_nan.
Proof. destruct w; reflexivity. Qed.

Lemma finite_not_nan x : is_finite (sf2b w x) = true -> is_nan_sf x = false.
Proof. destruct x; try reflexivity. rewrite sf2b_nan. discriminate. Qed.

Definition inrange (lo hi v : sf) : Prop := fle w lo v = true /\ fle w v hi = true.

(* np.clip(y, lo, hi) = minimum(maximum(y, lo), hi) for y not NaN and finite lo <= hi *)
Lemma clip_inrange y lo hi :
  is_finite (sf2b w lo) = true -> is_finite (sf2b w hi) = true -> fle w lo hi = true ->
  is_nan_sf y = false -> inrange lo hi (fclip w y lo hi).
Proof.
  intros Fl Fh Hlh Ny.
  pose proof (finite_not_nan lo Fl) as Nl. pose proof (finite_not_nan hi Fh) as Nh.
  assert (Rl : fle w lo lo = true) by (rewrite fle_ble; now apply ble_refl).
  assert (Rh : fle w hi hi = true) by (rewrite fle_ble; now apply ble_refl).
  unfold fclip, fmaximum, fminimum, fge. rewrite Ny, Nl.
  destruct (fle w lo y) eqn:E1.
  - rewrite Ny, Nh. destruct (fle w y hi) eqn:E2; split; assumption.
  - rewrite Nl, Nh, Hlh. split; assumption.
Qed.

Lemma clip_nan y lo hi : is_nan_sf y = true -> fclip w y lo hi = y.
Proof.
  intros Ny. unfold fclip, fmaximum, fminimum. rewrite Ny, Ny. reflexivity.
Qed.

Lemma inrange_trunc lo hi v zlo zhi :
  f_trunc w lo = Some zlo -> f_trunc w hi = Some zhi -> inrange lo hi v ->
  exists z, f_trunc w v = Some z /\ zlo <= z <= zhi.
Proof.
  intros Hl Hh [H1 H2].
  apply f_trunc_some in Hl as [Fl <-]. apply f_trunc_some in Hh as [Fh <-].
  rewrite fle_ble in H1, H2.
  destruct (between_trunc _ _ _ Fl Fh H1 H2) as [Fv Hz].
  exists (Btrunc (sf2b w v)). split; [|exact Hz]. unfold f_trunc. now rewrite Fv.
Qed.

Definition bnan (x : sf) : bool := is_nan (sf2b w x).

Lemma bnan_sf x : bnan x = false -> is_nan_sf x = false.
Proof. unfold bnan. destruct x; try reflexivity. rewrite sf2b_nan. discriminate. Qed.

Lemma finite_bnan x : is_finite (sf2b w x) = true -> bnan x = false.
Proof. unfold bnan. destruct (sf2b w x); try reflexivity; discriminate. Qed.

Lemma flt_false_fle a b : bnan a = false -> bnan b = false -> flt w b a = false -> fle w a b = true.
Proof.
  intros Na Nb H. rewrite fle_ble. apply ble_total; auto.
  unfold flt, fcmp in H. intros E. rewrite E in H. discriminate.
Qed.

Lemma fle_trans a b c : fle w a b = true -> fle w b c = true -> fle w a c = true.
Proof. rewrite !fle_ble. apply ble_trans. Qed.

(* the clip bounds computed by array_to_file lie inside the safe range, in order *)
Lemma post_bounds_f_ok p_mn p_mx both_mn both_mx :
  is_finite (sf2b w both_mn) = true -> is_finite (sf2b w both_mx) = true ->
  fle w both_mn both_mx = true -> bnan p_mn = false -> bnan p_mx = false ->
  let '(q_mn, q_mx) := post_bounds_f w p_mn p_mx both_mn both_mx in
  inrange both_mn both_mx q_mn /\ inrange both_mn both_mx q_mx /\ fle w q_mn q_mx = true.
Proof.
  intros Fl Fh Hlh N1 N2.
  assert (Rl : fle w both_mn both_mn = true) by (rewrite fle_ble; now apply ble_refl).
  assert (Rh : fle w both_mx both_mx = true) by (rewrite fle_ble; now apply ble_refl).
  pose proof (finite_bnan _ Fl) as Nl. pose proof (finite_bnan _ Fh) as Nh.
  unfold post_bounds_f.
  assert (G : forall a b, bnan a = false -> bnan b = false ->
    let q_mn := fmaximum w a both_mn in let q_mx := fminimum w b both_mx in
    let '(q1, q2) := if flt w q_mx q_mn
                     then (if flt w q_mx both_mn then (both_mn, both_mn) else (both_mx, both_mx))
                     else (q_mn, q_mx) in
    inrange both_mn both_mx q1 /\ inrange both_mn both_mx q2 /\ fle w q1 q2 = true).
  { intros a b Na Nb q_mn q_mx.
    assert (Qmn : bnan q_mn = false /\ fle w both_mn q_mn = true).
    { unfold q_mn, fmaximum, fge. rewrite (bnan_sf _ Na), (bnan_sf _ Nl).
      destruct (fle w both_mn a) eqn:E; auto. }
    assert (Qmx : bnan q_mx = false /\ fle w q_mx both_mx = true).
    { unfold q_mx, fminimum. rewrite (bnan_sf _ Nb), (bnan_sf _ Nh).
      destruct (fle w b both_mx) eqn:E; auto. }
    destruct Qmn as [Nq1 L1]. destruct Qmx as [Nq2 U2].
    destruct (flt w q_mx q_mn) eqn:C.
    - destruct (flt w q_mx both_mn); unfold inrange; auto.
    - pose proof (flt_false_fle _ _ Nq1 Nq2 C) as M.
      unfold inrange. repeat split; auto.
      + exact (fle_trans _ _ _ M U2).
      + exact (fle_trans _ _ _ L1 M). }
  destruct (fgt w p_mn p_mx); [apply (G p_mx p_mn N2 N1)|apply (G p_mn p_mx N1 N2)].
Qed.

(* C02_no_wrap_float: lo <= hi are the clip bounds, with integer values zlo, zhi inside the safe
   range [A, Z] of the integer type; nan_fill (when nan2zero) has an integer value in [A, Z] *)
Lemma no_wrap_float t sl it lo hi nf x zlo zhi A Z :
  1 <= iwidth t ->
  f_trunc w lo = Some zlo -> f_trunc w hi = Some zhi -> fle w lo hi = true ->
  imin t <= A -> A <= zlo -> zhi <= Z -> Z <= imax t ->
  match nf with
  | Some n => exists zn, f_trunc w n = Some zn /\ A <= zn <= Z
  | None => is_nan_sf (frint w (scale_w w sl it x)) = false
  end ->
  exists z, f_trunc w (elem_f w sl it lo hi nf x) = Some z
            /\ A <= z <= Z
            /\ (is_nan_sf (frint w (scale_w w sl it x)) = false -> zlo <= z <= zhi)
            /\ cast_to_int w t (elem_f w sl it lo hi nf x) = (z, false)
            /\ wrap t z = z.
Proof.
  intros Hw Hl Hh Hlh HA1 HA2 HZ1 HZ2 Hnf.
  assert (Fin : forall v z, f_trunc w v = Some z -> A <= z <= Z ->
                cast_to_int w t v = (z, false) /\ wrap t z = z).
  { intros v z Hv Hz. split.
    - unfold cast_to_int. rewrite Hv. unfold in_ity.
      replace ((imin t <=? z) && (z <=? imax t)) with true by lia. reflexivity.
    - apply wrap_id; [exact Hw|lia]. }
  unfold elem_f. set (y := frint w (scale_w w sl it x)) in *.
  pose proof (f_trunc_some _ _ Hl) as [Fl _]. pose proof (f_trunc_some _ _ Hh) as [Fh _].
  destruct (is_nan_sf y) eqn:Ny.
  - rewrite (clip_nan y lo hi Ny), Ny.
    destruct nf as [n|]; [|discriminate].
    destruct Hnf as (zn & Hn & Hz). exists zn.
    destruct (Fin n zn Hn Hz) as (C & D). repeat split; auto; try lia; discriminate.
  - pose proof (clip_inrange y lo hi Fl Fh Hlh Ny) as IR.
    destruct (inrange_trunc lo hi _ zlo zhi Hl Hh IR) as (z & Hz & Hb).
    assert (Nc : is_nan_sf (fclip w y lo hi) = false).
    { apply finite_not_nan. apply f_trunc_some in Hz. tauto. }
    exists z.
    assert (E : (match nf with Some n => if is_nan_sf (fclip w y lo hi) then n else fclip w y lo hi
                           | None => fclip w y lo hi end) = fclip w y lo hi).
    { destruct nf; [rewrite Nc|]; reflexivity. }
    rewrite E. destruct (Fin _ z Hz ltac:(lia)) as (C & D). repeat split; auto; lia.
Qed.

(* the same with the bounds array_to_file computes: both_mn/both_mx are the safe range (integers
   bmn <= bmx inside the type), p_mn/p_mx ANY scaled thresholds that are valid non-NaN floats *)
Lemma no_wrap_pipeline t sl it p_mn p_mx both_mn both_mx nf x bmn bmx :
  1 <= iwidth t ->
  f_trunc w both_mn = Some bmn -> f_trunc w both_mx = Some bmx -> fle w both_mn both_mx = true ->
  imin t <= bmn -> bmx <= imax t ->
  bnan p_mn = false -> bnan p_mx = false ->
  match nf with
  | Some n => inrange both_mn both_mx n
  | None => is_nan_sf (frint w (scale_w w sl it x)) = false
  end ->
  let '(q_mn, q_mx) := post_bounds_f w p_mn p_mx both_mn both_mx in
  exists z, cast_to_int w t (elem_f w sl it q_mn q_mx nf x) = (z, false)
            /\ bmn <= z <= bmx /\ wrap t z = z.
Proof.
  intros Hw Hl Hh Hlh H1 H2 N1 N2 Hnf.
  pose proof (f_trunc_some _ _ Hl) as [Fl _]. pose proof (f_trunc_some _ _ Hh) as [Fh _].
  pose proof (post_bounds_f_ok p_mn p_mx both_mn both_mx Fl Fh Hlh N1 N2) as P.
  destruct (post_bounds_f w p_mn p_mx both_mn both_mx) as [q_mn q_mx].
  destruct P as (I1 & I2 & O).
  destruct (inrange_trunc _ _ _ _ _ Hl Hh I1) as (a & Ha & Hab).
  destruct (inrange_trunc _ _ _ _ _ Hl Hh I2) as (b & Hb & Hbb).
  assert (Hnf' : match nf with
                 | Some n => exists zn, f_trunc w n = Some zn /\ bmn <= zn <= bmx
                 | None => is_nan_sf (frint w (scale_w w sl it x)) = false end).
  { destruct nf as [n|]; [|exact Hnf]. exact (inrange_trunc _ _ _ _ _ Hl Hh Hnf). }
  destruct (no_wrap_float t sl it q_mn q_mx nf x a b bmn bmx Hw Ha Hb O H1 ltac:(lia) ltac:(lia) H2 Hnf')
    as (z & _ & Hz & _ & C & D).
  exists z. auto.
Qed.

End Format.

(* ---------------------------------------------------------------- the safe bounds of this platform *)
Definition opt_eqb (o : option Z) (z : Z) : bool := match o with Some a => a =? z | None => false end.

(* for the three working formats x eight integer types: shared_range succeeds and its bounds,
   converted to the working format as array_to_file does, are finite floats whose integer
   values are the bounds themselves, in order, inside the type *)
Definition safe_bounds_okb (w : fid) (t : ity) : bool :=
  match sr_k w t with
  | Ok (a, b) => opt_eqb (f_trunc w (f_of_Z w a)) a && opt_eqb (f_trunc w (f_of_Z w b)) b
                 && fle w (f_of_Z w a) (f_of_Z w b) && (imin t <=? a) && (b <=? imax t) && (1 <=? iwidth t)
  | Err _ => false
  end.

Lemma safe_bounds_table :
  forallb (fun w => forallb (safe_bounds_okb w) all_itys) [K32; K64; K80] = true.
Proof. vm_compute. reflexivity. Qed.

Lemma no_wrap_platform w t sl it p_mn p_mx nf x :
  In w [K32; K64; K80] -> In t all_itys ->
  bnan w p_mn = false -> bnan w p_mx = false ->
  exists bmn bmx, sr_k w t = Ok (bmn, bmx) /\ imin t <= bmn /\ bmx <= imax t /\
    let both_mn := f_of_Z w bmn in let both_mx := f_of_Z w bmx in
    (match nf with
     | Some n => inrange w both_mn both_mx n
     | None => is_nan_sf (frint w (scale_w w sl it x)) = false
     end ->
     let '(q_mn, q_mx) := post_bounds_f w p_mn p_mx both_mn both_mx in
     exists z, cast_to_int w t (elem_f w sl it q_mn q_mx nf x) = (z, false)
               /\ bmn <= z <= bmx /\ wrap t z = z).
Proof.
  intros Hw Ht N1 N2. pose proof safe_bounds_table as T.
  rewrite forallb_forall in T. specialize (T w Hw). rewrite forallb_forall in T. specialize (T t Ht).
  unfold safe_bounds_okb in T. destruct (sr_k w t) as [[bmn bmx]|]; [|discriminate].
  repeat rewrite andb_true_iff in T. destruct T as [[[[[T1 T2] T3] T4] T5] T6].
  exists bmn, bmx. split; [reflexivity|]. split; [lia|]. split; [lia|].
  intros both_mn both_mx Hnf.
  assert (E1 : f_trunc w both_mn = Some bmn).
  { unfold opt_eqb in T1. fold both_mn in T1. destruct (f_trunc w both_mn); [|discriminate]. f_equal. lia. }
  assert (E2 : f_trunc w both_mx = Some bmx).
  { unfold opt_eqb in T2. fold both_mx in T2. destruct (f_trunc w both_mx); [|discriminate]. f_equal. lia. }
  apply (no_wrap_pipeline w t sl it p_mn p_mx both_mn both_mx nf x bmn bmx); auto; lia.
Qed.

(* ---------------------------------------------------------------- read side: one quantitative piece
   apply_read_scaling computes RN(RN(raw * slope) + inter) in binary64.  Over the rounding
   operator RN = round-to-nearest-even onto binary64 (FLT_exp (-1074) 53) -- which is what
   Flocq's Bmult_correct / Bplus_correct say the float operations compute when nothing
   overflows -- the reload differs from the exact raw*slope + inter by at most half an ulp of
   the product plus half an ulp of the sum. *)
From Flocq Require Import Core.Zaux Core.Ulp Core.FLT Core.Round_NE.
Open Scope R_scope.

Definition RN64 (x : R) : R := round radix2 (FLT_exp (-1074) 53) ZnearestE x.

Lemma read_error_real (p i : R) :
  Rabs (RN64 (RN64 p + i) - (p + i))
  <= / 2 * ulp radix2 (FLT_exp (-1074) 53) p + / 2 * ulp radix2 (FLT_exp (-1074) 53) (RN64 p + i).
Proof.
  assert (V : Valid_exp (FLT_exp (-1074) 53)) by (apply FLT_exp_valid; reflexivity).
  assert (E : forall x, Rabs (RN64 x - x) <= / 2 * ulp radix2 (FLT_exp (-1074) 53) x).
  { intros x. unfold RN64. exact (error_le_half_ulp radix2 (FLT_exp (-1074) 53) (fun z => negb (Z.even z)) x). }
  pose proof (E p) as E1. pose proof (E (RN64 p + i)) as E2.
  replace (RN64 (RN64 p + i) - (p + i)) with ((RN64 (RN64 p + i) - (RN64 p + i)) + (RN64 p - p)) by ring.
  eapply Rle_trans; [apply Rabs_triang|]. lra.
Qed.
