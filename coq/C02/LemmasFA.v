(* C02/LemmasFA.v — the lift from one element to whole arrays, binary64 working format: what
   array_to_file / writer_write do on a float64 array is, element by element, the function of
   LemmasFG (elem_f in binary64 with the clip bounds computed by post_bounds_f), so the
   per-element theorems apply to every element of every written array. *)
From Coq Require Import ZArith Reals List Bool Lia Lra Floats.SpecFloat.
From Flocq Require Import Core.Zaux Core.Raux Core.Defs Core.Float_prop Core.Generic_fmt Core.FLT
  Core.Ulp Core.Round_NE IEEE754.BinarySingleNaN.
From NV Require Import C02.Model C02.Tables C02.ModelF C02.Lemmas C02.LemmasF C02.LemmasFW C02.LemmasFN
  C02.LemmasFR C02.LemmasFG.
Import ListNotations.
Open Scope R_scope.

Lemma fin_is_fin_sf w v : is_finite (sf2b w v) = true -> is_fin_sf v = true.
Proof.
  destruct v as [s|s| |s m e]; try reflexivity; intros H.
  - rewrite sf2b_inf in H. discriminate.
  - rewrite sf2b_nan in H. discriminate.
Qed.

(* the no-overflow guards of one element for stored slope s and intercept i *)
Definition guard (s i : R) (x : sf) : Prop :=
  Rabs (val x - i) <= bpow radix2 1023 /\ Rabs (RN64 (val x - i) / s) <= bpow radix2 52.

Section Lift.
Variables (slope inter : sf).
Hypothesis Fs : is_finite_strict (sf2b K32 slope) = true.
Hypothesis Fi : is_finite (sf2b K32 inter) = true.
Let s := B2R (sf2b K32 slope).
Let i := B2R (sf2b K32 inter).
Let sl := fconv K64 slope.
Let it := fconv K64 inter.

Lemma sl_it : fin_nz K64 sl /\ val sl = s /\ fin K64 it /\ val it = i.
Proof.
  destruct (strict_fin_nz _ _ Fs) as [Fs1 Fs2].
  destruct (fconv_exact K32 K64 slope ltac:(cbn; lia) Fs1) as [A B].
  destruct (fconv_exact K32 K64 inter ltac:(cbn; lia) Fi) as [C D].
  repeat split; auto. unfold sl. rewrite B. exact Fs2.
Qed.

Lemma scaled_fin x : fin K64 x -> guard s i x ->
  is_fin_sf (scale_w K64 sl it (fconv K64 x)) = true.
Proof.
  intros Fx [G1 G2]. destruct sl_it as (Hsl & Vsl & Hit & Vit).
  destruct (fconv_exact K64 K64 x ltac:(lia) Fx) as [Fx' Vx'].
  apply (fin_is_fin_sf K64).
  apply (scale_RN sl it (fconv K64 x) Fx' Hsl Hit).
  - rewrite Vx', Vit. exact G1.
  - rewrite Vx', Vit, Vsl. eapply Rle_trans; [exact G2|]. apply bpow_le. lia.
Qed.

(* best_write_scale_ftype keeps binary64 when the scaled extremes are finite *)
Lemma best_K64 mn mx : fin K64 mn -> fin K64 mx -> guard s i mn -> guard s i mx ->
  best_write_scale_ftype K64 slope inter (NF K64 mn) (NF K64 mx) = K64.
Proof.
  intros Fmn Fmx Gmn Gmx. unfold best_write_scale_ftype. cbn [num_to].
  destruct (fconv_exact K64 K80 mn ltac:(cbn; lia) Fmn) as [A _].
  destruct (fconv_exact K64 K80 mx ltac:(cbn; lia) Fmx) as [B _].
  rewrite (fin_is_fin_sf K80 _ A), (fin_is_fin_sf K80 _ B). cbn [andb negb].
  change (kinds_from K64) with [K64; K80]. cbn [filter].
  fold sl it. rewrite (scaled_fin mn Fmn Gmn), (scaled_fin mx Fmx Gmx). reflexivity.
Qed.

(* C02_array_lift: array_to_file on a float64 array with finite thresholds mn, mx whose scaled
   values do not overflow: either only zeros are written (thresholds (0,0): all finite data are
   zero) or the working format is binary64, the clip bounds are q_mn, q_mx computed by
   post_bounds_f and every stored integer is the cast of elem_f in binary64; every element x
   satisfying the guards whose rounded scaled value lies inside [q_mn, q_mx] is stored as
   k = rint(RN(RN(x - i)/s)) -- with a value-preserving cast -- and reloads as RN(RN(k*s) + i) *)
Lemma atf_K64 xs tout mn mx sk ik n2z o t' :
  In tout all_itys -> fin K64 mn -> fin K64 mx -> guard s i mn -> guard s i mx ->
  array_to_file (InF K64 xs) tout slope inter sk ik (Some (NF K64 mn, NF K64 mx)) n2z = Ok o ->
  o_raw o = repeat 0%Z (length xs)
  \/ exists q_mn q_mx nf,
       o_raw o = map (fun x => fst (cast_to_int K64 tout (elem_f K64 sl it q_mn q_mx nf (fconv K64 x)))) xs
       /\ forall x, fin K64 x -> guard s i x ->
            let y := frint K64 (scale_w K64 sl it (fconv K64 x)) in
            fle K64 q_mn y = true -> fle K64 y q_mx = true ->
            let k := ZnearestE (RN64 (RN64 (val x - i) / s)) in
            let r := snd (read_elem t' K64 sl it k) in
            cast_to_int K64 tout (elem_f K64 sl it q_mn q_mx nf (fconv K64 x)) = (k, false)
            /\ fin K64 r /\ val r = RN64 (RN64 (IZR k * s) + i).
Proof.
  intros Ht Fmn Fmx Gmn Gmx H.
  destruct sl_it as (Hsl & Vsl & Hit & Vit).
  unfold array_to_file in H. cbv zeta in H.
  destruct (negb (is_fin_sf inter && is_fin_sf slope)); [discriminate|].
  destruct (feq sk slope fzero); [discriminate|].
  destruct ((num_eq (NF K64 mn) (NI 0) && num_eq (NF K64 mx) (NI 0)) || num_lt (NF K64 mx) (NF K64 mn)).
  { left. inversion H. reflexivity. }
  right. cbn [cast_in_kind working_type] in H.
  rewrite (best_K64 mn mx Fmn Fmx Gmn Gmx) in H. fold sl it in H.
  (* the safe bounds of binary64 x tout *)
  pose proof safe_bounds_table as T.
  rewrite forallb_forall in T. specialize (T K64 ltac:(cbn; auto)).
  rewrite forallb_forall in T. specialize (T tout Ht). unfold safe_bounds_okb in T.
  destruct (sr_k K64 tout) as [[bmn bmx]|]; [|discriminate]. cbn [bind] in H.
  repeat rewrite andb_true_iff in T. destruct T as [[[[[T1 T2] T3] T4] T5] T6].
  set (both_mn := f_of_Z K64 bmn) in *. set (both_mx := f_of_Z K64 bmx) in *.
  assert (E1 : f_trunc K64 both_mn = Some bmn).
  { unfold opt_eqb in T1. destruct (f_trunc K64 both_mn); [|discriminate]. f_equal. lia. }
  assert (E2 : f_trunc K64 both_mx = Some bmx).
  { unfold opt_eqb in T2. destruct (f_trunc K64 both_mx); [|discriminate]. f_equal. lia. }
  apply bind_ok in H as (nfv & _ & H).
  set (p_mn := frint K64 (scale_w K64 sl it (num_to K64 (NF K64 mn)))) in *.
  set (p_mx := frint K64 (scale_w K64 sl it (num_to K64 (NF K64 mx)))) in *.
  assert (N1 : bnan K64 p_mn = false).
  { apply scaled_rint_bnan; auto. cbn [num_to]. apply fconv_bnan.
    apply (finite_not_nan K64). exact Fmn. }
  assert (N2 : bnan K64 p_mx = false).
  { apply scaled_rint_bnan; auto. cbn [num_to]. apply fconv_bnan.
    apply (finite_not_nan K64). exact Fmx. }
  pose proof (f_trunc_some _ _ _ E1) as [Fl _]. pose proof (f_trunc_some _ _ _ E2) as [Fh _].
  pose proof (post_bounds_f_ok K64 p_mn p_mx both_mn both_mx Fl Fh T3 N1 N2) as PB.
  destruct (post_bounds_f K64 p_mn p_mx both_mn both_mx) as [q_mn q_mx].
  destruct PB as ([L1 _] & [_ U2] & _).
  inversion H; subst o; clear H. cbn [o_raw].
  exists q_mn, q_mx, (if n2z then Some nfv else None). split.
  { rewrite map_map. reflexivity. }
  intros x Fx G. destruct G as [G1 G2]. intros Hy1 Hy2.
  set (k := ZnearestE (RN64 (RN64 (val x - i) / s))).
  set (r := snd (read_elem t' K64 sl it k)).
  destruct (fconv_exact K64 K64 x (Z.le_refl _) Fx) as [Fx' Vx'].
  assert (G1'' : Rabs (val (fconv K64 x) - i) <= bpow radix2 1023) by (rewrite Vx'; exact G1).
  assert (G2'' : Rabs (RN64 (val (fconv K64 x) - i) / s) <= bpow radix2 52) by (rewrite Vx'; exact G2).
  destruct (write_read_rounding slope inter q_mn q_mx (if n2z then Some nfv else None) (fconv K64 x) t'
              Fx' Fs Fi G1'' G2'' Hy1 Hy2) as (Tk & Fr & Vr).
  rewrite Vx' in Tk, Fr, Vr.
  assert (Tk' : f_trunc K64 (elem_f K64 sl it q_mn q_mx (if n2z then Some nfv else None) (fconv K64 x)) = Some k)
    by (unfold k, sl, it, s, i; exact Tk).
  split; [|split; [unfold r, k, sl, it, s, i; exact Fr|unfold r, k, sl, it, s, i; exact Vr]].
  (* the cast preserves k: k lies between the integers of the safe bounds *)
  assert (IR : inrange K64 both_mn both_mx
                 (elem_f K64 sl it q_mn q_mx (if n2z then Some nfv else None) (fconv K64 x))).
  { assert (G1' : Rabs (val (fconv K64 x) - val it) <= bpow radix2 1023) by (rewrite Vx', Vit; exact G1).
    assert (G2' : Rabs (RN64 (val (fconv K64 x) - val it) / val sl) <= bpow radix2 1023).
    { rewrite Vx', Vit, Vsl. eapply Rle_trans; [exact G2|]. apply bpow_le. clear. lia. }
    destruct (write_is_rounding sl it q_mn q_mx (if n2z then Some nfv else None) (fconv K64 x)
                Fx' Hsl Hit G1' G2' Hy1 Hy2) as (Ee & _ & _).
    rewrite Ee. split; [exact (fle_trans K64 _ _ _ L1 Hy1)|exact (fle_trans K64 _ _ _ Hy2 U2)]. }
  destruct (inrange_trunc K64 _ _ _ _ _ E1 E2 IR) as (z & Hz & Hb).
  rewrite Tk' in Hz. inversion Hz; subst z.
  assert (In' : in_ity tout k = true) by (clear -Hb T4 T5; unfold in_ity; lia).
  unfold cast_to_int. rewrite Tk', In'. reflexivity.
Qed.

End Lift.

(* ---------------------------------------------------------------- the SPM path on a whole array *)
Lemma sf2b_of_valid w x (H : valid_binary (kprec w) (kemax w) x = true) : sf2b w x = SF2B x H.
Proof. rewrite <- (B2SF_SF2B _ _ x H) at 1. apply sf2b_B2SF. Qed.

Lemma fconv_valid w x : valid_binary (kprec w) (kemax w) (fconv w x) = true.
Proof. destruct x as [s|s| |s m e]; try reflexivity. cbn [fconv]. apply valid_binary_B2SF. Qed.

Lemma strict_of_checks x : valid_binary (kprec K32) (kemax K32) x = true ->
  is_fin_sf x = true -> feq K32 x fzero = false -> is_finite_strict (sf2b K32 x) = true.
Proof.
  intros V F Z. rewrite (sf2b_of_valid K32 x V).
  destruct x as [s|s| |s m e]; try discriminate. reflexivity.
Qed.

Lemma slope_valid k xs tout sc : calc_scale WSlope (InF k xs) tout = Ok sc ->
  valid_binary (kprec K32) (kemax K32) (s_slope sc) = true /\ s_inter sc = fzero.
Proof.
  intros H. split; [|exact (calc_scale_slope _ _ _ H)].
  unfold calc_scale in H. cbv zeta in H.
  destruct (_ || _).
  - inversion H. vm_compute. reflexivity.
  - unfold range_scale_s in H. cbv zeta in H.
    destruct (negb (isigned tout)).
    + destruct (num_lt _ _ && num_lt _ _); [discriminate|]. inversion H. cbn. apply fconv_valid.
    + inversion H. cbn. apply fconv_valid.
Qed.

(* C02_array_gap_slope_only (the SPM path, SlopeArrayWriter, on a whole float64 array).
   Hypotheses on the INPUT ARRAY only: its finite range (mn, mx) is finite, and every element is
   finite; plus the no-overflow guard |x/s| <= 2^52 for the stored slope s (which part (4)
   derives from the data for every slope in float32's normal range).  Then either only zeros
   are written (all finite data zero) or every element inside the clip range is stored as
   k = rint(RN(x/s)) with a value-preserving cast and reloads within
   |s|/2 + |x| * 2^-52 + |s| * 2^-52 of x. *)
Lemma spm_array_gap xs tout sc o t' mn mx hn :
  In tout all_itys ->
  finite_range_f K64 xs = (mn, mx, hn) -> fin K64 mn -> fin K64 mx ->
  writer_write WSlope (InF K64 xs) tout = Ok (sc, o) ->
  let s := B2R (sf2b K32 (s_slope sc)) in
  Rabs (val mn / s) <= bpow radix2 52 -> Rabs (val mx / s) <= bpow radix2 52 ->
  o_raw o = repeat 0%Z (length xs)
  \/ exists q_mn q_mx nf,
       o_raw o = map (fun x => fst (cast_to_int K64 tout
                      (elem_f K64 (fconv K64 (s_slope sc)) fzero q_mn q_mx nf (fconv K64 x)))) xs
       /\ forall x, fin K64 x -> Rabs (val x / s) <= bpow radix2 52 ->
            let y := frint K64 (scale_w K64 (fconv K64 (s_slope sc)) fzero (fconv K64 x)) in
            fle K64 q_mn y = true -> fle K64 y q_mx = true ->
            let k := ZnearestE (RN64 (val x / s)) in
            let r := snd (read_elem t' K64 (fconv K64 (s_slope sc)) fzero k) in
            cast_to_int K64 tout (elem_f K64 (fconv K64 (s_slope sc)) fzero q_mn q_mx nf (fconv K64 x)) = (k, false)
            /\ Rabs (val r - val x) <= Rabs s * / 2 + Rabs (val x) * bpow radix2 (-52) + Rabs s * bpow radix2 (-52).
Proof.
  intros Ht FR Fmn Fmx H s Gmn Gmx.
  unfold writer_write in H. apply bind_ok in H as (sc0 & Hc & H).
  apply bind_ok in H as (o0 & Ha & H). inversion H; subst sc0 o0. clear H.
  destruct (slope_valid _ _ _ _ Hc) as [Vs _].
  (* the pre-scale thresholds are the finite range *)
  assert (WR : writing_range (InF K64 xs) = Some (NF K64 mn, NF K64 mx)).
  { unfold writing_range, view. rewrite FR. cbn.
    replace (is_inf_sf mn) with false; [reflexivity|].
    destruct mn as [a|a| |a m e]; try reflexivity. unfold fin in Fmn. rewrite sf2b_inf in Fmn. discriminate. }
  rewrite WR in Ha.
  (* the checks of array_to_file make the slope a finite non-zero float32 *)
  assert (Fs : is_finite_strict (sf2b K32 (s_slope sc)) = true).
  { unfold array_to_file in Ha. cbv zeta in Ha.
    destruct (is_fin_sf (s_slope sc)) eqn:F1; [|rewrite andb_false_r in Ha; discriminate].
    destruct (feq K32 (s_slope sc) fzero) eqn:Z1.
    - destruct (negb (is_fin_sf fzero && true)); discriminate.
    - exact (strict_of_checks _ Vs F1 Z1). }
  assert (Fi : is_finite (sf2b K32 (S754_zero false)) = true) by (rewrite sf2b_zero; reflexivity).
  assert (Vz : B2R (sf2b K32 (S754_zero false)) = 0) by (rewrite sf2b_zero; reflexivity).
  destruct (strict_fin_nz _ _ Fs) as [_ Fs2]. fold s in Fs2.
  assert (Bs : Rabs s < bpow radix2 128) by apply (abs_B2R_lt_emax (kprec K32) (kemax K32)).
  assert (Ps : 0 < Rabs s) by (apply Rabs_pos_lt; exact Fs2).
  (* |x/s| <= 2^52 gives both guards with intercept 0 *)
  assert (GD : forall x, fin K64 x -> Rabs (val x / s) <= bpow radix2 52 ->
               guard s (B2R (sf2b K32 (S754_zero false))) x).
  { intros x Fx Hq. rewrite Vz. unfold guard. rewrite Rminus_0_r.
    rewrite (RN64_generic _ (val_generic x)). split; [|exact Hq].
    replace (val x) with (val x / s * s) by (field; exact Fs2). rewrite Rabs_mult.
    apply Rle_trans with (bpow radix2 52 * bpow radix2 128).
    - apply Rmult_le_compat; try apply Rabs_pos; lra.
    - rewrite <- bpow_plus. apply bpow_le. clear. lia. }
  change fzero with (S754_zero false) in Ha.
  destruct (atf_K64 (s_slope sc) (S754_zero false) Fs Fi xs tout mn mx K32 K64 (needs_nan2zero (InF K64 xs)) o t'
              Ht Fmn Fmx (GD mn Fmn Gmn) (GD mx Fmx Gmx) Ha) as [Z0|(q_mn & q_mx & nf & E & P)].
  { left. exact Z0. }
  right. exists q_mn, q_mx, nf. split; [exact E|].
  intros x Fx Hq y Hy1 Hy2 k r.
  destruct (P x Fx (GD x Fx Hq) Hy1 Hy2) as (C & _ & _).
  rewrite Vz, Rminus_0_r, (RN64_generic _ (val_generic x)) in C. fold s in C.
  split; [exact C|].
  destruct (fconv_exact K64 K64 x (Z.le_refl _) Fx) as [Fx' Vx'].
  assert (Hq' : Rabs (val (fconv K64 x) / s) <= bpow radix2 52) by (rewrite Vx'; exact Hq).
  destruct (slope_only_gap (s_slope sc) q_mn q_mx nf (fconv K64 x) t' Fx' Fs Hq' Hy1 Hy2) as (_ & _ & B).
  rewrite Vx' in B. exact B.
Qed.

(* ---------------------------------------------------------------- S-C02c, exactly *)
(* The relative-error argument for the stored slope (C02_setter_rounding) holds for ideal slopes
   of magnitude >= 2^-126, the smallest normal float32; below it fails: float32 data
   [13110, -31433, 54936] * 2^-149 written as int16 through SlopeInterArrayWriter get the stored
   slope 2^-149 (the ideal slope is about 1.32 * 2^-149: 24 % relative error) and intercept
   11752 * 2^-149; the second element is clipped to -32768 and reloads as
   (-32768 + 11752) * 2^-149 = -21016 * 2^-149: 10417 steps away from -31433 * 2^-149. *)
Open Scope Z_scope.
Lemma subnormal_slope_witness :
  writer_write WSlopeInter
    (InF K32 [S754_finite false 13110 (-149); S754_finite true 31433 (-149); S754_finite false 54936 (-149)])
    ity_int16
  = Ok (mkScaling (S754_finite false 1 (-149)) (S754_finite false 11752 (-149)) false,
        mkWout [1358; -32768; 32767] false)
  /\ Z.abs ((-32768) * 1 + 11752 - (-31433)) = 10417.
Proof. split; vm_compute; reflexivity. Qed.
