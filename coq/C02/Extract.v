(* C02/Extract.v — extraction of the executable model (ExtrOcamlBasic only; Z stays inductive) *)
Require Extraction. Require ExtrOcamlBasic.
From NV Require Import C02.Model C02.Tables C02.ModelF C02.ModelQ.
Extraction Language OCaml.
Extraction "c02_model.ml" floor_log2 rne conv floor_exact ceil_exact shared_range int_abs wrap
  can_cast_ii make_writer_kind iu_decide set_slope_inter
  all_fmts all_itys all_caps ok_floats best_float trunc_uint64 length
  writer_write image_write apply_read_scaling calc_scale fconv f_of_Z frint fdiv fsub_ fadd fmul
  array_to_file_q rint_q finite_range_f.
