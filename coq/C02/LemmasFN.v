(* C02/LemmasFN.v — the arithmetic of the float layer never produces NaN from non-NaN data when
   the slope is finite and non-zero and the intercept is finite; exactness of the conversions
   between formats (float32 -> working format) and of small integers.  Flocq correctness
   theorems (Bminus_correct, Bdiv_correct, Bnearbyint_correct, binary_normalize_correct). *)
From Coq Require Import ZArith Reals List Bool Lia Lra Floats.SpecFloat.
From Flocq Require Import Core.Zaux Core.Raux Core.Defs Core.Float_prop Core.Generic_fmt Core.FLT Core.FIX
  IEEE754.BinarySingleNaN.
From NV Require Import C02.Model C02.Tables C02.ModelF C02.Lemmas C02.LemmasFW.
Import ListNotations.
Open Scope Z_scope.

Section Format.
Variable w : fid.
Notation B := (bf w).
Notation P := (kprec w).
Notation E := (kemax w).

Lemma sf2b_B2SF (b : B) : sf2b w (B2SF b) = b.
Proof.
  unfold sf2b. destruct (Bool.bool_dec _ true) as [H|n].
  - apply B2SF_inj. now rewrite B2SF_SF2B.
  - exfalso. apply n. apply valid_binary_B2SF.
Qed.

Lemma bnan_B2SF (b : B) : bnan w (B2SF b) = is_nan b.
Proof. unfold bnan. now rewrite sf2b_B2SF. Qed.

Lemma finite_not_nan_b (b : B) : is_finite b = true -> is_nan b = false.
Proof. destruct b; easy. Qed.

Lemma overflow_not_nan (b : B) m s : B2SF b = binary_overflow P E m s -> is_nan b = false.
Proof. intros H. rewrite <- is_nan_SF_B2SF, H. apply is_nan_binary_overflow. Qed.

Lemma bminus_not_nan (x y : B) : is_nan x = false -> is_finite y = true ->
  is_nan (Bminus mode_NE x y) = false.
Proof.
  intros Nx Fy. destruct (is_finite x) eqn:Fx.
  - generalize (Bminus_correct P E _ _ mode_NE x y Fx Fy). destruct Rlt_bool.
    + intros (_ & F & _). now apply finite_not_nan_b.
    + intros [H _]. now apply overflow_not_nan in H.
  - destruct x as [sx|sx| |sx mx ex Hx]; try discriminate.
    destruct y as [sy|sy| |sy my ey Hy]; try discriminate; reflexivity.
Qed.

Lemma bdiv_not_nan (x y : B) : is_nan x = false -> is_finite y = true -> B2R y <> 0%R ->
  is_nan (Bdiv mode_NE x y) = false.
Proof.
  intros Nx Fy Zy. destruct (is_finite x) eqn:Fx.
  - generalize (Bdiv_correct P E _ _ mode_NE x y Zy). destruct Rlt_bool.
    + intros (_ & F & _). apply finite_not_nan_b. now rewrite F.
    + intros H. now apply overflow_not_nan in H.
  - destruct x as [sx|sx| |sx mx ex Hx]; try discriminate.
    destruct y as [sy|sy| |sy my ey Hy]; try discriminate; try reflexivity.
Qed.

Lemma bnearbyint_nan (x : B) : is_nan (Bnearbyint mode_NE x) = is_nan x.
Proof.
  destruct x as [sx|sx| |sx mx ex Hx]; try reflexivity.
  destruct (Bnearbyint_correct P E _ mode_NE (B754_finite sx mx ex Hx)) as (_ & F & _).
  cbn [is_finite] in F. cbn [is_nan]. now apply finite_not_nan_b.
Qed.

Lemma normalize_not_nan m e s : is_nan (binary_normalize P E _ _ mode_NE m e s) = false.
Proof.
  generalize (binary_normalize_correct P E _ _ mode_NE m e s). cbv zeta. destruct Rlt_bool.
  - intros (_ & F & _). now apply finite_not_nan_b.
  - intros H. now apply overflow_not_nan in H.
Qed.

(* ---- spec_float level: the operations of ModelF *)
Lemma fconv_bnan x : is_nan_sf x = false -> bnan w (fconv w x) = false.
Proof.
  intros N. destruct x as [s|s| |s m e]; try discriminate; unfold fconv.
  - unfold bnan, sf2b. destruct (Bool.bool_dec _ true) as [H|n]; [reflexivity|]. exfalso; apply n; reflexivity.
  - unfold bnan, sf2b. destruct (Bool.bool_dec _ true) as [H|n]; [reflexivity|]. exfalso; apply n; reflexivity.
  - rewrite bnan_B2SF. apply normalize_not_nan.
Qed.

Lemma f_of_Z_bnan z : bnan w (f_of_Z w z) = false.
Proof. unfold f_of_Z. rewrite bnan_B2SF. apply normalize_not_nan. Qed.

(* what "finite non-zero slope" and "finite intercept" mean for floats of format w *)
Definition fin_nz (x : sf) : Prop := is_finite (sf2b w x) = true /\ B2R (sf2b w x) <> 0%R.
Definition fin (x : sf) : Prop := is_finite (sf2b w x) = true.

Lemma feq_true_R a b : fin a -> fin b -> feq w a b = true -> B2R (sf2b w a) = B2R (sf2b w b).
Proof.
  intros Fa Fb. unfold feq, fcmp. rewrite (Bcompare_correct _ _ _ _ Fa Fb).
  destruct (Rcompare _ _) eqn:C; try discriminate. intros _. now apply Rcompare_Eq_inv.
Qed.

(* (x - inter) / slope, then rint: never NaN for x not NaN *)
Lemma scale_bnan sl it x : fin_nz sl -> fin it -> bnan w x = false ->
  bnan w (scale_w w sl it x) = false.
Proof.
  intros [Fs Zs] Fi Nx. unfold scale_w.
  assert (N1 : bnan w (if feq w it fzero then x else fsub_ w x it) = false).
  { destruct (feq w it fzero); [exact Nx|]. unfold fsub_, op2. rewrite bnan_B2SF.
    now apply bminus_not_nan. }
  destruct (feq w sl (fone w)); [exact N1|].
  unfold fdiv, op2. rewrite bnan_B2SF. now apply bdiv_not_nan.
Qed.

Lemma frint_bnan x : bnan w (frint w x) = bnan w x.
Proof. unfold frint. rewrite bnan_B2SF. apply bnearbyint_nan. Qed.

Lemma scaled_rint_bnan sl it x : fin_nz sl -> fin it -> bnan w x = false ->
  bnan w (frint w (scale_w w sl it x)) = false.
Proof. intros. rewrite frint_bnan. now apply scale_bnan. Qed.

Lemma scaled_rint_not_nan sl it x : fin_nz sl -> fin it -> bnan w x = false ->
  is_nan_sf (frint w (scale_w w sl it x)) = false.
Proof. intros. apply (bnan_sf w). now apply scaled_rint_bnan. Qed.

End Format.

(* ---------------------------------------------------------------- exact conversions *)
Lemma sf2b_zero w s : sf2b w (S754_zero s) = B754_zero s.
Proof. change (S754_zero s) with (B2SF (B754_zero s : bf w)). apply sf2b_B2SF. Qed.
Lemma sf2b_inf w s : sf2b w (S754_infinity s) = B754_infinity s.
Proof. change (S754_infinity s) with (B2SF (B754_infinity s : bf w)). apply sf2b_B2SF. Qed.

(* a finite float of format k1 converts exactly to every format w at least as wide *)
Lemma fconv_exact k1 w x : krank k1 <= krank w -> is_finite (sf2b k1 x) = true ->
  is_finite (sf2b w (fconv w x)) = true /\ B2R (sf2b w (fconv w x)) = B2R (sf2b k1 x).
Proof.
  intros Hle Fx. destruct x as [s|s| |s m e].
  - cbn [fconv]. rewrite !sf2b_zero. split; reflexivity.
  - rewrite sf2b_inf in Fx. discriminate.
  - rewrite sf2b_nan in Fx. discriminate.
  - assert (Hv : exists H, sf2b k1 (S754_finite s m e) = B754_finite s m e H).
    { unfold sf2b in *.
      destruct (Bool.bool_dec (valid_binary (kprec k1) (kemax k1) (S754_finite s m e)) true) as [H|n];
        [exists H; reflexivity|discriminate]. }
    destruct Hv as (H & Ek). rewrite Ek. cbn [B2R]. cbn [fconv]. rewrite sf2b_B2SF.
    set (x0 := F2R (Float radix2 (cond_Zopp s (Z.pos m)) e)).
    pose proof (FLT_format_B2R (kprec k1) (kemax k1) _ (B754_finite s m e H)) as FL.
    pose proof (abs_B2R_lt_emax (kprec k1) (kemax k1) (B754_finite s m e H)) as AB.
    cbn [B2R] in FL, AB. fold x0 in FL, AB.
    assert (G : generic_format radix2 (FLT_exp (SpecFloat.emin (kprec w) (kemax w)) (kprec w)) x0).
    { apply generic_format_FLT. destruct FL as [f Hf Hm He].
      apply (FLT_spec radix2 _ _ x0 f Hf).
      - eapply Z.lt_le_trans; [exact Hm|]. apply (Zpower_le radix2).
        destruct k1, w; cbn in Hle |- *; lia.
      - eapply Z.le_trans; [|exact He].
        destruct k1, w; cbn in Hle |- *; unfold SpecFloat.emin; cbn; lia. }
    generalize (binary_normalize_correct (kprec w) (kemax w) _ _ mode_NE (cond_Zopp s (Z.pos m)) e s).
    cbv zeta. fold x0.
    rewrite (round_generic radix2 _ _ x0 G).
    rewrite Rlt_bool_true.
    + intros (R & F & _). split; [exact F|exact R].
    + eapply Rlt_le_trans; [exact AB|]. apply bpow_le.
      destruct k1, w; cbn in Hle |- *; lia.
Qed.

Lemma fconv_fin_nz k1 w x : krank k1 <= krank w ->
  is_finite (sf2b k1 x) = true -> B2R (sf2b k1 x) <> 0%R -> fin_nz w (fconv w x).
Proof.
  intros Hle F Z. destruct (fconv_exact k1 w x Hle F) as [F' R]. split; [exact F'|now rewrite R].
Qed.

Lemma fconv_fin k1 w x : krank k1 <= krank w -> is_finite (sf2b k1 x) = true -> fin w (fconv w x).
Proof. intros Hle F. now destruct (fconv_exact k1 w x Hle F). Qed.

Lemma strict_fin_nz k (b : bf k) : is_finite_strict b = true -> is_finite b = true /\ B2R b <> 0%R.
Proof.
  destruct b as [s|s| |s m e H]; try discriminate. intros _. split; [reflexivity|].
  cbn. apply F2R_neq_0. destruct s; discriminate.
Qed.

(* C02_no_wrap_float_inputs: hypotheses about the inputs only *)
Lemma no_wrap_inputs w t ks ki slope inter e_mn e_mx nf x :
  In w [K32; K64; K80] -> In t all_itys -> krank ks <= krank w -> krank ki <= krank w ->
  is_finite_strict (sf2b ks slope) = true -> is_finite (sf2b ki inter) = true ->
  bnan w e_mn = false -> bnan w e_mx = false ->
  let sl := fconv w slope in
  let it := fconv w inter in
  let p_mn := frint w (scale_w w sl it e_mn) in
  let p_mx := frint w (scale_w w sl it e_mx) in
  exists bmn bmx, sr_k w t = Ok (bmn, bmx) /\ imin t <= bmn /\ bmx <= imax t /\
    let both_mn := f_of_Z w bmn in let both_mx := f_of_Z w bmx in
    (match nf with
     | Some n => inrange w both_mn both_mx n
     | None => bnan w x = false
     end ->
     let '(q_mn, q_mx) := post_bounds_f w p_mn p_mx both_mn both_mx in
     exists z, cast_to_int w t (elem_f w sl it q_mn q_mx nf x) = (z, false)
               /\ bmn <= z <= bmx /\ wrap t z = z).
Proof.
  intros Hw Ht Ls Li Fs Fi N1 N2 sl it p_mn p_mx.
  destruct (strict_fin_nz _ _ Fs) as [Fs1 Fs2].
  pose proof (fconv_fin_nz ks w slope Ls Fs1 Fs2) as Hsl. fold sl in Hsl.
  pose proof (fconv_fin ki w inter Li Fi) as Hit. fold it in Hit.
  pose proof (scaled_rint_bnan w sl it e_mn Hsl Hit N1) as P1.
  pose proof (scaled_rint_bnan w sl it e_mx Hsl Hit N2) as P2.
  destruct (no_wrap_platform w t sl it p_mn p_mx nf x Hw Ht P1 P2) as (bmn & bmx & E & H1 & H2 & K).
  exists bmn, bmx. split; [exact E|]. split; [exact H1|]. split; [exact H2|].
  intros both_mn both_mx Hnf. apply K.
  destruct nf as [n|]; [exact Hnf|]. now apply scaled_rint_not_nan.
Qed.

(* non-vacuity of no_wrap_inputs, evaluated once here (Props.v only refers to it) *)
Lemma no_wrap_float_nonvacuous :
  let slope := S754_finite false 8388608 (-24) in
  let inter := S754_finite false 12582912 (-22) in
  let sl := fconv K32 slope in let it := fconv K32 inter in
  let nfill := frint K32 (scale_w K32 sl it fzero) in
  let p_mn := frint K32 (scale_w K32 sl it (S754_infinity true)) in
  let p_mx := frint K32 (scale_w K32 sl it (S754_infinity false)) in
  let '(q_mn, q_mx) := post_bounds_f K32 p_mn p_mx (f_of_Z K32 (-32768)) (f_of_Z K32 32767) in
  is_finite_strict (sf2b K32 slope) = true /\ is_finite (sf2b K32 inter) = true
  /\ bnan K32 (S754_infinity true) = false /\ bnan K32 (S754_infinity false) = false
  /\ sr_k K32 ity_int16 = Ok (-32768, 32767)
  /\ fle K32 (f_of_Z K32 (-32768)) nfill = true /\ fle K32 nfill (f_of_Z K32 32767) = true
  /\ cast_to_int K32 ity_int16 (elem_f K32 sl it q_mn q_mx (Some nfill) S754_nan) = (-6, false)
  /\ cast_to_int K32 ity_int16 (elem_f K32 sl it q_mn q_mx (Some nfill) (S754_infinity false)) = (32767, false)
  /\ cast_to_int K32 ity_int16 (elem_f K32 sl it q_mn q_mx (Some nfill) (S754_finite false 16000000 (-4))) = (32767, false)
  /\ cast_to_int K32 ity_int16 (elem_f K32 sl it q_mn q_mx (Some nfill) (S754_finite false 10485760 (-20))) = (14, false).
Proof. vm_compute. repeat split; reflexivity. Qed.
