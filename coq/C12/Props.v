(* C12/Props.v — property theorems only.  Property C12: all serialisation routes and accepted
   file names are equivalent.  Names are lists of code points; `lower e' = lower e` says e' is
   the extension e in ANY mix of upper and lower case; suffix_ok k s' says s' is empty or one of
   the class's compression suffixes in any case; root is an arbitrary string (directories, dots,
   spaces, non-ASCII).  wf_class / wf_names / wf_table are boolean checks of the class tables,
   discharged for the tables generated from the source by C12_tables_wf. *)
From Coq Require Import ZArith List Bool Lia.
From NV Require Import Base.Bytes C12.Str C12.Model C12.Tables C12.Lemmas.
Import ListNotations.
Open Scope Z_scope.

(* the generated tables (all_image_classes, Opener/ImageOpener.compress_ext_map) are well formed *)
Theorem C12_tables_wf :
  wf_table all_classes = true /\ (forallb dotted opener_keys = true /\ forallb dotted image_opener_keys = true)
  /\ forallb dotted save_suffixes = true.
Proof. exact (conj all_classes_wf (conj opener_keys_wf save_suffixes_wf)). Qed.
Print Assumptions C12_tables_wf.

(* the file map entry of the member whose extension the user spelled is exactly the name given *)
Theorem C12_named_member_written : forall k root nm e e' s',
  wf_class k = true -> In (nm, e) (ftypes k) -> lower e' = lower e -> suffix_ok k s' ->
  exists fm, filespec_to_file_map k (root ++ e' ++ s') = Ok fm
             /\ dict_get fm nm = Some (root ++ e' ++ s').
Proof. exact filespec_named_member. Qed.
Print Assumptions C12_named_member_written.

(* same at the level of types_filenames, for every class's name tables (AFNIImage included) *)
Theorem C12_named_member_types_filenames : forall k root nm e e' s',
  wf_names k = true -> In (nm, e) (ftypes k) -> lower e' = lower e -> suffix_ok k s' ->
  exists tf, types_filenames true false (ftypes k) (csuf k) (root ++ e' ++ s') = Ok tf
             /\ dict_get tf nm = Some (root ++ e' ++ s').
Proof. exact tf_named_member. Qed.
Print Assumptions C12_named_member_types_filenames.

(* MGHImage-style classes: ANY name ending in a spelling of ".mgz" (dot-files such as ".mgz" or
   "d/.MGZ" included: filespec_to_file_map uses splitext_addext, as load does) is written under
   the name given *)
Theorem C12_mgz_written : forall k root m',
  fkind k = 1 -> lower m' = MGZ ->
  filespec_to_file_map k (root ++ m') = Ok [(IMAGE, root ++ m')].
Proof. exact filespec_mgz. Qed.
Print Assumptions C12_mgz_written.

(* the other members share root and suffix (as spelled) and follow the case rule: upper-case
   extension when the user's is all upper case, the table's (lower-case) extension otherwise *)
Theorem C12_members_consistent : forall k root nm e e' s' nm2 e2,
  wf_names k = true -> In (nm, e) (ftypes k) -> lower e' = lower e -> suffix_ok k s' ->
  In (nm2, e2) (ftypes k) -> nm2 <> nm ->
  exists tf, types_filenames true false (ftypes k) (csuf k) (root ++ e' ++ s') = Ok tf
             /\ dict_get tf nm2 = Some (root ++ (if str_eqb e' (upper e') then upper e2 else e2) ++ s').
Proof. exact tf_other_members. Qed.
Print Assumptions C12_members_consistent.

(* parse_filename is a lossless split of ANY name, whatever the tables and match_case;
   types_filenames (enforce_extensions=True) either refuses with one of its two errors or names a
   file for every member; and whenever a member is guessed its entry is the name given
   (norm_template = minus one final dot, re-stringified) *)
Theorem C12_parse_total : forall mc tys sufs fn,
  (forall f e ign g, parse_filename mc tys sufs fn = (f, e, ign, g) -> f ++ e ++ opt_str ign = fn)
  /\ ((exists e, types_filenames true mc tys sufs fn = Err e /\ (e = ErrWrongExt \/ e = ErrConfusing)) \/
      (exists tf, types_filenames true mc tys sufs fn = Ok tf /\
         forall n e, In (n, e) tys -> exists v, dict_get tf n = Some v))
  /\ (forall f e ign g, parse_filename mc tys sufs (norm_template fn) = (f, e, ign, Some g) ->
      exists tf, types_filenames true mc tys sufs fn = Ok tf /\ dict_get tf g = Some (norm_template fn)).
Proof.
  intros mc tys sufs fn. split; [|split].
  - intros f e ign g. apply parse_filename_app.
  - apply tf_total.
  - intros f e ign g. apply tf_guessed.
Qed.
Print Assumptions C12_parse_total.

(* generic load on a name written by class number n of the table (member extension e valid
   for loading, any case mix e', suffix s'), when the class's own header test accepts the file
   (oracle bit n): the loop returns a class j <= n that accepts the extension, and that class's
   file map contains the very name given. *)
Theorem C12_load_finds_class : forall ks oracle n k root e e' s',
  wf_table ks = true -> nth_error ks n = Some k -> wf_class k = true ->
  In e (vexts k) -> lower e' = lower e -> suffix_ok k s' ->
  nth n oracle false = true ->
  exists j kj, load_class ks oracle (root ++ e' ++ s') 0 = Ok (Some j) /\ (j <= n)%nat
    /\ nth_error ks j = Some kj /\ ext_valid kj (root ++ e' ++ s') = true
    /\ (wf_class kj = true ->
        exists fm nm, filespec_to_file_map kj (root ++ e' ++ s') = Ok fm
                      /\ dict_get fm nm = Some (root ++ e' ++ s')).
Proof. intros ks oracle n k root e e' s' H. apply load_finds_class. now apply wf_table_ok. Qed.
Print Assumptions C12_load_finds_class.

(* for ANY name: the class loop never raises (no TypesFilenamesError escapes _sniff_meta_for),
   and a class it picks accepts the extension and has a file map that contains the name *)
Theorem C12_load_any_name : forall ks oracle fn,
  wf_table ks = true ->
  (exists r, load_class ks oracle fn 0 = Ok r)
  /\ forall j, load_class ks oracle fn 0 = Ok (Some j) ->
       exists kj, nth_error ks j = Some kj /\ ext_valid kj fn = true
         /\ (wf_class kj = true ->
             exists fm nm, filespec_to_file_map kj fn = Ok fm /\ dict_get fm nm = Some fn).
Proof.
  intros ks oracle fn H. split; [apply load_class_total; now apply wf_table_ok|].
  intros j Hj. destruct (load_class_sound ks oracle fn 0 j Hj) as (kj & _ & Hn & Hv).
  rewrite Nat.sub_0_r in Hn. exists kj. repeat split; auto.
  intros Hwf. now apply ext_valid_accepts.
Qed.
Print Assumptions C12_load_any_name.

(* the opener (compression) used for a written file is the one of its suffix, in any case *)
Theorem C12_opener_matches_suffix : forall keys root x y,
  dottedi x = true -> dottedi y = true ->
  opener_index keys (root ++ x ++ y) = find_index (fun key => ieq key y) keys 0.
Proof. exact opener_index_suffix. Qed.
Print Assumptions C12_opener_matches_suffix.

(* ... but not of a bare extension: for the dot-file name ".mgz" the file map keeps the name
   (C12_mgz_written) while Opener (posixpath.splitext) sees no extension and writes the file
   uncompressed, whereas "d.mgz" gets the gzip opener (candidate finding S-C12c) *)
Theorem C12_opener_dotfile_refuted :
  exists k fn, In k all_classes /\ fkind k = 1
    /\ filespec_to_file_map k fn = Ok [(IMAGE, fn)] /\ lower fn = MGZ
    /\ opener_index image_opener_keys fn = None
    /\ opener_index image_opener_keys (100 :: fn) = Some 3%nat.
Proof. exact opener_dotfile_refuted. Qed.
Print Assumptions C12_opener_dotfile_refuted.

(* to_bytes = to_stream = the file written by name read back through its opener, for any
   serialiser of the class and any codec family with decompress (compress b) = b; for a name
   spelled root ++ ext' ++ suffix' of a single-file class the file is that very name *)
Theorem C12_routes_equal :
  forall (Img : Type) (serialize : Img -> list Z) (compress decompress : option nat -> list Z -> list Z)
         (keys : list str),
  (forall o b, decompress o (compress o b) = b) ->
  (forall k img name fs fs',
     to_filename Img serialize compress keys k img name fs = Ok (Some fs') ->
     exists key fname,
       filespec_to_file_map k name = Ok [(key, fname)]
       /\ fs' = (fname, compress (opener_index keys fname) (serialize img)) :: fs
       /\ read_file decompress keys fs' fname = Some (to_bytes Img serialize img)
       /\ to_stream Img serialize img = to_bytes Img serialize img)
  /\ (forall k img root nm e e' s' fs,
     wf_class k = true -> ftypes k = [(nm, e)] -> lower e' = lower e -> suffix_ok k s' ->
     exists fs', to_filename Img serialize compress keys k img (root ++ e' ++ s') fs = Ok (Some fs')
       /\ read_file decompress keys fs' (root ++ e' ++ s') = Some (to_bytes Img serialize img)).
Proof.
  intros Img serialize compress decompress keys codec. split.
  - intros. eapply routes_equal; eauto.
  - intros. eapply routes_named; eauto.
Qed.
Print Assumptions C12_routes_equal.

(* nib.save's implicit class conversion looks at the extension through lower() only: two
   spellings of the same name that differ in the case of extension and suffix are written by the
   same class (given the image's own class treats them alike, which C12_named_member_written
   gives for the names it accepts); and a NIfTI single-file image saved to a pair member goes to
   the pair class of the SAME NIfTI version whatever the case *)
Theorem C12_save_case_independent : forall ks sufs k root e1 e2 s1 s2 conv,
  forallb dotted sufs = true -> dottedi e1 = true -> lower e2 = lower e1 ->
  save_suffix_ok sufs e1 s1 -> save_suffix_ok sufs e2 s2 ->
  is_ok (filespec_to_file_map k (root ++ e1 ++ s1)) = is_ok (filespec_to_file_map k (root ++ e2 ++ s2)) ->
  save_class ks sufs k (root ++ e1 ++ s1) conv = save_class ks sufs k (root ++ e2 ++ s2) conv.
Proof. exact save_case_independent. Qed.
Print Assumptions C12_save_case_independent.

Theorem C12_save_ladder_nifti : forall ks k lext conv,
  (str_eqb lext X_IMG || str_eqb lext X_HDR) = true ->
  (kname k = N1I -> save_ladder ks k lext conv = find_class ks N1P)
  /\ (kname k = N2I -> save_ladder ks k lext conv = find_class ks N2P).
Proof. exact save_ladder_nifti. Qed.
Print Assumptions C12_save_ladder_nifti.

(* header sniffing.  features collects everything the may_contain_header functions look at in the
   sniffed bytes hb, mc is each of them as a decision function (checked against the code on ~8000
   real and mutated header blocks each run), writer_sig k says what a header written by class k
   looks like, canon is the class itself except that the two classes with the plain Analyze
   sniffer are read by the SPM2 class before them.  For every class of all_image_classes, every
   extension it loads by, any case mix, any own suffix, any root and ANY header bytes with the
   writer's signature, the first-match loop of load() returns that canonical class.  Stated for
   every table passing the boolean check, instantiated for the generated one. *)
Theorem C12_load_picks_writer_any_table : forall ks intents n k root e e' s' hb,
  table_ok ks -> check_load_table ks = true ->
  nth_error ks n = Some k -> In e (vexts k) -> lower e' = lower e -> suffix_ok k s' ->
  writer_sig k (features intents hb) = true ->
  load_by_header ks intents (root ++ e' ++ s') hb = Ok (canon ks n k).
Proof. exact load_picks_writer. Qed.
Print Assumptions C12_load_picks_writer_any_table.

Theorem C12_load_picks_writer : forall n k root e e' s' hb,
  nth_error all_classes n = Some k -> In e (vexts k) -> lower e' = lower e -> suffix_ok k s' ->
  writer_sig k (features cifti_intents hb) = true ->
  load_by_header all_classes cifti_intents (root ++ e' ++ s') hb = Ok (canon all_classes n k).
Proof. exact load_picks_writer_all. Qed.
Print Assumptions C12_load_picks_writer.

(* the table checks behind it, and: every intent code of the CIFTI block 3000..3099, read in the
   byte order the header guesser picks, is accepted by the regenerated _valid_intent_code table *)
Theorem C12_load_table_checks :
  check_load_table all_classes = true
  /\ forall hb, 3000 <= dec_s (nifti2_big_endian hb) (take 4 (drop 504 hb)) < 3100 ->
               fcifti (features cifti_intents hb) = true.
Proof. exact (conj all_classes_load_table cifti_intent_feature). Qed.
Print Assumptions C12_load_table_checks.

(* "the same class" is false for AnalyzeImage (and Spm99AnalyzeImage): load returns the SPM2 class *)
Theorem C12_analyze_shadowed_refuted :
  exists n k, nth_error all_classes n = Some k /\ canon all_classes n k <> Some n
    /\ canon all_classes n k = Some 5%nat /\ nth_error all_classes 5 = Some k_Spm2AnalyzeImage.
Proof. exact analyze_shadowed. Qed.
Print Assumptions C12_analyze_shadowed_refuted.

(* the routes theorem for every single-file class of the generated table *)
Theorem C12_routes_equal_per_class :
  forall (Img : Type) (serialize : Img -> list Z) (compress decompress : option nat -> list Z -> list Z)
         (keys : list str),
  (forall o b, decompress o (compress o b) = b) ->
  forall k nm e, In k all_classes -> ftypes k = [(nm, e)] -> fkind k <> 2 ->
  forall img root e' s' fs, lower e' = lower e -> suffix_ok k s' ->
  exists fs', to_filename Img serialize compress keys k img (root ++ e' ++ s') fs = Ok (Some fs')
    /\ read_file decompress keys fs' (root ++ e' ++ s') = Some (to_bytes Img serialize img)
    /\ to_stream Img serialize img = to_bytes Img serialize img.
Proof. exact routes_per_class. Qed.
Print Assumptions C12_routes_equal_per_class.

(* to_filename derives the file map from the NAME alone: whatever file_map the image object had
   before (m1, m2 arbitrary), the same files get the same bytes, the image's new file_map is
   filespec_to_file_map of the name, and the file written is the one that map names *)
Theorem C12_to_filename_name_only :
  forall (Img : Type) (serialize : Img -> list Z) (compress : option nat -> list Z -> list Z)
         (keys : list str) k c m1 m2 name fs,
  to_filename_st Img serialize compress keys k (mkI Img c m1) name fs
  = to_filename_st Img serialize compress keys k (mkI Img c m2) name fs
  /\ forall st' fs', to_filename_st Img serialize compress keys k (mkI Img c m1) name fs = Ok (Some (st', fs')) ->
       filespec_to_file_map k name = Ok (imap Img st')
       /\ exists key fname, imap Img st' = [(key, fname)]
            /\ fs' = (fname, compress (opener_index keys fname) (serialize c)) :: fs.
Proof. exact to_filename_name_only. Qed.
Print Assumptions C12_to_filename_name_only.

(* non-vacuity: NIfTI-1 pair, root with a directory, a space and a dot, Mixed-case header
   extension, Mixed-case .gz: hypotheses hold, the header is the name given, the image follows *)
Example C12_nonvacuous :
  let root := [97;32;98;47;102;46;120] in               (* "a b/f.x" *)
  let e' := [46;72;100;82] in                            (* ".HdR" *)
  let s' := [46;71;122] in                               (* ".Gz" *)
  wf_class k_Nifti1Pair = true /\ In (HEADER, [46;104;100;114]) (ftypes k_Nifti1Pair)
  /\ lower e' = lower [46;104;100;114] /\ suffix_ok k_Nifti1Pair s'
  /\ filespec_to_file_map k_Nifti1Pair (root ++ e' ++ s')
     = Ok [(IMAGE, root ++ [46;105;109;103] ++ s'); (HEADER, root ++ e' ++ s')]
  /\ load_class all_classes (repeat true 14) (root ++ e' ++ s') 0 = Ok (Some 0%nat)
  /\ opener_index image_opener_keys (root ++ e' ++ s') = Some 0%nat.
Proof.
  cbv zeta. split; [vm_compute; reflexivity|]. split; [right; left; reflexivity|].
  split; [vm_compute; reflexivity|]. split.
  - right. exists [46;103;122]. split; [left; reflexivity|vm_compute; reflexivity].
  - repeat split; vm_compute; reflexivity.
Qed.
