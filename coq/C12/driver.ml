(* C12 driver body (after `open C12_model` and drvlib.ml).  Strings are code-point lists
   "[102,46,110]".  Ops: see harness/c12.py. *)
let s_of = zlist_of_string
let str = string_of_zlist
let klass_of s = List.nth all_classes (int_of_string s)
let opt f = function Some x -> f x | None -> "-"
let string_of_terr = function ErrWrongExt -> "wrong_ext" | ErrConfusing -> "confusing" | ErrNoTypes -> "no_types"
let string_of_dict d = String.concat ";" (List.map (fun (k, v) -> str k ^ "=" ^ str v) d)
let idx = opt (fun n -> string_of_int (int_of_nat n))
let keys_of s = if bool_of_string s then image_opener_keys else opener_keys
let handle op args = match op, args with
  | "tf", [enf; mc; c; name] ->
    let k = klass_of c in
    (match types_filenames (bool_of_string enf) (bool_of_string mc) k.ftypes k.csuf (s_of name) with
     | Ok d -> "ok " ^ string_of_dict d
     | Err e -> "err " ^ string_of_terr e)
  | "parse", [mc; c; name] ->
    let k = klass_of c in
    let (((f, e), ign), g) = parse_filename (bool_of_string mc) k.ftypes k.csuf (s_of name) in
    "ok " ^ str f ^ " " ^ str e ^ " " ^ opt str ign ^ " " ^ opt str g
  | "sae", [mc; c; name] ->
    let k = klass_of c in
    let ((r, e), a) = splitext_addext (bool_of_string mc) k.csuf (s_of name) in
    "ok " ^ str r ^ " " ^ str e ^ " " ^ str a
  | "osx", [name] -> let (r, e) = os_splitext (s_of name) in "ok " ^ str r ^ " " ^ str e
  | "fm", [c; name] ->
    (match filespec_to_file_map (klass_of c) (s_of name) with
     | Ok d -> "ok " ^ string_of_dict d
     | Err e -> "err " ^ string_of_terr e)
  | "tg", [img; c; name] ->
    (match targets (keys_of img) (klass_of c) (s_of name) with
     | Ok l -> "ok " ^ String.concat ";" (List.map (fun ((m, f), o) -> str m ^ "=" ^ str f ^ ":" ^ idx o) l)
     | Err e -> "err " ^ string_of_terr e)
  | "op", [img; name] -> "ok " ^ idx (opener_index (keys_of img) (s_of name))
  | "sn", [c; name] ->
    (match sniff_name (klass_of c) (s_of name) with
     | Ok n -> "ok " ^ str n
     | Err e -> "err " ^ string_of_terr e)
  | "ev", [c; name] -> "ok " ^ string_of_bool (ext_valid (klass_of c) (s_of name))
  | "ld", [bits; name] ->
    let oracle = List.init (String.length bits) (fun i -> bits.[i] = '1') in
    (match load_class all_classes oracle (s_of name) O with
     | Ok o -> "ok " ^ idx o
     | Err e -> "err " ^ string_of_terr e)
  | "sv", [c; bits; name] ->
    let conv = List.init (String.length bits) (fun i -> bits.[i] = '1') in
    (match save_class all_classes save_suffixes (klass_of c) (s_of name) conv with
     | None -> "ok -"
     | Some k ->
       (match targets image_opener_keys k (s_of name) with
        | Ok l -> "ok " ^ str k.kname ^ " " ^ String.concat ";" (List.map (fun ((m, f), o) -> str m ^ "=" ^ str f ^ ":" ^ idx o) l)
        | Err e -> "ok " ^ str k.kname ^ " err"))
  | "mc", [c; h] ->
    let k = klass_of c in
    "ok " ^ string_of_bool (mc k.skind (features cifti_intents (bytes_of_hex h)))
  | "wsig", [c; h] -> "ok " ^ string_of_bool (writer_sig (klass_of c) (features cifti_intents (bytes_of_hex h)))
  | "ldh", [name; h] ->
    (match load_by_header all_classes cifti_intents (s_of name) (bytes_of_hex h) with
     | Ok o -> "ok " ^ idx o
     | Err e -> "err " ^ string_of_terr e)
  | "lower", [s] -> "ok " ^ str (lower (s_of s))
  | "upper", [s] -> "ok " ^ str (upper (s_of s))
  | _ -> "err driver:badop"
let () = run_lines handle
