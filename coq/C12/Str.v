(* C12/Str.v — Python str operations used by nibabel/filename_parser.py, openers.py,
   filebasedimages.py, modelled over lists of Unicode code points (Z).

   lower/upper.  Python's str.lower()/str.upper() are modelled by a per-character map that is
   exact on ASCII and on U+212A (KELVIN SIGN, whose lower() is ASCII 'k'); every other
   non-ASCII code point is left alone.  This is faithful for the only uses the code makes of
   them — comparison of a (suffix of a) lowered name with an ASCII extension, and
   `found_ext == found_ext.upper()/lower()` on an extension that matched an ASCII one —
   because for every non-ASCII code point c other than U+212A the last character of
   c.lower() is non-ASCII (checked exhaustively over all 0x110000 code points by
   harness/c12.py on every run), so a lowered name ends with an ASCII string of length n
   iff its last n characters are ASCII/KELVIN characters lowering one-to-one to it.

   Definitions first, lemmas after; no axioms. *)
From Coq Require Import ZArith List Bool Lia ZifyBool.
From NV Require Import Base.Bytes.
Import ListNotations.
Open Scope Z_scope.

Definition str := list Z.

Definition DOT : Z := 46.
Definition SLASH : Z := 47.

Definition lower_char (c : Z) : Z :=
  if (65 <=? c) && (c <=? 90) then c + 32 else if c =? 8490 then 107 else c.
Definition upper_char (c : Z) : Z :=
  if (97 <=? c) && (c <=? 122) then c - 32 else c.
Definition lower (s : str) : str := map lower_char s.
Definition upper (s : str) : str := map upper_char s.

Fixpoint str_eqb (a b : str) : bool :=
  match a, b with
  | [], [] => true
  | x :: a', y :: b' => (x =? y) && str_eqb a' b'
  | _, _ => false
  end.

Fixpoint prefixb (p w : str) : bool :=
  match p, w with
  | [], _ => true
  | x :: p', y :: w' => (x =? y) && prefixb p' w'
  | _ :: _, [] => false
  end.

(* str.endswith *)
Definition endswith (w e : str) : bool := prefixb (rev e) (rev w).
(* filename_parser._iendswith *)
Definition iendswith (w e : str) : bool := endswith (lower w) (lower e).

Definition lastn (n : nat) (l : str) : str := skipn (length l - n) l.
Definition butlastn (n : nat) (l : str) : str := firstn (length l - n) l.
(* s[-n:] and s[:-n] where n = len(ext) >= 0 (note -0 == 0 in Python) *)
Definition py_tail_neg (n : nat) (s : str) : str := match n with O => s | _ => lastn n s end.
Definition py_head_neg (n : nat) (s : str) : str := match n with O => [] | _ => butlastn n s end.

(* str.removesuffix('.') *)
Definition removesuffix_dot (s : str) : str :=
  if endswith s [DOT] then butlastn 1 s else s.

(* str.rfind(c): last index of c, -1 when absent *)
Fixpoint rfind_from (c : Z) (l : str) (i acc : Z) : Z :=
  match l with
  | [] => acc
  | x :: r => rfind_from c r (i + 1) (if x =? c then i else acc)
  end.
Definition rfind (c : Z) (l : str) : Z := rfind_from c l 0 (-1).

Definition not_dot (c : Z) : bool := negb (c =? DOT).
(* s.strip('.') == '' *)
Definition all_dots (s : str) : bool := forallb (fun c => c =? DOT) s.

(* posixpath.splitext (genericpath._splitext with sep='/', altsep=None, extsep='.') *)
Definition os_splitext (p : str) : str * str :=
  let sepIndex := rfind SLASH p in
  let dotIndex := rfind DOT p in
  if sepIndex <? dotIndex then
    (* skip all leading dots: some character of p[sepIndex+1:dotIndex] is not a dot *)
    if existsb not_dot (take (dotIndex - (sepIndex + 1)) (drop (sepIndex + 1) p))
    then (take dotIndex p, drop dotIndex p)
    else (p, [])
  else (p, []).

(* character classes used by the well-formedness predicates of the tables *)
Definition is_alnum (c : Z) : bool :=
  ((48 <=? c) && (c <=? 57)) || ((65 <=? c) && (c <=? 90)) || ((97 <=? c) && (c <=? 122)).
Definition is_lalnum (c : Z) : bool :=
  ((48 <=? c) && (c <=? 57)) || ((97 <=? c) && (c <=? 122)).
(* characters that lower to an ASCII alphanumeric (ASCII alnum + KELVIN SIGN) *)
Definition is_ialnum (c : Z) : bool := is_lalnum (lower_char c).

(* ".xyz": a dot followed by a non-empty run of characters of the class *)
Definition dotted_by (cls : Z -> bool) (s : str) : bool :=
  match s with
  | c :: t => (c =? DOT) && negb (match t with [] => true | _ => false end) && forallb cls t
  | [] => false
  end.
Definition dotted := dotted_by is_alnum.        (* table entries, any case *)
Definition dottedl := dotted_by is_lalnum.      (* lower-case table entries *)
Definition dottedi := dotted_by is_ialnum.      (* user spellings of them *)

(* ------------------------------------------------------------------ lemmas *)

Lemma str_eqb_eq a b : str_eqb a b = true <-> a = b.
Proof.
  revert b; induction a as [|x a IH]; intros [|y b]; simpl; split; intros H; try discriminate; auto.
  - apply andb_true_iff in H as [H1 H2]. apply Z.eqb_eq in H1. apply IH in H2. now subst.
  - inversion H; subst. rewrite Z.eqb_refl. simpl. now apply IH.
Qed.

Lemma str_eqb_refl a : str_eqb a a = true.
Proof. now apply str_eqb_eq. Qed.

Lemma str_eqb_neq a b : str_eqb a b = false <-> a <> b.
Proof.
  split; intros H.
  - intros E. apply str_eqb_eq in E. congruence.
  - destruct (str_eqb a b) eqn:E; [|reflexivity]. apply str_eqb_eq in E. contradiction.
Qed.

Lemma str_eqb_sym a b : str_eqb a b = str_eqb b a.
Proof.
  destruct (str_eqb a b) eqn:E.
  - apply str_eqb_eq in E. subst. now rewrite str_eqb_refl.
  - symmetry. apply str_eqb_neq. apply str_eqb_neq in E. congruence.
Qed.

Lemma lower_app a b : lower (a ++ b) = lower a ++ lower b.
Proof. apply map_app. Qed.
Lemma lower_length a : length (lower a) = length a.
Proof. apply map_length. Qed.
Lemma upper_length a : length (upper a) = length a.
Proof. apply map_length. Qed.

Lemma lower_char_idem c : lower_char (lower_char c) = lower_char c.
Proof. unfold lower_char. repeat (match goal with |- context [if ?b then _ else _] => destruct b eqn:? end); lia. Qed.

Lemma lower_idem s : lower (lower s) = lower s.
Proof. unfold lower. rewrite map_map. apply map_ext. apply lower_char_idem. Qed.

Lemma lower_char_dot c : lower_char c = DOT <-> c = DOT.
Proof. unfold lower_char, DOT. repeat (match goal with |- context [if ?b then _ else _] => destruct b eqn:? end); lia. Qed.

Lemma is_lalnum_lower c : is_lalnum c = true -> lower_char c = c.
Proof. unfold is_lalnum, lower_char. intros H. repeat (match goal with |- context [if ?b then _ else _] => destruct b eqn:? end); lia. Qed.

Lemma is_alnum_ialnum c : is_alnum c = true -> is_ialnum c = true.
Proof. unfold is_alnum, is_ialnum, is_lalnum, lower_char. intros H. repeat (match goal with |- context [if ?b then _ else _] => destruct b eqn:? end); lia. Qed.

Lemma is_lalnum_alnum c : is_lalnum c = true -> is_alnum c = true.
Proof. unfold is_alnum, is_lalnum. lia. Qed.

Lemma is_ialnum_not_dot c : is_ialnum c = true -> c <> DOT /\ c <> SLASH.
Proof. unfold is_ialnum, is_lalnum, lower_char, DOT, SLASH. intros H. repeat (match goal with H : context [if ?b then _ else _] |- _ => destruct b eqn:? end); lia. Qed.

Lemma is_ialnum_lower c c' : lower_char c' = lower_char c -> is_ialnum c = true -> is_ialnum c' = true.
Proof. unfold is_ialnum. now intros ->. Qed.

Lemma dotted_by_weaken (p q : Z -> bool) s : (forall c, p c = true -> q c = true) ->
  dotted_by p s = true -> dotted_by q s = true.
Proof.
  intros Hpq. destruct s as [|c t]; simpl; [auto|]. intros H.
  apply andb_true_iff in H as [H1 H3]. rewrite H1. simpl.
  rewrite forallb_forall in *. intros x Hx. apply Hpq. now apply H3.
Qed.

Lemma dotted_dottedi s : dotted s = true -> dottedi s = true.
Proof. apply dotted_by_weaken, is_alnum_ialnum. Qed.
Lemma dottedl_dotted s : dottedl s = true -> dotted s = true.
Proof. apply dotted_by_weaken, is_lalnum_alnum. Qed.

Lemma dottedl_lower s : dottedl s = true -> lower s = s.
Proof.
  destruct s as [|c t]; simpl; [discriminate|]. intros H.
  apply andb_true_iff in H as [H1 H3]. apply andb_true_iff in H1 as [H1 _].
  apply Z.eqb_eq in H1. subst c. f_equal.
  rewrite forallb_forall in H3. rewrite <- (map_id t) at 2. apply map_ext_in.
  intros a Ha. now apply is_lalnum_lower, H3.
Qed.

(* shape of a dotted string *)
Lemma dottedi_inv s : dottedi s = true ->
  exists t, s = DOT :: t /\ t <> [] /\ Forall (fun c => is_ialnum c = true) t.
Proof.
  destruct s as [|c t]; simpl; [discriminate|]. intros H.
  apply andb_true_iff in H as [H1 H3]. apply andb_true_iff in H1 as [H1 H2].
  apply Z.eqb_eq in H1. subst c. exists t. split; [reflexivity|]. split.
  - destruct t; [discriminate|congruence].
  - apply Forall_forall. now apply forallb_forall.
Qed.

Lemma dottedi_intro t : t <> [] -> Forall (fun c => is_ialnum c = true) t -> dottedi (DOT :: t) = true.
Proof.
  intros Hn Hf. unfold dottedi, dotted_by. rewrite Z.eqb_refl. destruct t as [|a t]; [congruence|].
  cbn [negb andb]. apply forallb_forall. now apply Forall_forall.
Qed.

(* a case variant of a dotted string is dotted *)
Lemma dottedi_variant x x' : lower x' = lower x -> dottedi x = true -> dottedi x' = true.
Proof.
  intros Hl Hx. apply dottedi_inv in Hx as (t & -> & Hn & Hf).
  destruct x' as [|c t']; [discriminate|]. unfold lower in Hl. cbn [map] in Hl. injection Hl as Hc Ht.
  change (lower_char DOT) with DOT in Hc. destruct (lower_char_dot c) as [Hd _]. apply Hd in Hc. clear Hd. subst c. apply dottedi_intro.
  - destruct t'; [destruct t; [congruence|discriminate]|congruence].
  - clear Hn. revert t Ht Hf. induction t' as [|a t' IH]; intros [|b t] Ht Hf; try discriminate; constructor.
    + inversion Ht. inversion Hf; subst. eapply is_ialnum_lower; eauto.
    + inversion Ht. inversion Hf; subst. eapply IH; eauto.
Qed.

Lemma prefixb_app p w : prefixb p (p ++ w) = true.
Proof. induction p; simpl; [reflexivity|]. now rewrite Z.eqb_refl. Qed.

Lemma endswith_app r e : endswith (r ++ e) e = true.
Proof. unfold endswith. rewrite rev_app_distr. apply prefixb_app. Qed.

Lemma prefixb_spec p w : prefixb p w = true <-> exists r, w = p ++ r.
Proof.
  revert w; induction p as [|x p IH]; intros w; simpl.
  - split; [intros _; now exists w|reflexivity].
  - destruct w as [|y w]; [split; [discriminate|intros [r H]; discriminate]|].
    rewrite andb_true_iff, Z.eqb_eq, IH. split.
    + intros [-> [r ->]]. now exists r.
    + intros [r H]. inversion H; subst. split; [reflexivity|now exists r].
Qed.

Lemma endswith_spec w e : endswith w e = true <-> exists r, w = r ++ e.
Proof.
  unfold endswith. rewrite prefixb_spec. split; intros [r H].
  - exists (rev r). rewrite <- (rev_involutive w), H, rev_app_distr, rev_involutive. reflexivity.
  - exists (rev r). now rewrite H, rev_app_distr.
Qed.

Lemma lastn_app r e : lastn (length e) (r ++ e) = e.
Proof.
  unfold lastn. rewrite app_length. replace (length r + length e - length e)%nat with (length r) by lia.
  rewrite skipn_app, Nat.sub_diag, skipn_all. reflexivity.
Qed.

Lemma butlastn_app r e : butlastn (length e) (r ++ e) = r.
Proof.
  unfold butlastn. rewrite app_length. replace (length r + length e - length e)%nat with (length r) by lia.
  rewrite firstn_app, Nat.sub_diag, firstn_all. simpl. apply app_nil_r.
Qed.

Lemma butlastn_lastn n s : butlastn n s ++ lastn n s = s.
Proof. unfold butlastn, lastn. apply firstn_skipn. Qed.

Lemma py_head_tail_neg n s : py_head_neg n s ++ py_tail_neg n s = s.
Proof. destruct n; simpl; [reflexivity|apply butlastn_lastn]. Qed.

Lemma py_neg_app r e : e <> [] ->
  py_head_neg (length e) (r ++ e) = r /\ py_tail_neg (length e) (r ++ e) = e.
Proof.
  intros He. destruct e as [|c e]; [congruence|].
  unfold py_head_neg, py_tail_neg. cbn [length]. split.
  - apply (butlastn_app r (c :: e)).
  - apply (lastn_app r (c :: e)).
Qed.

(* the heart of the name handling: against a name ending in a dotted string x, a dotted
   string y matches case-insensitively iff it is x up to case — whatever precedes x *)
Lemma prefixb_dot_tails a b R :
  ~ In DOT a -> ~ In DOT b ->
  prefixb (a ++ [DOT]) (b ++ DOT :: R) = str_eqb a b.
Proof.
  revert b; induction a as [|x a IH]; intros [|y b] Ha Hb; cbn [prefixb str_eqb app].
  - now rewrite Z.eqb_refl.
  - destruct (DOT =? y) eqn:E; [|reflexivity]. apply Z.eqb_eq in E. exfalso. apply Hb. now left.
  - destruct (x =? DOT) eqn:E; [|reflexivity]. apply Z.eqb_eq in E. exfalso. apply Ha. now left.
  - rewrite IH; [reflexivity| |]; intros H; [apply Ha|apply Hb]; now right.
Qed.

Lemma lower_dotted_shape x : dottedi x = true ->
  exists t, lower x = DOT :: t /\ ~ In DOT t.
Proof.
  intros H. apply dottedi_inv in H as (t & -> & _ & Hf).
  exists (lower t). split; [reflexivity|].
  intros Hin. apply in_map_iff in Hin as (c & Hc & Hin).
  rewrite Forall_forall in Hf. apply Hf in Hin. destruct (lower_char_dot c) as [Hd _]. apply Hd in Hc.
  apply is_ialnum_not_dot in Hin. tauto.
Qed.

Lemma iendswith_dotted r x y : dottedi x = true -> dottedi y = true ->
  iendswith (r ++ x) y = str_eqb (lower x) (lower y).
Proof.
  intros Hx Hy. unfold iendswith, endswith.
  destruct (lower_dotted_shape x Hx) as (tx & Ex & Nx).
  destruct (lower_dotted_shape y Hy) as (ty & Ey & Ny).
  rewrite lower_app, Ex, Ey, rev_app_distr. cbn [rev]. rewrite <- app_assoc. cbn [app].
  rewrite prefixb_dot_tails by (rewrite <- in_rev; assumption).
  cbn [str_eqb]. rewrite Z.eqb_refl. cbn [andb].
  rewrite str_eqb_sym.
  destruct (str_eqb tx ty) eqn:E.
  - apply str_eqb_eq in E. subst. apply str_eqb_refl.
  - apply str_eqb_neq. apply str_eqb_neq in E. intros H. apply E.
    rewrite <- (rev_involutive tx), <- (rev_involutive ty). now f_equal.
Qed.

Lemma lower_eq_length a b : lower a = lower b -> length a = length b.
Proof. intros H. rewrite <- (lower_length a), <- (lower_length b). now f_equal. Qed.

(* removesuffix('.') leaves a name alone unless it ends in a dot *)
Lemma removesuffix_dot_id s c : c <> DOT -> removesuffix_dot (s ++ [c]) = s ++ [c].
Proof.
  intros Hc. unfold removesuffix_dot, endswith. rewrite rev_app_distr. cbn [rev app prefixb].
  destruct (DOT =? c) eqn:E; [apply Z.eqb_eq in E; congruence|reflexivity].
Qed.

Lemma dottedi_last x : dottedi x = true -> exists s c, x = s ++ [c] /\ c <> DOT.
Proof.
  intros H. apply dottedi_inv in H as (t & -> & Hn & Hf).
  destruct (exists_last Hn) as (t0 & c & ->).
  exists (DOT :: t0), c. split; [reflexivity|].
  rewrite Forall_forall in Hf. specialize (Hf c). apply is_ialnum_not_dot; apply Hf.
  apply in_or_app. right. now left.
Qed.

Lemma removesuffix_dot_dotted r x : dottedi x = true -> removesuffix_dot (r ++ x) = r ++ x.
Proof.
  intros H. destruct (dottedi_last x H) as (s & c & -> & Hc).
  rewrite app_assoc. now apply removesuffix_dot_id.
Qed.

(* rfind on a name ending in c :: t with c absent from t *)
Lemma rfind_from_app c a b i acc :
  rfind_from c (a ++ b) i acc = rfind_from c b (i + zlen a) (rfind_from c a i acc).
Proof.
  revert i acc; induction a as [|x a IH]; intros i acc; simpl.
  - unfold zlen. simpl. now rewrite Z.add_0_r.
  - rewrite IH. f_equal. unfold zlen. cbn [length]. lia.
Qed.

Lemma rfind_from_absent c l i acc : ~ In c l -> rfind_from c l i acc = acc.
Proof.
  revert i acc; induction l as [|x l IH]; intros i acc H; simpl; [reflexivity|].
  destruct (Z.eqb_spec x c).
  - exfalso. apply H. now left.
  - apply IH. intros Hin. apply H. now right.
Qed.

Lemma rfind_from_bound c l i acc : acc < i -> rfind_from c l i acc < i + zlen l.
Proof.
  revert i acc; induction l as [|x l IH]; intros i acc H; simpl.
  - unfold zlen; simpl; lia.
  - replace (i + zlen (x :: l)) with ((i + 1) + zlen l) by (unfold zlen; cbn [length]; lia).
    apply IH. destruct (x =? c); lia.
Qed.

Lemma rfind_from_ge c l i acc : -1 <= acc -> 0 <= i -> -1 <= rfind_from c l i acc.
Proof.
  revert i acc; induction l as [|x l IH]; intros i acc Ha Hi; simpl; [lia|].
  apply IH; [destruct (x =? c); lia|lia].
Qed.

Lemma rfind_last c r t : ~ In c t -> rfind c (r ++ c :: t) = zlen r.
Proof.
  intros H. unfold rfind. rewrite rfind_from_app. simpl. rewrite Z.eqb_refl.
  now apply rfind_from_absent.
Qed.

Lemma rfind_lt_app c r t : ~ In c t -> rfind c (r ++ t) < zlen r.
Proof.
  intros H. unfold rfind. rewrite rfind_from_app. rewrite rfind_from_absent by assumption.
  pose proof (rfind_from_bound c r 0 (-1)). lia.
Qed.

Lemma take_app_len {A} n (a r : list A) : zlen a = n -> take n (a ++ r) = a.
Proof. intros <-. apply take_app_exact. Qed.
Lemma drop_app_len {A} n (a r : list A) : zlen a = n -> drop n (a ++ r) = r.
Proof. intros <-. apply drop_app_exact. Qed.

Lemma os_splitext_app p : fst (os_splitext p) ++ snd (os_splitext p) = p.
Proof.
  unfold os_splitext.
  destruct (_ <? _); [|simpl; apply app_nil_r].
  destruct (existsb _ _); simpl; [|apply app_nil_r].
  unfold take, drop. apply firstn_skipn.
Qed.

(* posixpath.splitext of root ++ ".ext": either the extension or nothing (dot-file rule) *)
Lemma os_splitext_dotted r x : dottedi x = true ->
  os_splitext (r ++ x) = (r, x) \/ os_splitext (r ++ x) = (r ++ x, []).
Proof.
  intros H. apply dottedi_inv in H as (t & -> & Hn & Hf).
  assert (Nd : ~ In DOT t).
  { intros Hin. rewrite Forall_forall in Hf. apply Hf in Hin. apply is_ialnum_not_dot in Hin. tauto. }
  unfold os_splitext. rewrite (rfind_last DOT r t Nd).
  destruct (_ <? _); [|now right].
  destruct (existsb _ _); [|now right]. left.
  f_equal; [apply take_app_exact|apply drop_app_exact].
Qed.

(* when something that is not a dot stands between the last '/' and the extension, the
   extension is found (in particular when a second dotted string follows a first) *)
Lemma os_splitext_two r x y : dottedi x = true -> dottedi y = true ->
  os_splitext ((r ++ x) ++ y) = (r ++ x, y).
Proof.
  intros Hx Hy.
  apply dottedi_inv in Hy as (ty & -> & Hny & Hfy).
  apply dottedi_inv in Hx as (tx & -> & Hnx & Hfx).
  assert (Ndy : ~ In DOT ty /\ ~ In SLASH ty).
  { split; intros Hin; rewrite Forall_forall in Hfy; apply Hfy in Hin; apply is_ialnum_not_dot in Hin; tauto. }
  assert (Nsx : ~ In SLASH (DOT :: tx)).
  { intros [Hin|Hin]; [unfold DOT, SLASH in Hin; lia|].
    rewrite Forall_forall in Hfx; apply Hfx in Hin; apply is_ialnum_not_dot in Hin; tauto. }
  destruct Ndy as [Ndy Nsy].
  unfold os_splitext. rewrite (rfind_last DOT (r ++ DOT :: tx) ty Ndy).
  set (p := (r ++ DOT :: tx) ++ DOT :: ty).
  assert (Hs : rfind SLASH p < zlen r).
  { unfold p. rewrite <- app_assoc. apply rfind_lt_app.
    intros Hin. apply in_app_or in Hin as [Hin|Hin]; [now apply Nsx|].
    destruct Hin as [Hin|Hin]; [unfold DOT, SLASH in Hin; lia|now apply Nsy]. }
  assert (Hs0 : -1 <= rfind SLASH p) by (unfold rfind; apply rfind_from_ge; lia).
  assert (Hlen : zlen (r ++ DOT :: tx) = zlen r + 1 + zlen tx).
  { unfold zlen. rewrite app_length. cbn [length]. lia. }
  assert (Htx : 0 <= zlen tx) by (unfold zlen; lia).
  destruct (Z.ltb_spec (rfind SLASH p) (zlen (r ++ DOT :: tx))) as [_|Hge]; [|lia].
  assert (Ex : existsb not_dot (take (zlen (r ++ DOT :: tx) - (rfind SLASH p + 1)) (drop (rfind SLASH p + 1) p)) = true).
  { (* the last character of tx lies in the window and is not a dot *)
    destruct (exists_last Hnx) as (t0 & c & Et).
    assert (Hc : c <> DOT).
    { rewrite Forall_forall in Hfx. specialize (Hfx c). apply is_ialnum_not_dot, Hfx. rewrite Et. apply in_or_app; right; now left. }
    subst tx.
    apply existsb_exists. exists c. split; [|unfold not_dot; destruct (Z.eqb_spec c DOT); [congruence|reflexivity]].
    set (k := rfind SLASH p + 1) in *.
    assert (Hk : 0 <= k <= zlen r) by lia.
    unfold p.
    replace ((r ++ DOT :: t0 ++ [c]) ++ DOT :: ty) with (take k r ++ (drop k r ++ DOT :: t0) ++ [c] ++ DOT :: ty).
    2:{ rewrite <- !app_assoc. cbn [app]. rewrite app_assoc. unfold take, drop. rewrite firstn_skipn.
        rewrite <- !app_assoc. reflexivity. }
    assert (Hlk : zlen (take k r) = k).
    { unfold zlen, take. rewrite firstn_length. unfold zlen in Hk. lia. }
    rewrite (drop_app_len k (take k r) _ Hlk).
    rewrite app_assoc.
    assert (Hw : zlen (r ++ DOT :: t0 ++ [c]) - k = zlen ((drop k r ++ DOT :: t0) ++ [c])).
    { rewrite Hlen. unfold zlen, drop. repeat (rewrite ?app_length, ?skipn_length; cbn [length]).
      unfold zlen in Hk. lia. }
    rewrite (take_app_len _ _ _ (eq_sym Hw)). apply in_or_app. right. now left. }
  rewrite Ex. unfold p. f_equal; [apply take_app_exact|apply drop_app_exact].
Qed.
