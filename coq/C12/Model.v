(* C12/Model.v — file names and serialisation routes.  Counterparts in /repo/nibabel:
     filename_parser.parse_filename / types_filenames / splitext_addext
                                                   -> parse_filename / types_filenames / splitext_addext
     FileBasedImage.filespec_to_file_map, MGHImage.filespec_to_file_map (.mgz special case)
                                                   -> filespec_to_file_map
     FileBasedImage._sniff_meta_for (which file is sniffed), path_maybe_image
                                                   -> sniff_name, path_maybe_image
     loadsave.load (the loop over all_image_classes) -> load_class
     Opener._get_opener_argnames                   -> opener_index
     SerializableImage.to_bytes / to_stream, FileBasedImage.to_filename (single-file classes)
                                                   -> Section Routes
   Strings are lists of code points (C12/Str.v).  `_stringify_path`
   (pathlib.Path(x).expanduser().as_posix()) is applied by the caller: every function here
   takes the already stringified name.  Definitions only. *)
From Coq Require Import ZArith List Bool.
From NV Require Import Base.Bytes C12.Str.
Import ListNotations.
Open Scope Z_scope.

(* one image class: kname, files_types (ext None/'' = []), valid_exts, _compressed_suffixes,
   hasattr(header_class, 'may_contain_header'), _meta_sniff_len, and which
   filespec_to_file_map it has: 0 = FileBasedImage's, 1 = MGHImage's (.mgz special case),
   2 = AFNIImage's (post-pass that looks at the file system; not modelled); and which
   header_class.may_contain_header it has (skind): 0 none, 1 Nifti1Header's, 2 Nifti2Header's,
   3 _Cifti2AsNiftiHeader's, 4 AnalyzeHeader's, 5 Spm2AnalyzeHeader's, 6 Minc1Header's, 7 Minc2Header's *)
Record klass := mkK {
  kname : str; ftypes : list (str * str); vexts : list str; csuf : list str;
  sniffs : bool; sniff_len : Z; fkind : Z; skind : Z }.

Inductive terr := ErrWrongExt | ErrConfusing | ErrNoTypes.
Inductive res (A : Type) := Ok (a : A) | Err (e : terr).
Arguments Ok {A}. Arguments Err {A}.

Definition IMAGE : str := [105;109;97;103;101].          (* "image" *)
Definition HEADER : str := [104;101;97;100;101;114].     (* "header" *)
Definition MGZ : str := [46;109;103;122].                (* ".mgz" *)

Definition nonempty (s : str) : bool := match s with [] => false | _ => true end.
Definition is_none {A} (o : option A) : bool := match o with None => true | Some _ => false end.
(* truthiness of `ignored` (None or str) *)
Definition truthy_opt (o : option str) : bool := match o with Some (_ :: _) => true | _ => false end.
Definition opt_str (o : option str) : str := match o with Some s => s | None => [] end.

(* match_case selects _endswith or _iendswith *)
Definition ends (mc : bool) (w e : str) : bool := if mc then endswith w e else iendswith w e.

(* for ext in trailing_suffixes: if endswith(filename, ext): extpos = -len(ext);
   ignored = filename[extpos:]; filename = filename[:extpos]; break *)
Fixpoint strip_suffix (mc : bool) (sufs : list str) (fn : str) : str * option str :=
  match sufs with
  | [] => (fn, None)
  | s :: r =>
    if ends mc fn s then (py_head_neg (length s) fn, Some (py_tail_neg (length s) fn))
    else strip_suffix mc r fn
  end.

(* for name, type_ext in types_exts: if type_ext and endswith(filename, type_ext): ... break
   -> Some (guessed_name, found_ext, filename) ; None = the for-else branch *)
Fixpoint match_type (mc : bool) (tys : list (str * str)) (fn : str) : option (str * str * str) :=
  match tys with
  | [] => None
  | (name, te) :: r =>
    if nonempty te && ends mc fn te
    then Some (name, py_tail_neg (length te) fn, py_head_neg (length te) fn)
    else match_type mc r fn
  end.

(* returns (filename, found_ext, ignored, guessed_name) *)
Definition parse_filename (mc : bool) (tys : list (str * str)) (sufs : list str) (fn : str)
  : str * str * option str * option str :=
  let '(fn1, ignored) := strip_suffix mc sufs fn in
  match match_type mc tys fn1 with
  | Some (name, found, rest) => (rest, found, ignored, Some name)
  | None => let '(r, e) := os_splitext fn1 in (r, e, ignored, None)
  end.

(* Python dict with insertion order *)
Definition dict := list (str * str).
Fixpoint dict_set (d : dict) (k v : str) : dict :=
  match d with
  | [] => [(k, v)]
  | (k', v') :: r => if str_eqb k' k then (k', v) :: r else (k', v') :: dict_set r k v
  end.
Fixpoint dict_get (d : dict) (k : str) : option str :=
  match d with
  | [] => None
  | (k', v') :: r => if str_eqb k' k then Some v' else dict_get r k
  end.

(* proc_ext: str.upper when found_ext is all upper, str.lower when all lower, else identity *)
Definition proc_ext (found e : str) : str :=
  if nonempty found then
    if str_eqb found (upper found) then upper e
    else if str_eqb found (lower found) then lower e
    else e
  else e.

Definition opt_eqb (name : str) (o : option str) : bool :=
  match o with Some g => str_eqb name g | None => false end.

(* body of `for name, ext in types_exts:` — the value stored under tfns[name] *)
Definition tf_value (template filename found : str) (ignored guessed direct : option str)
  (ne : str * str) : str :=
  let '(name, ext) := ne in
  if opt_eqb name direct then template                            (* ...; continue *)
  else
    let fname := filename in
    let fname := if opt_eqb name guessed then fname ++ found      (* user's spelling kept *)
                 else if nonempty ext then fname ++ proc_ext found ext
                 else fname in
    if truthy_opt ignored then fname ++ opt_str ignored else fname.
Definition tf_step (template filename found : str) (ignored guessed direct : option str)
  (d : dict) (ne : str * str) : dict :=
  dict_set d (fst ne) (tf_value template filename found ignored guessed direct ne).

(* parse_filename starts with _stringify_path(filename) again; on the stringified template that
   just lost its final dot pathlib changes exactly: '' -> '.', 'x/.' -> 'x', '/.' -> '/' *)
Definition restringify (s : str) : str :=
  match s with
  | [] => [DOT]
  | _ => if endswith s [SLASH; DOT]
         then match butlastn 2 s with [] => [SLASH] | t => t end
         else s
  end.

Definition types_filenames (enforce mc : bool) (tys : list (str * str)) (sufs : list str)
  (template : str) : res dict :=
  let template := removesuffix_dot template in
  let '(filename, found, ignored, guessed) := parse_filename mc tys sufs (restringify template) in
  if enforce && is_none guessed && nonempty found then Err ErrWrongExt
  else if enforce && is_none guessed && truthy_opt ignored then Err ErrConfusing
  else
    let direct :=                   (* Some None: no direct name; None: types_exts[0] IndexError *)
      if negb enforce && (nonempty found || truthy_opt ignored)
      then match tys with [] => None | (n, _) :: _ => Some (Some n) end
      else Some None in
    match direct with
    | None => Err ErrNoTypes
    | Some direct =>
      Ok (fold_left (tf_step template filename found ignored guessed direct) tys [])
    end.

(* splitext_addext *)
Definition splitext_addext (mc : bool) (addexts : list str) (fn : str) : str * str * str :=
  let '(fn1, add) := strip_suffix mc addexts fn in
  let extpos := rfind DOT fn1 in
  if (extpos <? 0) || all_dots fn1 then (fn1, [], opt_str add)
  else (take extpos fn1, drop extpos fn1, opt_str add).

(* klass.filespec_to_file_map (file names only; FileHolder wrapping is not modelled);
   MGHImage: splitext_addext(filespec, ())[1].lower() == '.mgz' *)
Definition filespec_to_file_map (k : klass) (fs : str) : res dict :=
  if (fkind k =? 1) && str_eqb (lower (snd (fst (splitext_addext false [] fs)))) MGZ
  then Ok [(IMAGE, fs)]
  else types_filenames true false (ftypes k) (csuf k) fs.

(* _sniff_meta_for: t_fnames.get('header', filename) — a TypesFilenamesError propagates *)
Definition sniff_name (k : klass) (fn : str) : res str :=
  match types_filenames true false (ftypes k) (csuf k) fn with
  | Err e => Err e
  | Ok d => Ok (match dict_get d HEADER with Some h => h | None => fn end)
  end.

Definition ext_valid (k : klass) (fn : str) : bool :=
  let '(_, ext, _) := splitext_addext false (csuf k) fn in
  existsb (str_eqb (lower ext)) (vexts k).

(* path_maybe_image; sniff_ok = "the sniffed bytes are long enough and
   header_class.may_contain_header accepts them" (external: reads the file) *)
Definition path_maybe_image (k : klass) (fn : str) (sniff_ok : bool) : res bool :=
  if negb (ext_valid k fn) then Ok false
  else if negb (sniffs k) then Ok true
  else match sniff_name k fn with
       | Err e => Err e
       | Ok _ => Ok sniff_ok
       end.

(* loadsave.load: first class of all_image_classes whose path_maybe_image is True *)
Fixpoint load_class (ks : list klass) (oracle : list bool) (fn : str) (i : nat) : res (option nat) :=
  match ks with
  | [] => Ok None
  | k :: r =>
    match path_maybe_image k fn (hd false oracle) with
    | Err e => Err e
    | Ok true => Ok (Some i)
    | Ok false => load_class r (tl oracle) fn (S i)
    end
  end.

Fixpoint find_index {A} (f : A -> bool) (l : list A) (i : nat) : option nat :=
  match l with
  | [] => None
  | x :: r => if f x then Some i else find_index f r (S i)
  end.

Definition N1I : str := [78;105;102;116;105;49;73;109;97;103;101].   (* "Nifti1Image" *)
Definition N1P : str := [78;105;102;116;105;49;80;97;105;114].       (* "Nifti1Pair" *)
Definition N2I : str := [78;105;102;116;105;50;73;109;97;103;101].   (* "Nifti2Image" *)
Definition N2P : str := [78;105;102;116;105;50;80;97;105;114].       (* "Nifti2Pair" *)

(* ---- header sniffing: header_class.may_contain_header as decision functions on the sniffed
   bytes.  Everything they look at is collected in `features`; platform is little-endian
   (hdr_struct = native, bs_hdr_struct = byte-swapped). *)
Record feat := mkF {
  f4 : bool;        (* len(binaryblock) >= 4 *)
  f348 : bool;      (* len(binaryblock) >= 348 *)
  f540 : bool;      (* len(binaryblock) >= 540 *)
  fmagic1 : bool;   (* bytes 344:348 are 'ni1\0' or 'n+1\0' (S4 field == b'ni1' / b'n+1') *)
  fsz348 : bool;    (* sizeof_hdr is 348 in one of the two byte orders *)
  fsz540 : bool;    (* sizeof_hdr is 540 in one of the two byte orders *)
  fcifti : bool;    (* NIfTI-2 intent_code, in the guessed byte order, passes _valid_intent_code *)
  fcdf : bool;      (* first four bytes 'CDF\x01' *)
  fhdf : bool }.    (* first four bytes '\x89HDF' *)

Definition NI1 : list Z := [110;105;49;0].
Definition NP1 : list Z := [110;43;49;0].
Definition CDF1 : list Z := [67;68;70;1].
Definition HDF : list Z := [137;72;68;70].

Definition in_intervals (c : Z) (iv : list (Z * Z)) : bool :=
  existsb (fun ab => (fst ab <=? c) && (c <=? snd ab)) iv.

(* AnalyzeHeader.guessed_endian on a NIfTI-2 block (dim[0] is the int64 at offset 16): true = big endian *)
Definition nifti2_big_endian (hb : list Z) : bool :=
  let dim0 := dec_s false (take 8 (drop 16 hb)) in
  if dim0 =? 0 then dec_s true (take 4 hb) =? 540
  else if (1 <=? dim0) && (dim0 <=? 7) then false else true.

(* intents = the intervals of codes _valid_intent_code accepts (regenerated table) *)
Definition features (intents : list (Z * Z)) (hb : list Z) : feat :=
  let n := zlen hb in
  let sz_le := dec_s false (take 4 hb) in
  let sz_be := dec_s true (take 4 hb) in
  let m := take 4 (drop 344 hb) in
  mkF (4 <=? n) (348 <=? n) (540 <=? n)
      (str_eqb m NI1 || str_eqb m NP1)
      ((sz_le =? 348) || (sz_be =? 348)) ((sz_le =? 540) || (sz_be =? 540))
      (in_intervals (dec_s (nifti2_big_endian hb) (take 4 (drop 504 hb))) intents)
      (str_eqb (take 4 hb) CDF1) (str_eqb (take 4 hb) HDF).

(* may_contain_header of each kind *)
Definition mc (sk : Z) (f : feat) : bool :=
  if sk =? 1 then f348 f && fmagic1 f
  else if sk =? 2 then f540 f && fsz540 f
  else if sk =? 3 then f540 f && fsz540 f && fcifti f
  else if sk =? 4 then f348 f && fsz348 f
  else if sk =? 5 then f348 f && negb (fmagic1 f) && fsz348 f
  else if sk =? 6 then fcdf f
  else if sk =? 7 then fhdf f
  else false.

(* the sniff oracle of path_maybe_image, given the bytes read from the header file (at most
   max(_meta_sniff_len, 1024) of them): long enough and accepted *)
Definition sniff_ok (intents : list (Z * Z)) (k : klass) (hb : list Z) : bool :=
  (sniff_len k <=? zlen hb) && mc (skind k) (features intents hb).

(* the same decision with the extension test of path_maybe_image reduced to what it depends on for
   a name root ++ ext' ++ suffix': the lowered extension and the lowered suffix ([] = none) *)
Definition lmem (x : str) (l : list str) : bool := existsb (str_eqb x) l.
Definition ext_valid_abs (k : klass) (le ls : str) : bool :=
  match ls with
  | [] => lmem le (vexts k)
  | _ => if existsb (fun t => str_eqb (lower t) ls) (csuf k) then lmem le (vexts k) else lmem ls (vexts k)
  end.
Definition len_ok (sl : Z) (f : feat) : bool :=
  if sl =? 0 then true else if sl =? 4 then f4 f else if sl =? 348 then f348 f
  else if sl =? 540 then f540 f else false.
Definition accepts_abs (k : klass) (le ls : str) (f : feat) : bool :=
  ext_valid_abs k le ls && (negb (sniffs k) || (len_ok (sniff_len k) f && mc (skind k) f)).
Definition predict (ks : list klass) (le ls : str) (f : feat) : option nat :=
  find_index (fun k => accepts_abs k le ls f) ks 0.

(* what the header of a file WRITTEN by a class looks like to the sniffers (by class name):
   NIfTI-1: 348 bytes and a NIfTI-1 magic; NIfTI-2: sizeof_hdr 540, no NIfTI-1 magic at 344 (those
   bytes belong to another field), intent outside the CIFTI set; CIFTI-2: the same with an accepted
   intent; Analyze family: sizeof_hdr 348, no NIfTI-1 magic (bytes 344:348 are the field smin),
   not a 540-byte header; MINC: their four-byte signatures; others: nothing to look at *)
Definition writer_sig (k : klass) (f : feat) : bool :=
  let n := kname k in
  if str_eqb n N1P || str_eqb n N1I then f4 f && f348 f && fmagic1 f
  else if str_eqb n N2P || str_eqb n N2I then f4 f && f348 f && f540 f && fsz540 f && negb (fmagic1 f) && negb (fcifti f)
  else if str_eqb n [67;105;102;116;105;50;73;109;97;103;101] then   (* Cifti2Image *)
    f4 f && f348 f && f540 f && fsz540 f && negb (fmagic1 f) && fcifti f
  else if (skind k =? 4) || (skind k =? 5) then
    f4 f && f348 f && fsz348 f && negb (fmagic1 f) && negb (f540 f && fsz540 f)
  else if skind k =? 6 then f4 f && fcdf f
  else if skind k =? 7 then f4 f && fhdf f && negb (fcdf f)
  else negb (sniffs k).

(* load() when every class that accepts the extension sniffs the same header bytes *)
Definition load_by_header (ks : list klass) (intents : list (Z * Z)) (fn : str) (hb : list Z)
  : res (option nat) :=
  load_class ks (map (fun k => sniff_ok intents k hb) ks) fn 0.

(* loadsave.save: img.to_filename(filename); on ImageFileError the implicit conversions.
   `suffixes` = loadsave._compressed_suffixes; conv = for every class of all_image_classes whether
   klass.from_image(img) succeeds (external).  Returns the class that writes the file (None =
   ImageFileError 'Cannot work out file type'; a failing from_image of every candidate re-raises). *)
Definition X_IMG : str := [46;105;109;103].
Definition X_HDR : str := [46;104;100;114].
Definition X_NII : str := [46;110;105;105].

Definition find_class (ks : list klass) (nm : str) : option klass :=
  find (fun k => str_eqb (kname k) nm) ks.

(* the ladder, a decision table over (type(img), lext) *)
Definition save_ladder (ks : list klass) (k : klass) (lext : str) (conv : list bool) : option klass :=
  let is nm := str_eqb (kname k) nm in
  let pair_ext := str_eqb lext X_IMG || str_eqb lext X_HDR in
  if is N1I && pair_ext then find_class ks N1P
  else if is N2I && pair_ext then find_class ks N2P
  else if is N1P && str_eqb lext X_NII then find_class ks N1I
  else if is N2P && str_eqb lext X_NII then find_class ks N2I
  else match find (fun kc => existsb (str_eqb lext) (vexts (fst kc)) && snd kc) (combine ks conv) with
       | Some (k', _) => Some k'
       | None => None
       end.

Definition is_ok {A} (r : res A) : bool := match r with Ok _ => true | Err _ => false end.

Definition save_class (ks : list klass) (suffixes : list str) (k : klass) (fn : str) (conv : list bool)
  : option klass :=
  if is_ok (filespec_to_file_map k fn) then Some k
  else
    let '(_, ext, _) := splitext_addext false suffixes fn in
    save_ladder ks k (lower ext) conv.

(* Opener._get_opener_argnames with compress_ext_icase: index of the key of
   compress_ext_map (None key skipped) whose lower() equals the lowered extension *)
Definition opener_index (keys : list str) (fn : str) : option nat :=
  let ext := lower (snd (os_splitext fn)) in
  find_index (fun key => str_eqb (lower key) ext) keys 0.

(* the files to_filename writes and the opener used for each: (member, file name, opener) *)
Definition targets (keys : list str) (k : klass) (fn : str) : res (list (str * str * option nat)) :=
  match filespec_to_file_map k fn with
  | Err e => Err e
  | Ok fm => Ok (map (fun kv => (fst kv, snd kv, opener_index keys (snd kv))) fm)
  end.

(* ---- serialisation routes of a single-file class.  External: the class's to_file_map
   onto one file object (C01/C10/C17/C18's subject) and the compressors behind Opener. *)
Section Routes.
  Variable Img : Type.
  Variable serialize : Img -> list Z.
  Variable compress decompress : option nat -> list Z -> list Z.
  Variable keys : list str.

  Definition fsys := list (str * list Z).
  Fixpoint fs_get (fs : fsys) (name : str) : option (list Z) :=
    match fs with
    | [] => None
    | (n, b) :: r => if str_eqb n name then Some b else fs_get r name
    end.

  (* to_stream(io_obj): to_file_map({files_types[0][0]: io_obj}) on an empty stream *)
  Definition to_stream (img : Img) : list Z := serialize img.
  (* to_bytes: bio = BytesIO(); to_stream(bio); bio.getvalue() *)
  Definition to_bytes (img : Img) : list Z := to_stream img.
  (* to_filename: file_map = filespec_to_file_map(name); the one member is opened with
     ImageOpener(fname, 'wb') and written by the same to_file_map *)
  Definition to_filename (k : klass) (img : Img) (name : str) (fs : fsys) : res (option fsys) :=
    match filespec_to_file_map k name with
    | Err e => Err e
    | Ok [(_, fname)] => Ok (Some ((fname, compress (opener_index keys fname) (serialize img)) :: fs))
    | Ok _ => Ok None                          (* multi-file class: not a serialisable image *)
    end.
  (* reading the file back through ImageOpener(fname, 'rb') *)
  Definition read_file (fs : fsys) (fname : str) : option (list Z) :=
    match fs_get fs fname with
    | Some b => Some (decompress (opener_index keys fname) b)
    | None => None
    end.
  (* the image as a stateful object: its content and its current file_map (member -> file name; holders
     carrying an open fileobj or a pos are outside the model).  FileBasedImage.to_filename does
     `self.file_map = self.filespec_to_file_map(filename)` BEFORE writing: the previous map plays no part *)
  Record istate := mkI { icontent : Img; imap : dict }.
  Definition to_filename_st (k : klass) (st : istate) (name : str) (fs : fsys) : res (option (istate * fsys)) :=
    match filespec_to_file_map k name with
    | Err e => Err e
    | Ok fm =>
      match to_filename k (icontent st) name fs with
      | Err e => Err e
      | Ok None => Ok None
      | Ok (Some fs') => Ok (Some (mkI (icontent st) fm, fs'))
      end
    end.
End Routes.
