(* C12/Extract.v — extraction of the executable model (ExtrOcamlBasic only) *)
Require Extraction. Require ExtrOcamlBasic.
From NV Require Import Base.Bytes C12.Str C12.Model C12.Tables.
Extraction Language OCaml.
Extraction "c12_model.ml" lower upper endswith iendswith os_splitext removesuffix_dot
  parse_filename types_filenames splitext_addext filespec_to_file_map sniff_name ext_valid
  path_maybe_image load_class opener_index targets save_class features mc sniff_ok load_by_header writer_sig predict cifti_intents all_classes opener_keys image_opener_keys save_suffixes.
