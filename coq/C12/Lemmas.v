From NV Require Import C12.Model.
